(** Correspondence evaluator for C14 (and the structural part of C15): the real
    benchtab.Builder, driven through cmd/benchstat's own pipeline, against
    (a) the model Builder.Add / ToTables (corr_ok) and
    (b) the specification computed directly from the list of projected
        measurements by filtering (prop_ok), with every cell's centre, interval,
        comparison and printed delta against the first column's cell of its row
        and the summary row judged by Corr/StatC14.v (declarative rule
        Model/SummarySpec.v);
    known_ok = prop_ok with exactly the recorded deviation C14_geomean_inf_order
    admitted; a case (8 ...) = the real binary did not terminate. *)
From Perf Require Import Base.Bytes Base.Sx Base.B64 Base.SxF Model.BenchTab.
From Perf Require Corr.PipeC14 Corr.StatC14.

Record ocell_obs := mkOC {
  o_r : N; o_c : N; o_sample : list b64; o_has_base : bool;
  o_centre : b64; o_lo : b64; o_hi : b64;
  o_cmp : option (b64 * N * N * b64);      (* P, N1, N2, Alpha *)
  o_vary : list bytes                      (* names in "benchmarks vary in ..." *)
}.
Record osum_obs := mkOS {
  s_col : N; s_warn_set : bool; s_has_summary : bool; s_summary : b64;
  s_has_ratio : bool; s_ratio : b64; s_warn_sum : bool; s_warn_ratio : bool
}.
Record otab_obs := mkOT {
  t_key : N; t_rows : list N; t_cols : list N; t_cells : list ocell_obs; t_sums : list osum_obs
}.

Record case := mkCase {
  k_meas : list meas;
  k_rank_t : list N; k_rank_r : list N; k_rank_c : list N;    (* keys in SortKeys order *)
  k_resvals : list (N * list bytes); k_fields : list bytes;   (* residue key -> flattened field values *)
  k_obs : list otab_obs;
  k_osum : list (N * list b64 * (b64 * b64 * b64));               (* table, sample -> centre, lo, hi *)
  k_ocmp : list (N * list b64 * list b64 * (b64 * N * N * b64));  (* table, base sample, sample -> comparison *)
  k_bin_csv : bool; k_bin_text : bool;                        (* the benchstat binary printed what the in-process tables render to *)
  (* per table: every cell's statistics, the delta and ratio STRINGS the binary printed (csv parsed back), the summary
     row with all three warnings; oracles keyed by assumption and sample content (Corr/StatC14.v) *)
  k_stat : list StatC14.stab; k_sosum : StatC14.sum_oracle; k_socmp : StatC14.cmp_oracle
}.

Definition as_meas (s : sx) : option meas :=
  match s with
  | SL [t; r; c; res; v] =>
      do t <- as_N t; do r <- as_N r; do c <- as_N c; do res <- as_N res; do v <- as_f64 v;
      Some (mkMeas t r c res v)
  | _ => None
  end.
Definition as_cmp (s : sx) : option (b64 * N * N * b64) :=
  match s with
  | SL [p; n1; n2; a] => do p <- as_f64 p; do n1 <- as_N n1; do n2 <- as_N n2; do a <- as_f64 a; Some (p, n1, n2, a)
  | _ => None
  end.
Definition as_ocell (s : sx) : option ocell_obs :=
  match s with
  | SL [r; c; smp; hb; ce; lo; hi; cmp; vary] =>
      do r <- as_N r; do c <- as_N c; do smp <- as_list as_f64 smp; do hb <- as_bool hb;
      do ce <- as_f64 ce; do lo <- as_f64 lo; do hi <- as_f64 hi;
      do cmp <- as_opt as_cmp cmp; do vary <- as_list as_b vary;
      Some (mkOC r c smp hb ce lo hi cmp vary)
  | _ => None
  end.
Definition as_osum (s : sx) : option osum_obs :=
  match s with
  | SL [c; w; hs; sm; hr; ra; ws; wr] =>
      do c <- as_N c; do w <- as_bool w; do hs <- as_bool hs; do sm <- as_f64 sm;
      do hr <- as_bool hr; do ra <- as_f64 ra; do ws <- as_bool ws; do wr <- as_bool wr;
      Some (mkOS c w hs sm hr ra ws wr)
  | _ => None
  end.
Definition as_otab (s : sx) : option otab_obs :=
  match s with
  | SL [k; rows; cols; cells; sums] =>
      do k <- as_N k; do rows <- as_list as_N rows; do cols <- as_list as_N cols;
      do cells <- as_list as_ocell cells; do sums <- as_list as_osum sums;
      Some (mkOT k rows cols cells sums)
  | _ => None
  end.
Definition as_f3 (s : sx) : option (b64 * b64 * b64) :=
  match s with SL [a; b; c] => do a <- as_f64 a; do b <- as_f64 b; do c <- as_f64 c; Some (a, b, c) | _ => None end.

Definition decode (s : sx) : option case :=
  match s with
  | SL [ms; rt; rr; rc; rv; fl; obs; osum; ocmp; b1; b2; stat; sosum; socmp] =>
      do ms <- as_list as_meas ms;
      do rt <- as_list as_N rt; do rr <- as_list as_N rr; do rc <- as_list as_N rc;
      do rv <- as_list (as_pair as_N (as_list as_b)) rv; do fl <- as_list as_b fl;
      do obs <- as_list as_otab obs;
      do osum <- as_list (as_pair (as_pair as_N (as_list as_f64)) as_f3) osum;
      do ocmp <- as_list (fun s => match s with
                                   | SL [a; b; c] => do a <- as_pair as_N (as_list as_f64) a; do b <- as_list as_f64 b; do c <- as_cmp c; Some (a, b, c)
                                   | _ => None end) ocmp;
      do b1 <- as_bool b1; do b2 <- as_bool b2;
      do stat <- as_list StatC14.as_stab stat;
      do sosum <- StatC14.as_sum_oracle sosum; do socmp <- StatC14.as_cmp_oracle socmp;
      Some (mkCase ms rt rr rc rv fl obs osum ocmp b1 b2 stat sosum socmp)
  | _ => None
  end.

(** rank of a key = its position in the observed SortKeys order (absent: a large rank) *)
Fixpoint index_of (k : N) (l : list N) (i : N) : N :=
  match l with
  | [] => (i + 1000000)%N
  | x :: l' => if (x =? k)%N then i else index_of k l' (i + 1)%N
  end.
Definition rank_of (l : list N) (k : N) : N := index_of k l 0%N.

Definition flist_same (a b : list b64) : bool := list_eqb b64_same a b.
Definition nlist_eqb (a b : list N) : bool := list_eqb N.eqb a b.

Fixpoint lookup_sum (tbl : list (N * list b64 * (b64 * b64 * b64))) (t : N) (s : list b64) : option (b64 * b64 * b64) :=
  match tbl with
  | [] => None
  | (kt, k, v) :: tbl' => if (kt =? t)%N && flist_same k s then Some v else lookup_sum tbl' t s
  end.
Fixpoint lookup_cmp (tbl : list (N * list b64 * list b64 * (b64 * N * N * b64))) (t : N) (a b : list b64) :=
  match tbl with
  | [] => None
  | (kt, ka, kb, v) :: tbl' => if (kt =? t)%N && flist_same ka a && flist_same kb b then Some v else lookup_cmp tbl' t a b
  end.

Fixpoint lookup_resvals (tbl : list (N * list bytes)) (k : N) : list bytes :=
  match tbl with
  | [] => []
  | (k', v) :: tbl' => if (k' =? k)%N then v else lookup_resvals tbl' k
  end.

Section WithCase.
  Variable c : case.
  Definition rk_t := rank_of (k_rank_t c).
  Definition rk_r := rank_of (k_rank_r c).
  Definition rk_c := rank_of (k_rank_c c).
  Definition nan : b64 := S754_nan.
  Definition centre (t : N) (s : list b64) : b64 :=
    match lookup_sum (k_osum c) t s with Some (ce, _, _) => ce | None => nan end.
  (* NaN-ness of go-moremath's GeoMean: empty or some x <= 0 (or NaN) *)
  Definition geomean_stub (l : list b64) : b64 :=
    match l with
    | [] => nan
    | _ => if forallb (fun x => b64_lt b64_zero x) l then b64_one else nan
    end.

  (* the unit's assumption belongs to the table: per-table centre function *)
  Definition expected_model : list otab :=
    let ts := build (k_meas c) in
    somes (map (fun k => option_map (fun tb => table_out rk_r rk_c (centre k) geomean_stub tb) (find_tab k ts))
               (sort_by rk_t (map bt_key ts))).

  (** the specification, straight from the measurement list (Model.BenchTab.spec_tab;
      Properties/C14.v: C14_build_meets_spec shows the model always equals it) *)
  Definition expected_spec : list otab :=
    map (fun t => table_out rk_r rk_c (centre t) geomean_stub (spec_tab (k_meas c) t))
        (sort_by rk_t (dedup (map m_t (k_meas c)))).

  (** comparing an expected table with the observation *)
  Definition bytes_list_eqb := list_eqb beq.
  Fixpoint set_eqb (a b : list N) : bool :=
    forallb (fun x => existsb (N.eqb x) b) a && forallb (fun x => existsb (N.eqb x) a) b.

  Definition vary_names (res : list N) : list bytes :=
    map (fun i => nth i (k_fields c) []) (nonsingular (lookup_resvals (k_resvals c)) (length (k_fields c)) res).

  Definition cell_matches (t : N) (e : ocell) (o : ocell_obs) : bool :=
    (oc_r e =? o_r o)%N && (oc_c e =? o_c o)%N
    && flist_same (oc_sample e) (fsort (o_sample o))
    && Bool.eqb (match oc_base e with Some _ => true | None => false end) (o_has_base o)
    && (match lookup_sum (k_osum c) t (oc_sample e) with
        | Some (ce, lo, hi) => b64_same ce (o_centre o) && b64_same lo (o_lo o) && b64_same hi (o_hi o)
        | None => false
        end)
    && (match oc_base e, o_cmp o with
        | None, None => true
        | Some bs, Some (p, n1, n2, a) =>
            match lookup_cmp (k_ocmp c) t bs (oc_sample e) with
            | Some (p', n1', n2', a') => b64_same p p' && (n1 =? n1')%N && (n2 =? n2')%N && b64_same a a'
            | None => false
            end
        | _, _ => false
        end)
    && bytes_list_eqb (vary_names (oc_res e)) (o_vary o).

  (** geometric mean within 1e-9 relative, by exact rational comparison:
      (g (1-eps))^n <= prod <= (g (1+eps))^n with positive finite floats *)
  Definition ze_mul (a b : Z * Z) : Z * Z := (fst a * fst b, snd a + snd b)%Z.
  Fixpoint ze_pow (a : Z * Z) (n : nat) : Z * Z :=
    match n with O => (1, 0)%Z | S n' => ze_mul a (ze_pow a n') end.
  (* a <= b for m*2^e pairs with positive mantissas *)
  Definition ze_le (a b : Z * Z) : bool :=
    let e := Z.min (snd a) (snd b) in
    (fst a * 2 ^ (snd a - e) <=? fst b * 2 ^ (snd b - e))%Z.
  Definition geomean_close (g : b64) (xs : list b64) : bool :=
    match b64_to_ZE g, xs with
    | Some gz, _ :: _ =>
        if (fst gz <=? 0)%Z then false else
        let prod := fold_left (fun acc x => match b64_to_ZE x with Some z => ze_mul acc z | None => acc end) xs (1, 0)%Z in
        let n := length xs in
        (* eps = 2^-30 *)
        let lo := ze_pow (ze_mul gz (2^30 - 1, -30))%Z n in
        let hi := ze_pow (ze_mul gz (2^30 + 1, -30))%Z n in
        ze_le lo prod && ze_le prod hi
    | _, _ => false
    end.

  (* the lists summarizeCol feeds to GeoMean, recomputed from the observed cells *)
  Definition obs_centre (t : otab_obs) (r cl : N) : option b64 :=
    match filter (fun o => (o_r o =? r)%N && (o_c o =? cl)%N) (t_cells t) with
    | o :: _ => Some (o_centre o)
    | [] => None
    end.

  Definition sum_matches (t : otab_obs) (first : N) (e : colsum) (o : osum_obs) : bool :=
    (cs_col e =? s_col o)%N
    && Bool.eqb (cs_warn_set e) (s_warn_set o)
    && Bool.eqb (cs_has_summary e) (s_has_summary o)
    && Bool.eqb (negb (cs_has_summary e)) (s_warn_sum o)
    && Bool.eqb (cs_has_ratio e) (s_has_ratio o)
    && (let centres := somes (map (fun r => obs_centre t r (s_col o)) (t_rows t)) in
        if s_has_summary o then StatC14.geo_value_ok (s_summary o) centres else true)
    && (if s_has_ratio o then
          let ratios := somes (map (fun r =>
                match obs_centre t r (s_col o), obs_centre t r first with
                | Some a, Some b => Some (if b64_eq a b then b64_one else b64_div a b)
                | _, _ => None end) (t_rows t)) in
          StatC14.geo_value_ok (s_ratio o) ratios
        else true).

  Fixpoint all2 {A B} (f : A -> B -> bool) (a : list A) (b : list B) : bool :=
    match a, b with
    | [], [] => true
    | x :: a', y :: b' => f x y && all2 f a' b'
    | _, _ => false
    end.

  (* [with_sums]: also compare the summary row with the MODEL's summarizeCol (corr_ok only; the
     specification of the summary row is Model/SummarySpec.v, judged by Corr/StatC14.v) *)
  Definition tab_matches (with_sums : bool) (e : otab) (o : otab_obs) : bool :=
    (ot_key e =? t_key o)%N
    && nlist_eqb (ot_rows e) (t_rows o) && nlist_eqb (ot_cols e) (t_cols o)
    && all2 (cell_matches (t_key o)) (ot_cells e)
         (* observed cells arrive in map order: arrange them row-major like the expectation *)
         (flat_map (fun r => flat_map (fun cl => filter (fun o => (o_r o =? r)%N && (o_c o =? cl)%N) (t_cells o)) (t_cols o)) (t_rows o))
    && Nat.eqb (length (ot_cells e)) (length (t_cells o))
    && (negb with_sums ||
        match t_cols o with
        | first :: _ => all2 (sum_matches o first) (ot_sums e) (t_sums o)
        | [] => true
        end).

  Definition corr_ok : bool := all2 (tab_matches true) expected_model (k_obs c).
  (** the specification: cells, samples, vary-warnings straight from the measurement list; every cell's centre,
      interval, comparison and DELTA against the first column's cell of its row, and the summary row by the
      declarative rule (Corr/StatC14.v); the binary printed what the observed tables render to.
      [relax] = the recorded deviation C14_geomean_inf_order admitted, nothing else *)
  Definition judge (relax : bool) : bool :=
    all2 (tab_matches false) expected_spec (k_obs c) && k_bin_csv c && k_bin_text c
    && StatC14.stats_ok relax (k_sosum c) (k_socmp c) expected_spec (k_stat c).
  Definition prop_ok : bool := judge false.
  Definition known_ok : bool := judge true.
End WithCase.

(** cases of the second kind (tag 7: flag strings + file texts against the
    composed model, Corr/PipeC14.v) are evaluated there; everything else as before *)
Definition run_case (s : sx) : N :=
  match s with
  | SL (SZ 7 :: _) => PipeC14.run_case s
  (* tag 8: the real binary did not terminate on this input within the watchdog's time and memory limits *)
  | SL (SZ 8 :: _) => code_of3 false false false
  | _ =>
      match decode s with
      | Some c => code_of3 (corr_ok c) (prop_ok c) (known_ok c)
      | None => code_undecodable
      end
  end.
