(** Correspondence evaluator for C19. Three kinds of cases:
      0  words   : SplitWords, addToQuery, parseQueryString on generated texts
                   (incl. non-ASCII symbols whose UTF-8 bytes are 0x85 / 0xA0)
      1  fmt     : legacy Reader (plain / with AddLabels) on generated files,
                   Printer over the results, Reader over the printed text
      2  history : uploads through the in-process storage server on sqlite,
                   then queries and listings through db.DB and storage.Client;
                   both the direct model (db_query / list_uploads) and the
                   relational evaluation of the generated SQL (Model/Sql.v)
                   are compared with what SQLite returned. The listing counts
                   are JUDGED by the rule (Model/RecordRuns.v spec_records: one
                   record per maximal run of consecutive results with identical
                   labels), not by the model of the code.
    Known findings (known_findings.json, kind "finding") are judged narrowly:
    [run_case] returns [code_of3 corr prop known] where [known] is the property
    with EXACTLY the recorded deviations allowed (C19_trailing_cr_lost,
    C19_empty_name_label_value, C19_empty_equality_refused,
    C19_record_split_at_flush): each deviation changes the EXPECTATION only
    where its input class is met (a value/line ending in CR, a label with an
    empty value under key>"", a term key:"", a run cut by a forced flush), so a
    tagged history is still judged in everything the deviation does not touch.
    Domain on which the model is tied to the code: lines shorter than
    bufio.Scanner's 64 KiB token limit; cased letters only from ASCII, Latin-1,
    basic Greek and basic Cyrillic (Model/Words.v). *)
From Perf Require Import Base.Bytes Base.Sx Model.Words Model.Query Model.StoreFmt Model.Sql Model.RecordRuns Model.LabelSpec.

Definition blist_eqb := list_eqb beq.

(** Z -> N without Z.to_N (whose extraction would rename Byte.to_N, on which
    the shared driver relies) *)
Definition z2n (z : Z) : N := match z with Zpos p => Npos p | _ => 0%N end.
Definition as_n (s : sx) : option N := match s with SZ z => Some (z2n z) | _ => None end.

(** ** observed results: (labels, name labels, line number, content) *)
Definition as_labels (s : sx) : option labels := as_list (as_pair as_b as_b) s.

Definition as_result (s : sx) : option result :=
  match s with
  | SL [l; nl; SZ n; SB c] =>
      do l <- as_labels l; do nl <- as_labels nl; Some (mkResult l nl (z2n n) c)
  | _ => None
  end.

(** equality of what a result carries (not its line number) *)
Definition res_eqb (a b : result) : bool :=
  labels_eqb (r_labels a) (r_labels b) && labels_eqb (r_namelabels a) (r_namelabels b)
  && beq (r_content a) (r_content b).
Definition res_eqb_line (a b : result) : bool := res_eqb a b && (r_line a =? r_line b)%N.

(** multiset equality *)
Definition count_of {A} (eqb : A -> A -> bool) (x : A) (l : list A) : nat :=
  length (filter (eqb x) l).
Definition mset_eqb {A} (eqb : A -> A -> bool) (a b : list A) : bool :=
  Nat.eqb (length a) (length b)
  && forallb (fun x => Nat.eqb (count_of eqb x a) (count_of eqb x b)) a.

(** ** kind 0: words *)
Record wcase := mkW {
  w_q : bytes; w_words : list bytes;
  w_add : bytes; w_query : bytes; w_built : bytes; w_bwords : list bytes; w_qwords : list bytes;
  w_prefix : bytes; w_queries : list bytes }.

Definition decode_w (l : list sx) : option wcase :=
  match l with
  | [SB q; ws; SB add; SB query; SB built; bws; qws; SB prefix; qs] =>
      do ws <- as_list as_b ws; do bws <- as_list as_b bws; do qws <- as_list as_b qws;
      do qs <- as_list as_b qs;
      Some (mkW q ws add query built bws qws prefix qs)
  | _ => None
  end.

Definition corr_w (c : wcase) : bool :=
  blist_eqb (split_words (w_q c)) (w_words c)
  && beq (add_to_query (w_query c) (w_add c)) (w_built c)
  && blist_eqb (split_words (w_built c)) (w_bwords c)
  && blist_eqb (split_words (w_query c)) (w_qwords c)
  && (let '(p, qs) := parse_query_string (w_q c) in beq p (w_prefix c) && blist_eqb qs (w_queries c)).

(** SplitWords on a text without quote and backslash, declaratively: the
    maximal runs of bytes other than ASCII space (0x20) and tab (0x09), in
    order. No other byte separates words — in particular not 0x85 / 0xA0, which
    occur inside the UTF-8 encodings of à, Å, 全, U+00A0, U+2003 — so a value the
    front end emits bare stays one word. *)
Definition sp_blank (c : byte) : bool := Byte.eqb c x20 || Byte.eqb c x09.
Definition sp_special (c : byte) : bool := Byte.eqb c x22 || Byte.eqb c x5c.
Definition sp_emit (acc : bytes) : list bytes := match acc with [] => [] | _ => [rev acc] end.
Fixpoint sp_fields (q acc : bytes) : list bytes :=
  match q with
  | [] => sp_emit acc
  | c :: q' => if sp_blank c then sp_emit acc ++ sp_fields q' [] else sp_fields q' (c :: acc)
  end.
Definition plain_split_ok (q : bytes) (ws : list bytes) : bool :=
  if existsb sp_special q then true else blist_eqb ws (sp_fields q []).

(** the property, on what the real SplitWords made of the real addToQuery's
    output: the added word comes back as exactly one word, in front of the
    words of the old query *)
Definition prop_w (c : wcase) : bool :=
  match w_add c with
  | [] => true
  | _ =>
      let sep := if existsb (Byte.eqb w_bar) (w_query c) then [] else [[w_bar]] in
      blist_eqb (w_bwords c) (w_add c :: sep ++ w_qwords c)
  end
  (* (that no returned word is empty is NOT demanded here: the property does not
     state it — shell-style "" is an empty word; the model, which has none
     (C19_splitwords_no_empty_word), is tied to the code by corr_w) *)
  (* words are separated by ASCII space and tab only *)
  && plain_split_ok (w_q c) (w_words c)
  && plain_split_ok (w_query c) (w_qwords c)
  && plain_split_ok (w_built c) (w_bwords c).

(** ** kind 1: fmt *)
Record fcase := mkF {
  f_meta : option labels; f_text : bytes; f_results : list result;
  f_printed : bytes; f_reread : list result }.

Definition decode_f (l : list sx) : option fcase :=
  match l with
  | [meta; SB text; rs; SB printed; rr] =>
      do meta <- as_opt as_labels meta; do rs <- as_list as_result rs; do rr <- as_list as_result rr;
      Some (mkF meta text rs printed rr)
  | _ => None
  end.

Definition corr_f (c : fcase) : bool :=
  let model := match f_meta c with Some m => read_with m (f_text c) | None => read_plain (f_text c) end in
  list_eqb res_eqb_line model (f_results c)
  && beq (print_all [] (f_results c)) (f_printed c)
  && list_eqb res_eqb_line (read_plain (f_printed c)) (f_reread c).

(** printing the results and reading them back gives the same results, each
    once, in order *)
Definition prop_f (c : fcase) : bool := list_eqb res_eqb (f_results c) (f_reread c).

(** ** kind 2: history *)
Inductive qobs := ObsErr | ObsRes (rs : list result).
Inductive lobs := LObsErr | LObsList (l : list (bytes * N)).

Record qcase := mkQ {
  qc_q : bytes; qc_limit : Z; qc_db : qobs; qc_http : qobs; qc_dblist : lobs; qc_httplist : lobs }.

Record ucase := mkU { uc_in : upload_in; uc_ok : bool }.

Record hcase := mkH { h_uploads : list ucase; h_all : list result; h_queries : list qcase }.

Definition as_qobs (s : sx) : option qobs :=
  match s with
  | SL [SZ 1] => Some ObsErr
  | SL [SZ 0; rs] => do rs <- as_list as_result rs; Some (ObsRes rs)
  | _ => None
  end.
Definition as_lobs (s : sx) : option lobs :=
  match s with
  | SL [SZ 1] => Some LObsErr
  | SL [SZ 0; l] => do l <- as_list (as_pair as_b as_n) l; Some (LObsList l)
  | _ => None
  end.
Definition as_ufile (s : sx) : option ufile :=
  match s with SL [SB n; SB b] => Some (mkUfile n b) | _ => None end.
Definition as_ucase (s : sx) : option ucase :=
  match s with
  | SL [SB id; SB tm; SB user; fs; ok] =>
      do fs <- as_list as_ufile fs; do ok <- as_bool ok;
      Some (mkU (mkUploadIn id tm user fs) ok)
  | _ => None
  end.
Definition as_qcase (s : sx) : option qcase :=
  match s with
  | SL [SB q; SZ lim; d; h; dl; hl] =>
      do d <- as_qobs d; do h <- as_qobs h; do dl <- as_lobs dl; do hl <- as_lobs hl;
      Some (mkQ q lim d h dl hl)
  | _ => None
  end.
Definition decode_h (l : list sx) : option hcase :=
  match l with
  | [us; all; qs] =>
      do us <- as_list as_ucase us; do all <- as_list as_result all; do qs <- as_list as_qcase qs;
      Some (mkH us all qs)
  | _ => None
  end.

(** model state after the uploads, and whether every success/failure was predicted *)
Fixpoint run_uploads (d : db) (us : list ucase) : db * bool :=
  match us with
  | [] => (d, true)
  | u :: us' =>
      let '(d', e) := apply_upload d (uc_in u) in
      let agree := Bool.eqb (match e with None => true | Some _ => false end) (uc_ok u) in
      (* on disagreement continue with what the implementation did *)
      let '(d'', ok) := run_uploads (if agree then d' else d) us' in
      (d'', agree && ok)
  end.

Definition idn_eqb (a b : bytes * N) : bool := beq (fst a) (fst b) && (snd a =? snd b)%N.

Definition qobs_matches (m : list result + qerr) (o : qobs) : bool :=
  match m, o with
  | inr _, ObsErr => true
  | inl rs, ObsRes os => mset_eqb res_eqb rs os
  | _, _ => false
  end.
Definition lobs_matches (m : list (bytes * N) + qerr) (o : lobs) : bool :=
  match m, o with
  | inr _, LObsErr => true
  | inl l, LObsList ol => list_eqb idn_eqb l ol
  | _, _ => false
  end.

(** /search: the server prints the results of DB.Query with ONE Printer, the
    client reads the text with ONE Reader (for results without a trailing CR
    this is the identity: Proofs/StoreFmt.v printer_reader_roundtrip) *)
Definition http_of (m : list result + qerr) : list result + qerr :=
  match m with inl rs => inl (read_plain (print_all [] rs)) | inr e => inr e end.

Definition corr_q (d : db) (c : qcase) : bool :=
  let m := db_query d (qc_q c) in
  let l := list_uploads d (qc_q c) (qc_limit c) in
  qobs_matches m (qc_db c)
  (* /search refuses an empty q *)
  && (match qc_q c with [] => match qc_http c with ObsErr => true | _ => false end
                   | _ => qobs_matches (http_of m) (qc_http c) end)
  && lobs_matches l (qc_dblist c) && lobs_matches l (qc_httplist c).

(** the relational semantics of the generated SQL (Model/Sql.v), evaluated over
    the tables the insert model builds from the same uploads, against what
    SQLite returned: DB.Query as a bag of results, DB.ListUploads as a list.
    (Day, Seq) of an upload are read off its ID "<Day>.<Seq>" as NewUpload
    writes them. *)
Definition id_daysq (id : bytes) : bytes * N :=
  match index_byte id x2e with
  | Some i => (firstn i id, match digits_val (skipn (S i) id) 0 with Some n => n | None => 0%N end)
  | None => (id, 0%N)
  end.

Definition sql_corr_q (d : db) (c : qcase) : bool :=
  match parse_query (qc_q c) with
  | QOk ps =>
      match parts_sql ps with
      | Some subs =>
          let T := tables_of d (map (fun s => id_daysq (s_id s)) d) in
          qobs_matches (inl (flat_map read_content (sql_query T subs))) (qc_db c)
          && lobs_matches (inl (sql_list_uploads T subs (qc_limit c))) (qc_dblist c)
      | None => false      (* parse_query has checked part.sql's only error *)
      end
  | _ => true
  end.

Definition corr_h (c : hcase) : bool :=
  let '(d, ok) := run_uploads [] (h_uploads c) in
  ok && qobs_matches (db_query d []) (ObsRes (h_all c)) && forallb (corr_q d) (h_queries c)
  && forallb (sql_corr_q d) (h_queries c).

(** *** the specification on the observed output *)

Definition all_labels (r : result) : labels := r_labels r ++ r_namelabels r.

(** what the successful uploads should have stored, by the format's rules:
    every benchmark line of every file with the labels it carries there
    (Model/LabelSpec.v: server labels, file labels in effect, name-derived
    labels — stated without the Reader's loop; Proofs/LabelSpec.v shows the
    model of the Reader returns exactly these) *)
Definition expected_all (us : list ucase) : list result :=
  flat_map (fun u => if uc_ok u then spec_upload_results (uc_in u) 0 (u_files (uc_in u)) else []) us.

(** stored records per accepted upload BY THE RULE, newest first: one record
    per maximal run of consecutive results with identical labels and name
    labels (Model/RecordRuns.v) — independent of the database layer's batching *)
Definition spec_uploads (us : list ucase) : list (bytes * list rec) :=
  rev (flat_map (fun u => if uc_ok u then
          [(u_id (uc_in u), spec_records (spec_upload_results (uc_in u) 0 (u_files (uc_in u))))] else []) us).

(** the rule amended by the recorded finding C19_record_split_at_flush: the
    records of the insert model (a run is cut after its first result when the
    flush forced by the 990-argument limit falls on that result; Proofs/
    RecordRuns.v shows them to be the rule's wherever no such flush occurs) *)
Definition amended_uploads (us : list ucase) : list (bytes * list rec) :=
  rev (flat_map (fun u => if uc_ok u then
                            match process_upload (uc_in u) with
                            | inl recs => [(u_id (uc_in u), recs)]
                            | inr _ => []
                            end else []) us).

(** **** the recorded deviations, each as a change of the expectation that is
    the identity wherever its input class is not met *)

(** C19_trailing_cr_lost: one pass through the Printer and the Reader
    (bufio.ScanLines) drops one trailing CR from every label value and from
    the line; a value that was just CR disappears with its key; a line that is
    no benchmark line any more (no white space left: "BenchmarkX\r") is lost.
    db.Query reads the stored text once (one pass), the client reads what the
    server printed from that (two passes). *)
Definition drop_last_cr (s : bytes) : bytes :=
  match rev s with c :: r => if Byte.eqb c c_cr then rev r else s | [] => [] end.
Definition cr_labels (l : labels) : labels :=
  filter (fun kv => negb (beq (snd kv) [])) (map (fun kv => (fst kv, drop_last_cr (snd kv))) l).
Definition cr_pass1 (r : result) : option result :=
  let c := drop_last_cr (r_content r) in
  match parse_benchmark_line c with
  | Some _ => Some (mkResult (cr_labels (r_labels r)) (r_namelabels r) (r_line r) c)
  | None => None
  end.
Fixpoint filter_map {A B} (f : A -> option B) (l : list A) : list B :=
  match l with [] => [] | x :: l' => match f x with Some y => y :: filter_map f l' | None => filter_map f l' end end.
Fixpoint cr_passes (n : nat) (rs : list result) : list result :=
  match n with O => rs | S n' => cr_passes n' (filter_map cr_pass1 rs) end.
Definition ends_cr (s : bytes) : bool := match rev s with c :: _ => Byte.eqb c c_cr | [] => false end.
Definition has_cr (r : result) : bool :=
  ends_cr (r_content r) || existsb (fun kv => ends_cr (snd kv)) (r_labels r).

(** C19_empty_name_label_value: key>"" is answered as "the label exists", so
    it also holds of a label whose value is empty *)
Definition term_holds_gen (gt_exists : bool) (p : part) (l : labels) : bool :=
  match lookup (p_key p) l with
  | Some v => holds p v || (gt_exists && op_eqb (p_op p) OpGt && beq (p_v p) [] && beq v [])
  | None => false
  end.
Definition terms_hold_gen (gt_exists : bool) (ts : list part) (l : labels) : bool :=
  forallb (fun t => term_holds_gen gt_exists t l) ts.

(** C19_empty_equality_refused: a query with a term key:"" (key other than
    upload) is refused as a whole *)
Definition has_empty_eq (ts : list part) : bool :=
  existsb (fun t => op_eqb (p_op t) OpEq && beq (p_v t) [] && negb (beq (p_key t) key_upload)) ts.

(** [known] = false: the property. [known] = true: the property with exactly
    the recorded deviations allowed — an observation is accepted if it is what
    the property demands, or what it demands once trailing CRs are dropped
    [passes] times and/or key>"" reads "label exists" (both are the identity
    on records without such values); an error only for a query with key:"". *)
Definition search_expect (all : list result) (ts : list part) (gt : bool) (n : nat) : list result :=
  cr_passes n (filter (fun r => terms_hold_gen gt ts (all_labels r)) all).

Definition prop_search (known : bool) (passes : nat) (all : list result) (q : bytes) (o : qobs) : bool :=
  match query_terms q, o with
  | None, ObsErr => true
  | None, ObsRes rs => match rs with [] => true | _ => false end   (* contradiction found before the bad word *)
  | Some ts, ObsErr => known && has_empty_eq ts
  | Some ts, ObsRes rs =>
      mset_eqb res_eqb rs (search_expect all ts false 0)
      || (known && (mset_eqb res_eqb rs (search_expect all ts false passes)
                    || mset_eqb res_eqb rs (search_expect all ts true 0)
                    || mset_eqb res_eqb rs (search_expect all ts true passes)))
  end.

Definition list_expect (exp : list (bytes * list rec)) (ts : list part) (gt : bool) (limit : Z) : list (bytes * N) :=
  let counts := map (fun ir => (fst ir, N.of_nat (length (filter
                  (fun rc => terms_hold_gen gt ts (rc_labels rc ++ rc_namelabels rc)) (snd ir))))) exp in
  take_limit limit (filter (fun ic => negb (snd ic =? 0)%N) counts).

(** [exp]: the records by the rule; [exp_split]: the rule amended by
    C19_record_split_at_flush (equal to [exp] unless a run is cut by a forced flush) *)
Definition prop_list (known : bool) (exp exp_split : list (bytes * list rec)) (q : bytes) (limit : Z) (o : lobs) : bool :=
  match query_terms q, o with
  | None, LObsErr => true
  | None, LObsList l => match l with [] => true | _ => false end
  | Some ts, LObsErr => known && has_empty_eq ts
  | Some ts, LObsList l =>
      list_eqb idn_eqb l (list_expect exp ts false limit)
      || (known && (list_eqb idn_eqb l (list_expect exp ts true limit)
                    || list_eqb idn_eqb l (list_expect exp_split ts false limit)
                    || list_eqb idn_eqb l (list_expect exp_split ts true limit)))
  end.

Definition prop_q (known : bool) (all : list result) (exp exp_split : list (bytes * list rec)) (c : qcase) : bool :=
  prop_search known 1 all (qc_q c) (qc_db c)
  && (match qc_q c with [] => true | _ => prop_search known 2 all (qc_q c) (qc_http c) end)
  && prop_list known exp exp_split (qc_q c) (qc_limit c) (qc_dblist c)
  && prop_list known exp exp_split (qc_q c) (qc_limit c) (qc_httplist c).

Definition prop_h_gen (known : bool) (c : hcase) : bool :=
  let all := expected_all (h_uploads c) in
  let exp := spec_uploads (h_uploads c) in
  let exp_split := if known then amended_uploads (h_uploads c) else exp in
  (mset_eqb res_eqb (h_all c) all || (known && mset_eqb res_eqb (h_all c) (cr_passes 1 all)))
  && forallb (prop_q known all exp exp_split) (h_queries c).

Definition prop_h := prop_h_gen false.
Definition known_h := prop_h_gen true.

(** kind 1 under C19_trailing_cr_lost: the second reading returns the results
    after one CR pass; an empty benchmark name gets no name labels while no
    non-empty name has been read before it (newResult's cache), which a lost
    line in front can change *)
Fixpoint cr_pass_all (seen : bool) (rs : list result) : list result :=
  match rs with
  | [] => []
  | r :: rs' =>
      match cr_pass1 r with
      | None => cr_pass_all seen rs'
      | Some r' =>
          let name := match parse_benchmark_line (r_content r') with Some nm => nm | None => [] end in
          mkResult (r_labels r') (if is_nilb name && negb seen then [] else r_namelabels r') (r_line r') (r_content r')
          :: cr_pass_all (seen || negb (is_nilb name)) rs'
      end
  end.
Definition known_f (c : fcase) : bool :=
  prop_f c || list_eqb res_eqb (cr_pass_all false (f_results c)) (f_reread c).

(** ** entry point *)
Definition run_case (s : sx) : N :=
  match s with
  | SL (SZ 0 :: l) => match decode_w l with Some c => code_of (corr_w c) (prop_w c) | None => code_undecodable end
  | SL (SZ 1 :: l) => match decode_f l with Some c => code_of3 (corr_f c) (prop_f c) (known_f c) | None => code_undecodable end
  | SL (SZ 2 :: l) => match decode_h l with Some c => code_of3 (corr_h c) (prop_h c) (known_h c) | None => code_undecodable end
  | _ => code_undecodable
  end.
