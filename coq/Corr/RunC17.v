(** Correspondence evaluator for C17 (legacy benchstat library).
    A case carries: the options, the results of every configuration as
    addResult reads them, the oracle tables (the DeltaTest in force on the
    retained values of each compared row; math.Log / math.Exp for the geomean
    row) and what the real library produced: Collection state, Tables(),
    FormatText / FormatCSV parsed back.
      corr_ok : Model.Legacy reproduces the observed output bit for bit;
      prop_ok : the observed output satisfies the specification predicates of
                the property, computed from the raw input records.
    A HISTORY case ("hist") carries one collection reporting several times:
    per stage the configurations added, the oracle tables and observations of
    that Tables() call, and collection and tables observed again after the
    Format calls.  Every stage is judged as a report on the records added so
    far ([hist_prop_ok]); the model side is Model.LegacyHist.hist_reports. *)
From Perf Require Import Base.Bytes Base.Sx Base.B64 Base.SxF Model.StatsF Model.Legacy Model.LegacyHist.
From Perf Require Model.LegacySpec.
Local Open Scope Z_scope.

(** * decoding *)
Record opts := mkOpts {
  o_alpha : b64; o_split : list bytes; o_order : order; o_geomean : bool; o_norange : bool }.

Definition as_order (s : sx) : option order :=
  match s with
  | SL [] => Some None
  | SL [SL [SZ b; SZ n]] =>
      if n <? 0 then None else
      Some (Some (if b =? 0 then ByName else ByDelta, Z.to_nat n))
  | _ => None
  end.

Definition as_opts (s : sx) : option opts :=
  match s with
  | SL [a; sp; od; g; nr] =>
      do a <- as_f64 a; do sp <- as_list as_b sp; do od <- as_order od;
      do g <- as_bool g; do nr <- as_bool nr;
      Some (mkOpts a sp od g nr)
  | _ => None
  end.

Definition as_result (s : sx) : option result :=
  match s with
  | SL [nls; ls; fs; SZ it; vals] =>
      do nls <- as_list as_b nls; do ls <- as_list as_b ls; do fs <- as_list as_b fs;
      do vals <- as_list (as_opt as_f64) vals;
      Some (mkResult nls ls fs it vals)
  | _ => None
  end.

Definition as_terr (s : sx) : option terr :=
  match s with
  | SL [SZ 0; _] => Some ENone
  | SL [SZ 1; _] => Some EStatsZeroVariance
  | SL [SZ 2; _] => Some EStatsSampleSize
  | SL [SZ 3; _] => Some EStatsSamplesEqual
  | SL [SZ 4; SB m] => Some (EOther m)
  | _ => None
  end.

Definition pentry := (list b64 * list b64 * b64 * terr)%type.
Definition as_pentry (s : sx) : option pentry :=
  match s with
  | SL [a; b; p; e] =>
      do a <- as_list as_f64 a; do b <- as_list as_f64 b; do p <- as_f64 p; do e <- as_terr e;
      Some (a, b, p, e)
  | _ => None
  end.

Definition as_mstat (s : sx) : option mstat :=
  match s with
  | SL [SB u; vs; rvs; mn; me; mx] =>
      do vs <- as_list as_f64 vs; do rvs <- as_list as_f64 rvs;
      do mn <- as_f64 mn; do me <- as_f64 me; do mx <- as_f64 mx;
      Some (mkMstat u vs rvs mn me mx)
  | _ => None
  end.

Definition as_row (s : sx) : option row :=
  match s with
  | SL [SB b; SB g; ms; pct; SB d; SB n; SZ ch] =>
      do ms <- as_list as_mstat ms; do pct <- as_f64 pct;
      Some (mkRow b g ms pct d n ch)
  | _ => None
  end.

Definition as_table (s : sx) : option table :=
  match s with
  | SL [SB m; on; cfs; gs; rows] =>
      do on <- as_bool on; do cfs <- as_list as_b cfs; do gs <- as_list as_b gs;
      do rows <- as_list as_row rows;
      Some (mkTable m on cfs gs rows)
  | _ => None
  end.

Record obs_coll := mkObsColl {
  oc_configs : list bytes; oc_groups : list bytes; oc_units : list bytes;
  oc_benchmarks : list (bytes * list bytes); oc_nmetrics : Z }.

Definition as_obs_coll (s : sx) : option obs_coll :=
  match s with
  | SL [cfs; gs; us; bms; SZ n] =>
      do cfs <- as_list as_b cfs; do gs <- as_list as_b gs; do us <- as_list as_b us;
      do bms <- as_list (as_pair as_b (as_list as_b)) bms;
      Some (mkObsColl cfs gs us bms n)
  | _ => None
  end.

Record obs_fmt := mkObsFmt {
  of_text_ok : bool; of_text : list (bytes * bytes); of_csv_ok : bool; of_csv : list (list bytes) }.

Definition as_obs_fmt (s : sx) : option obs_fmt :=
  match s with
  | SL [tok; tl; cok; cl] =>
      do tok <- as_bool tok; do tl <- as_list (as_pair as_b as_b) tl;
      do cok <- as_bool cok; do cl <- as_list (as_list as_b) cl;
      Some (mkObsFmt tok tl cok cl)
  | _ => None
  end.

Record case := mkCase {
  k_opts : opts;
  k_configs : list (bytes * list result);
  k_ptab : list pentry;
  k_logtab : list (b64 * b64);
  k_exptab : list (b64 * b64);
  k_panic : bool;
  k_coll : obs_coll;
  k_tables : list table;
  k_fmt : obs_fmt
}.

Definition decode (s : sx) : option case :=
  match s with
  | SL [o; cfs; SL [pt; lt; et]; ob] =>
      do o <- as_opts o;
      do cfs <- as_list (as_pair as_b (as_list as_result)) cfs;
      do pt <- as_list as_pentry pt;
      do lt <- as_list (as_pair as_f64 as_f64) lt;
      do et <- as_list (as_pair as_f64 as_f64) et;
      match ob with
      | SL [SZ 1] => Some (mkCase o cfs pt lt et true (mkObsColl [] [] [] [] 0) [] (mkObsFmt true [] true []))
      | SL [SZ 0; oc; ts; fm] =>
          do oc <- as_obs_coll oc; do ts <- as_list as_table ts; do fm <- as_obs_fmt fm;
          Some (mkCase o cfs pt lt et false oc ts fm)
      | _ => None
      end
  | _ => None
  end.

(** ** histories: one collection, several reports *)
Record hstage := mkHStage {
  hs_added : list (bytes * list result);      (** configurations added before this Tables() call *)
  hs_ptab : list pentry; hs_logtab : list (b64 * b64); hs_exptab : list (b64 * b64);
  hs_formats : list Z;                        (** Format functions applied afterwards: 0 text, 1 CSV, 2 HTML *)
  hs_panic : bool;
  hs_coll : obs_coll; hs_tables : list table; hs_fmt : obs_fmt;
  hs_post_coll : obs_coll;                    (** the collection after the Format calls *)
  hs_post_tables : list table                 (** the same tables read again after the Format calls *)
}.

Definition as_hstage (s : sx) : option hstage :=
  match s with
  | SL [ad; SL [pt; lt; et]; fs; ob; po] =>
      do ad <- as_list (as_pair as_b (as_list as_result)) ad;
      do pt <- as_list as_pentry pt;
      do lt <- as_list (as_pair as_f64 as_f64) lt;
      do et <- as_list (as_pair as_f64 as_f64) et;
      do fs <- as_list as_z fs;
      match ob, po with
      | SL [SZ 1], _ =>
          Some (mkHStage ad pt lt et fs true (mkObsColl [] [] [] [] 0) [] (mkObsFmt true [] true [])
                         (mkObsColl [] [] [] [] 0) [])
      | SL [SZ 0; oc; ts; fm], SL [pc; pts] =>
          do oc <- as_obs_coll oc; do ts <- as_list as_table ts; do fm <- as_obs_fmt fm;
          do pc <- as_obs_coll pc; do pts <- as_list as_table pts;
          Some (mkHStage ad pt lt et fs false oc ts fm pc pts)
      | _, _ => None
      end
  | _ => None
  end.

Inductive kase :=
| KOne (c : case)
| KHist (o : opts) (stages : list hstage).

Definition s_hist : bytes := bs "hist".

Definition decode_any (s : sx) : option kase :=
  match s with
  | SL [SB tag; o; sts] =>
      if beq tag s_hist then
        do o <- as_opts o; do sts <- as_list as_hstage sts; Some (KHist o sts)
      else None
  | _ => option_map KOne (decode s)
  end.

(** * oracles *)
Definition f64s_same := list_eqb b64_same.
Definition s_miss : bytes := bs "oracle-miss".

Fixpoint plookup (tab : list pentry) (a b : list b64) : b64 * terr :=
  match tab with
  | [] => (f_zero, EOther s_miss)
  | (a', b', p, e) :: tab' => if f64s_same a a' && f64s_same b b' then (p, e) else plookup tab' a b
  end.
Definition dtest_of (tab : list pentry) (o n : mstat) : b64 * terr :=
  plookup tab (m_rvalues o) (m_rvalues n).

Fixpoint flookup (tab : list (b64 * b64)) (x : b64) : option b64 :=
  match tab with
  | [] => None
  | (x', y) :: tab' => if b64_same x x' then Some y else flookup tab' x
  end.

(** * equality of observations (floats by bit pattern, NaNs identified) *)
Definition mstat_eqb (a b : mstat) : bool :=
  beq (m_unit a) (m_unit b) && f64s_same (m_values a) (m_values b)
  && f64s_same (m_rvalues a) (m_rvalues b)
  && b64_same (m_min a) (m_min b) && b64_same (m_mean a) (m_mean b) && b64_same (m_max a) (m_max b).
Definition row_eqb (a b : row) : bool :=
  beq (w_bench a) (w_bench b) && beq (w_group a) (w_group b)
  && list_eqb mstat_eqb (w_metrics a) (w_metrics b)
  && b64_same (w_pct a) (w_pct b) && beq (w_delta a) (w_delta b) && beq (w_note a) (w_note b)
  && (w_change a =? w_change b).
Definition blist_eqb := list_eqb beq.
Definition table_eqb (a b : table) : bool :=
  beq (t_metric a) (t_metric b) && Bool.eqb (t_oldnew a) (t_oldnew b)
  && blist_eqb (t_configs a) (t_configs b) && blist_eqb (t_groups a) (t_groups b)
  && list_eqb row_eqb (t_rows a) (t_rows b).

(** * FormatText / FormatCSV read back *)
Fixpoint first_token (s : bytes) : bytes :=
  match s with
  | [] => []
  | c :: s' => if Byte.eqb c c_space then [] else c :: first_token s'
  end.
Definition s_name : bytes := bs "name".

(** expected (first token, delta) of every non-blank text line *)
Definition text_expected (ts : list table) : list (bytes * bytes) :=
  concat (map (fun t =>
    (s_name, []) ::
    filter (fun l => negb (is_empty (fst l)))
           (map (fun '(lbl, d) => (first_token lbl, if beq d s_tilde then s_tilde else d)) (table_lines t))) ts).

(** CSV: header starts with "name"; rows carry label and, for two configs, the
    delta cell at its position (empty records are not written) *)
Definition csv_expected (ts : list table) : list (bool * bytes * option bytes) :=
  concat (map (fun t =>
    let two := (length (t_configs t) =? 2)%nat in
    (true, s_name, None) ::
    map (fun '(lbl, d) => (false, lbl, if two then Some d else None))
        (filter (fun l => negb (is_empty (fst l) && is_empty (snd l))) (table_lines t))) ts).

Fixpoint csv_match (norange : bool) (e : list (bool * bytes * option bytes)) (o : list (list bytes)) : bool :=
  match e, o with
  | [], [] => true
  | (hdr, lbl, d) :: e', rec :: o' =>
      (if hdr then has_prefix (hd [] rec) lbl else beq (hd [] rec) lbl)
      && match d with
         | Some d => beq (nth (if norange then 3 else 5)%nat rec []) d
         | None => true
         end
      && csv_match norange e' o'
  | _, _ => false
  end.

Definition pair_eqb (a b : bytes * bytes) : bool := beq (fst a) (fst b) && beq (snd a) (snd b).

(** label and delta columns only, and only for tables without an empty
    benchmark name ([of_text_ok]: the text is read back by its first token, and
    toCSV's treatment of an empty label is not modelled); every other cell text
    is outside the model: bin/props.d/C17.json modelled_not_verified *)
Definition fmt_ok (norange : bool) (ts : list table) (f : obs_fmt) : bool :=
  if of_text_ok f then
    list_eqb pair_eqb (text_expected ts) (of_text f)
    && of_csv_ok f && csv_match norange (csv_expected ts) (of_csv f)
  else true.

(** * the model run *)
Definition model_coll (c : case) : coll := build (o_split (k_opts c)) (k_configs c).
Definition model_tables_of (mc : coll) (c : case) : option (list table) :=
  tables (dtest_of (k_ptab c)) (flookup (k_logtab c)) (flookup (k_exptab c))
         (o_alpha (k_opts c)) (o_order (k_opts c)) (o_geomean (k_opts c)) mc.
Definition model_tables (c : case) : option (list table) := model_tables_of (model_coll c) c.

Definition bm_eqb (a b : bytes * list bytes) : bool := beq (fst a) (fst b) && blist_eqb (snd a) (snd b).

Definition coll_corr (mc : coll) (oc : obs_coll) : bool :=
  blist_eqb (c_configs mc) (oc_configs oc)
  && blist_eqb (c_groups mc) (oc_groups oc)
  && blist_eqb (c_units mc) (oc_units oc)
  && list_eqb bm_eqb (map (fun g => (g, benchmarks_of mc g)) (c_groups mc)) (oc_benchmarks oc)
  && (Z.of_nat (length (c_metrics mc)) =? oc_nmetrics oc).

(** [post]: collection and tables observed again later (histories) *)
Definition corr_ok_with (mc : coll) (c : case) (post : option (obs_coll * list table)) : bool :=
  negb (k_panic c) &&
  coll_corr mc (k_coll c)
  && match model_tables_of mc c with
     | Some ts => list_eqb table_eqb ts (k_tables c) && fmt_ok (o_norange (k_opts c)) ts (k_fmt c)
                  && match post with
                     | Some (pc, pts) => coll_corr mc pc && list_eqb table_eqb ts pts
                     | None => true
                     end
     | None => false
     end.

Definition corr_ok (c : case) : bool := corr_ok_with (model_coll c) c None.

(** ** histories *)
Definition hist_ops (sts : list hstage) : list hop :=
  concat (map (fun st => map HAdd (hs_added st) ++ HTables :: map HFormat (hs_formats st)) sts).

(** the stages as reports: stage i with the configurations added so far *)
Fixpoint stage_cases (o : opts) (acc : list (bytes * list result)) (sts : list hstage) : list (case * hstage) :=
  match sts with
  | [] => []
  | st :: sts' =>
      let acc' := acc ++ hs_added st in
      (mkCase o acc' (hs_ptab st) (hs_logtab st) (hs_exptab st) (hs_panic st)
              (hs_coll st) (hs_tables st) (hs_fmt st), st) :: stage_cases o acc' sts'
  end.

Fixpoint all2 {A B} (f : A -> B -> bool) (a : list A) (b : list B) : bool :=
  match a, b with
  | [], [] => true
  | x :: a', y :: b' => f x y && all2 f a' b'
  | _, _ => false
  end.

(** the model runs the history itself: Model.LegacyHist.hist_reports gives the
    collection each Tables() call reports on *)
Definition hist_corr_ok (o : opts) (sts : list hstage) : bool :=
  all2 (fun mc cs => corr_ok_with mc (fst cs) (Some (hs_post_coll (snd cs), hs_post_tables (snd cs))))
       (hist_reports (o_split o) empty_coll (hist_ops sts))
       (stage_cases o [] sts).

(** * specification predicates on the observed output

    Everything below is computed from the raw input records and the observed
    output; the model of the code (Model/Legacy.v, Model/StatsF.v) is NOT run to
    obtain an expectation.  The numbers the property names - R8 quartiles, the
    1.5 IQR fence, sum/n - are exact rationals (Model/LegacySpec.v) compared
    under the tolerances stated there.

    [relax] = the judge of KNOWN FINDING C17_binary64_overflow ([known_ok]):
    the same predicate, except that
      - a sample on which the code's binary64 fence Q1 - 1.5 IQR .. Q3 + 1.5 IQR
        is not a pair of finite numbers ([overflow_fence]: the interpolation
        a + frac*(b-a) or the fence arithmetic left the finite range) may
        retain any subsequence of its values;
      - a retained sample on which the incremental mean m += (x-m)/(i+1) meets
        an infinity or overflows ([overflow_mean], the negation of the exact
        guard of Properties/C17.v C17_min_le_mean_le_max) may report any mean.
    Both conditions replay the mechanism on the INPUT values of the cell
    concerned; every other clause stays in force for that cell and for all
    other cells, rows and tables. *)

Section Spec.
  Variable relax : bool.
  Variable c : case.
  Let o := k_opts c.
  (** every (key, value) the input lines carry, in input order *)
  Let recs : list (key * b64) := all_records (o_split o) (k_configs c).
  Let configs : list bytes := map fst (k_configs c).
  Let units : list bytes := firsts (map (fun r => k_unit (fst r)) recs).
  Let groups : list bytes := firsts (map (fun r => k_group (fst r)) recs).
  Let two : bool := (length configs =? 2)%nat.
  Let alpha : b64 := if b64_eq (o_alpha o) f_zero then f_0_05 else o_alpha o.

  (** the mechanism of the known finding, replayed on a cell's input values *)
  Definition overflow_fence (vals : list b64) : bool :=
    let '(lo, hi) := fence vals in negb (b64_is_finite lo && b64_is_finite hi).
  Definition overflow_mean (rv : list b64) : bool :=
    negb (forallb b64_is_finite rv && mean_no_overflow rv).

  (** the documented statistics of one sample: the retained values are those
      inside the exact fence (in input order), Min and Max are their extremes,
      Mean is sum/n (exact, within the stated tolerance) and lies in [Min, Max] *)
  Definition stats_spec (unit : bytes) (vals : list b64) (m : mstat) : bool :=
    let rv := m_rvalues m in
    beq (m_unit m) unit
    && f64s_same (m_values m) vals
    && LegacySpec.retained_spec vals (relax && overflow_fence vals) rv
    && match rv with
       | [] => b64_is_nan (m_min m) && b64_is_nan (m_mean m) && b64_is_nan (m_max m)
       | _ =>
           existsb (b64_same (m_min m)) rv && forallb (fun x => negb (b64_lt x (m_min m))) rv
           && existsb (b64_same (m_max m)) rv && forallb (fun x => negb (b64_gt x (m_max m))) rv
           && (if relax && overflow_mean rv then true
               else LegacySpec.mean_value_spec rv (m_mean m)
                    && b64_le (m_min m) (m_mean m) && b64_le (m_mean m) (m_max m))
       end.
  Definition is_empty_mstat (m : mstat) : bool :=
    is_empty (m_unit m) && is_empty (m_values m) && is_empty (m_rvalues m)
    && b64_same (m_min m) f_zero && b64_same (m_mean m) f_zero && b64_same (m_max m) f_zero.

  Definition cell_spec (unit g b cf : bytes) (m : mstat) : bool :=
    match values_of recs (mkKey cf g b unit) with
    | [] => is_empty_mstat m
    | vals => stats_spec unit vals m
    end.

  (** higher is better for the speed metric: Table.Metric "speed", which is the
      metric of the unit MB/s (and of a unit itself called "speed", which
      metricOf leaves as it is: Properties/C17.v C17_change_direction); lower
      for every other metric, e.g. "x-speed" of the unit x-MB/s *)
  Definition is_speed (unit : bytes) : bool := beq unit (bs "MB/s") || beq unit (bs "speed").

  (** the reason or the p-value with the retained sample sizes: the note names
      them; its punctuation is not the property's business *)
  Definition note_spec (e : terr) (p : b64) (n1 n2 : nat) (note : bytes) : bool :=
    match e with
    | ENone =>
        if b64_eq p (b64_of_Z (-1)) then is_empty note     (* NoDeltaTest: no test, nothing to report *)
        else contains note (bs "p=" ++ fmt_f false 3 p)
             && contains note (bs "n=" ++ dec_of_nat n1 ++ bs "+" ++ dec_of_nat n2)
    | EStatsZeroVariance => contains note (bs "zero variance")
    | EStatsSampleSize => contains note (bs "too few samples")
    | EStatsSamplesEqual => contains note (bs "all equal")
    | EOther msg => contains note msg
    end.

  (** old/new columns of a compared row *)
  Definition delta_spec (unit : bytes) (r : row) : bool :=
    match w_metrics r with
    | [mo; mn] =>
        let '(p, e) := plookup (k_ptab c) (m_rvalues mo) (m_rvalues mn) in
        let significant := is_enone e && b64_lt p alpha in
        let shown := negb (beq (w_delta r) s_tilde) in
        Bool.eqb shown significant
        && (if significant then
              if b64_eq (m_mean mn) (m_mean mo)
              then beq (w_delta r) (bs "0.00%") && (w_change r =? 0) && b64_eq (w_pct r) f_zero
              else
                let pct := b64_mul (b64_sub (b64_div (m_mean mn) (m_mean mo)) b64_one) (b64_of_Z 100) in
                b64_same (w_pct r) pct
                && beq (w_delta r) (fmt_f true 2 pct ++ bs "%")
                (* the metric's better direction, decided on the MEANS: an
                   improvement is a higher mean for speed, a lower mean
                   otherwise, whatever their signs (the sign of pct says the
                   opposite when the old mean is negative); a NaN mean is
                   neither higher nor lower: either flag is accepted *)
                && (if b64_is_nan (m_mean mn) || b64_is_nan (m_mean mo)
                    then (w_change r =? 1) || (w_change r =? -1)
                    else w_change r =? (if (if is_speed unit then b64_lt (m_mean mo) (m_mean mn)
                                             else b64_lt (m_mean mn) (m_mean mo)) then 1 else -1))
            else (w_change r =? 0) && b64_eq (w_pct r) f_zero)
        && note_spec e p (length (m_rvalues mo)) (length (m_rvalues mn)) (w_note r)
    | _ => false
    end.

  Definition plain_spec (r : row) : bool :=
    is_empty (w_delta r) && is_empty (w_note r) && (w_change r =? 0) && b64_eq (w_pct r) f_zero.

  (** the (group, benchmark) labels a unit's table must have, in first-appearance order.
      With two configurations a benchmark that one of them lacks has no row
      (benchstat's documented old/new table: table.go "If one is missing, omit
      row entirely"); its statistics stay available in Collection.Metrics. *)
  Definition present (unit g b cf : bytes) : bool := negb (is_empty (values_of recs (mkKey cf g b unit))).
  Definition all_labels : list (bytes * bytes) :=
    concat (map (fun g => map (fun b => (g, b)) (benches_of_spec recs g)) groups).
  Definition labels_spec (unit : bytes) : list (bytes * bytes) :=
    filter (fun '(g, b) => if two then forallb (present unit g b) configs else true) all_labels.

  Definition label_eqb (a b : bytes * bytes) : bool := beq (fst a) (fst b) && beq (snd a) (snd b).
  Fixpoint index_of (x : bytes * bytes) (l : list (bytes * bytes)) : option nat :=
    match l with
    | [] => None
    | y :: l' => if label_eqb x y then Some O else option_map S (index_of x l')
    end.

  (** group label of an observed row: shown only when there are several groups *)
  Definition row_label (r : row) : bytes * bytes :=
    (if (1 <? length groups)%nat then w_group r else hd [] groups, w_bench r).

  (** rows in the requested order: a stable sorted arrangement of the
      first-appearance rows.  A NaN ByDelta key (only from NaN or infinite
      means) is not ordered against anything: "sorted" then constrains the
      neighbours that do compare, nothing more. *)
  Fixpoint strictly_increasing (l : list nat) : bool :=
    match l with
    | a :: (b :: _) as l' => (a <? b)%nat && strictly_increasing l'
    | _ => true
    end.
  Fixpoint sorted_stable (less : row -> row -> bool) (l : list (row * nat)) : bool :=
    match l with
    | (a, i) :: ((b, j) :: _) as l' =>
        negb (less b a) && (if less a b then true else (i <? j)%nat) && sorted_stable less l'
    | _ => true
    end.
  Fixpoint all_some {A} (l : list (option A)) : option (list A) :=
    match l with
    | [] => Some []
    | Some x :: l' => option_map (cons x) (all_some l')
    | None :: _ => None
    end.
  Definition nodup_nat (l : list nat) : bool :=
    forallb (fun i => (length (filter (Nat.eqb i) l) =? 1)%nat) l.

  Definition rows_order_spec (unit : bytes) (rows : list row) : bool :=
    let expect := labels_spec unit in
    match all_some (map (fun r => index_of (row_label r) expect) rows) with
    | None => false
    | Some idx =>
        (length idx =? length expect)%nat && nodup_nat idx
        && match o_order o with
           | None => strictly_increasing idx
           | Some od => sorted_stable (order_less od) (combine rows idx)
           end
    end.

  (** geometric mean against the exact product: |g^n - prod| <= n * 1e-9 * prod *)
  Definition dyadic (x : b64) : option (Z * Z) :=
    match x with S754_finite false m e => Some (Z.pos m, e) | _ => None end.
  Definition geomean_close (g : b64) (means : list b64) : bool :=
    match dyadic g, all_some (map dyadic means) with
    | Some (mg, eg), Some ds =>
        let n := Z.of_nat (length means) in
        let pm := fold_left (fun a d => a * fst d) ds 1 in
        let pe := fold_left (fun a d => a + snd d) ds 0 in
        let e0 := Z.min (n * eg) pe in
        let A := mg ^ n * 2 ^ (n * eg - e0) in
        let B := pm * 2 ^ (pe - e0) in
        Z.abs (A - B) * 10 ^ 9 <=? n * B
    | _, _ => false
    end.
  (** positive normal values below 2^1022: outside that range math.Log (subnormal
      arguments) and math.Exp (+Inf from about 709.65 although e^709.65 = 1.58e308
      is finite) of Go's library are inaccurate; the same restriction as C12's
      geomean tolerance (Corr/RunC12.v) *)
  Definition all_pos_finite (l : list b64) : bool :=
    forallb (fun x => match x with
                      | S754_finite false m e => (-1022 <=? Z.log2 (Z.pos m) + e) && (Z.log2 (Z.pos m) + e <? 1022)
                      | _ => false end) l.

  (** the non-zero means of configuration [cf] (column [i]) for this unit: over
      EVERY benchmark of the collection with values under (cf, unit), in
      first-appearance order - the statement says "the geometric mean of the
      non-zero means" and does not restrict it to the rows the table shows, so
      a benchmark an old-new table omits (one configuration lacks it) takes
      part in the column of the configuration that has it (audit item 3).
      The mean of a benchmark that has a row is the OBSERVED mean of that row's
      cell (judged by [row_spec]); the mean of an omitted benchmark is reported
      nowhere in the tables, so it is taken from the model of computeStats
      (mean_f of the values inside [fence]: modelled, see props.d). *)
  Fixpoint find_row (lbl : bytes * bytes) (rows : list row) : option row :=
    match rows with
    | [] => None
    | r :: rows' => if label_eqb (row_label r) lbl then Some r else find_row lbl rows'
    end.
  Definition cell_mean (rows : list row) (i : nat) (lbl : bytes * bytes) (vals : list b64) : b64 :=
    match find_row lbl rows with
    | Some r => m_mean (nth i (w_metrics r) empty_mstat)
    | None => mean_f (filter (in_fence (fence vals)) vals)
    end.
  Definition col_means (unit : bytes) (rows : list row) (i : nat) : list b64 :=
    let cf := nth i configs [] in
    concat (map (fun '(g, b) =>
      match values_of recs (mkKey cf g b unit) with
      | [] => []
      | vals => let m := cell_mean rows i (g, b) vals in
                if b64_eq m f_zero then [] else [m]
      end) all_labels).

  (** the geomean cell: the geometric mean of positive finite means, against
      their exact product.  With a negative mean no geometric mean exists and
      with a NaN or infinite mean (only from infinite samples or the known
      overflow finding) none is computable: nothing is demanded of the value;
      nor for means outside [2^-1022, 2^1022) ([all_pos_finite]). *)
  Definition geomean_cell_spec (unit : bytes) (means : list b64) (m : mstat) : bool :=
    match means with
    | [] => is_empty_mstat m
    | _ =>
        beq (m_unit m) unit && is_empty (m_values m) && is_empty (m_rvalues m)
        && (if all_pos_finite means then geomean_close (m_mean m) means else true)
    end.

  Fixpoint forallb2 {A B} (f : A -> B -> bool) (a : list A) (b : list B) : bool :=
    match a, b with
    | [], [] => true
    | x :: a', y :: b' => f x y && forallb2 f a' b'
    | _, _ => false
    end.

  Definition geomean_row_spec (unit : bytes) (rows : list row) (r : row) : bool :=
    let per := map (col_means unit rows) (seq 0 (length configs)) in
    is_empty (w_group r) && is_empty (w_note r) && (w_change r =? 0)
    && forallb2 (geomean_cell_spec unit) per (w_metrics r)
    && if two && forallb (fun l => negb (is_empty l)) per then
         match w_metrics r with
         | [g0; g1] =>
             let pct := b64_mul (b64_sub (b64_div (m_mean g1) (m_mean g0)) b64_one) (b64_of_Z 100) in
             b64_same (w_pct r) pct && beq (w_delta r) (fmt_f true 2 pct ++ bs "%")
         | _ => false
         end
       else is_empty (w_delta r) && b64_eq (w_pct r) f_zero.
  (** a geomean of a single benchmark is that benchmark's mean and is not shown *)
  Definition geomean_wanted (unit : bytes) (rows : list row) : bool :=
    o_geomean o && existsb (fun i => (1 <? length (col_means unit rows i))%nat) (seq 0 (length configs)).

  Definition s_geo : bytes := bs "[Geo mean]".
  (** split a table's rows into benchmark rows and the optional geomean row *)
  Definition split_geo (rows : list row) : list row * option row :=
    match rev rows with
    | r :: rest => if o_geomean o && beq (w_bench r) s_geo then (rev rest, Some r) else (rows, None)
    | [] => (rows, None)
    end.

  Definition row_spec (unit : bytes) (r : row) : bool :=
    let '(g, b) := row_label r in
    forallb2 (cell_spec unit g b) configs (w_metrics r)
    && (if (1 <? length groups)%nat then true else is_empty (w_group r))
    && if two then delta_spec unit r else plain_spec r.

  Definition table_spec (unit : bytes) (t : table) : bool :=
    let '(rows, geo) := split_geo (t_rows t) in
    blist_eqb (t_configs t) configs && blist_eqb (t_groups t) groups
    && Bool.eqb (t_oldnew t) two
    && beq (t_metric t) (metric_of unit)
    && forallb (row_spec unit) rows
    && rows_order_spec unit rows
    && match geo with
       | Some r => geomean_wanted unit rows && geomean_row_spec unit rows r
       | None => negb (geomean_wanted unit rows)
       end.

  (** tables: one per unit that has rows, in first-appearance order of units *)
  Definition tables_spec (ts : list table) : bool :=
    forallb2 table_spec (filter (fun u => negb (is_empty (labels_spec u))) units) ts.

  Definition coll_spec (oc : obs_coll) : bool :=
    blist_eqb (oc_configs oc) configs && blist_eqb (oc_groups oc) groups && blist_eqb (oc_units oc) units
    && list_eqb bm_eqb (oc_benchmarks oc) (map (fun g => (g, benches_of_spec recs g)) groups).

  Definition prop_gen : bool :=
    negb (k_panic c) && coll_spec (k_coll c) && tables_spec (k_tables c)
    && fmt_ok (o_norange o) (k_tables c) (k_fmt c).
End Spec.

Definition prop_ok (c : case) : bool := prop_gen false c.
(** the judge of known finding C17_binary64_overflow *)
Definition known_ok (c : case) : bool := prop_gen true c.

(** a history: every Tables() call is judged as a report on the records added
    so far, and after the Format calls the collection still is the one those
    records prescribe and the tables are unchanged *)
Definition stage_prop_gen (relax : bool) (cs : case * hstage) : bool :=
  let '(c, st) := cs in
  prop_gen relax c
  && coll_spec c (hs_post_coll st)
  && list_eqb table_eqb (hs_post_tables st) (k_tables c).

Definition hist_prop_gen (relax : bool) (o : opts) (sts : list hstage) : bool :=
  forallb (stage_prop_gen relax) (stage_cases o [] sts).
Definition hist_prop_ok := hist_prop_gen false.
Definition hist_known_ok := hist_prop_gen true.

Definition run_case (s : sx) : N :=
  match decode_any s with
  | Some (KOne c) => code_of3 (corr_ok c) (prop_ok c) (known_ok c)
  | Some (KHist o sts) => code_of3 (hist_corr_ok o sts) (hist_prop_ok o sts) (hist_known_ok o sts)
  | None => code_undecodable
  end.
