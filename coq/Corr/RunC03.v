(** Correspondence evaluator for C03.

    A case is a numeric text together with what the real code did with it:
      float text:  (0 text (bits err) (bits err) reader)
                   verifbridge.ParseFloat(text,64), strconv.ParseFloat(text,64),
                   reading the file "BenchmarkX 1 <text> u"
      int text:    (1 text (val err) (val err) reader calls)
                   verifbridge.Atoi, strconv.Atoi, reading "BenchmarkX <text> 1 u",
                   calls = ((fn base bitSize val err stdval stderr) ...), fn 0 = ParseInt, 1 = ParseUint
    err: 0 none, 1 syntax, 2 range, 3 other.  reader: () not applicable (text is not
    one clean field), (0 v) the record's value / iteration count, (1) a syntax
    error record for the line, (2) anything else.

    [prop_ok]: what was observed equals the specification (Base/DecSpec.v)
    evaluated on the text, and equals the standard library's answer.
    [corr_ok]: the code-structured model (Model/Atof.v, Model/Atoi.v) gives the
    same observations. *)
From Perf Require Import Base.Bytes Base.Sx Base.B64 Base.SxF Base.DecSpec Model.Atoi Model.Atof.
Local Open Scope Z_scope.

Definition as_err (s : sx) : option num_err :=
  match s with
  | SZ 0 => Some ErrNone | SZ 1 => Some ErrSyntax | SZ 2 => Some ErrRange | SZ 3 => Some ErrOther
  | _ => None
  end.

Inductive robs (A : Type) := RNa | RVal (v : A) | RLineErr | ROtherObs.
Arguments RNa {A}. Arguments RVal {A} v. Arguments RLineErr {A}. Arguments ROtherObs {A}.

Definition as_robs {A} (f : sx -> option A) (s : sx) : option (robs A) :=
  match s with
  | SL [] => Some RNa
  | SL [SZ 0; v] => do x <- f v; Some (RVal x)
  | SL [SZ 1] => Some RLineErr
  | SL [SZ 2] => Some ROtherObs
  | _ => None
  end.

Record icall := mkIcall { ic_fn : Z; ic_base : Z; ic_bits : Z; ic_val : Z; ic_err : num_err;
                          ic_sval : Z; ic_serr : num_err }.

Definition as_icall (s : sx) : option icall :=
  match s with
  | SL [SZ fn; SZ b; SZ bits; SZ v; e; SZ sv; se] =>
      do e <- as_err e; do se <- as_err se; Some (mkIcall fn b bits v e sv se)
  | _ => None
  end.

Inductive case :=
| CFloat (text : bytes) (pf : b64 * num_err) (std : b64 * num_err) (rd : robs b64)
| CInt (text : bytes) (at_ : Z * num_err) (std : Z * num_err) (rd : robs Z) (calls : list icall).

Definition decode (s : sx) : option case :=
  match s with
  | SL [SZ 0; SB t; pf; st; rd] =>
      do pf <- as_pair as_f64 as_err pf;
      do st <- as_pair as_f64 as_err st;
      do rd <- as_robs as_f64 rd;
      Some (CFloat t pf st rd)
  | SL [SZ 1; SB t; a; st; rd; calls] =>
      do a <- as_pair as_z as_err a;
      do st <- as_pair as_z as_err st;
      do rd <- as_robs as_z rd;
      do calls <- as_list as_icall calls;
      Some (CInt t a st rd calls)
  | _ => None
  end.

Definition fres_eqb (a b : b64 * num_err) : bool :=
  b64_same (fst a) (fst b) && num_err_eqb (snd a) (snd b).
Definition zres_eqb (a b : Z * num_err) : bool :=
  Z.eqb (fst a) (fst b) && num_err_eqb (snd a) (snd b).

(** the reader reports the value exactly when the number is accepted, and a
    syntax error for the line otherwise *)
Definition reader_matches {A} (eqb : A -> A -> bool) (expect : A * num_err) (rd : robs A) : bool :=
  match rd with
  | RNa => true
  | RVal v => match snd expect with ErrNone => eqb v (fst expect) | _ => false end
  | RLineErr => match snd expect with ErrNone => false | _ => true end
  | ROtherObs => false
  end.

Definition is_err (e : num_err) : bool := negb (num_err_eqb e ErrNone).

(** observed integer result against [atoi_spec]: exact on integers (value, range
    error with the bound); a text that is not an integer must give an error (its
    kind is then pinned by the comparison with the standard library) *)
Definition int_obs_ok (text : bytes) (obs : Z * num_err) : bool :=
  match int_value text with
  | Some _ => zres_eqb obs (atoi_spec text)
  | None => is_err (snd obs)
  end.


(** agreement with the standard library on integers: same value when both
    accept, same bound when both report a range error; a text both reject may be
    rejected for different reasons (bytesconv tests the underscore rule before
    the base and before the digits, Go 1.23's strconv after them) *)
Definition zres_agree (a st : Z * num_err) : bool :=
  match snd a, snd st with
  | ErrNone, ErrNone | ErrRange, ErrRange => Z.eqb (fst a) (fst st)
  | ea, es => is_err ea && is_err es
  end.

(** number of significant digits a decimal text has before its decimal point *)
Fixpoint drop_leading_zeros (s : bytes) : bytes :=
  match s with c :: r => if Byte.eqb c c_zero then drop_leading_zeros r else s | [] => [] end.
Definition int_sig_digits (t : bytes) : nat :=
  let '(_, r) := split_sign t in
  match hex_prefix r with
  | Some _ => O
  | None =>
      let '(ip, _) := break (fun c => Byte.eqb c c_dot || is_char_ci 101 c) r in
      length (drop_leading_zeros (drop_underscores ip))
  end.
(** Go 1.23's strconv shares the scanner defect repaired by
    hooks/fix_c03_decimal_set_dropped_digits.diff in its own fall-back path
    (e.g. "1<800 zeros>e-800" parses as 0.1), so it is no reference for texts with
    more than 800 significant integer digits *)
Definition std_reliable (t : bytes) : bool := Nat.leb (int_sig_digits t) 800.

Definition prop_ok (c : case) : bool :=
  match c with
  | CFloat t pf st rd =>
      let sp := parse_float_spec t in
      num_err_eqb (snd pf) (snd sp)
      && (match snd sp with ErrSyntax => true | _ => b64_same (fst pf) (fst sp) end)
      && (if std_reliable t then fres_eqb pf st else true)
      && reader_matches b64_same sp rd
  | CInt t a st rd calls =>
      int_obs_ok t a
      && zres_agree a st
      && reader_matches Z.eqb (atoi_spec t) rd
      && forallb (fun ic =>
                    zres_agree (ic_val ic, ic_err ic) (ic_sval ic, ic_serr ic)
                    && (if (ic_fn ic =? 0) && (ic_base ic =? 10) && ((ic_bits ic =? 0) || (ic_bits ic =? 64))
                        then int_obs_ok t (ic_val ic, ic_err ic) else true)) calls
  end.

(** [reader_atof] with the full parser's answer supplied (so that it is not
    evaluated twice per case) *)
Definition reader_atof_with (pf : b64 * num_err) (x : bytes) : b64 * num_err :=
  match fast_loop x 0 with
  | Some val => (b64_of_Z val, ErrNone)
  | None => pf
  end.
Lemma reader_atof_with_eq x : reader_atof_with (parse_float x) x = reader_atof x.
Proof. reflexivity. Qed.

Definition corr_ok (c : case) : bool :=
  match c with
  | CFloat t pf st rd =>
      let m := parse_float t in                    (* evaluated once *)
      fres_eqb m pf
      && reader_matches b64_same (reader_atof_with m t) rd
  | CInt t a st rd calls =>
      zres_eqb (ires_pair (atoi t)) a
      && reader_matches Z.eqb (ires_pair (atoi t)) rd
      && forallb (fun ic =>
                    let m := if ic_fn ic =? 0 then parse_int t (ic_base ic) (ic_bits ic)
                             else parse_uint t (ic_base ic) (ic_bits ic) in
                    zres_eqb (ires_pair m) (ic_val ic, ic_err ic)) calls
  end.

Definition run_case (s : sx) : N :=
  match decode s with
  | Some c => code_of (corr_ok c) (prop_ok c)
  | None => code_undecodable
  end.
