(** Correspondence evaluator for C03.

    A case is a numeric text together with what the real code did with it:
      float text:  (0 text (bits err) (bits err) reader)
                   verifbridge.ParseFloat(text,64), strconv.ParseFloat(text,64),
                   reading the file "BenchmarkX 1 <text> u"
      int text:    (1 text (val err) (val err) reader calls)
                   verifbridge.Atoi, strconv.Atoi, reading "BenchmarkX <text> 1 u",
                   calls = ((fn base bitSize val err stdval stderr) ...), fn 0 = ParseInt, 1 = ParseUint
    err: 0 none, 1 syntax, 2 range, 3 other.  reader: () not applicable (text is not
    one clean field), (0 v) the record's value / iteration count, (1) a syntax
    error record for the line, (2) anything else.

    [prop_ok]: what was observed equals the specification (Base/DecSpec.v)
    evaluated on the text, and equals the standard library's answer.
    [corr_ok]: the code-structured model (Model/Atof.v, Model/Atoi.v) gives the
    same observations, and so does the model whose slow fall-back is the
    transcription of decimal.go / floatBits (Model/Decimal.v, [parse_float_code]):
    on every text that reaches the slow path the transcribed conversion's bits and
    error are compared with the implementation's (here) and, through [prop_ok] on
    the same observation, with the specification's.

      tables:      (2 ((delta cutoff) ...) (powtab ...) (ndigits mantbits expbits bias))
                   leftcheats and powtab as written in /repo's decimal.go / atof.go,
                   the buffer size and float64info (read from the source text by the
                   generator): [corr_ok] = they are the model's tables, [prop_ok] =
                   cutoff k = the digits of 5^k and delta k = the number of digits of
                   2^k, which is what Proofs/DecimalShift.v needs of them.

      decimal ops: (3 op dec k res) (4 dec n) (5 u dec) (6 dec bits ovf) (7 text ok dec)
                   only produced when the harness is built with the tag verifdecimal
                   against a tree that has the bridge extension of hooks/ installed:
                   one operation of decimal.go (0 leftShift 1 rightShift 2 Shift 3 Round
                   4 RoundDown 5 RoundUp; RoundedInteger; Assign; floatBits; set) on a
                   generated decimal dec = (digits dp neg trunc). [corr_ok] = the
                   transcription computes the same decimal / number; [prop_ok] = the
                   observed result meets the specification of the operation (exact
                   scaling up to the digits beyond the 800th with the trunc rule,
                   round-half-even with sticky, digits of u, rn_b64). *)
From Perf Require Import Base.Bytes Base.Sx Base.B64 Base.SxF Base.DecSpec Model.Atoi Model.Atof Model.Decimal.
Local Open Scope Z_scope.

Definition as_err (s : sx) : option num_err :=
  match s with
  | SZ 0 => Some ErrNone | SZ 1 => Some ErrSyntax | SZ 2 => Some ErrRange | SZ 3 => Some ErrOther
  | _ => None
  end.

Inductive robs (A : Type) := RNa | RVal (v : A) | RLineErr | ROtherObs.
Arguments RNa {A}. Arguments RVal {A} v. Arguments RLineErr {A}. Arguments ROtherObs {A}.

Definition as_robs {A} (f : sx -> option A) (s : sx) : option (robs A) :=
  match s with
  | SL [] => Some RNa
  | SL [SZ 0; v] => do x <- f v; Some (RVal x)
  | SL [SZ 1] => Some RLineErr
  | SL [SZ 2] => Some ROtherObs
  | _ => None
  end.

Record icall := mkIcall { ic_fn : Z; ic_base : Z; ic_bits : Z; ic_val : Z; ic_err : num_err;
                          ic_sval : Z; ic_serr : num_err }.

Definition as_icall (s : sx) : option icall :=
  match s with
  | SL [SZ fn; SZ b; SZ bits; SZ v; e; SZ sv; se] =>
      do e <- as_err e; do se <- as_err se; Some (mkIcall fn b bits v e sv se)
  | _ => None
  end.

Inductive case :=
| CFloat (text : bytes) (pf : b64 * num_err) (std : b64 * num_err) (rd : robs b64)
| CInt (text : bytes) (at_ : Z * num_err) (std : Z * num_err) (rd : robs Z) (calls : list icall)
| CTables (cheats : list (Z * bytes)) (pt : list Z) (consts : list Z)
| CDecOp (op : Z) (a : decimal) (k : Z) (res : option decimal)
| CDecRI (a : decimal) (n : Z)
| CDecAssign (u : Z) (res : decimal)
| CDecBits (a : decimal) (res : option (Z * bool))
| CDecSet (text : bytes) (ok : bool) (res : decimal).

Definition as_bool (s : sx) : option bool :=
  match s with SZ 0 => Some false | SZ 1 => Some true | _ => None end.

Definition as_decimal (s : sx) : option decimal :=
  match s with
  | SL [SB ds; SZ dp; ng; tr] => do ng <- as_bool ng; do tr <- as_bool tr; Some (mkDecimal (digs ds) dp ng tr)
  | _ => None
  end.

Definition as_cheat (s : sx) : option (Z * bytes) :=
  match s with SL [SZ d; SB c] => Some (d, c) | _ => None end.

Definition decode (s : sx) : option case :=
  match s with
  | SL [SZ 0; SB t; pf; st; rd] =>
      do pf <- as_pair as_f64 as_err pf;
      do st <- as_pair as_f64 as_err st;
      do rd <- as_robs as_f64 rd;
      Some (CFloat t pf st rd)
  | SL [SZ 1; SB t; a; st; rd; calls] =>
      do a <- as_pair as_z as_err a;
      do st <- as_pair as_z as_err st;
      do rd <- as_robs as_z rd;
      do calls <- as_list as_icall calls;
      Some (CInt t a st rd calls)
  | SL [SZ 2; ch; pt; cs] =>
      do ch <- as_list as_cheat ch;
      do pt <- as_list as_z pt;
      do cs <- as_list as_z cs;
      Some (CTables ch pt cs)
  | SL [SZ 3; SZ op; a; SZ k; SL []] => do a <- as_decimal a; Some (CDecOp op a k None)
  | SL [SZ 3; SZ op; a; SZ k; r] => do a <- as_decimal a; do r <- as_decimal r; Some (CDecOp op a k (Some r))
  | SL [SZ 4; a; SZ n] => do a <- as_decimal a; Some (CDecRI a n)
  | SL [SZ 5; SZ u; r] => do r <- as_decimal r; Some (CDecAssign u r)
  | SL [SZ 6; a] => do a <- as_decimal a; Some (CDecBits a None)
  | SL [SZ 6; a; SZ b; o] => do a <- as_decimal a; do o <- as_bool o; Some (CDecBits a (Some (b, o)))
  | SL [SZ 7; SB t; ok; r] => do ok <- as_bool ok; do r <- as_decimal r; Some (CDecSet t ok r)
  | _ => None
  end.

Definition fres_eqb (a b : b64 * num_err) : bool :=
  b64_same (fst a) (fst b) && num_err_eqb (snd a) (snd b).
Definition zres_eqb (a b : Z * num_err) : bool :=
  Z.eqb (fst a) (fst b) && num_err_eqb (snd a) (snd b).

(** the reader reports the value exactly when the number is accepted, and a
    syntax error for the line otherwise *)
Definition reader_matches {A} (eqb : A -> A -> bool) (expect : A * num_err) (rd : robs A) : bool :=
  match rd with
  | RNa => true
  | RVal v => match snd expect with ErrNone => eqb v (fst expect) | _ => false end
  | RLineErr => match snd expect with ErrNone => false | _ => true end
  | ROtherObs => false
  end.

Definition is_err (e : num_err) : bool := negb (num_err_eqb e ErrNone).

(** observed integer result against [atoi_spec]: exact on integers (value, range
    error with the bound); a text that is not an integer must give an error (its
    kind is then pinned by the comparison with the standard library) *)
Definition int_obs_ok (text : bytes) (obs : Z * num_err) : bool :=
  match int_value text with
  | Some _ => zres_eqb obs (atoi_spec text)
  | None => is_err (snd obs)
  end.


(** agreement with the standard library on integers: same value when both
    accept, same bound when both report a range error; a text both reject may be
    rejected for different reasons (bytesconv tests the underscore rule before
    the base and before the digits, Go 1.23's strconv after them) *)
Definition zres_agree (a st : Z * num_err) : bool :=
  match snd a, snd st with
  | ErrNone, ErrNone | ErrRange, ErrRange => Z.eqb (fst a) (fst st)
  | ea, es => is_err ea && is_err es
  end.

(** number of significant digits a decimal text has before its decimal point *)
Fixpoint drop_leading_zeros (s : bytes) : bytes :=
  match s with c :: r => if Byte.eqb c c_zero then drop_leading_zeros r else s | [] => [] end.
Definition int_sig_digits (t : bytes) : nat :=
  let '(_, r) := split_sign t in
  match hex_prefix r with
  | Some _ => O
  | None =>
      let '(ip, _) := break (fun c => Byte.eqb c c_dot || is_char_ci 101 c) r in
      length (drop_leading_zeros (drop_underscores ip))
  end.
(** Go 1.23's strconv shares the scanner defect repaired by
    hooks/fix_c03_decimal_set_dropped_digits.diff in its own fall-back path
    (e.g. "1<800 zeros>e-800" parses as 0.1), so it is no reference for texts with
    more than 800 significant integer digits *)
Definition std_reliable (t : bytes) : bool := Nat.leb (int_sig_digits t) 800.

(** what the shift proofs need of the cheat sheet: entry k holds the number of
    decimal digits of 2^k and the decimal digits of 5^k (entry 0: 0 and "") *)
Fixpoint cheats_ok (k : Z) (ch : list (Z * bytes)) : bool :=
  match ch with
  | [] => true
  | (d, c) :: r =>
      (if k =? 0 then (d =? 0) && Nat.eqb (length c) 0
       else beq c (dec_of_Z (5 ^ k)) && (d =? Z.of_nat (length (dec_of_Z (2 ^ k)))))
      && cheats_ok (k + 1) r
  end.

Fixpoint cheats_eqb (a : list (Z * bytes)) (b : list (Z * list Z)) : bool :=
  match a, b with
  | [], [] => true
  | (d, c) :: a', (d', c') :: b' => (d =? d') && list_eqb Z.eqb (digs c) c' && cheats_eqb a' b'
  | _, _ => false
  end.

(** *** specifications of the decimal operations, on integers *)
Definition decimal_eqb (a b : decimal) : bool :=
  list_eqb Z.eqb (dc_d a) (dc_d b) && (dc_dp a =? dc_dp b) && Bool.eqb (dc_neg a) (dc_neg b)
  && Bool.eqb (dc_trunc a) (dc_trunc b).

Definition dnum (a : decimal) : Z := fold_left (fun x c => x * 10 + c) (dc_d a) 0.
Definition dexp (a : decimal) : Z := dc_dp a - dc_nd a.
Definition digits_wf (a : decimal) : bool :=
  forallb (fun c => (0 <=? c) && (c <=? 9)) (dc_d a) && (dc_nd a <=? 800)
  && match dc_d a with c :: _ => negb (c =? 0) | [] => false end.

(** a' = a * 2^k up to what is lost beyond the 800th digit of a' (one unit at most when
    [single]), trunc set exactly when something is lost *)
Definition shift_spec_ok (single : bool) (a a' : decimal) (k : Z) : bool :=
  let m := Z.min (dexp a) (dexp a') in
  let exact_num := dnum a * 10 ^ (dexp a - m) * (if 0 <=? k then 2 ^ k else 1) in   (* times 2^|k| below *)
  let got := dnum a' * 10 ^ (dexp a' - m) * (if 0 <=? k then 1 else 2 ^ (- k)) in
  let ulp := (if 0 <=? dc_dp a' - 800 - m then 10 ^ (dc_dp a' - 800 - m) else 1) * (if 0 <=? k then 1 else 2 ^ (- k)) in
  let lost := exact_num - got in
  digits_wf a' && (0 <=? lost) && (if single then lost <? ulp else true)
  && Bool.eqb (dc_trunc a') (dc_trunc a || (0 <? lost)) && Bool.eqb (dc_neg a') (dc_neg a)
  && negb (last (dc_d a') 0 =? 0).

(** round-half-even of dnum a * 10^e at the unit 10^u (u >= e), sticky = trunc *)
Definition rne_at (a : decimal) (u : Z) : Z :=
  let f := u - dexp a in
  if f <=? 0 then dnum a * 10 ^ (- f)
  else let q := dnum a / 10 ^ f in let r := dnum a mod 10 ^ f in
       match 2 * r ?= 10 ^ f with
       | Lt => q | Gt => q + 1
       | Eq => if dc_trunc a then q + 1 else if Z.even q then q else q + 1
       end.

Definition same_value (n e : Z) (a' : decimal) : bool :=      (* n * 10^e = the number a' denotes *)
  let m := Z.min e (dexp a') in n * 10 ^ (e - m) =? dnum a' * 10 ^ (dexp a' - m).

Definition dec_of_decimal (a : decimal) : dec :=
  mkDec (rev (map digit_byte (dc_d a))) (dc_nd a) (dc_dp a) (dc_neg a) (dc_trunc a).

Definition bits_res_eqb (r : option (Z * bool)) (v : b64 * num_err) : bool :=
  match r with
  | Some (b, o) => b64_same (b64_of_bits b) (fst v) && num_err_eqb (if o then ErrRange else ErrNone) (snd v)
  | None => false
  end.

Definition prop_ok (c : case) : bool :=
  match c with
  | CFloat t pf st rd =>
      let sp := parse_float_spec t in
      num_err_eqb (snd pf) (snd sp)
      && (match snd sp with ErrSyntax => true | _ => b64_same (fst pf) (fst sp) end)
      && (if std_reliable t then fres_eqb pf st else true)
      && reader_matches b64_same sp rd
  | CInt t a st rd calls =>
      int_obs_ok t a
      && zres_agree a st
      && reader_matches Z.eqb (atoi_spec t) rd
      && forallb (fun ic =>
                    zres_agree (ic_val ic, ic_err ic) (ic_sval ic, ic_serr ic)
                    && (if (ic_fn ic =? 0) && (ic_base ic =? 10) && ((ic_bits ic =? 0) || (ic_bits ic =? 64))
                        then int_obs_ok t (ic_val ic, ic_err ic) else true)) calls
  | CTables ch pt cs => cheats_ok 0 ch
  | CDecOp op a k (Some r) =>
      if negb (digits_wf a) then true else
      if (op =? 0) || (op =? 1) then shift_spec_ok true a r (if op =? 0 then k else - k)
      else if op =? 2 then (if k =? 0 then decimal_eqb r a else shift_spec_ok false a r k)
      else if (k <? 0) || (dc_nd a <=? k) then decimal_eqb r a
      else if op =? 4 then same_value (dnum a / 10 ^ (dc_nd a - k)) (dc_dp a - k) r || Nat.eqb (length (dc_d r)) 0
      else if op =? 5 then same_value (dnum a / 10 ^ (dc_nd a - k) + 1) (dc_dp a - k) r
      else if negb (last (dc_d a) 0 =? 0) then same_value (rne_at a (dc_dp a - k)) (dc_dp a - k) r || Nat.eqb (length (dc_d r)) 0
      else true
  | CDecOp _ _ _ None => false
  | CDecRI a n =>
      if digits_wf a && negb (last (dc_d a) 0 =? 0) && (dc_dp a <=? 19) then n =? rne_at a 0 else true
  | CDecAssign u r => (if u =? 0 then Nat.eqb (length (dc_d r)) 0 else same_value u 0 r && digits_wf r && negb (last (dc_d r) 0 =? 0))
  | CDecBits a r =>
      if digits_wf a && (if dc_trunc a then dc_nd a =? 800 else true)
      then bits_res_eqb r (dec_float_bits (dec_of_decimal a)) else true
  | CDecSet t ok r => true
  end.

(** [reader_atof] with the full parser's answer supplied (so that it is not
    evaluated twice per case) *)
Definition reader_atof_with (pf : b64 * num_err) (x : bytes) : b64 * num_err :=
  match fast_loop x 0 with
  | Some val => (b64_of_Z val, ErrNone)
  | None => pf
  end.
Lemma reader_atof_with_eq x : reader_atof_with (parse_float x) x = reader_atof x.
Proof. reflexivity. Qed.

Definition corr_ok (c : case) : bool :=
  match c with
  | CFloat t pf st rd =>
      let m := parse_float t in                    (* evaluated once *)
      fres_eqb m pf
      && fres_eqb (parse_float_code t) pf          (* slow path = transcribed decimal.go *)
      && reader_matches b64_same (reader_atof_with m t) rd
  | CInt t a st rd calls =>
      zres_eqb (ires_pair (atoi t)) a
      && reader_matches Z.eqb (ires_pair (atoi t)) rd
      && forallb (fun ic =>
                    let m := if ic_fn ic =? 0 then parse_int t (ic_base ic) (ic_bits ic)
                             else parse_uint t (ic_base ic) (ic_bits ic) in
                    zres_eqb (ires_pair m) (ic_val ic, ic_err ic)) calls
  | CTables ch pt cs =>
      cheats_eqb ch leftcheats
      && list_eqb Z.eqb pt powtab
      && list_eqb Z.eqb cs [max_digits; flt_mantbits; flt_expbits; flt_bias]
  | CDecOp op a k res =>
      let m : option decimal :=
        if op =? 0 then leftShift a k else if op =? 1 then rightShift a k else if op =? 2 then shift a k
        else if op =? 3 then Some (round a k) else if op =? 4 then Some (roundDown a k) else Some (roundUp a k) in
      (* the transcription is partial where the Go code reads stale bytes: only on ill-formed input *)
      match m, res with
      | Some x, Some y => decimal_eqb x y
      | None, _ => negb (digits_wf a)
      | Some _, None => false
      end
  | CDecRI a n => roundedInteger a =? n
  | CDecAssign u r => decimal_eqb (assign (mkDecimal [] 0 false false) u) r
  | CDecBits a r =>
      match floatBits a, r with
      | Some (b, o), Some (b', o') => (b =? b') && Bool.eqb o o'
      | None, _ => negb (digits_wf a)
      | Some _, None => false
      end
  | CDecSet t ok r =>
      match dec_set t with
      | Some d => ok && decimal_eqb (decimal_of_dec d) r
      | None => negb ok
      end
  end.

Definition run_case (s : sx) : N :=
  match decode s with
  | Some c => code_of (corr_ok c) (prop_ok c)
  | None => code_undecodable
  end.
