(** Correspondence evaluator for C08 (and the decoder/driver shared with C09):
    streams of ProjectionParser / Projection API calls run on the real code,
    with the observed Keys (as first-appearance numbers, i.e. the == classes),
    Key.Get per flattened field, Key.String, Fields / FlattenedFields names and
    NonSingularFields; compared with the model, and checked directly against the
    specification predicates of Properties/C08.v.

    The model the real code is compared with is the REPAIRED one
    (Model/ProjectionTx.v, hooks/fix_c08_failed_parse_rollback.diff): a Parse
    call that returns an error leaves no trace in the parser. *)
From Perf Require Import Base.Bytes Base.Sx Model.Name Model.Extract Model.Key Model.Projection Model.ProjectionTx.

(** ** case format *)
Record fobs := mkFO { fo_name : bytes; fo_tuple : bool; fo_subs : list bytes }.
Record kobs := mkKO { ko_gets : list bytes; ko_string : bytes }.
Record pobs := mkPO {
  po_fields : list fobs;
  po_flat : list bytes;
  po_keys : list kobs;                            (* by key number *)
  po_nonsing : list (list nat * list nat);        (* key numbers -> flattened positions *)
  po_less : list (list bool);                     (* C09: Less matrix over key numbers *)
  po_sorts : list (list nat * list nat)           (* C09: SortKeys input -> output *)
}.

Record expr := mkE { e_unit : bool; e_fields : list pspec }.

Record prun := mkRun { pr_perm : list nat; pr_outs : list (list Z); pr_obs : list pobs }.

Inductive case :=
| CProto (exprs : list expr) (stream : list result) (runs : list prun) (oracle : sx)
| CFree (ops : list op) (outs : list (list Z)) (obs : list pobs) (oracle : sx).

Definition as_pspec (s : sx) : option pspec :=
  match s with
  | SL [SB k; SB o; fx] => do fx <- as_list as_b fx; Some (mkPS k o fx)
  | _ => None
  end.

Definition as_expr (s : sx) : option expr :=
  match s with
  | SL [wu; fs; SB _] => do wu <- as_bool wu; do fs <- as_list as_pspec fs; Some (mkE wu fs)
  | _ => None
  end.

Definition as_cfg (s : sx) : option cfg :=
  match s with
  | SL [SB k; SB v; f] => do f <- as_bool f; Some (mkCfg k v f)
  | _ => None
  end.

Definition as_result (s : sx) : option result :=
  match s with
  | SL [SB n; c; u] => do c <- as_list as_cfg c; do u <- as_list as_b u; Some (mkR n c u)
  | _ => None
  end.

Definition as_op (s : sx) : option op :=
  match s with
  | SL [SZ 0; wu; fs] => do wu <- as_bool wu; do fs <- as_list as_pspec fs; Some (OpParse wu fs)
  | SL [SZ 1] => Some OpResidue
  | SL [SZ 2; pi; r] => do pi <- as_nat pi; do r <- as_result r; Some (OpProject pi r)
  | SL [SZ 3; pi; r] => do pi <- as_nat pi; do r <- as_result r; Some (OpProjectValues pi r)
  | _ => None
  end.

Definition as_fobs (s : sx) : option fobs :=
  match s with
  | SL [SB n; t; subs] => do t <- as_bool t; do subs <- as_list as_b subs; Some (mkFO n t subs)
  | _ => None
  end.

Definition as_kobs (s : sx) : option kobs :=
  match s with
  | SL [g; SB str] => do g <- as_list as_b g; Some (mkKO g str)
  | _ => None
  end.

Definition as_pobs (s : sx) : option pobs :=
  match s with
  | SL [f; fl; k; ns; le; so] =>
      do f <- as_list as_fobs f;
      do fl <- as_list as_b fl;
      do k <- as_list as_kobs k;
      do ns <- as_list (as_pair (as_list as_nat) (as_list as_nat)) ns;
      do le <- as_list (as_list as_bool) le;
      do so <- as_list (as_pair (as_list as_nat) (as_list as_nat)) so;
      Some (mkPO f fl k ns le so)
  | _ => None
  end.

Definition as_outs (s : sx) : option (list (list Z)) := as_list (as_list as_z) s.

Definition as_prun (s : sx) : option prun :=
  match s with
  | SL [pm; outs; obs] =>
      do pm <- as_list as_nat pm; do outs <- as_outs outs; do obs <- as_list as_pobs obs;
      Some (mkRun pm outs obs)
  | _ => None
  end.

Definition decode (s : sx) : option case :=
  match s with
  | SL [SZ 0; ex; st; runs; orc] =>
      do ex <- as_list as_expr ex; do st <- as_list as_result st; do runs <- as_list as_prun runs;
      Some (CProto ex st runs orc)
  | SL [SZ 1; ops; outs; obs; orc] =>
      do ops <- as_list as_op ops; do outs <- as_outs outs; do obs <- as_list as_pobs obs;
      Some (CFree ops outs obs orc)
  | _ => None
  end.

(** ** the operations of a protocol run: all Parse calls in the order [perm]
    (repetitions allowed), Residue, then every result through every expression's
    projection (the last one parsed for it) and through the residue. *)
Fixpoint last_pos (perm : list nat) (e : nat) (i : nat) (acc : nat) : nat :=
  match perm with
  | [] => acc
  | x :: perm' => last_pos perm' e (S i) (if Nat.eqb x e then i else acc)
  end.
Definition pidx (perm : list nat) (e : nat) : nat := last_pos perm e 0 0.

Definition proto_ops (exprs : list expr) (stream : list result) (perm : list nat) : list op :=
  map (fun e => match nth_error exprs e with
                | Some x => OpParse (e_unit x) (e_fields x)
                | None => OpResidue end) perm
  ++ [OpResidue]
  ++ flat_map (fun r =>
       map (fun e => match nth_error exprs e with
                     | Some x => if e_unit x then OpProjectValues (pidx perm e) r
                                 else OpProject (pidx perm e) r
                     | None => OpResidue end) (seq 0 (length exprs))
       ++ [OpProject (length perm) r]) stream.

(** ** model observations *)
Definition out_code (o : out) : list Z :=
  match o with
  | OutParse b => [if b then 1%Z else 0%Z]
  | OutNone => []
  | OutKeys ks => map Z.of_nat ks
  end.

Definition obs_fields (p : projection) : list fobs :=
  map (fun t => match t with
                | TLeaf i => mkFO (field_name p i) false []
                | TGroup n s => mkFO n true (map (field_name p) s) end) (p_top p).

Definition obs_keys (p : projection) : list kobs :=
  let fl := flat p in
  let fn := flat_named p in
  map (fun vals => mkKO (map (vals_get vals) fl) (key_string true fn vals)) (p_keys p).

Fixpoint pos_of (x : nat) (l : list nat) (i : nat) : nat :=
  match l with [] => i | y :: l' => if Nat.eqb x y then i else pos_of x l' (S i) end.

Definition obs_nonsing (p : projection) (ks : list nat) : list nat :=
  let fl := flat p in
  map (fun idx => pos_of idx fl 0) (nonsingular fl (map (key_vals p) ks)).

Definition nat_list_eqb := list_eqb Nat.eqb.
Definition blist_eqb := list_eqb beq.
Definition zll_eqb := list_eqb (list_eqb Z.eqb).

Definition fobs_eqb (a b : fobs) : bool :=
  beq (fo_name a) (fo_name b) && Bool.eqb (fo_tuple a) (fo_tuple b) && blist_eqb (fo_subs a) (fo_subs b).
Definition kobs_eqb (a b : kobs) : bool :=
  blist_eqb (ko_gets a) (ko_gets b) && beq (ko_string a) (ko_string b).

(** The harness numbers the Keys of a projection by first appearance among the
    Keys the calls RETURNED; the model numbers them by creation. ProjectValues
    of a result without values through a projection without .unit interns the
    row and returns nothing, so the numberings can differ: [seen], per
    projection, lists the model's key indices in order of first appearance. *)
Fixpoint pos_in (x : nat) (l : list nat) (i : nat) : option nat :=
  match l with [] => None | y :: l' => if Nat.eqb x y then Some i else pos_in x l' (S i) end.

Definition see (l : list nat) (k : nat) : list nat * nat :=
  match pos_in k l 0 with Some i => (l, i) | None => (l ++ [k], length l) end.

Fixpoint see_all (l : list nat) (ks : list nat) : list nat * list nat :=
  match ks with
  | [] => (l, [])
  | k :: ks' => let '(l1, i) := see l k in let '(l2, r) := see_all l1 ks' in (l2, i :: r)
  end.

Fixpoint put_nth {A} (d : A) (n : nat) (v : A) (l : list A) : list A :=   (* pads with d *)
  match n, l with
  | O, [] => [v]
  | O, _ :: t => v :: t
  | S n', [] => d :: put_nth d n' v []
  | S n', x :: t => x :: put_nth d n' v t
  end.

Definition op_pi (o : op) : option nat :=
  match o with OpProject pi _ | OpProjectValues pi _ => Some pi | _ => None end.

Fixpoint renumber (ops : list op) (mo : list out) (seen : list (list nat)) : list (list Z) * list (list nat) :=
  match ops, mo with
  | o :: ops', x :: mo' =>
      match x, op_pi o with
      | OutKeys ks, Some pi =>
          let '(l, r) := see_all (nth pi seen []) ks in
          let '(rest, seen') := renumber ops' mo' (put_nth [] pi l seen) in
          (map Z.of_nat r :: rest, seen')
      | _, _ => let '(rest, seen') := renumber ops' mo' seen in (out_code x :: rest, seen')
      end
  | _, _ => ([], seen)
  end.

(** model vs observed, one projection (C08 part); [sn]: the model's key index
    of each observed key number *)
Definition proj_corr (p : projection) (sn : list nat) (o : pobs) : bool :=
  list_eqb fobs_eqb (obs_fields p) (po_fields o)
  && blist_eqb (map (field_name p) (flat p)) (po_flat o)
  && list_eqb kobs_eqb (map (fun k => nth k (obs_keys p) (mkKO [] [])) sn) (po_keys o)
  && forallb (fun '(ks, got) => nat_list_eqb (obs_nonsing p (map (fun k => nth k sn O) ks)) got) (po_nonsing o).

Fixpoint forallb2 {A B} (f : A -> B -> bool) (a : list A) (b : list B) : bool :=
  match a, b with
  | [], [] => true
  | x :: a', y :: b' => f x y && forallb2 f a' b'
  | _, _ => false
  end.

Definition run_corr_with (run : world -> list op -> world * list out)
    (ops : list op) (outs : list (list Z)) (obs : list pobs) : bool :=
  let '(w, mo) := run new_world ops in
  let '(codes, seen) := renumber ops mo [] in
  zll_eqb codes outs
  && forallb2 (fun pi o => match nth_error (w_projs w) pi with
                           | Some p => proj_corr p (nth pi seen []) o
                           | None => false end)
              (seq 0 (length (w_projs w))) obs.

(** the repaired Parse: a failing call is rolled back (streams without failing
    Parse calls: the same as [run_ops], Proofs/ProjectionTx.v run_ops_tx_same) *)
Definition run_corr := run_corr_with run_ops_tx.

(** the observations a model run would hand to the judge (used by the examples
    of Properties/C08.v to evaluate [free_ok] on the unrepaired and on the
    repaired model) *)
Definition model_obs (run : world -> list op -> world * list out) (ops : list op)
  : list (list Z) * list pobs :=
  let '(w, mo) := run new_world ops in
  let '(codes, seen) := renumber ops mo [] in
  (codes,
   map (fun pi => match nth_error (w_projs w) pi with
                  | Some p => mkPO (obs_fields p) (map (field_name p) (flat p))
                                   (map (fun k => nth k (obs_keys p) (mkKO [] [])) (nth pi seen []))
                                   [] [] []
                  | None => mkPO [] [] [] [] [] []
                  end) (seq 0 (length (w_projs w)))).

Definition corr_ok (c : case) : bool :=
  match c with
  | CFree ops outs obs _ => run_corr ops outs obs
  | CProto ex st runs _ =>
      forallb (fun r => run_corr (proto_ops ex st (pr_perm r)) (pr_outs r) (pr_obs r)) runs
  end.

(** ** specification predicates on the implementation's observed output *)

(** G1: different Keys differ in some field of the final field set *)
Fixpoint pairwise_distinct (l : list (list bytes)) : bool :=
  match l with
  | [] => true
  | x :: l' => negb (existsb (blist_eqb x) l') && pairwise_distinct l'
  end.

(** G2: NonSingularFields, declaratively from the observed Get values *)
Definition spec_nonsing (o : pobs) (ks : list nat) : list nat :=
  match map (fun k => match nth_error (po_keys o) k with Some x => ko_gets x | None => [] end) ks with
  | [] | [_] => []
  | g0 :: rest =>
      filter (fun i => existsb (fun g => negb (beq (nth i g []) (nth i g0 []))) rest)
             (seq 0 (length (po_flat o)))
  end.

(** G4: FlattenedFields is Fields with tuples expanded *)
Definition spec_flat (o : pobs) : list bytes :=
  flat_map (fun f => if fo_tuple f then fo_subs f else [fo_name f]) (po_fields o).

(** Key.String from the observed Get values *)
Fixpoint spec_string (names gets : list bytes) (acc : bytes) : bytes :=
  match names, gets with
  | n :: names', g :: gets' =>
      if is_nil g then spec_string names' gets' acc
      else spec_string names' gets' ((if is_nil acc then acc else acc ++ [c_space]) ++ n ++ [c_colon] ++ g)
  | _, _ => acc
  end.

(** The property says nothing about the TEXT Key.String returns, so the
    specification predicate does not look at it (the exact text, "name:value"
    pairs joined by one blank, is compared with the model in [corr_ok] only;
    [spec_string] is kept for that documentation purpose). *)
Definition generic_ok (o : pobs) : bool :=
  pairwise_distinct (map ko_gets (po_keys o))
  && blist_eqb (spec_flat o) (po_flat o)
  && forallb (fun k => Nat.eqb (length (ko_gets k)) (length (po_flat o))) (po_keys o)
  && forallb (fun '(ks, got) => nat_list_eqb (spec_nonsing o ks) got) (po_nonsing o).

(** exclusions: every specific key named in any expression *)
Definition is_group_key (k : bytes) : bool := beq k key_config || beq k key_fullname || beq k key_unit.
Definition all_keys (ex : list expr) : list bytes :=
  filter (fun k => negb (is_group_key k)) (map ps_key (flat_map e_fields ex)).
Definition excl_full (ex : list expr) : list bytes := filter is_fullname_key (all_keys ex).
Definition excl_cfg (ex : list expr) : list bytes :=
  filter (fun k => negb (is_fullname_key k)) (all_keys ex).

Definition file_val (r : result) (k : bytes) : bytes :=
  match cfg_lookup (r_cfg r) k with
  | Some x => if c_file x then c_val x else []
  | None => []
  end.
Definition file_keys (r : result) : list bytes := map c_key (filter c_file (r_cfg r)).

Fixpoint dedup (l : list bytes) (seen : list bytes) : list bytes :=
  match l with
  | [] => []
  | x :: l' => if mem x seen then dedup l' seen else x :: dedup l' (x :: seen)
  end.

(** P2: the sub-fields of a .config group: the file keys seen, in order of first
    appearance, minus every specifically projected key *)
Definition spec_subs (ex : list expr) (stream : list result) : list bytes :=
  dedup (filter (fun k => negb (mem k (excl_cfg ex))) (flat_map file_keys stream)) [].

(** the value tuple a result must have under (the top-level fields of) one
    projection, over its final field set *)
Fixpoint spec_tuple (ex : list expr) (fs : list pspec) (fo : list fobs) (r : result) : option (list bytes) :=
  match fs, fo with
  | [], [] => Some []
  | s :: fs', f :: fo' =>
      do rest <- spec_tuple ex fs' fo' r;
      if beq (ps_key s) key_config then
        if fo_tuple f then Some (map (file_val r) (fo_subs f) ++ rest) else None
      else if fo_tuple f then None
      else if negb (beq (fo_name f) (ps_key s)) then None
      else if beq (ps_key s) key_fullname then Some (extractor_fullname (excl_full ex) (r_name r) :: rest)
      else Some (extract (ps_key s) (r_name r) (r_cfg r) :: rest)
  | _, _ => None
  end.

Definition has_key (k : bytes) (ex : list expr) : bool :=
  existsb (fun s => beq (ps_key s) k) (flat_map e_fields ex).

Definition residue_fields (ex : list expr) : list pspec :=
  (if has_key key_config ex then [] else [spec_first key_config])
  ++ (if has_key key_fullname ex then [] else [spec_first key_fullname]).

Definition groups_ok (ex : list expr) (stream : list result) (fs : list pspec) (o : pobs) : bool :=
  forallb2 (fun s f => if beq (ps_key s) key_config
                       then fo_tuple f && blist_eqb (fo_subs f) (spec_subs ex stream)
                       else true) fs (firstn (length fs) (po_fields o)).

Definition gets_of (o : pobs) (k : Z) : option (list bytes) :=
  if (k <? 0)%Z then None
  else match nth_error (po_keys o) (Z.to_nat k) with Some x => Some (ko_gets x) | None => None end.

(** P1 for one operation of the stream: the Key(s) returned carry exactly the
    specified tuple (with the unit appended for ProjectValues on a .unit projection) *)
Definition op_ok (ex : list expr) (wu : bool) (fs : list pspec) (o : pobs) (r : result) (ids : list Z) : bool :=
  let fo := if wu then removelast (po_fields o) else po_fields o in
  match spec_tuple ex fs fo r with
  | None => false
  | Some t =>
      if wu then
        forallb2 (fun u id => match gets_of o id with Some g => blist_eqb g (t ++ [u]) | None => false end)
                 (r_units r) ids
        && match rev (po_fields o) with f :: _ => beq (fo_name f) key_unit && negb (fo_tuple f) | [] => false end
      else
        match ids with
        | [id] => match gets_of o id with Some g => blist_eqb g t | None => false end
        | _ => false
        end
  end.

Fixpoint chunks {A} (n : nat) (l : list A) (fuel : nat) : list (list A) :=
  match fuel with
  | O => []
  | S f => match l with [] => [] | _ => firstn n l :: chunks n (skipn n l) f end
  end.

(** one protocol run: all parses succeeded; P1, P2, generic checks *)
Definition run_ok (ex : list expr) (stream : list result) (r : prun) : bool :=
  let np := length (pr_perm r) in
  let ne := length ex in
  let heads := firstn np (pr_outs r) in
  let tail := skipn (S np) (pr_outs r) in
  let per_result := chunks (S ne) tail (length stream) in
  let ob (pi : nat) := nth pi (pr_obs r) (mkPO [] [] [] [] [] []) in
  forallb (fun h => match h with [1%Z] => true | _ => false end) heads
  && Nat.eqb (length (pr_obs r)) (S np)
  && Nat.eqb (length per_result) (length stream)
  && forallb generic_ok (pr_obs r)
  && forallb (fun e => match nth_error ex e with
                       | Some x => groups_ok ex stream (e_fields x) (ob (pidx (pr_perm r) e))
                       | None => false end) (seq 0 ne)
  && groups_ok ex stream (residue_fields ex) (ob np)
  && Nat.eqb (length (po_fields (ob np))) (length (residue_fields ex))
  && forallb2 (fun res outs =>
        Nat.eqb (length outs) (S ne)
        && forallb2 (fun e ids => match nth_error ex e with
                                  | Some x => op_ok ex (e_unit x) (e_fields x) (ob (pidx (pr_perm r) e)) res ids
                                  | None => false end) (seq 0 ne) (firstn ne outs)
        && op_ok ex false (residue_fields ex) (ob np) res (nth ne outs []))
      stream per_result.

(** P3: the parse order does not matter: same Keys, fields and values for every
    expression and for the residue *)
Definition pobs_c08_eqb (a b : pobs) : bool :=
  list_eqb fobs_eqb (po_fields a) (po_fields b) && blist_eqb (po_flat a) (po_flat b)
  && list_eqb kobs_eqb (po_keys a) (po_keys b).

Definition same_across (ex : list expr) (r0 r : prun) : bool :=
  let ob (q : prun) (pi : nat) := nth pi (pr_obs q) (mkPO [] [] [] [] [] []) in
  zll_eqb (skipn (S (length (pr_perm r0))) (pr_outs r0)) (skipn (S (length (pr_perm r))) (pr_outs r))
  && forallb (fun e => pobs_c08_eqb (ob r0 (pidx (pr_perm r0) e)) (ob r (pidx (pr_perm r) e)))
             (seq 0 (length ex))
  && pobs_c08_eqb (ob r0 (length (pr_perm r0))) (ob r (length (pr_perm r))).

(** P4: projections plus residue lose nothing (DESIGN 7.8, precise form) *)
Definition same_info (ex : list expr) (a b : result) : bool :=
  forallb (fun k => beq (extract_config (r_cfg a) k) (extract_config (r_cfg b) k)) (excl_cfg ex)
  && forallb (fun k => mem k (excl_cfg ex) || beq (file_val a k) (file_val b k)) (file_keys a ++ file_keys b)
  && forallb (fun k => beq (extract k (r_name a) (r_cfg a)) (extract k (r_name b) (r_cfg b))) (excl_full ex)
  && beq (extractor_fullname (excl_full ex) (r_name a)) (extractor_fullname (excl_full ex) (r_name b))
  && (negb (existsb e_unit ex) || blist_eqb (r_units a) (r_units b)).

Fixpoint lossless_ok (ex : list expr) (rs : list (result * list (list Z))) : bool :=
  match rs with
  | [] => true
  | (a, ka) :: rs' =>
      forallb (fun '(b, kb) => Bool.eqb (zll_eqb ka kb) (same_info ex a b)) rs' && lossless_ok ex rs'
  end.

(** a result without values gets no Key at all from a ParseWithUnit projection
    (ProjectValues returns one Key per value), so when some expression carries
    .unit the pairwise comparison is made over the results that have values *)
Definition judged (ex : list expr) (rs : list (result * list (list Z))) : list (result * list (list Z)) :=
  if existsb e_unit ex then filter (fun x => negb (is_nil (r_units (fst x)))) rs else rs.

(** ** free histories: any interleaving of Parse (failing calls included),
    Residue, Project, ProjectValues, judged declaratively from the INPUTS

    Which Parse calls returned a projection is read off the observed outputs.
    The exclusions are those of the property: "every specific key named in any
    of them" - of the projections, i.e. of the calls that RETURNED one; an
    expression that was rejected names nothing.

    What is demanded of every Key returned for a result [r] by projection [pi],
    read against the FINAL field set of [pi] (first sentence of the property: a
    key returns for each field exactly the value that was extracted; with
    [pairwise_distinct] of [generic_ok]: two Keys are equal iff these tuples are):
    - a field named by a specific key: [extract key] of r (C05);
    - a sub-field [k] of a .config group: the value of the FILE key [k] of r,
      "" when r has none;
    - .unit: "" from Project, the i-th measurement's unit in the i-th Key from
      ProjectValues (one Key per measurement);
    - .fullname: the name with the parts of the excluded sub-name keys [E]
      deleted.
    The top-level fields are those of the expression (of Residue: the groups no
    earlier projection took). The sub-fields [S] of every .config group of [pi]:
    no duplicates, [lo] included in [S] included in [hi], where [lo] = the file
    keys of the results projected through [pi] that no successful Parse of the
    whole history names, [hi] = those that no successful Parse made BEFORE that
    projection call names.

    The contract (projection.go: the .config closure "doesn't get called until
    we've parsed all projections"; the property's quantifier: expressions
    parsed in every order, THEN streams of results) puts every Parse before the
    first Project. For such histories [lo] = [hi] = the file keys seen minus
    every specific key named in any projection, and [E] = all sub-name keys
    named in any projection: the statement of the property, exactly. For a
    history with a Parse after a Project the exclusion clause is outside the
    contract; the judge then still demands the values above and accepts for [E]
    the keys named before the first use of a .fullname field or those named
    before the call judged. *)
Record fstate := mkFS {
  fs_projs : list (bool * list pspec);  (* per projection: ParseWithUnit?, its top-level fields *)
  fs_cfg : list bytes;                  (* configuration keys named by successful Parse calls so far *)
  fs_full : list bytes;                 (* name keys named by successful Parse calls so far *)
  fs_havecfg : bool;                    (* .config taken by an earlier projection / residue *)
  fs_havefull : bool;
  fs_efirst : option (list bytes);      (* [fs_full] at the first projection through a .fullname field *)
  fs_seen : list (list bytes);          (* per projection: file keys of the results projected through it *)
  fs_hi : list (list bytes)             (* per projection: those not named by a Parse made before the call *)
}.

Definition fs_new : fstate := mkFS [] [] [] false false None [] [].

Definition has_field (k : bytes) (fs : list pspec) : bool := existsb (fun s => beq (ps_key s) k) fs.
Definition named_cfg (fs : list pspec) : list bytes :=
  filter (fun k => negb (is_group_key k) && negb (is_fullname_key k)) (map ps_key fs).
Definition named_full (fs : list pspec) : list bytes :=
  filter (fun k => negb (is_group_key k) && is_fullname_key k) (map ps_key fs).

Definition fs_add_proj (st : fstate) (wu : bool) (fs : list pspec) : fstate :=
  mkFS (fs_projs st ++ [(wu, fs)]) (fs_cfg st ++ named_cfg fs) (fs_full st ++ named_full fs)
       (fs_havecfg st || has_field key_config fs) (fs_havefull st || has_field key_fullname fs)
       (fs_efirst st) (fs_seen st ++ [[]]) (fs_hi st ++ [[]]).

Definition fs_residue_fields (st : fstate) : list pspec :=
  (if fs_havecfg st then [] else [spec_first key_config])
  ++ (if fs_havefull st then [] else [spec_first key_fullname]).

Fixpoint tuple_E (E : list bytes) (fs : list pspec) (fo : list fobs) (r : result) : option (list bytes) :=
  match fs, fo with
  | [], [] => Some []
  | s :: fs', f :: fo' =>
      do rest <- tuple_E E fs' fo' r;
      if beq (ps_key s) key_config then
        if fo_tuple f && beq (fo_name f) key_config then Some (map (file_val r) (fo_subs f) ++ rest) else None
      else if fo_tuple f then None
      else if negb (beq (fo_name f) (ps_key s)) then None
      else if beq (ps_key s) key_fullname then Some (extractor_fullname E (r_name r) :: rest)
      else Some (extract (ps_key s) (r_name r) (r_cfg r) :: rest)
  | _, _ => None
  end.

Definition key_is (o : pobs) (id : Z) (ts : list (list bytes)) : bool :=
  match gets_of o id with Some g => existsb (blist_eqb g) ts | None => false end.

(** one Project ([values] = false) / ProjectValues call *)
Definition free_op_ok (Es : list (list bytes)) (wu : bool) (fs : list pspec) (o : pobs)
    (values : bool) (r : result) (ids : list Z) : bool :=
  let fo := if wu then removelast (po_fields o) else po_fields o in
  let ts := flat_map (fun E => match tuple_E E fs fo r with Some t => [t] | None => [] end) Es in
  (if wu then match rev (po_fields o) with
              | f :: _ => beq (fo_name f) key_unit && negb (fo_tuple f)
              | [] => false end
   else true)
  && negb (is_nil ts)
  && if values then
       forallb2 (fun u id => key_is o id (map (fun t => if wu then t ++ [u] else t) ts)) (r_units r) ids
     else match ids with
          | [id] => key_is o id (map (fun t => if wu then t ++ [[]] else t) ts)
          | _ => false
          end.

Definition add_new (l : list bytes) (ks : list bytes) : list bytes :=
  fold_left (fun acc k => if mem k acc then acc else acc ++ [k]) ks l.

Definition free_step (obs : list pobs) (st : fstate) (o : op) (out : list Z) : option fstate :=
  match o with
  | OpParse wu fs =>
      match out with
      | [1%Z] => Some (fs_add_proj st wu fs)
      | [0%Z] => Some st
      | _ => None
      end
  | OpResidue =>
      match out with
      | [] => let st' := fs_add_proj st false (fs_residue_fields st) in
              Some (mkFS (fs_projs st') (fs_cfg st') (fs_full st') true true
                         (fs_efirst st') (fs_seen st') (fs_hi st'))
      | _ => None
      end
  | OpProject pi r | OpProjectValues pi r =>
      match nth_error (fs_projs st) pi, nth_error obs pi with
      | Some (wu, fs), Some ob =>
          let ef := if has_field key_fullname fs
                    then match fs_efirst st with Some e => Some e | None => Some (fs_full st) end
                    else fs_efirst st in
          let Es := match ef with Some e => [e; fs_full st] | None => [fs_full st] end in
          let values := match o with OpProjectValues _ _ => true | _ => false end in
          if free_op_ok Es wu fs ob values r out then
            Some (mkFS (fs_projs st) (fs_cfg st) (fs_full st) (fs_havecfg st) (fs_havefull st) ef
                       (put_nth [] pi (add_new (nth pi (fs_seen st) []) (file_keys r)) (fs_seen st))
                       (put_nth [] pi (add_new (nth pi (fs_hi st) [])
                                        (filter (fun k => negb (mem k (fs_cfg st))) (file_keys r))) (fs_hi st)))
          else None
      | _, _ => None
      end
  end.

Fixpoint free_walk (obs : list pobs) (st : fstate) (ops : list op) (outs : list (list Z)) : option fstate :=
  match ops, outs with
  | [], [] => Some st
  | o :: ops', out :: outs' =>
      match free_step obs st o out with
      | Some st' => free_walk obs st' ops' outs'
      | None => None
      end
  | _, _ => None
  end.

Fixpoint nodupb (l : list bytes) : bool :=
  match l with [] => true | x :: l' => negb (mem x l') && nodupb l' end.

Definition inclb (a b : list bytes) : bool := forallb (fun k => mem k b) a.

(** the final shape of one projection: its top-level fields are those of the
    expression (+ .unit), its .config groups hold the right sub-fields *)
Definition free_shape_ok (call_cfg : list bytes) (wu : bool) (fs : list pspec)
    (seen hi : list bytes) (o : pobs) : bool :=
  let fo := if wu then removelast (po_fields o) else po_fields o in
  let lo := filter (fun k => negb (mem k call_cfg)) seen in
  Nat.eqb (length (po_fields o)) (length fs + if wu then 1 else 0)
  && forallb2 (fun s f =>
       if beq (ps_key s) key_config
       then fo_tuple f && beq (fo_name f) key_config
            && nodupb (fo_subs f) && inclb lo (fo_subs f) && inclb (fo_subs f) hi
       else negb (fo_tuple f) && beq (fo_name f) (ps_key s)) fs fo.

Definition free_ok (ops : list op) (outs : list (list Z)) (obs : list pobs) : bool :=
  forallb generic_ok obs
  && match free_walk obs fs_new ops outs with
     | None => false
     | Some st =>
         Nat.eqb (length obs) (length (fs_projs st))
         && forallb2 (fun pi o =>
              match nth_error (fs_projs st) pi with
              | Some (wu, fs) => free_shape_ok (fs_cfg st) wu fs (nth pi (fs_seen st) []) (nth pi (fs_hi st) []) o
              | None => false
              end) (seq 0 (length obs)) obs
     end.

Definition prop_ok (c : case) : bool :=
  match c with
  | CFree ops outs obs _ => free_ok ops outs obs
  | CProto ex st runs _ =>
      forallb (run_ok ex st) runs
      && match runs with
         | [] => true
         | r0 :: rest =>
             forallb (same_across ex r0) rest
             && lossless_ok ex (judged ex (combine st (chunks (S (length ex))
                                  (skipn (S (length (pr_perm r0))) (pr_outs r0)) (length st))))
         end
  end.

(** ** the slices RETURNED by ProjectValues, kept by the caller (C08 only; the
    case type shared with C09 is left as it is)

    A free stream in which the caller keeps every slice ProjectValues returned
    and reads it again after the later ProjectValues / Project calls on the
    same parser's projections.  Per kept slice: the index of the call in
    [ops], the key numbers (the == classes among all Keys the calls returned,
    -1 = a Key no call returned) and Key.Get of every flattened field of that
    time, both as read when the call returned and as read LATER (the first
    later reading that differs, else the one after the last call), and for a
    ParseWithUnit projection the later Get of the .unit field per Key. *)
Record lread := mkLR {
  lr_op : nat;
  lr_ids_ret : list Z; lr_ids_late : list Z;
  lr_gets_ret : list (list bytes); lr_gets_late : list (list bytes);
  lr_units_late : option (list bytes) }.

Inductive case8 :=
| K8 (c : case)
| KLate (ops : list op) (outs : list (list Z)) (obs : list pobs) (late : list lread).

Definition as_lread (s : sx) : option lread :=
  match s with
  | SL [opi; ir; il; gr; gl; ul] =>
      do opi <- as_nat opi;
      do ir <- as_list as_z ir; do il <- as_list as_z il;
      do gr <- as_list (as_list as_b) gr; do gl <- as_list (as_list as_b) gl;
      do ul <- as_opt (as_list as_b) ul;
      Some (mkLR opi ir il gr gl ul)
  | _ => None
  end.

Definition decode8 (s : sx) : option case8 :=
  match s with
  | SL [SZ 2; ops; outs; obs; late] =>
      do ops <- as_list as_op ops; do outs <- as_outs outs; do obs <- as_list as_pobs obs;
      do late <- as_list as_lread late;
      Some (KLate ops outs obs late)
  | _ => do c <- decode s; Some (K8 c)
  end.

Definition zl_eqb := list_eqb Z.eqb.

(** every Key of a slice ProjectValues returned still reads what it read when
    returned: the same Key (== class) in every position, the same Get for every
    field; one Key per measurement, and through a ParseWithUnit projection the
    i-th Key holds the i-th measurement's unit *)
Definition late_ok (ops : list op) (outs : list (list Z)) (l : lread) : bool :=
  match nth_error ops (lr_op l) with
  | Some (OpProjectValues _ r) =>
      zl_eqb (lr_ids_late l) (lr_ids_ret l)
      && zl_eqb (lr_ids_ret l) (nth (lr_op l) outs [])
      && list_eqb blist_eqb (lr_gets_late l) (lr_gets_ret l)
      && Nat.eqb (length (lr_ids_ret l)) (length (r_units r))
      && match lr_units_late l with Some us => blist_eqb us (r_units r) | None => true end
  | _ => false
  end.

(** the model's Keys are values (rows never change: intern_stable), so what a
    kept slice reads later is what the call returned *)
Definition corr_ok8 (c : case8) : bool :=
  match c with
  | K8 c => corr_ok c
  | KLate ops outs obs late => run_corr ops outs obs && forallb (late_ok ops outs) late
  end.

Definition prop_ok8 (c : case8) : bool :=
  match c with
  | K8 c => prop_ok c
  | KLate ops outs obs late => free_ok ops outs obs && forallb (late_ok ops outs) late
  end.

Definition run_case (s : sx) : N :=
  match decode8 s with
  | Some c => code_of (corr_ok8 c) (prop_ok8 c)
  | None => code_undecodable
  end.
