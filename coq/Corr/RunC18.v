(** Correspondence evaluator for C18.
    kind 0: dates      (0 s1 s2 out1 out2 inst1 inst2)
    kind 1: bootstrap  (1 nu de conf N seed stream pub ratios hooksum again)
    kind 2: series     (2 results (wa wb wc wd wa') runs conf N (refs-replace refs-combine))
                       run = (how order out sums); sums = (0 ((summary ...) ...)) | (2)
                       refs-x = per series, per cell: (seed stream alone)
    kind 3: several cells, one AddSummaries call (3 conf N cells)
    kind 4: ONE builder used incrementally (4 results wf runs conf N refs incs);
            runs / refs as in kind 2 (fresh builders over the whole set),
            inc = (how order k out1 sums1 out2 sums2): the first k (result, value)
            pairs of [order] are added, the series built and summarised (out1
            sums1), the others added, the series built and summarised again
            (out2 sums2).  Model: Model/SeriesHist.v (a build leaves the
            builder's cells reordered at most; Proofs/SeriesHist.v: the second
            build is that of a fresh builder over all results).
    Runs of kind 2 may come from files read through Builder.AddFiles (the
    result set is what the files say; a key a file does not set is empty).
    kind 5: the real cmd/benchseries binary with an option set
            (5 results wf runs conf N refs (ji exit out libsums samejson samecsv));
            results = the harness' reading of the files under the DOCUMENTED
            meaning of the options; runs / refs as in kind 2 (the library with
            the options the flags are documented to set, both policies);
            out = what the JSON written by the command shows: per series unit,
            benchmarks, series, hash pairs and per cell (bench series date
            summary); libsums = the library's summaries (REPLACE, the flag's
            confidence, 1000 bootstraps); samejson / samecsv: the command's
            JSON file / standard output are byte for byte the library's.
            ji = summaries of an earlier run were read back (-ji): existing /=
            nil is outside the model, only the two byte comparisons are judged. *)
From Perf Require Import Base.Bytes Base.Sx Base.B64 Base.SxF Base.Usort
     Model.Dates Model.Bootstrap Model.BootstrapSpec Model.Series Model.SeriesSpec Model.SeriesFindings.
Local Open Scope Z_scope.

Definition obytes_eqb := option_eqb beq.

(** * dates *)
Definition as_inst (s : sx) : option (option instant) :=
  match s with
  | SL [] => Some None
  | SL [SZ a; SZ b] => Some (Some (a, b))
  | _ => None
  end.

Definition inst_eqb (a b : option instant) : bool :=
  option_eqb (fun x y => Z.eqb (fst x) (fst y) && Z.eqb (snd x) (snd y)) a b.

Definition inrange_b (i : instant) : bool :=
  (-62167219200 <=? fst i) && (fst i <? 253402300800) && (0 <=? snd i) && (snd i <? 1000000000).

Definition cmp_eqb (a b : comparison) : bool :=
  match a, b with Eq, Eq | Lt, Lt | Gt, Gt => true | _, _ => false end.

Definition dates_corr (s1 s2 : bytes) (o1 o2 : option bytes) (i1 i2 : option instant) : bool :=
  obytes_eqb (normalize_date s1) o1 && obytes_eqb (normalize_date s2) o2
  && inst_eqb (denotes s1) i1 && inst_eqb (denotes s2) i2.

(** specification on the observed outputs, for ALL pairs of texts (no range
    gate: with the repair hooks/fix_c18_date_year_range.diff an accepted text
    denotes an instant of a four-digit UTC year, Proofs/DatesRange.v):
    same instant => same outcome (the same string, or both rejected); the
    strings of any two accepted texts compare like their instants; a text that
    denotes an instant is rejected only if the UTC year of the instant has not
    four digits *)
Definition accept_ok (d : option instant) (o : option bytes) : bool :=
  match d, o with
  | Some i, None => negb (inrange_b i)
  | _, _ => true
  end.

Definition dates_prop (s1 s2 : bytes) (o1 o2 : option bytes) : bool :=
  accept_ok (denotes s1) o1 && accept_ok (denotes s2) o2
  && match denotes s1, denotes s2 with
     | Some a, Some b =>
         match o1, o2 with
         | Some x, Some y =>
             (if cmp_eqb (instant_cmp a b) Eq then beq x y else true)
             && cmp_eqb (bcmp x y) (instant_cmp a b)
         | Some _, None | None, Some _ => negb (cmp_eqb (instant_cmp a b) Eq)
         | None, None => true
         end
     | _, _ => true
     end.

(** * bootstrap *)
Inductive outcome3 := O3ok (c l h : b64) | O3undef | O3panic.

Definition as_out3 (s : sx) : option outcome3 :=
  match s with
  | SL [SZ 0; c; l; h] => do c <- as_f64 c; do l <- as_f64 l; do h <- as_f64 h; Some (O3ok c l h)
  | SL [SZ 1] => Some O3undef
  | SL [SZ 2] => Some O3panic
  | _ => None
  end.

(** sort.Float64s leaves the relative order of -0 and +0 unspecified: the two
    zeros are one observable *)
Definition feq (x y : b64) : bool := b64_same x y || (b64_is_zero x && b64_is_zero y).

Definition out3_matches (m : option summary) (o : outcome3) : bool :=
  match m, o with
  | Some s, O3ok c l h => feq (s_center s) c && feq (s_low s) l && feq (s_high s) h
  | None, O3panic => true
  | _, _ => false
  end.

(** [fmin], [fmax], [hull_lo], [hull_hi]: Model/BootstrapSpec.v (the hull the
    theorems C18_bootstrap_centre_in_hull / ..._up_to_one_ulp are about) *)

Definition boot_corr (nu de : list Z) (conf : b64) (n : nat) (seed : Z) (stream : list Z)
           (pub : outcome3) (ratios : list b64) (hook : outcome3) : bool :=
  let snu := vsort nu in
  let sde := vsort de in
  Z.eqb (bootstrap_seed snu sde) seed
  && match ratio (map b64_of_bits snu) (map b64_of_bits sde) conf n stream with
     | Some (rs, summ) =>
         (* sort.Float64s is modelled on NaN-free data only (Inf / Inf arises when the
            sums of both resampled medians overflow: finding C18_median_sum_overflow) *)
         existsb b64_is_nan rs
         || (list_eqb feq rs ratios && out3_matches summ pub && out3_matches summ hook)
     | None => false
     end.

(** ** the two recorded deviations of the bootstrap summary, decided from the
    input by a simulation of the mechanism (never from the observed summary):

    [flat_bracket] (finding C18_percentile_interpolation_rounding): a percentile
    position falls strictly between two bootstrap ratios that are equal or at
    most 4 ulps apart; [percentile]'s interpolation a[i]*(1-x)+a[i+1]*x may then
    round a step outside [a[i], a[i+1]].  Excused with it: low / high at most 2
    ulps outside the hull - nothing else.

    [median_overflows] (finding C18_median_sum_overflow): [median] of an even
    number of values forms a+b before halving; a sample of even size whose
    largest value exceeds MaxFloat64/2 (or an even resample count with such a
    largest attainable ratio) makes the sum +Inf.  Excused with it, per sum
    that can overflow:
      numerator sum / sum of two ratios: a summary value may be +Inf;
      denominator sum: the resampled denominator median may be +Inf, a ratio
        then 0, and percentile / median of the ratios anything between 0 and
        the hull: the lower bound of the hull is replaced by 0;
      numerator and denominator sum: Inf / Inf, a summary value may be NaN.
    The upper bound otherwise, the order low <= centre <= high of every
    summary without a NaN, and reproducibility stay required. *)
Definition ford (x : b64) : Z := fkey (bits_of_b64 x).

Definition flat_at (a : list b64) (q : b64) : bool :=
  if b64_eq q b64_zero || b64_eq q b64_one then false
  else
    let n := Z.of_nat (length a) in
    let f := b64_mul (b64_of_Z n) q in
    match b64_trunc f with
    | Some i =>
        (0 <=? i) && (i + 1 <? n) && b64_gt (b64_sub f (b64_of_Z i)) b64_zero
        && (Z.abs (ford (nth_f a (Z.to_nat i)) - ford (nth_f a (S (Z.to_nat i)))) <=? 4)
    | None => false
    end.

Definition flat_bracket (conf : b64) (sorted : list b64) : bool :=
  let p := b64_div (b64_sub b64_one conf) b64_two in
  flat_at sorted p || flat_at sorted (b64_sub b64_one p).

(** the model's sorted bootstrap ratios for the replayed stream *)
Definition model_ratios (nu de : list Z) (conf : b64) (n : nat) (stream : list Z) : list b64 :=
  match ratio (map b64_of_bits (vsort nu)) (map b64_of_bits (vsort de)) conf n stream with
  | Some (rs, _) => rs
  | None => []
  end.

Definition ovf_num (fnu : list b64) : bool := negb (even_guard (length fnu) (fmax fnu)).
Definition ovf_den (fde : list b64) : bool := negb (even_guard (length fde) (fmax fde)).
Definition ovf_ratio (fnu fde : list b64) (n : nat) : bool :=
  b64_is_finite (hull_hi fnu fde) && negb (even_guard n (hull_hi fnu fde)).
Definition median_overflows (fnu fde : list b64) (n : nat) : bool :=
  ovf_num fnu || ovf_den fde || ovf_ratio fnu fde n.

(** [x] is at most [k] ulps below [lo] / above [hi] *)
Definition ge_upto (k : Z) (lo x : b64) : bool :=
  b64_le lo x || (negb (b64_is_nan x) && negb (b64_is_nan lo) && (0 <=? ford lo - ford x) && (ford lo - ford x <=? k)).
Definition le_upto (k : Z) (x hi : b64) : bool :=
  b64_le x hi || (negb (b64_is_nan x) && negb (b64_is_nan hi) && (0 <=? ford x - ford hi) && (ford x - ford hi <=? k)).

Definition pos_inf (x : b64) : bool := match x with S754_infinity false => true | _ => false end.

(** the judge of a summary; [flat] / [ovf] = the deviation concerned may show
    ([n] = the resample count, used with [ovf] only); both false: the property
    as stated *)
Definition boot_judge (flat ovf : bool) (n : nat) (nu de : list Z) (pub : outcome3) (again : bool) : bool :=
  let fnu := map b64_of_bits nu in
  let fde := map b64_of_bits de in
  again &&
  match pub with
  | O3ok c l h =>
      let positive := forallb (fun x => b64_gt x b64_zero) (fnu ++ fde) in
      let on := ovf && positive && ovf_num fnu in
      let od := ovf && positive && ovf_den fde in
      let or_ := ovf && positive && ovf_ratio fnu fde n in
      let nan_ok (x : b64) := on && od && b64_is_nan x in
      ((b64_le l c && b64_le c h) || existsb nan_ok [c; l; h])
      && (if positive then
            let lo := if od then b64_zero else hull_lo fnu fde in
            let hi := hull_hi fnu fde in
            let k := if flat then 2 else 0 in
            let inf_ok (x : b64) := (on || or_) && pos_inf x in
            (nan_ok c || ((b64_le lo c) && (b64_le c hi || inf_ok c)))
            && forallb (fun x => nan_ok x || (ge_upto k lo x && (le_upto k x hi || inf_ok x))) [l; h]
          else true)
  | _ => false
  end.

Definition boot_prop (nu de : list Z) (pub : outcome3) (again : bool) : bool :=
  boot_judge false false O nu de pub again.

(** the relaxed judge of the two findings for ONE summary *)
Definition boot_known (nu de : list Z) (conf : b64) (n : nat) (stream : list Z) (pub : outcome3) (again : bool) : bool :=
  boot_judge (flat_bracket conf (model_ratios nu de conf n stream)) true n nu de pub again.

(** * several cells summarised by one AddSummaries call
    (3 conf N ((nu de seed stream multi alone) ...)) *)
Record mcell := mkM { m_nu : list Z; m_de : list Z; m_seed : Z; m_stream : list Z; m_multi : outcome3; m_alone : outcome3 }.

Definition as_mcell (s : sx) : option mcell :=
  match s with
  | SL [nu; de; SZ seed; stream; multi; alone] =>
      do nu <- as_list as_z nu; do de <- as_list as_z de; do stream <- as_list as_z stream;
      do multi <- as_out3 multi; do alone <- as_out3 alone;
      Some (mkM nu de seed stream multi alone)
  | _ => None
  end.

Definition out3_same (a b : outcome3) : bool :=
  match a, b with
  | O3ok c l h, O3ok c' l' h' => b64_same c c' && b64_same l l' && b64_same h h'
  | O3undef, O3undef => true
  | _, _ => false
  end.

Definition mcell_corr (conf : b64) (n : nat) (c : mcell) : bool :=
  let snu := vsort (m_nu c) in
  let sde := vsort (m_de c) in
  Z.eqb (bootstrap_seed snu sde) (m_seed c)
  && match ratio (map b64_of_bits snu) (map b64_of_bits sde) conf n (m_stream c) with
     | Some (rs, summ) => existsb b64_is_nan rs || out3_matches summ (m_multi c)
     | None => false
     end.

(** each cell's summary is what its samples give when summarised alone, and is sane *)
Definition mcell_prop (c : mcell) : bool :=
  out3_same (m_multi c) (m_alone c) && boot_prop (m_nu c) (m_de c) (m_multi c) true.

(** relaxed per CELL: a cell whose own ratios do not bracket a percentile
    position flatly is judged in full whatever the other cells of the case do *)
Definition mcell_known (conf : b64) (n : nat) (c : mcell) : bool :=
  out3_same (m_multi c) (m_alone c) && boot_known (m_nu c) (m_de c) conf n (m_stream c) (m_multi c) true.

(** * series *)
Definition as_role (s : sx) : option role :=
  match s with SZ 0 => Some RNum | SZ 1 => Some RDen | SZ 2 => Some ROther | _ => None end.

Definition as_res (s : sx) : option res :=
  match s with
  | SL [SB u; SB t; SB b; SB e; SB sr; ro; SB nh; SB dh; SZ v] =>
      do ro <- as_role ro; Some (mkRes u t b e sr ro nh dh v)
  | _ => None
  end.

Definition as_ocell (s : sx) : option ocell :=
  match s with
  | SL [SB b; SB sr; SB d; nu; de] =>
      do nu <- as_list as_z nu; do de <- as_list as_z de; Some (mkO b sr d nu de)
  | _ => None
  end.

Definition as_series (s : sx) : option series :=
  match s with
  | SL [SB u; bl; sl; hp; cells] =>
      do bl <- as_list as_b bl; do sl <- as_list as_b sl;
      do hp <- as_list (fun x => match x with SL [SB a; SB b; SB c] => Some (a, (b, c)) | _ => None end) hp;
      do cells <- as_list as_ocell cells;
      Some (mkSeries u bl sl hp cells)
  | _ => None
  end.

Inductive outcomeS := OSok (l : list series) | OSerr | OSpanic.
Definition as_outS (s : sx) : option outcomeS :=
  match s with
  | SL [SZ 0; l] => do l <- as_list as_series l; Some (OSok l)
  | SL [SZ 1] => Some OSerr
  | SL [SZ 2] => Some OSpanic
  | _ => None
  end.

(** summaries of all cells of all series of one run (AddSummaries on every
    series), in the order of the cells; [None] = AddSummaries panicked *)
Definition as_sums (s : sx) : option (option (list (list outcome3))) :=
  match s with
  | SL [SZ 0; l] => do l <- as_list (as_list as_out3) l; Some (Some l)
  | SL [SZ 2] => Some None
  | _ => None
  end.

Record srun := mkRun { ru_combine : bool; ru_order : list nat; ru_out : outcomeS;
                       ru_sums : option (list (list outcome3)) }.
Definition as_run (s : sx) : option srun :=
  match s with
  | SL [h; ord; o; sm] =>
      do h <- as_bool h; do ord <- as_list as_nat ord; do o <- as_outS o; do sm <- as_sums sm;
      Some (mkRun h ord o sm)
  | _ => None
  end.

(** per cell of the series of a policy: bootstrap seed and math/rand stream of
    the cell's (sorted) samples, and the summary the real code gives for the
    same multiset of measurements added as ONE experiment *)
Record cref := mkRef { cr_seed : Z; cr_stream : list Z; cr_alone : outcome3 }.
Definition as_cref (s : sx) : option cref :=
  match s with
  | SL [SZ seed; stream; alone] =>
      do stream <- as_list as_z stream; do alone <- as_out3 alone; Some (mkRef seed stream alone)
  | _ => None
  end.
Definition refs := (list (list cref) * list (list cref))%type.
Definition as_refs (s : sx) : option refs :=
  match s with
  | SL [a; b] => do a <- as_list (as_list as_cref) a; do b <- as_list (as_list as_cref) b; Some (a, b)
  | _ => None
  end.
Definition refs_of (combine : bool) (rf : refs) : list (list cref) := if combine then snd rf else fst rf.

(** equality of observables *)
Definition zlist_eqb := list_eqb Z.eqb.
Definition blist_eqb := list_eqb beq.
Definition ocell_eqb (a b : ocell) : bool :=
  beq (oc_bench a) (oc_bench b) && beq (oc_ser a) (oc_ser b) && beq (oc_date a) (oc_date b)
  && zlist_eqb (oc_num a) (oc_num b) && zlist_eqb (oc_den a) (oc_den b).
Definition hp_eqb (a b : bytes * (bytes * bytes)) : bool :=
  beq (fst a) (fst b) && beq (fst (snd a)) (fst (snd b)) && beq (snd (snd a)) (snd (snd b)).
Definition axes_eqb (a b : series) : bool :=
  beq (se_unit a) (se_unit b) && blist_eqb (se_benchmarks a) (se_benchmarks b)
  && blist_eqb (se_series a) (se_series b).
Definition series_eqb (a b : series) : bool :=
  axes_eqb a b && list_eqb hp_eqb (se_hp a) (se_hp b) && list_eqb ocell_eqb (se_cells a) (se_cells b).

(** the observable: the sample order of a denominator-less cell (which the
    code leaves unsorted) is not part of it; the samples of every other cell are
    compared AS RETURNED (the specification gives them sorted) *)
Definition canon_cell_w (c : ocell) : ocell :=
  match oc_den c with [] => canon_cell c | _ => c end.
Definition canon_series_w (s : series) : series :=
  mkSeries (se_unit s) (se_benchmarks s) (se_series s) (se_hp s) (map canon_cell_w (se_cells s)).
Definition outS_canon (o : outcomeS) : outcomeS :=
  match o with OSok l => OSok (map canon_series_w l) | _ => o end.

Definition outS_eqb (full : bool) (a b : outcomeS) : bool :=
  match a, b with
  | OSok x, OSok y => list_eqb (if full then series_eqb else axes_eqb) x y
  | OSerr, OSerr => true
  | OSpanic, OSpanic => true
  | _, _ => false
  end.

Definition model_out (combine : bool) (rs : list res) : outcomeS :=
  match canon (all_comparison_series combine (adds rs) (first_enum rs)) with
  | Some l => OSok l
  | None => OSerr
  end.

(** the executable well-formedness test [wf_a .. wf_d] and the declarative
    specification of the series of a result set ([spec_series], with its parts
    [nser ndate same_table omap_filter bmax osome_eqb spec_cell spec_hp
    spec_table]) are in Model/SeriesSpec.v; Proofs/SeriesSpec.v proves that the
    model meets the specification (series_meets_spec) *)
Definition spec_seriesS (combine : bool) (rs : list res) : outcomeS :=
  match spec_series combine rs with
  | Some l => OSok l
  | None => OSerr
  end.

Definition permute (rs : list res) (ord : list nat) : list res :=
  flat_map (fun i => match nth_error rs i with Some r => [r] | None => [] end) ord.

Definition not_panic (o : outcomeS) : bool := match o with OSpanic => false | _ => true end.

(** [wf_a_norm] (Model/SeriesSpec.v: a numerator hash has one series INSTANT,
    its stamp may be spelled in several ways) in place of [wf_a];
    Proofs/SeriesSpelling.v: sound for WFset_norm, under which the model meets
    [spec_series] and is add-order independent.  NOT a gate of the judge any
    more: the property quantifies over all result sets, and [series_judge]
    below compares every run of every set with [spec_series]; the sets outside
    [wf_all] are where the four recorded findings (Model/SeriesFindings.v) live,
    and [excuses] is empty on [wf_all] sets. *)
Definition wf_all (rs : list res) : bool := wf_a_norm rs && wf_b rs && wf_c rs && wf_d rs.

(** ** comparison of series up to the excused places
    [exs]: one excuse per table of the set, in the order of the series (all
    [ex_none] for the judge proper, so that the comparison is plain equality);
    [may_err]: the error outcome depends on the add order (finding A with a
    stamp that does not normalise) *)
Fixpoint map2o {A B C} (f : A -> B -> C) (l : list A) (l' : list B) : option (list C) :=
  match l, l' with
  | [], [] => Some []
  | x :: l, y :: l' => match map2o f l l' with Some r => Some (f x y :: r) | None => None end
  | _, _ => None
  end.

Definition outS_meq (exs : list excuse) (may_err : bool) (a b : outcomeS) : bool :=
  match a, b with
  | OSok x, OSok y =>
      match map2o mask_series exs x, map2o mask_series exs y with
      | Some x', Some y' => list_eqb series_eqb x' y'
      | _, _ => false
      end
  | OSerr, OSerr => true
  | OSerr, OSok _ | OSok _, OSerr => may_err
  | OSpanic, OSpanic => true
  | _, _ => false
  end.

(** what the declarative specification says of the set; with [relax] the error
    outcome is demanded only where it does not depend on the add order *)
Definition spec_ref (relax combine : bool) (rs : list res) : outcomeS :=
  if (if relax then spec_err_strict rs (bad_hashes rs) else spec_err rs) then OSerr
  else OSok (spec_tables combine rs).

Definition may_err_of (relax : bool) (rs : list res) : bool := relax && exA_err rs (bad_hashes rs).

(** ** summaries, cell by cell, with the excused cells left out *)
Definition krow := (bytes * bytes * outcome3)%type.
Definition krow_eqb (a b : krow) : bool :=
  beq (fst (fst a)) (fst (fst b)) && beq (snd (fst a)) (snd (fst b)) && out3_same (snd a) (snd b).

Fixpoint masked_row (e : excuse) (cells : list ocell) (row : list outcome3) : option (list krow) :=
  match cells, row with
  | [], [] => Some []
  | c :: cells', x :: row' =>
      match masked_row e cells' row' with
      | Some r => Some (if cell_ok e (oc_bench c) (oc_ser c) then (oc_bench c, oc_ser c, x) :: r else r)
      | None => None
      end
  | _, _ => None
  end.

Fixpoint masked_sums (exs : list excuse) (l : list series) (ss : list (list outcome3)) : option (list (list krow)) :=
  match exs, l, ss with
  | [], [], [] => Some []
  | e :: exs', s :: l', row :: ss' =>
      match masked_row e (se_cells s) row, masked_sums exs' l' ss' with
      | Some r, Some rest => Some (r :: rest)
      | _, _ => None
      end
  | _, _, _ => None
  end.

Definition omsums_eqb (a b : option (list (list krow))) : bool :=
  match a, b with Some x, Some y => list_eqb (list_eqb krow_eqb) x y | _, _ => false end.

(** the series of the first successful run of a policy: the run whose cells
    the harness summarised alone ([refs]) *)
Definition first_ok (combine : bool) (runs : list srun) : option (list series) :=
  match filter (fun r => Bool.eqb (ru_combine r) combine
                         && match ru_out r with OSok _ => true | _ => false end) runs with
  | r :: _ => match outS_canon (ru_out r) with OSok l => Some l | _ => None end
  | [] => None
  end.

(** the model's summary of a cell: seed from the samples in order, replayed stream *)
Definition cell_ref_corr (conf : b64) (n : nat) (c : ocell) (rf : cref) : bool :=
  match oc_den c with
  | [] => match cr_alone rf with O3undef => true | _ => false end
  | _ =>
      Z.eqb (bootstrap_seed (oc_num c) (oc_den c)) (cr_seed rf)
      && match ratio (map b64_of_bits (oc_num c)) (map b64_of_bits (oc_den c)) conf n (cr_stream rf) with
         | Some (_, summ) => out3_matches summ (cr_alone rf)
         | None => false
         end
  end.

Fixpoint forall2b {A B} (f : A -> B -> bool) (l : list A) (l' : list B) : bool :=
  match l, l' with
  | [], [] => true
  | x :: l, y :: l' => f x y && forall2b f l l'
  | _, _ => false
  end.

(** the reference summaries are the model's summaries of the samples of the
    cells the harness summarised (those of the first successful run; for a set
    without excused places they are the model's own cells, by [series_corr]) *)
Definition refs_corr (conf : b64) (n : nat) (runs : list srun) (combine : bool) (rf : list (list cref)) : bool :=
  match first_ok combine runs with
  | Some l => forall2b (fun s row => forall2b (cell_ref_corr conf n) (se_cells s) row) l rf
  | None => match rf with [] => true | _ => false end
  end.

(** model and code agree on every run, up to the places where the code's
    outcome depends on the order in which a Go map is enumerated (the model is
    evaluated with the enumeration in order of first insertion) *)
Definition series_corr (rs : list res) (flags : list bool) (runs : list srun)
           (conf : b64) (n : nat) (rf : refs) : bool :=
  let exr := excuses true false rs in
  let exc := excuses true true rs in
  list_eqb Bool.eqb flags [wf_a rs; wf_b rs; wf_c rs; wf_d rs; wf_a_norm rs]
  && forallb (fun r => outS_meq (if ru_combine r then exc else exr) false
                                (model_out (ru_combine r) (permute rs (ru_order r)))
                                (outS_canon (ru_out r))) runs
  && refs_corr conf n runs false (fst rf) && refs_corr conf n runs true (snd rf).

Definition sums_no_panic (r : srun) : bool := match ru_sums r with Some _ => true | None => false end.

(** the summaries of a run are, cell by cell, the summaries of the same
    multisets of measurements obtained from one experiment - hence the same for
    every add order *)
Definition sums_ok (exs : list excuse) (rf : refs) (runs : list srun) (r : srun) : bool :=
  match outS_canon (ru_out r), ru_sums r with
  | OSok l, Some ss =>
      match first_ok (ru_combine r) runs with
      | Some l0 => omsums_eqb (masked_sums exs l ss)
                              (masked_sums exs l0 (map (map cr_alone) (refs_of (ru_combine r) rf)))
      | None => false
      end
  | OSok _, None => false
  | _, _ => true
  end.

(** THE JUDGE of the series clauses, for every result set (no well-formedness
    gate): no run panics; every run's output - tables, benchmarks, series
    points, hash pairs and, per cell, date and both samples AS RETURNED (the
    specification gives them sorted) - is the declarative [spec_series] of the
    set; any two runs of one policy agree; the summaries are those of the same
    multisets summarised alone.
    [relax = false]: the property as stated ([prop_ok]).
    [relax = true]: the same with the places of Model/SeriesFindings.v left out
    of every comparison ([known_ok]); for a set inside [wf_all] the two are the
    same predicate. *)
Definition series_judge (relax : bool) (rs : list res) (runs : list srun) (rf : refs) : bool :=
  let exr := excuses relax false rs in
  let exc := excuses relax true rs in
  let may := may_err_of relax rs in
  let refr := spec_ref relax false rs in
  let refc := spec_ref relax true rs in
  let exs_of (c : bool) := if c then exc else exr in
  forallb (fun r => not_panic (ru_out r) && sums_no_panic r) runs
  && forallb (fun r => outS_meq (exs_of (ru_combine r)) may (if ru_combine r then refc else refr)
                                (outS_canon (ru_out r))) runs
  && forallb (fun r => forallb (fun r' =>
        negb (Bool.eqb (ru_combine r) (ru_combine r'))
        || outS_meq (exs_of (ru_combine r)) may (outS_canon (ru_out r)) (outS_canon (ru_out r'))) runs) runs
  && forallb (fun r => sums_ok (exs_of (ru_combine r)) rf runs r) runs.

Definition series_prop := series_judge false.
Definition series_known := series_judge true.

(** * one builder used incrementally *)
Definition sums_t := option (list (list outcome3)).
Record irun := mkInc { in_combine : bool; in_order : list nat; in_k : nat;
                       in_out1 : outcomeS; in_sums1 : sums_t; in_out2 : outcomeS; in_sums2 : sums_t }.
Definition as_inc (s : sx) : option irun :=
  match s with
  | SL [h; ord; k; o1; s1; o2; s2] =>
      do h <- as_bool h; do ord <- as_list as_nat ord; do k <- as_nat k;
      do o1 <- as_outS o1; do s1 <- as_sums s1; do o2 <- as_outS o2; do s2 <- as_sums s2;
      Some (mkInc h ord k o1 s1 o2 s2)
  | _ => None
  end.

Definition sums_eqb (a b : sums_t) : bool := option_eqb (list_eqb (list_eqb out3_same)) a b.
Definition some_sums (s : sums_t) : bool := match s with Some _ => true | None => false end.

Definition sums_meq (exs : list excuse) (o1 : outcomeS) (s1 : sums_t) (o2 : outcomeS) (s2 : sums_t) : bool :=
  match outS_canon o1, s1, outS_canon o2, s2 with
  | OSok l1, Some ss1, OSok l2, Some ss2 => omsums_eqb (masked_sums exs l1 ss1) (masked_sums exs l2 ss2)
  | _, _, _, _ => sums_eqb s1 s2
  end.

(** the model of the history (Model/SeriesHist.v): the first build sees the
    builder of the first k additions, the second the builder of all; each is
    compared up to the map-order dependent places of the set it has seen (a
    part of a well-formed set can lack the baseline of a trial: class B) *)
Definition inc_corr (rs : list res) (i : irun) : bool :=
  let all := permute rs (in_order i) in
  let pre := permute rs (firstn (in_k i) (in_order i)) in
  outS_meq (excuses true (in_combine i) pre) false (model_out (in_combine i) pre) (outS_canon (in_out1 i))
  && outS_meq (excuses true (in_combine i) rs) false (model_out (in_combine i) all) (outS_canon (in_out2 i)).

(** specification: no panic; the second build AND its summaries are those of a
    fresh builder over the identical result set: the declarative series of the
    set, the observed output and summaries of every fresh run of that policy,
    and per cell the summary of the cell's multiset summarised alone.
    [relax]: as in [series_judge] *)
Definition inc_judge (relax : bool) (rs : list res) (runs : list srun) (rf : refs) (i : irun) : bool :=
  let exs := excuses relax (in_combine i) rs in
  let may := may_err_of relax rs in
  not_panic (in_out1 i) && not_panic (in_out2 i) && some_sums (in_sums1 i) && some_sums (in_sums2 i)
  && outS_meq exs may (spec_ref relax (in_combine i) rs) (outS_canon (in_out2 i))
  && forallb (fun r => negb (Bool.eqb (ru_combine r) (in_combine i))
                       || (outS_meq exs may (outS_canon (ru_out r)) (outS_canon (in_out2 i))
                           && sums_meq exs (ru_out r) (ru_sums r) (in_out2 i) (in_sums2 i))) runs
  && sums_ok exs rf runs (mkRun (in_combine i) (in_order i) (in_out2 i) (in_sums2 i)).

(** * the command (kind 5) *)
Record pcell := mkPC { pc_bench : bytes; pc_ser : bytes; pc_date : bytes; pc_sum : outcome3 }.
Record pseries := mkPS { ps_unit : bytes; ps_benchmarks : list bytes; ps_series : list bytes;
                         ps_hp : list (bytes * (bytes * bytes)); ps_cells : list pcell }.

Definition as_pcell (s : sx) : option pcell :=
  match s with
  | SL [SB b; SB sr; SB d; sm] => do sm <- as_out3 sm; Some (mkPC b sr d sm)
  | _ => None
  end.
Definition as_pseries (s : sx) : option pseries :=
  match s with
  | SL [SB u; bl; sl; hp; cells] =>
      do bl <- as_list as_b bl; do sl <- as_list as_b sl;
      do hp <- as_list (fun x => match x with SL [SB a; SB b; SB c] => Some (a, (b, c)) | _ => None end) hp;
      do cells <- as_list as_pcell cells;
      Some (mkPS u bl sl hp cells)
  | _ => None
  end.
(** [None] = the command failed (non-zero exit status / no readable JSON) *)
Definition as_pout (s : sx) : option (option (list pseries)) :=
  match s with
  | SL [SZ 0; l] => do l <- as_list as_pseries l; Some (Some l)
  | SL [SZ 1] => Some None
  | _ => None
  end.

Record cmdobs := mkCmd { cm_ji : bool; cm_exit : Z; cm_out : option (list pseries);
                         cm_libsums : option (list (list outcome3)); cm_samejson : bool; cm_samecsv : bool }.
Definition as_cmd (s : sx) : option cmdobs :=
  match s with
  | SL [ji; SZ ex; out; ls; sj; sc] =>
      do ji <- as_bool ji; do out <- as_pout out; do ls <- as_sums ls; do sj <- as_bool sj; do sc <- as_bool sc;
      Some (mkCmd ji ex out ls sj sc)
  | _ => None
  end.

Definition pcell_eqb (with_sums : bool) (a b : pcell) : bool :=
  beq (pc_bench a) (pc_bench b) && beq (pc_ser a) (pc_ser b) && beq (pc_date a) (pc_date b)
  && (negb with_sums || out3_same (pc_sum a) (pc_sum b)).
Definition pseries_eqb (with_sums : bool) (a b : pseries) : bool :=
  beq (ps_unit a) (ps_unit b) && blist_eqb (ps_benchmarks a) (ps_benchmarks b)
  && blist_eqb (ps_series a) (ps_series b) && list_eqb hp_eqb (ps_hp a) (ps_hp b)
  && list_eqb (pcell_eqb with_sums) (ps_cells a) (ps_cells b).

(** what the command's JSON must show of a series whose cells have the given
    summaries (cell by cell; a missing summary is "undefined") *)
Fixpoint project_cells (cs : list ocell) (row : list outcome3) : list pcell :=
  match cs with
  | [] => []
  | c :: cs' =>
      mkPC (oc_bench c) (oc_ser c) (oc_date c) (match row with x :: _ => x | [] => O3undef end)
      :: project_cells cs' (match row with _ :: r => r | [] => [] end)
  end.
Definition project_series (s : series) (row : list outcome3) : pseries :=
  mkPS (se_unit s) (se_benchmarks s) (se_series s) (se_hp s) (project_cells (se_cells s) row).
Fixpoint project_all (l : list series) (ss : list (list outcome3)) : list pseries :=
  match l with
  | [] => []
  | s :: l' => project_series s (match ss with r :: _ => r | [] => [] end)
               :: project_all l' (match ss with _ :: r => r | [] => [] end)
  end.
Definition sums_shape_ok (l : list series) (ss : list (list outcome3)) : bool :=
  Nat.eqb (length l) (length ss)
  && forall2b (fun s row => Nat.eqb (length (se_cells s)) (length row)) l ss.

Definition mask_pseries (e : excuse) (p : pseries) : pseries :=
  mkPS (ps_unit p) (ps_benchmarks p)
       (filter (col_ok e) (ps_series p))
       (mask_hp e (ps_hp p))
       (filter (fun c => cell_ok e (pc_bench c) (pc_ser c)) (ps_cells p)).

(** against the series [o] (the model's, or the specification's), in full *)
Definition cmd_agrees (with_sums : bool) (o : outcomeS) (c : cmdobs) : bool :=
  match o with
  | OSok l =>
      (cm_exit c =? 0)%Z
      && match cm_out c, cm_libsums c with
         | Some pl, Some ss =>
             (negb with_sums || sums_shape_ok l ss)
             && list_eqb (pseries_eqb with_sums) (project_all l ss) pl
         | _, _ => false
         end
  | OSerr => negb (cm_exit c =? 0)%Z
  | OSpanic => false
  end.

(** the same up to the excused places, summaries left out (the library run
    whose summaries are recorded enumerates its maps in its own order) *)
Definition cmd_agrees_masked (exs : list excuse) (may_err : bool) (o : outcomeS) (c : cmdobs) : bool :=
  match o with
  | OSok l =>
      if (cm_exit c =? 0)%Z then
        match cm_out c with
        | Some pl =>
            match map2o mask_pseries exs (project_all l []), map2o mask_pseries exs pl with
            | Some a, Some b => list_eqb (pseries_eqb false) a b
            | _, _ => false
            end
        | None => false
        end
      else may_err
  | OSerr => negb (cm_exit c =? 0)%Z
  | OSpanic => false
  end.

Definition cmd_corr (rs : list res) (c : cmdobs) : bool :=
  if cm_ji c then true
  else cmd_agrees_masked (excuses true false rs) (may_err_of true rs) (model_out false rs) c.

(** the specification clause: with the options the flags are documented to set,
    the command's series are the declarative series of the result set
    (DUPE_REPLACE) with the library's summaries for the flag's confidence, and
    its JSON / CSV are the library's.  [relax]: for a set with excused places
    the two byte comparisons (two processes, two map orders) and the summaries
    are left out and the series are compared up to those places *)
Definition cmd_judge (relax : bool) (rs : list res) (c : cmdobs) : bool :=
  if cm_ji c then
    (relax && negb (forallb ex_empty (excuses true false rs) && negb (may_err_of true rs)))
    || (cm_samejson c && cm_samecsv c)
  else
    let exs := excuses relax false rs in
    if forallb ex_empty exs && negb (may_err_of relax rs) then
      cmd_agrees true (spec_seriesS false rs) c && cm_samejson c && cm_samecsv c
    else cmd_agrees_masked exs (may_err_of relax rs) (spec_ref relax false rs) c.

(** * dispatch on the case kind
    [code_of3 corr prop known]: bit 3 = the property fails AND even the relaxed
    judge of the recorded findings fails (bin/check excuses a failing case only
    if its input carries a finding's tag and bit 3 is clear).  Dates have no
    finding: [known] is [prop] there. *)
Definition run_case (s : sx) : N :=
  match s with
  | SL [SZ 0; SB s1; SB s2; o1; o2; i1; i2] =>
      match as_opt as_b o1, as_opt as_b o2, as_inst i1, as_inst i2 with
      | Some o1, Some o2, Some i1, Some i2 =>
          code_of (dates_corr s1 s2 o1 o2 i1 i2) (dates_prop s1 s2 o1 o2)
      | _, _, _, _ => code_undecodable
      end
  | SL [SZ 1; nu; de; SZ conf; n; SZ seed; stream; pub; ratios; hook; again] =>
      match as_list as_z nu, as_list as_z de, as_nat n, as_list as_z stream, as_out3 pub,
            as_list as_f64 ratios, as_out3 hook, as_bool again with
      | Some nu, Some de, Some n, Some stream, Some pub, Some ratios, Some hook, Some again =>
          code_of3 (boot_corr nu de (b64_of_bits conf) n seed stream pub ratios hook)
                   (boot_prop nu de pub again)
                   (boot_known nu de (b64_of_bits conf) n stream pub again)
      | _, _, _, _, _, _, _, _ => code_undecodable
      end
  | SL [SZ 3; SZ conf; n; cells] =>
      match as_nat n, as_list as_mcell cells with
      | Some n, Some cells =>
          code_of3 (forallb (mcell_corr (b64_of_bits conf) n) cells) (forallb mcell_prop cells)
                   (forallb (mcell_known (b64_of_bits conf) n) cells)
      | _, _ => code_undecodable
      end
  | SL [SZ 2; rs; flags; runs; SZ conf; n; rf] =>
      match as_list as_res rs, as_list as_bool flags, as_list as_run runs, as_nat n, as_refs rf with
      | Some rs, Some flags, Some runs, Some n, Some rf =>
          code_of3 (series_corr rs flags runs (b64_of_bits conf) n rf) (series_prop rs runs rf)
                   (series_known rs runs rf)
      | _, _, _, _, _ => code_undecodable
      end
  | SL [SZ 4; rs; flags; runs; SZ conf; n; rf; incs] =>
      match as_list as_res rs, as_list as_bool flags, as_list as_run runs, as_nat n, as_refs rf, as_list as_inc incs with
      | Some rs, Some flags, Some runs, Some n, Some rf, Some incs =>
          code_of3 (series_corr rs flags runs (b64_of_bits conf) n rf && forallb (inc_corr rs) incs)
                   (series_prop rs runs rf && forallb (inc_judge false rs runs rf) incs)
                   (series_known rs runs rf && forallb (inc_judge true rs runs rf) incs)
      | _, _, _, _, _, _ => code_undecodable
      end
  | SL [SZ 5; rs; flags; runs; SZ conf; n; rf; cmd] =>
      match as_list as_res rs, as_list as_bool flags, as_list as_run runs, as_nat n, as_refs rf, as_cmd cmd with
      | Some rs, Some flags, Some runs, Some n, Some rf, Some cmd =>
          code_of3 (series_corr rs flags runs (b64_of_bits conf) n rf && cmd_corr rs cmd)
                   (series_prop rs runs rf && cmd_judge false rs cmd)
                   (series_known rs runs rf && cmd_judge true rs cmd)
      | _, _, _, _, _, _ => code_undecodable
      end
  | _ => code_undecodable
  end.
