(** Correspondence evaluator for C04: observations of benchunit.Tidy, the
    reader's Values, UnitMetadataMap.Get/GetBetter/GetAssumption, [.unit]
    filters and benchstat's tables on generated (unit, value) pairs, compared
    bit for bit with the model (corr_ok) and checked against the DECLARATIVE
    specification Model/UnitsSpec.v (prop_ok: tokenwise rewrite; the value the
    real product up to rounding, no evaluation order prescribed). *)
From Perf Require Import Base.Bytes Base.Sx Base.B64 Base.SxF Base.Utf8 Base.UnicodeTables Base.Unicode
  Model.Units Model.UnitsSpec Model.UnitsMeta.

Definition isp := go_is_space.

(** observed value: (Value, Unit, OrigValue, OrigUnit) *)
Definition oval := (b64 * bytes * b64 * bytes)%type.

(** a unit-metadata scenario: "Unit u better=lower" then "Unit u2 better=val2";
    kinds of the records produced (0 = metadata, 1 = syntax error) with the
    entry's (Unit, OrigUnit, Value); then lookups (unit, found entry) *)
Definition ometa := (bytes * bytes * bytes)%type.
Record mobs := mkMobs {
  m_u2 : bytes; m_val2 : bytes;
  m_recs : list (Z * option ometa);
  m_gets : list (bytes * option ometa);
}.

(** "Unit u better=bval assume=aval" read by a fresh Reader; per looked-up
    unit x: GetBetter(x) on an EMPTY map, GetBetter(x) and
    GetAssumption(x) == AssumeExact on the reader's map *)
Definition abentry := (bytes * Z * Z * bool)%type.
Record abobs := mkAb { ab_bval : bytes; ab_aval : bytes; ab_es : list abentry }.

(** one Reader, one unit table and ONE Filter over a sequence of lines *)
Inductive sitem :=
| SBench (written : list (bytes * b64))               (* the (unit, value) pairs of the line *)
         (mbits : list bool) (kept : bool)            (* Match.Test per value, Match.Apply's result *)
         (after : list (b64 * bytes * b64 * bytes))   (* res.Values after Apply *)
| SUnit (u val : bytes) (recs : list (Z * option (bytes * bytes * bytes))).

(** the members of a [.unit] term: literals and regexps; regexp.MatchString is
    an oracle table (pattern, candidate, result) recorded by the harness *)
Inductive fterm := TLit (l : bytes) | TRe (p : bytes).
Definition re_oracle := list (bytes * bytes * bool).

Definition re_find (orc : re_oracle) (p u : bytes) : option bool :=
  match find (fun e => beq (fst (fst e)) p && beq (snd (fst e)) u) orc with
  | Some e => Some (snd e)
  | None => None
  end.
Definition term_match (orc : re_oracle) (t : fterm) (u : bytes) : bool :=
  match t with
  | TLit l => beq l u
  | TRe p => match re_find orc p u with Some b => b | None => false end
  end.
(** [.unit:(t1 OR t2 ...)] is the OR of [.unit:t1], [.unit:t2], ...; on one
    measurement that is one matcher: some member names the unit *)
Definition terms_match (orc : re_oracle) (ts : list fterm) (u : bytes) : bool :=
  existsb (fun t => term_match orc t u) ts.

(** a line of a benchstat input: results, or "Unit u assume=aval" *)
Inductive titem := TBench (wr : list (bytes * b64)) | TUnit (u aval : bytes).

Inductive case :=
| KTable (space : list (N * N)) (c_1em9 c_1e6 c_1e9 : b64)
| KUnit (u : bytes) (v : b64)
        (tidy1 : b64 * bytes)            (* Tidy(v, u) *)
        (tidy2 : b64 * bytes)            (* Tidy of that again *)
        (rd : option (list oval))        (* the reader's Values for "BenchmarkX 1 v u" *)
        (md : option mobs)
        (fl : list (bytes * bool))       (* literal, does .unit:literal keep the value *)
        (ab : option abobs)              (* GetBetter / GetAssumption *)
| KSeq (lit : bytes) (items : list sitem) (gets : list (bytes * option (bytes * bytes * bytes)))
| KSeqF (terms : list fterm) (orc : re_oracle) (items : list sitem)
        (gets : list (bytes * option (bytes * bytes * bytes)))
| KTidySeq (calls : list (bytes * b64 * (b64 * bytes)))    (* Tidy(v, u) = (tv, tu), in call order *)
(** a text LONGER than the line scanner's buffer through ONE Reader / ONE
    Filter: [items] is what every record read when it was delivered,
    [items_late] what the caller's retained copies (Result.Clone after Apply,
    the *UnitMetadata pointers) read after the whole text has been scanned,
    [full_late] the values of the retained Result.Clone taken before the filter
    was applied, read at the end *)
| KLong (lit : bytes) (items items_late : list sitem) (full_late : list (list oval))
        (gets : list (bytes * option (bytes * bytes * bytes)))
(** benchstat's tables built from the results of ONE Reader (table by .config
    and unit): per table its unit, whether its assumption is AssumeExact, and
    the number of values in its cells *)
| KTab (items : list titem) (tables : list (bytes * bool * Z))
(** CONCURRENT callers (several goroutines, most calling Tidy, some scanning
    their own Reader) meeting the same previously unseen units at overlapping
    times, each batch in processes of its own (plain and under the race
    detector): [calls] = every DISTINCT answer (tv, tu) any caller got for
    Tidy(v, u), per unit; [norace] = the race detector reported nothing;
    [alive] = no process died and no caller panicked or was left without a
    result *)
| KConc (calls : list (bytes * b64 * (b64 * bytes))) (norace alive : bool).

(* not Sx.as_N: it uses Z.to_N, whose extracted name collides with the
   driver's use of Byte.to_N (reported) *)
Definition as_Nabs (s : sx) : option N :=
  match s with SZ z => if (0 <=? z)%Z then Some (Z.abs_N z) else None | _ => None end.

Definition as_oval (s : sx) : option oval :=
  match s with
  | SL [a; SB u; c; SB ou] => do a <- as_f64 a; do c <- as_f64 c; Some (a, u, c, ou)
  | _ => None
  end.
Definition as_ometa (s : sx) : option ometa := as_triple as_b as_b as_b s.
Definition as_fb (s : sx) : option (b64 * bytes) := as_pair as_f64 as_b s.

Definition as_sitem (s : sx) : option sitem :=
  match s with
  | SL [SZ 0; wr; mb; kept; after] =>
      do wr <- as_list (as_pair as_b as_f64) wr; do mb <- as_list as_bool mb;
      do kept <- as_bool kept; do after <- as_list as_oval after;
      Some (SBench wr mb kept after)
  | SL [SZ 1; SB u; SB v; recs] =>
      do recs <- as_list (as_pair as_z (as_opt as_ometa)) recs; Some (SUnit u v recs)
  | _ => None
  end.

Definition decode (s : sx) : option case :=
  match s with
  | SL [SZ 0; sp; a; b; c] =>
      do sp <- as_list (as_pair as_Nabs as_Nabs) sp;
      do a <- as_f64 a; do b <- as_f64 b; do c <- as_f64 c;
      Some (KTable sp a b c)
  | SL [SZ 1; SB u; v; t1; t2; rd; md; fl; ab] =>
      do v <- as_f64 v;
      do t1 <- as_fb t1; do t2 <- as_fb t2;
      do rd <- as_opt (as_list as_oval) rd;
      do md <- as_opt (fun s => match s with
                 | SL [SB u2; SB val2; recs; gets] =>
                     do recs <- as_list (as_pair as_z (as_opt as_ometa)) recs;
                     do gets <- as_list (as_pair as_b (as_opt as_ometa)) gets;
                     Some (mkMobs u2 val2 recs gets)
                 | _ => None end) md;
      do fl <- as_list (as_pair as_b as_bool) fl;
      do ab <- as_opt (fun s => match s with
                 | SL [SB bval; SB aval; es] =>
                     do es <- as_list (fun s => match s with
                                | SL [SB x; SZ b0; SZ b1; ex] => do ex <- as_bool ex; Some (x, b0, b1, ex)
                                | _ => None end) es;
                     Some (mkAb bval aval es)
                 | _ => None end) ab;
      Some (KUnit u v t1 t2 rd md fl ab)
  | SL [SZ 2; SB lit; items; gets] =>
      do items <- as_list as_sitem items;
      do gets <- as_list (as_pair as_b (as_opt as_ometa)) gets;
      Some (KSeq lit items gets)
  | SL [SZ 3; terms; orc; items; gets] =>
      do terms <- as_list (fun s => match s with
          | SL [SZ 0; SB l] => Some (TLit l)
          | SL [SZ 1; SB p] => Some (TRe p)
          | _ => None end) terms;
      do orc <- as_list (as_triple as_b as_b as_bool) orc;
      do items <- as_list as_sitem items;
      do gets <- as_list (as_pair as_b (as_opt as_ometa)) gets;
      Some (KSeqF terms orc items gets)
  | SL [SZ 4; calls] =>
      do calls <- as_list (as_triple as_b as_f64 as_fb) calls;
      Some (KTidySeq calls)
  | SL [SZ 7; calls; norace; alive] =>
      do calls <- as_list (as_triple as_b as_f64 as_fb) calls;
      do norace <- as_bool norace; do alive <- as_bool alive;
      Some (KConc calls norace alive)
  | SL [SZ 5; SB lit; items; items_late; full_late; gets] =>
      do items <- as_list as_sitem items;
      do items_late <- as_list as_sitem items_late;
      do full_late <- as_list (as_list as_oval) full_late;
      do gets <- as_list (as_pair as_b (as_opt as_ometa)) gets;
      Some (KLong lit items items_late full_late gets)
  | SL [SZ 6; items; tabs] =>
      do items <- as_list (fun s => match s with
          | SL [SZ 0; wr] => do wr <- as_list (as_pair as_b as_f64) wr; Some (TBench wr)
          | SL [SZ 1; SB u; SB a] => Some (TUnit u a)
          | _ => None end) items;
      do tabs <- as_list (as_triple as_b as_bool as_z) tabs;
      Some (KTab items tabs)
  | _ => None
  end.

Definition fb_eqb (a b : b64 * bytes) : bool := b64_same (fst a) (fst b) && beq (snd a) (snd b).
Definition oval_eqb (a b : oval) : bool :=
  let '(a1, a2, a3, a4) := a in let '(b1, b2, b3, b4) := b in
  b64_same a1 b1 && beq a2 b2 && b64_same a3 b3 && beq a4 b4.
Definition oval_of (v : value) : oval := (v_val v, v_unit v, v_oval v, v_ounit v).
Definition ometa_eqb (a b : ometa) : bool :=
  let '(a1, a2, a3) := a in let '(b1, b2, b3) := b in beq a1 b1 && beq a2 b2 && beq a3 b3.
Definition ometa_of (e : umeta) : ometa := (u_unit e, u_orig e, u_value e).

Definition val_lower : bytes := bs "lower".

(** model of the metadata scenario *)
Definition model_meta (u u2 val2 : bytes) : list (Z * option ometa) * list umeta :=
  let step (st : list (Z * option ometa) * list umeta) (uv : bytes * bytes) :=
    let '(recs, m) := st in
    let '(un, va) := uv in
    match units_add isp m un key_better va with
    | UAdded m' => (recs ++ [(0%Z, option_map ometa_of (units_find m' (snd (tidy isp b64_one un)) key_better))], m')
    | UDuplicate => (recs, m)
    | UConflict => (recs ++ [(1%Z, None)], m)
    end in
  fold_left step [(u, val_lower); (u2, val2)] ([], []).

Definition recs_eqb (a b : list (Z * option ometa)) : bool :=
  list_eqb (fun x y => Z.eqb (fst x) (fst y) && option_eqb ometa_eqb (snd x) (snd y)) a b.

(** the sequence: every line judged on its own; the unit table threaded.
    [tidyf] maps a written unit to the table's key (model: Tidy; spec: the rewrite),
    [rv] gives the value a reader must report, [mt] is the term's matcher on
    a unit name (a measurement is kept iff [mt] holds of its base unit or of
    its written unit: [unit_match]). *)
Definition seq_ok (tidyf : bytes -> bytes) (rv : b64 -> bytes -> value)
           (mt : bytes -> bool) (items : list sitem) (gets : list (bytes * option ometa)) : bool :=
  let step (st : bool * list umeta) (it : sitem) : bool * list umeta :=
    let '(ok, m) := st in
    match it with
    | SBench wr mb kept after =>
        let vals := map (fun '(u, v) => rv v u) wr in
        let '(k, any) := unit_filter_apply mt vals in
        (ok && list_eqb Bool.eqb (map (unit_match mt) vals) mb
            && Bool.eqb any kept
            && list_eqb oval_eqb (map oval_of k) after, m)
    | SUnit u va recs =>
        let tu := tidyf u in
        match units_find m tu key_better with
        | Some have =>
            if beq (u_value have) va then (ok && recs_eqb recs [], m)
            else (ok && recs_eqb recs [(1%Z, None)], m)
        | None =>
            (ok && recs_eqb recs [(0%Z, Some (tu, u, va))], m ++ [mkUmeta tu key_better u va])
        end
    end in
  let '(ok, m) := fold_left step items (true, []) in
  ok && forallb (fun '(x, got) =>
          option_eqb ometa_eqb (option_map ometa_of (units_find m (tidyf x) key_better)) got) gets.

(** the retained copies of every result, read after the whole text was
    scanned: every value still is what [rv] says of the pair as written *)
Definition late_ok (rv : b64 -> bytes -> value) (items : list sitem) (late : list (list oval)) : bool :=
  list_eqb (list_eqb oval_eqb)
    (flat_map (fun it => match it with
       | SBench wr _ _ _ => [map (fun '(u, v) => oval_of (rv v u)) wr]
       | SUnit _ _ _ => [] end) items)
    late.

(** the oracle answers every question the model asks: each regexp on the
    written and on the base unit of every measurement *)
Definition re_complete (terms : list fterm) (orc : re_oracle) (items : list sitem) : bool :=
  forallb (fun it => match it with
    | SBench wr _ _ _ =>
        forallb (fun '(u, _) =>
          forallb (fun t => match t with
            | TLit _ => true
            | TRe p => match re_find orc p u, re_find orc p (snd (tidy isp b64_one u)) with
                       | Some _, Some _ => true | _, _ => false end
            end) terms) wr
    | SUnit _ _ _ => true end) items.

(** benchstat tables: [tidyf] maps a written unit to the name of its metric.
    No two tables carry one unit; every measurement's metric has a table; a
    table holds exactly the measurements of its metric (written under
    whichever unit); its assumption is exact iff the first "Unit .. assume="
    line naming the metric - by its written or its base unit - says so. *)
Fixpoint nodupb (l : list bytes) : bool :=
  match l with [] => true | x :: r => negb (existsb (beq x) r) && nodupb r end.

Definition tab_ok (tidyf : bytes -> bytes) (items : list titem) (tables : list (bytes * bool * Z)) : bool :=
  let meas := flat_map (fun it => match it with TBench wr => map (fun '(u, _) => tidyf u) wr | TUnit _ _ => [] end) items in
  let ulines := flat_map (fun it => match it with TUnit u a => [(tidyf u, a)] | TBench _ => [] end) items in
  let tunits := map (fun t => fst (fst t)) tables in
  nodupb tunits
  && forallb (fun bu => existsb (beq bu) tunits) meas
  && forallb (fun '(t, ex, n) =>
       (0 <? n)%Z && (n =? Z.of_nat (length (filter (beq t) meas)))%Z
       && Bool.eqb ex (match find (fun l => beq (fst l) t) ulines with
                       | Some l => beq (snd l) (bs "exact") | None => false end)) tables.

Definition corr_ok (c : case) : bool :=
  match c with
  | KTable sp a b c' =>
      ranges_eqb sp space_ranges && b64_same a f_1em9 && b64_same b f_1e6 && b64_same c' f_1e9
  | KUnit u v t1 t2 rd md fl ab =>
      let m1 := tidy isp v u in
      let rv := read_value isp v u in
      fb_eqb m1 t1
      && fb_eqb (tidy isp (fst m1) (snd m1)) t2
      && match rd with
         | Some ovs => list_eqb oval_eqb ovs [oval_of rv]
         | None => true
         end
      && match md with
         | Some mo =>
             let '(recs, m) := model_meta u (m_u2 mo) (m_val2 mo) in
             recs_eqb recs (m_recs mo)
             && forallb (fun '(x, got) =>
                  option_eqb ometa_eqb (option_map ometa_of (units_get isp m x key_better)) got) (m_gets mo)
         | None => true
         end
      && forallb (fun '(lit, got) => Bool.eqb (unit_match (beq lit) rv) got) fl
      && match ab with
         | Some a =>
             let m := match units_add isp [] u key_better (ab_bval a) with
                      | UAdded m1 => match units_add isp m1 u key_assume (ab_aval a) with
                                     | UAdded m2 => m2 | _ => m1 end
                      | _ => [] end in
             forallb (fun '(x, b0, b1, ex) =>
               (b0 =? get_better isp [] x)%Z && (b1 =? get_better isp m x)%Z
               && Bool.eqb ex (get_assume_exact isp m x)) (ab_es a)
         | None => true
         end
  | KSeq lit items gets =>
      seq_ok (fun u => snd (tidy isp b64_one u)) (read_value isp) (beq lit) items gets
  | KSeqF terms orc items gets =>
      re_complete terms orc items
      && seq_ok (fun u => snd (tidy isp b64_one u)) (read_value isp) (terms_match orc terms) items gets
  | KTidySeq calls =>
      forallb (fun '(u, v, t) => fb_eqb (tidy isp v u) t) calls
  | KLong lit items items_late full_late gets =>
      let tf := fun u => snd (tidy isp b64_one u) in
      seq_ok tf (read_value isp) (beq lit) items gets
      && seq_ok tf (read_value isp) (beq lit) items_late gets
      && late_ok (read_value isp) items full_late
  | KTab items tables => tab_ok (fun u => snd (tidy isp b64_one u)) items tables
  (* the model is a function of (v, u): whoever asks, and whoever else is
     asking at the same time, gets [tidy v u]; and it cannot die *)
  | KConc calls _ alive =>
      alive && forallb (fun '(u, v, t) => fb_eqb (tidy isp v u) t) calls
  end.

(** ** the specification on what the implementation was seen to do.
    Declarative (Model/UnitsSpec.v): the unit is the tokenwise rewrite, the
    value is the REAL product v * 10^(6 #MB - 9 #ns) up to rounding (no
    evaluation order prescribed; NaN, zeros and infinities are fixed), the pair
    as written is kept iff rewritten, a unit with nothing to normalise passes
    through untouched.  [relax] = the judge of known finding
    C04_scale_factor_out_of_range (see [known_ok]). *)
Definition vj (relax : bool) : b64 -> bytes -> b64 -> bool := value_ok isp relax.

Fixpoint reports_ok (relax : bool) (wr : list (bytes * b64)) (got : list oval) : bool :=
  match wr, got with
  | [], [] => true
  | (u, v) :: wr', g :: got' => report_ok isp (vj relax) v u g && reports_ok relax wr' got'
  | _, _ => false
  end.

(** one Reader, one unit table, one Filter over a sequence of lines: every
    measurement of every line is judged on its own - named by the term iff the
    term names its base or its written unit; the line is kept iff one is; what
    remains are exactly the named measurements, each reported as [report_ok]
    demands; the unit table is keyed by the base unit (first value wins, equal
    value silent, different value an error) *)
Definition seq_spec_ok (relax : bool) (mt : bytes -> bool) (items : list sitem)
           (gets : list (bytes * option ometa)) : bool :=
  let step (st : bool * list umeta) (it : sitem) : bool * list umeta :=
    let '(ok, m) := st in
    match it with
    | SBench wr mb kept after =>
        let nm := map (fun '(u, _) => named isp mt u) wr in
        let keptw := filter (fun '(u, _) => named isp mt u) wr in
        (ok && list_eqb Bool.eqb nm mb
            && Bool.eqb (existsb (fun b => b) nm) kept
            && reports_ok relax keptw after, m)
    | SUnit u va recs =>
        let tu := spec_unit isp u in
        match units_find m tu key_better with
        | Some have =>
            if beq (u_value have) va then (ok && recs_eqb recs [], m)
            else (ok && recs_eqb recs [(1%Z, None)], m)
        | None =>
            (ok && recs_eqb recs [(0%Z, Some (tu, u, va))], m ++ [mkUmeta tu key_better u va])
        end
    end in
  let '(ok, m) := fold_left step items (true, []) in
  ok && forallb (fun '(x, got) =>
          option_eqb ometa_eqb (option_map ometa_of (units_find m (spec_unit isp x) key_better)) got) gets.

(** the retained copies of every result, read after the whole text was scanned *)
Fixpoint late_spec_ok (relax : bool) (items : list sitem) (late : list (list oval)) : bool :=
  match items with
  | [] => match late with [] => true | _ => false end
  | SUnit _ _ _ :: items' => late_spec_ok relax items' late
  | SBench wr _ _ _ :: items' =>
      match late with
      | l :: late' => reports_ok relax wr l && late_spec_ok relax items' late'
      | [] => false
      end
  end.

Definition prop_gen (relax : bool) (c : case) : bool :=
  match c with
  | KTable _ _ _ _ => true
  | KUnit u v t1 t2 rd md fl ab =>
      let su := spec_unit isp u in
      (* Tidy rewrites exactly the numerator ns/MB tokens and scales per component *)
      beq (snd t1) su && vj relax v u (fst t1)
      (* normalising a normalised measurement changes nothing *)
      && fb_eqb t2 t1
      (* the reader reports the base unit for every value, original kept iff rewritten *)
      && match rd with
         | Some ovs => reports_ok relax [(u, v)] ovs
         | None => true
         end
      (* metadata is found under the written and under the base unit *)
      && match md with
         | Some mo =>
             match m_recs mo with
             | (0%Z, Some e) :: _ =>
                 ometa_eqb e (su, u, val_lower)
                 && forallb (fun '(x, got) =>
                      if beq (spec_unit isp x) su
                      then option_eqb ometa_eqb got (Some e)
                      else if beq (spec_unit isp x) (spec_unit isp (m_u2 mo))
                      then option_eqb ometa_eqb got (Some (spec_unit isp (m_u2 mo), m_u2 mo, m_val2 mo))
                      else match got with None => true | Some _ => false end) (m_gets mo)
                 (* a second line for the same metric: silent if equal, error if different *)
                 && (if beq (spec_unit isp (m_u2 mo)) su
                     then match m_recs mo with
                          | [_] => beq (m_val2 mo) val_lower
                          | [_; (1%Z, None)] => negb (beq (m_val2 mo) val_lower)
                          | _ => false
                          end
                     else match m_recs mo with
                          | [_; (0%Z, Some e2)] => ometa_eqb e2 (spec_unit isp (m_u2 mo), m_u2 mo, m_val2 mo)
                          | _ => false
                          end)
             | _ => false
             end
         | None => true
         end
      (* .unit:lit keeps the value iff lit names the base or the written unit *)
      && forallb (fun '(lit, got) => Bool.eqb (named isp (beq lit) u) got) fl
      (* GetBetter / GetAssumption: the line's metadata applies to every name
         (written or base) of u's metric and to no other unit; two names of ONE
         metric get ONE answer, with and without metadata (built-in defaults) *)
      && match ab with
         | Some a =>
             forallb (fun '(x, b0, b1, ex) =>
               (if beq (spec_unit isp x) su
                then (b1 =? better_dir (ab_bval a))%Z && Bool.eqb ex (beq (ab_aval a) (bs "exact"))
                else (b1 =? b0)%Z && negb ex)
               && forallb (fun '(y, c0, c1, ey) =>
                    negb (beq (spec_unit isp x) (spec_unit isp y))
                    || ((b0 =? c0)%Z && (b1 =? c1)%Z && Bool.eqb ex ey)) (ab_es a)) (ab_es a)
         | None => true
         end
  | KSeq lit items gets => seq_spec_ok relax (beq lit) items gets
  (* every measurement judged on its own: kept iff some member of the term
     names its base unit or its written unit *)
  | KSeqF terms orc items gets => seq_spec_ok relax (terms_match orc terms) items gets
  (* every call, whatever was tidied before it in the process: exactly the
     numerator ns/MB tokens rewritten, the value scaled per rewritten token; a
     unit with nothing to rewrite (a base form) comes back with the value untouched *)
  | KTidySeq calls =>
      forallb (fun '(u, v, t) =>
        beq (snd t) (spec_unit isp u) && vj relax v u (fst t)
        && (negb (beq (spec_unit isp u) u) || b64_same (fst t) v)) calls
  (* concurrent callers: EVERY caller gets the normalised unit and the scaled
     value (so all callers of one unit agree), nobody dies, and the race
     detector has nothing to report *)
  | KConc calls norace alive =>
      norace && alive
      && match calls with [] => false | _ => true end
      && forallb (fun '(u, v, t) =>
        beq (snd t) (spec_unit isp u) && vj relax v u (fst t)
        && (negb (beq (spec_unit isp u) u) || b64_same (fst t) v)) calls
  (* every measurement of every line, however long the text: reported under
     its base unit with the scaled value, the pair as written kept iff
     rewritten, a unit with nothing to normalise passed through untouched -
     when the record is delivered AND in the caller's retained copies after
     the rest of the text has been read (measurements of one metric are never
     split between two unit names) *)
  | KLong lit items items_late full_late gets =>
      seq_spec_ok relax (beq lit) items gets
      && seq_spec_ok relax (beq lit) items_late gets
      && late_spec_ok relax items full_late
  (* benchstat tables: measurements of one metric are never split between two
     unit names, and unit metadata applies whichever name the line used *)
  | KTab items tables => tab_ok (spec_unit isp) items tables
  end.

Definition prop_ok (c : case) : bool := prop_gen false c.

(** the judge of known finding C04_scale_factor_out_of_range: everything the
    property demands, except that for a unit whose factor, accumulated as one
    binary64 number in token order, leaves the normal range (35 or more "ns" /
    52 or more "MB" numerator components), the reported value may be the
    product with that degenerate factor (0 * Inf = NaN, finite * Inf = Inf, ...) *)
Definition known_ok (c : case) : bool := prop_gen true c.

Definition run_case (s : sx) : N :=
  match decode s with
  | Some c => code_of3 (corr_ok c) (prop_ok c) (known_ok c)
  | None => code_undecodable
  end.
