(** Correspondence evaluator for C11 (Mann-Whitney U).
    Case kinds:
      (1 x1 x2 alt (lim_untied lim_tied) outcome legacy oracle)    stats.MannWhitneyUTest + benchstat.UTest
      (2 n1 n2 T queries)                                          stats.UDist{N1,N2,T}.CDF/PMF
      (3 n1 n2 v alt outcome)                                      stats.MannWhitneyUTest on n1 and n2 copies of
                                                                   the value v (large all-equal samples: only the
                                                                   sizes are shipped)
      (4 series (lim_untied lim_tied) ops oracle)                  history of MannWhitneyUTest calls on windows of
                                                                   ONE backing array of the caller;
                                                                   op = (lo1 hi1 lo2 hi2 alt outcome mut): the call on
                                                                   series[lo1:hi1], series[lo2:hi2]; mut = the positions
                                                                   (index bits) at which the array differs, after the
                                                                   call, from its values before the first call
      (5 gomaxprocs goroutines calls race_ok unchanged jobs)       batch of concurrent calls; job = (case1 outcomes):
                                                                   a kind-1 case holding the SEQUENTIAL outcome and the
                                                                   distinct outcomes the goroutines observed (in process
                                                                   and in the -race binary); race_ok = detector silent
    outcome : (0 n1 n2 Ubits Pbits altecho) | (1) ErrSampleSize | (2) ErrSamplesEqual | (3) panic | (4) other error
    legacy  : () not run | (outcome') with outcome' = (0 Pbits) | (1) | (2) | (3) | (4)
    oracle  : list of (argbits erfcbits): math.Erfc called directly by the harness
    queries : list of (q cdf pmf), U = q/4; cdf, pmf : (0 bits) | (3) panic

    [corr_ok]: the code-structured model (Model/UStat, UDistImpl, UTest) agrees
    with what the implementation returned. [prop_ok]: what the implementation
    returned satisfies the specification (pair count; exact tail probabilities
    of Model/UDistSpec; the declarative normal approximation of Model/UApproxSpec
    in exact rationals with math.Erfc from the oracle table; error cases; the legacy
    benchstat.UTest judged like the two-sided test).

    Float comparison in [prop_ok]: U by bit pattern; an exact-regime p-value P against
    the exact fraction a/b:  |P - a/b| <= 1e-12 * a/b, NO absolute slack, and 0 <= P:
    after hooks/fix_c11_utest_greater_mirror.diff every p-value is a distribution function
    (a sum of positive terms over C(N, n1); the upper tail is the lower tail of the
    mirrored distribution), accurate relatively, so far tails are judged as well
    (1e-14 with ties at N = 50, 1e-29 without).  UDist.CDF likewise; UDist.PMF with
    ties is a difference of two such values: absolute slack 1e-13 when N > 20 (the
    binomials are exp(lgamma)), sign not demanded.  Approximate regime: the declarative
    approximation of Model/UApproxSpec.v, relative 1e-12.  [corr_ok] keeps its own
    comparison (bitwise where the code is integer-exact and for the whole normal
    approximation given Erfc, else 1e-12 relative + slack_base / slack_compl).

    Untied samples beyond the enumeration budget (N > 14; in particular both
    sizes in 30..50): the specification's counts are evaluated in unbounded
    integers by Model/UDistUntiedEval.v ([untied_le], [untied_table]), proved equal
    to [count_le] / [count_eq] for all sizes (C11_untied_evaluator_le, _ge, _table_le, _table_eq). *)
From Perf Require Import Base.Bytes Base.Sx Base.B64 Base.SxF.
From Perf Require Import Model.UStat Model.UDistSpec Model.UDistImpl Model.UTest Model.UDistUntiedEval Model.UTestHist Model.UApproxSpec.
Local Open Scope Z_scope.

(** ** decoding *)
Inductive outcome :=
| ONum (n1 n2 : Z) (U P : b64) (altecho : Z)
| OErrSize | OErrEqual | OPanic | OOther.

Definition dec_outcome (s : sx) : option outcome :=
  match s with
  | SL [SZ 0; SZ n1; SZ n2; SZ u; SZ p; SZ a] => Some (ONum n1 n2 (b64_of_bits u) (b64_of_bits p) a)
  | SL [SZ 1] => Some OErrSize
  | SL [SZ 2] => Some OErrEqual
  | SL [SZ 3] => Some OPanic
  | SL [SZ 4] => Some OOther
  | _ => None
  end.

Inductive legacy := LNone | LP (p : b64) | LErrSize | LErrEqual | LPanic | LOther.
Definition dec_legacy (s : sx) : option legacy :=
  match s with
  | SL [] => Some LNone
  | SL [SL [SZ 0; SZ p]] => Some (LP (b64_of_bits p))
  | SL [SL [SZ 1]] => Some LErrSize
  | SL [SL [SZ 2]] => Some LErrEqual
  | SL [SL [SZ 3]] => Some LPanic
  | SL [SL [SZ 4]] => Some LOther
  | _ => None
  end.

Inductive fout := FNum (x : b64) | FPanic.
Definition dec_fout (s : sx) : option fout :=
  match s with
  | SL [SZ 0; SZ b] => Some (FNum (b64_of_bits b))
  | SL [SZ 3] => Some FPanic
  | _ => None
  end.

Definition dec_alt (z : Z) : option alt :=
  match z with -1 => Some Less | 0 => Some Differs | 1 => Some Greater | _ => None end.
Definition alt_code (a : alt) : Z := match a with Less => -1 | Differs => 0 | Greater => 1 end.

Record ucase := mkU {
  u_x1 : list Z; u_x2 : list Z; u_alt : alt; u_lims : Z * Z;
  u_out : outcome; u_legacy : legacy; u_oracle : list (Z * Z) }.
Record dcase := mkD { d_n1 : Z; d_n2 : Z; d_T : list Z; d_q : list (Z * fout * fout) }.
Record ecase := mkE { e_n1 : Z; e_n2 : Z; e_v : Z; e_alt : alt; e_out : outcome }.
(** kind 4: one call of a history *)
Record hopc := mkHopc { ho_op : hop; ho_out : outcome; ho_mut : list (Z * Z) }.
Record hcase := mkH { hc_series : list Z; hc_lims : Z * Z; hc_ops : list hopc; hc_oracle : list (Z * Z) }.
(** kind 5: one job of a concurrent batch *)
Record cjob := mkJ { j_case : ucase; j_conc : list outcome }.
Record ccase := mkC { cc_procs : Z; cc_gor : Z; cc_calls : Z; cc_race_ok : bool; cc_unchanged : bool;
                      cc_jobs : list cjob }.
Inductive case := CU (c : ucase) | CD (c : dcase) | CE (c : ecase) | CH (c : hcase) | CC (c : ccase).

Definition dec_ucase (s : sx) : option ucase :=
  match s with
  | SL [SZ 1; x1; x2; SZ a; lims; out; leg; orc] =>
      do x1 <- as_list as_z x1; do x2 <- as_list as_z x2;
      do a <- dec_alt a;
      do lims <- as_pair as_z as_z lims;
      do out <- dec_outcome out; do leg <- dec_legacy leg;
      do orc <- as_list (as_pair as_z as_z) orc;
      Some (mkU x1 x2 a lims out leg orc)
  | _ => None
  end.

Definition dec_hopc (s : sx) : option hopc :=
  match s with
  | SL [SZ lo1; SZ hi1; SZ lo2; SZ hi2; SZ a; out; mut] =>
      do a <- dec_alt a; do out <- dec_outcome out;
      do mut <- as_list (as_pair as_z as_z) mut;
      Some (mkHopc (mkHop lo1 hi1 lo2 hi2 a) out mut)
  | _ => None
  end.

Definition dec_cjob (s : sx) : option cjob :=
  match s with
  | SL [u; outs] => do u <- dec_ucase u; do outs <- as_list dec_outcome outs; Some (mkJ u outs)
  | _ => None
  end.

Definition decode (s : sx) : option case :=
  match s with
  | SL [SZ 1; _; _; _; _; _; _; _] => do c <- dec_ucase s; Some (CU c)
  | SL [SZ 4; series; lims; ops; orc] =>
      do series <- as_list as_z series;
      do lims <- as_pair as_z as_z lims;
      do ops <- as_list dec_hopc ops;
      do orc <- as_list (as_pair as_z as_z) orc;
      Some (CH (mkH series lims ops orc))
  | SL [SZ 5; SZ procs; SZ gor; SZ calls; rok; unch; jobs] =>
      do rok <- as_bool rok; do unch <- as_bool unch;
      do jobs <- as_list dec_cjob jobs;
      Some (CC (mkC procs gor calls rok unch jobs))
  | SL [SZ 2; SZ n1; SZ n2; t; qs] =>
      do t <- as_list as_z t;
      do qs <- as_list (as_triple as_z dec_fout dec_fout) qs;
      Some (CD (mkD n1 n2 t qs))
  | SL [SZ 3; SZ n1; SZ n2; SZ v; SZ a; out] =>
      do a <- dec_alt a; do out <- dec_outcome out;
      Some (CE (mkE n1 n2 v a out))
  | _ => None
  end.

(** ** comparing a float with an exact fraction *)
Definition q_of_b64 (x : b64) : option (Z * Z) :=
  match b64_to_ZE x with
  | Some (m, e) => if 0 <=? e then Some (m * 2 ^ e, 1) else Some (m, 2 ^ (- e))
  | None => None
  end.

(** |x - num/den| <= num/den * 1e-12 + abs16 * 1e-16   (num >= 0, den > 0) *)
Definition close (x : b64) (num den abs16 : Z) : bool :=
  match q_of_b64 x with
  | Some (pn, pd) =>
      Z.abs (pn * den - num * pd) * 10 ^ 16 <=? num * pd * 10 ^ 4 + abs16 * pd * den
  | None => false
  end.

(** 0 <= x <= 1 + 1e-12: a probability (never negative), whatever else is wrong *)
Definition in_unit (x : b64) : bool :=
  match q_of_b64 x with
  | Some (pn, pd) => (0 <=? pn) && (pn * 10 ^ 12 <=? pd * (10 ^ 12 + 1))
  | None => false
  end.

(** -1e-12 <= x <= 1 + 1e-12, for UDist.PMF only: with ties it is a DIFFERENCE of two
    distribution-function values, so a mass that is exactly 0 may come out as -1e-15;
    the property asks for the masses to sum to 1 and to accumulate to the distribution
    function, not for a sign *)
Definition in_unit_tol (x : b64) : bool :=
  match q_of_b64 x with
  | Some (pn, pd) => (- pd <=? pn * 10 ^ 12) && (pn * 10 ^ 12 <=? pd * (10 ^ 12 + 1))
  | None => false
  end.

(** absolute slack in units of 1e-16 *)
Definition slack_base (N : Z) : Z := if N <=? 20 then 0 else 1000.
Definition slack_compl (N : Z) : Z := if N <=? 20 then 4 else 1000.

Definition same_bits (x y : b64) : bool := b64_same x y.

(** ** budgets: when the exponential evaluators are run *)
Definition vec_budget (t : list Z) : Z := fold_right (fun x acc => Z.min (acc * (x + 1)) (10 ^ 12)) 1 t.
Definition model_budget : Z := 200000.
Definition enum_budget : Z := 20000.
(** untied samples with n1 * n2 above this (both sizes >= 30): the model's p-value IS the
    table fill that evaluates the specification ([untied_le] is [cdf], proved equal to
    [count_le]: C11_untied_evaluator_le), so it is computed once, in [prop_ok] *)
Definition untied_heavy : Z := 899.

(** ** the specification's ingredients, computed from the inputs only *)
Definition all_equal (l : list Z) : bool :=
  match l with [] => true | v :: l' => forallb (Z.eqb v) l' end.

(** no ties: the tie vector is all ones (= [ones (zsum t)]) *)
Definition is_ones (t : list Z) : bool := forallb (Z.eqb 1) t.

Definition spec_le (t : list Z) (n1 u : Z) : Z :=
  if vec_budget t <=? enum_budget then count_le t n1 u
  else if is_ones t then untied_le n1 (zsum t - n1) u
  else fast_count_le t n1 u.
Definition spec_ge (t : list Z) (n1 u : Z) : Z :=
  if vec_budget t <=? enum_budget then count_ge t n1 u
  else if is_ones t then untied_ge n1 (zsum t - n1) u
  else fast_count_ge t n1 u.
Definition spec_eq (t : list Z) (n1 u : Z) : Z :=
  if vec_budget t <=? enum_budget then count_eq t n1 u
  else if is_ones t then untied_le n1 (zsum t - n1) u - untied_le n1 (zsum t - n1) (u - 1)
  else fast_count_le t n1 u - fast_count_le t n1 (u - 1).

Definition slack_base_t (t : list Z) : Z := if is_ones t then 0 else slack_base (zsum t).
Definition slack_compl_t (t : list Z) : Z := if is_ones t then 4 else slack_compl (zsum t).

(** the property's p-value: (numerator, denominator, absolute slack in 1e-16).
    No absolute slack: every p-value of the (repaired) exact path is a distribution
    function, i.e. a sum of positive terms divided by C(N, n1) (the upper tail is the
    lower tail of the mirrored distribution: hooks/fix_c11_utest_greater_mirror.diff), so
    it is accurate RELATIVELY and tails of 1e-14 (ties, N = 50) or 1e-29 (no ties) are judged. *)
Definition spec_p (t : list Z) (n1 twoU : Z) (a : alt) : Z * Z * Z :=
  let tot := total t n1 in
  match a with
  | Less => (spec_le t n1 twoU, tot, 0)
  | Greater => (spec_ge t n1 twoU, tot, 0)
  | Differs => (Z.min tot (2 * Z.min (spec_le t n1 twoU) (spec_ge t n1 twoU)), tot, 0)
  end.

Definition exact_regime (t : list Z) (n1 n2 : Z) : bool :=
  let ties := has_ties t in
  (negb ties && (n1 <=? 50) && (n2 <=? 50)) || (ties && (n1 <=? 25) && (n2 <=? 25)).

Definition erfc_of (tbl : list (Z * Z)) (x : b64) : option b64 :=
  let k := bits_of_b64 x in
  match find (fun kv => fst kv =? k) tbl with
  | Some kv => Some (b64_of_bits (snd kv))
  | None => None
  end.

Definition U_of_twoU (twoU : Z) : b64 := b64_of_ZE twoU (-1).

(** ** kind 1: the test *)

(** The recorded deviation C11_twosided_asymmetric_ties: the value the code's
    two-sided rule takes on the EXACT distribution (1 when U1 = U2, else the
    lower tail at min(U1, U2) doubled and capped at 1).  It differs from the
    property's value only for tie vectors that are not palindromes. *)
Definition finding_p (t : list Z) (n1 n2 twoU : Z) : Z * Z :=
  let tot := total t n1 in
  let twoU' := 2 * (n1 * n2) - twoU in
  if twoU =? twoU' then (tot, tot)
  else (Z.min tot (2 * spec_le t n1 (Z.min twoU twoU')), tot).

Definition palindrome (t : list Z) : bool := list_eqb Z.eqb (rev t) t.

(** the observed p-value [P] of alternative [a] in the exact regime.  [relax]
    (only in [known_ok]): for the two-sided alternative with a tied, non-palindromic
    tie vector the recorded value [finding_p] is accepted as well - nothing else. *)
Definition exact_p_ok (relax : bool) (t : list Z) (n1 n2 twoU : Z) (a : alt) (P : b64) : bool :=
  let '(num, den, slack) := spec_p t n1 twoU a in
  close P num den slack
  || (relax
      && match a with
         | Differs =>
             has_ties t && negb (palindrome t)
             && (let '(fn, fd) := finding_p t n1 n2 twoU in close P fn fd slack)
         | _ => false
         end).

(** the observed p-value in the approximate regime: the declarative normal
    approximation of Model/UApproxSpec.v (exact rationals; square roots removed by
    squaring), with math.Erfc taken from the case's oracle table: SOME recorded pair
    (x, erfc x) has x = the declarative argument -z/sqrt 2 within a relative 2e-15, and
    P is the rational function of erfc x the approximation prescribes, within a
    relative 1e-12 (+ 4e-16 absolute where a complement 1 - Phi is formed). *)
Definition approx_p_ok (orc : list (Z * Z)) (t : list Z) (n1 n2 twoU : Z) (a : alt) (P : b64) : bool :=
  existsb (fun kv =>
             match q_of_b64 (b64_of_bits (fst kv)), q_of_b64 (b64_of_bits (snd kv)) with
             | Some (xn, xd), Some (en, ed) =>
                 arg_ok n1 n2 t twoU a xn xd
                 && (0 <=? en) && (en <=? 2 * ed)
                 && (let '(num, den) := approx_spec_p a en ed in
                     close P num den (match a with Less => 0 | _ => 4 end))
             | _, _ => false
             end) orc.

Definition p_ok (relax : bool) (orc : list (Z * Z)) (x1 x2 : list Z) (a : alt) (P : b64) : bool :=
  let n1 := zlen x1 in let n2 := zlen x2 in
  let t := pool_T x1 x2 in
  let twoU := twoU_pairs x1 x2 in
  in_unit P
  && (if exact_regime t n1 n2 then exact_p_ok relax t n1 n2 twoU a P
      else approx_p_ok orc t n1 n2 twoU a P).

(** the legacy benchstat.UTest (an observable of the property): the two-sided
    p-value, or the two errors, judged by the same clauses as the test itself *)
Definition legacy_ok (relax : bool) (c : ucase) : bool :=
  let x1 := u_x1 c in let x2 := u_x2 c in
  let empty := (zlen x1 =? 0) || (zlen x2 =? 0) in
  match u_legacy c with
  | LNone => true
  | LPanic | LOther => false
  | LErrSize => empty
  | LErrEqual => negb empty && all_equal (x1 ++ x2)
  | LP p =>
      negb empty && negb (all_equal (x1 ++ x2))
      && (* bit-equal to a two-sided P that [judge_u] judges anyway: nothing to add *)
         ((match u_alt c, u_out c with Differs, ONum _ _ _ P _ => same_bits p P | _, _ => false end)
          || p_ok relax (u_oracle c) x1 x2 Differs p)
  end.

Definition judge_u (relax : bool) (c : ucase) : bool :=
  let x1 := u_x1 c in let x2 := u_x2 c in
  let n1 := zlen x1 in let n2 := zlen x2 in
  match u_out c with
  | OPanic | OOther => false
  | OErrSize => (n1 =? 0) || (n2 =? 0)
  | OErrEqual => negb ((n1 =? 0) || (n2 =? 0)) && all_equal (x1 ++ x2)
  | ONum o1 o2 U P ae =>
      negb ((n1 =? 0) || (n2 =? 0)) && negb (all_equal (x1 ++ x2))
      && (o1 =? n1) && (o2 =? n2) && (ae =? alt_code (u_alt c))
      && same_bits U (U_of_twoU (twoU_pairs x1 x2))
      && p_ok relax (u_oracle c) x1 x2 (u_alt c) P
  end
  && legacy_ok relax c.

Definition prop_ok_u (c : ucase) : bool := judge_u false c.
(** the property with exactly the recorded two-sided deviation allowed *)
Definition known_ok_u (c : ucase) : bool := judge_u true c.

Definition p_matches (N : Z) (pe : pexact) (bitexact : bool) (P : b64) : bool :=
  if bitexact then
    match pexact_b64 pe with Some p => same_bits P p | None => false end
  else
    match pexact_frac pe with
    | Some (num, den) =>
        let slack := match pe with POneMinusCdf _ => slack_compl N | _ => slack_base N end in
        close P num den slack
    | None => false
    end.

Definition corr_ok_u (c : ucase) : bool :=
  let x1 := u_x1 c in let x2 := u_x2 c in
  (fst (u_lims c) =? exact_limit) && (snd (u_lims c) =? ties_exact_limit)
  && (match x1, x2 with
      | [], _ | _, [] => match u_out c with OErrSize => true | _ => false end
      | _, _ =>
          let s := ustat_of x1 x2 in
          let heavy := use_exact s
                       && (if us_hasTies s then model_budget <? vec_budget (us_T s)
                           else untied_heavy <? us_n1 s * us_n2 s) in
          if heavy then
            (* the recursion of the model is not run on this input; statistic only *)
            match u_out c with
            | ONum o1 o2 U _ ae =>
                (o1 =? us_n1 s) && (o2 =? us_n2 s) && (ae =? alt_code (u_alt c))
                && same_bits U (U_of_twoU (us_twoU1 s))
            | _ => false
            end
          else
            match mwu (erfc_of (u_oracle c)) x1 x2 (u_alt c), u_out c with
            | RErrSampleSize, OErrSize => true
            | RErrSamplesEqual, OErrEqual => true
            | RExact twoU pe, ONum o1 o2 U P ae =>
                (o1 =? us_n1 s) && (o2 =? us_n2 s) && (ae =? alt_code (u_alt c))
                && same_bits U (U_of_twoU twoU)
                && p_matches (us_n1 s + us_n2 s) pe (us_hasTies s && (us_n1 s + us_n2 s <=? 20)) P
            | RApprox twoU p, ONum o1 o2 U P ae =>
                (o1 =? us_n1 s) && (o2 =? us_n2 s) && (ae =? alt_code (u_alt c))
                && same_bits U (U_of_twoU twoU) && same_bits P p
            | _, _ => false
            end
      end)
  && (* legacy benchstat.UTest = the two-sided test, errors converted one to one *)
     (match u_legacy c, u_out c with
      | LNone, _ => true
      | LP p, ONum _ _ _ P _ => same_bits p P
      | LErrSize, OErrSize => true
      | LErrEqual, OErrEqual => true
      | _, _ => false
      end).

(** ** kind 2: the distribution *)
Definition spec_T (n1 n2 : Z) (t : list Z) : list Z :=
  match t with [] => repeat 1 (Z.to_nat (n1 + n2)) | _ => t end.

Definition dres_matches (N : Z) (d : dres) (bitexact : bool) (o : fout) : bool :=
  match d, o with
  | DPanic, FPanic => true
  | DPanic, _ | _, FPanic => false
  | _, FNum x =>
      if bitexact then match dres_b64 d with Some y => same_bits x y | None => false end
      else match d with
           | DFrac n m => close x n m (slack_base N)
           | DOneMinus n m => close x (m - n) m (slack_base N)
           | DPanic => false
           end
  end.

Definition corr_ok_d (c : dcase) : bool :=
  let t := d_T c in
  let bitexact := has_ties t && (d_n1 c + d_n2 c <=? 20) in
  (* the model's recursion is evaluated three times per query *)
  if has_ties t && (10 * model_budget <? vec_budget t * Z.of_nat (length (d_q c))) then true
  else if negb (has_ties t) && (untied_heavy <? d_n1 c * d_n2 c) then true   (* see [untied_heavy] *)
  else
    forallb (fun '(q, oc, op) =>
               dres_matches (d_n1 c + d_n2 c) (cdf (d_n1 c) (d_n2 c) t q) bitexact oc
               && dres_matches (d_n1 c + d_n2 c) (pmf (d_n1 c) (d_n2 c) t q) bitexact op)
            (d_q c).

(** for large tie vectors the histogram of the fast evaluator is computed once per case *)
Definition hist_le (h : list Z) (u : Z) : Z :=
  if u <? 0 then 0 else zsum (firstn (Z.to_nat (u + 1)) h).
Definition hist_eq (h : list Z) (u : Z) : Z :=
  if u <? 0 then 0 else nth (Z.to_nat u) h 0.

(** PMF(x) is Pr[U = x'] with x' = x rounded DOWN to the nearest point of the grid
    Step() = 1/2 the distribution is defined on (the contract of DiscreteDist.PMF in
    internal/stats/dist.go); CDF(x) = Pr[U <= x].  With q = 4x: 2x' = q / 2 (floor), and
    both are the declarative counts at 2U = q / 2, for EVERY q: half-integer points of an
    untied distribution carry no mass ([count_eq] of an all-ones tie vector at an odd
    2U is 0: count_eq_ones_odd), quarter points round down.
    A tie vector with one run (all values equal; K < 2): the statistic is the constant
    n1 n2 / 2; the code refuses such a vector by a panic ("reported as errors rather than
    numbers"), so a panic is accepted there - a NUMBER must still be the true value. *)
Definition prop_ok_d (c : dcase) : bool :=
  let n1 := d_n1 c in let n2 := d_n2 c in
  let t := spec_T n1 n2 (d_T c) in
  match t with
  | [] => true              (* no values at all *)
  | _ =>
      let single := match t with [_] => true | _ => false end in
      let tot := total t n1 in
      let small := vec_budget t <=? enum_budget in
      let untied := is_ones t in
      (* one table per case: the fast evaluator's histogram with ties, the Mann-Whitney counts without *)
      let h := if small then [] else if untied then untied_table n1 n2 else hist (Z.to_nat (2 * (n1 * n2) + 2)) t n1 in
      let le u := if small then count_le t n1 u else if untied then tab_le h u else hist_le h u in
      let eq u := if small then count_eq t n1 u else if untied then tab_eq h u else hist_eq h u in
      let slack := slack_base_t t in
      let cdf_ok q xc :=
        in_unit xc &&
        (if q <? 0 then close xc 0 1 0
         else if 4 * (n1 * n2) <=? q then close xc 1 1 0
         else close xc (le (q / 2)) tot 0) in       (* a sum of positive terms: relative accuracy *)
      let pmf_ok q xp :=
        in_unit_tol xp && (if q <? 0 then close xp 0 1 0 else close xp (eq (q / 2)) tot slack) in
      forallb (fun '(q, oc, op) =>
                 match oc with FNum xc => cdf_ok q xc | FPanic => single end
                 && match op with FNum xp => pmf_ok q xp | FPanic => single end)
              (d_q c)
  end.

(** ** kind 3: constant samples given by their sizes.
    Specification: an empty sample is ErrSampleSize, otherwise all pooled values are
    equal and the answer must be ErrSamplesEqual (whatever the size: this is the class
    that caught the sigma == 0 rounding defect at 165142 + 165142 values).
    Model: [mwu_const] = [mwu] on these samples (Proofs/UTest.v, mwu_const_correct);
    for small sizes [mwu] itself is run as well. *)
Definition res_matches (r : uresult) (o : outcome) : bool :=
  match r, o with
  | RErrSampleSize, OErrSize => true
  | RErrSamplesEqual, OErrEqual => true
  | _, _ => false
  end.

Definition prop_ok_e (c : ecase) : bool :=
  match e_out c with
  | OErrSize => (e_n1 c <=? 0) || (e_n2 c <=? 0)
  | OErrEqual => (0 <? e_n1 c) && (0 <? e_n2 c)
  | _ => false
  end.

Definition corr_ok_e (c : ecase) : bool :=
  res_matches (mwu_const (e_n1 c) (e_n2 c)) (e_out c)
  && (if (e_n1 c + e_n2 c <=? 200) && (e_n1 c <=? 200) && (e_n2 c <=? 200) then
        res_matches (mwu (fun _ => None) (repeat (e_v c) (Z.to_nat (e_n1 c))) (repeat (e_v c) (Z.to_nat (e_n2 c))) (e_alt c))
                    (e_out c)
      else true).

(** ** kind 4: a history of calls on windows of one backing array of the caller.
    Specification: no call changes the caller's array, and every call returns what
    the property prescribes for the values its windows held BEFORE the first call
    ([prop_ok_u] on the windows of the original series).
    Model: [run_hist] (Model/UTestHist.v): the function sorts private copies. *)
Definition hop_ucase (c : hcase) (mem : list Z) (op : hopc) : ucase :=
  mkU (arg1 mem (ho_op op)) (arg2 mem (ho_op op)) (h_alt (ho_op op)) (hc_lims c) (ho_out op) LNone (hc_oracle c).

Definition hop_valid (c : hcase) (op : hopc) : bool :=
  valid_window (hc_series c) (h_lo1 (ho_op op)) (h_hi1 (ho_op op))
  && valid_window (hc_series c) (h_lo2 (ho_op op)) (h_hi2 (ho_op op)).

Definition is_nil {A} (l : list A) : bool := match l with [] => true | _ => false end.

Definition prop_ok_h (c : hcase) : bool :=
  forallb (fun op => hop_valid c op
                     && is_nil (ho_mut op)                                (* the inputs are unchanged *)
                     && prop_ok_u (hop_ucase c (hc_series c) op))          (* judged on the original values *)
          (hc_ops c).

(** the model threads the caller's array through the calls *)
Fixpoint corr_hist (c : hcase) (mem : list Z) (ops : list hopc) : bool :=
  match ops with
  | [] => true
  | op :: r =>
      let mem' := mem_after mem (ho_op op) in
      corr_ok_u (hop_ucase c mem op)
      && (if list_eqb Z.eqb mem' (hc_series c) then is_nil (ho_mut op) else negb (is_nil (ho_mut op)))
      && corr_hist c mem' r
  end.
Definition corr_ok_h (c : hcase) : bool :=
  forallb (hop_valid c) (hc_ops c) && corr_hist c (hc_series c) (hc_ops c).

(** ** kind 5: concurrent calls.
    Specification: at least 8 goroutines on at least 4 processors; the race
    detector reported nothing; no input slice changed; the sequential outcome of
    every job is what the property prescribes ([prop_ok_u]) and EVERY outcome a
    goroutine observed for that job is bit for bit the sequential one.
    Model: [run_batch] (Model/UTestHist.v): every slot holds [mwu] of its job. *)
Definition outcome_same (a b : outcome) : bool :=
  match a, b with
  | ONum n1 n2 U P ae, ONum n1' n2' U' P' ae' =>
      (n1 =? n1') && (n2 =? n2') && same_bits U U' && same_bits P P' && (ae =? ae')
  | OErrSize, OErrSize | OErrEqual, OErrEqual => true
  | _, _ => false
  end.

Definition job_conc_ok (j : cjob) : bool :=
  negb (is_nil (j_conc j)) && forallb (outcome_same (u_out (j_case j))) (j_conc j).

Definition prop_ok_c (c : ccase) : bool :=
  (4 <=? cc_procs c) && (8 <=? cc_gor c) && (0 <? cc_calls c)
  && cc_race_ok c && cc_unchanged c
  && forallb (fun j => prop_ok_u (j_case j) && job_conc_ok j) (cc_jobs c).

Definition corr_ok_c (c : ccase) : bool :=
  forallb (fun j => corr_ok_u (j_case j) && job_conc_ok j) (cc_jobs c).

(** ** the known finding C11_twosided_asymmetric_ties: [known_ok] is [prop_ok] with
    exactly that deviation allowed (kind 1, two-sided alternative or the legacy
    benchstat.UTest, exact regime, tied non-palindromic tie vector: the p-value may be
    the code's "lower tail at min(U1,U2) doubled" instead of twice the smaller tail).
    Histories and concurrent batches are never tagged (the generator keeps the
    finding's inputs out of them), the distribution and the constant samples are not
    concerned: there [known_ok] is [prop_ok]. *)
Definition same3 (corr prop : bool) : N := code_of3 corr prop prop.
Definition run_case (s : sx) : N :=
  match decode s with
  | Some (CH c) => same3 (corr_ok_h c) (prop_ok_h c)
  | Some (CC c) => same3 (corr_ok_c c) (prop_ok_c c)
  | Some (CU c) =>
      (* the relaxed judge is evaluated only when the strict one fails (it is weaker:
         known_ok_u_weaker) *)
      if prop_ok_u c then code_of3 (corr_ok_u c) true true
      else code_of3 (corr_ok_u c) false (known_ok_u c)
  | Some (CD c) => same3 (corr_ok_d c) (prop_ok_d c)
  | Some (CE c) => same3 (corr_ok_e c) (prop_ok_e c)
  | None => code_undecodable
  end.
