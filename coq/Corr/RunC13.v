(** Correspondence evaluator for C13 (benchmath summaries and comparisons).
    Case kinds (first field):
      1 summary   (1 a values conf (0 sorted center lo hi conf' warns pct) (qci choose tinv)) | (1 a values conf (1))
      2 compare   (2 a x1 x2 alpha (0 p n1 n2 alpha' warns string) deltas variants)          | (2 a x1 x2 alpha (1))
      3 FormatDelta on arbitrary floats   (3 p alpha old new string)
      4 PctRangeString on arbitrary floats (4 center lo hi string)
      5 Comparison.String                 (5 p n1 n2 string)
    a: 0 nothing, 1 exact, 2 normal. Floats travel as bit patterns.
    corr_ok: the model (Model/BenchMath.v, Model/MoreMathU.v) reproduces the
    observation. prop_ok: the observation satisfies the specification
    (Model/BenchMathSpec.v and the rendering rules), independently of the model's
    algorithms. *)
From Perf Require Import Base.Bytes Base.Sx Base.B64 Base.SxF Base.FmtPct
     Model.StatsF Model.MoreMathU Model.BenchMath Model.BenchMathSpec.
From Perf Require Base.FmtFixed.
Local Open Scope Z_scope.

(** ** the two fixed-precision printers of the framework agree (Base/FmtPct.v,
    written for C13, and Base/FmtFixed.v, shared): checked on every number
    rendered in a case so that they cannot drift apart *)
Definition fixed_agree (plus : bool) (prec : nat) (x : b64) : bool :=
  let b := FmtFixed.fmt_fixed x prec in
  beq (fmt_fixed plus prec x)
      (if plus then match b with x2d :: _ | x2b :: _ => b | _ => x2b :: b end else b).

Definition delta_value (old new : b64) : b64 :=
  b64_mul (b64_sub (b64_div new old) b64_one) f_hundred.
Definition pct_value' (c lo hi : b64) : b64 :=
  b64_mul f_hundred (b64_max (b64_sub (b64_div hi c) b64_one) (b64_sub b64_one (b64_div lo c))).

(** ** decoding *)
Record owarn := mkOwarn { w_kind : Z; w_ge : bool; w_n : Z; w_textok : bool }.
Definition as_owarn (s : sx) : option owarn :=
  match s with
  | SL [SZ k; ge; SZ n; ok] => do ge <- as_bool ge; do ok <- as_bool ok; Some (mkOwarn k ge n ok)
  | _ => None
  end.

Definition as_floats := as_list as_f64.

Record osummary := mkOsum {
  os_sorted : list b64; os_center : b64; os_lo : b64; os_hi : b64; os_conf : b64;
  os_warns : list owarn; os_pct : bytes }.

Record oracles := mkOr {
  or_qci : list (Z * qci);
  or_choose : list (Z * list b64);
  or_tinv : option (b64 * b64) }.

Definition as_qci (s : sx) : option (Z * qci) :=
  match s with
  | SL [SZ n; SZ lo; SZ hi; c] => do c <- as_f64 c; Some (n, mkQci lo hi c)
  | _ => None
  end.

Record ocompare := mkOcmp {
  oc_p : b64; oc_n1 : Z; oc_n2 : Z; oc_alpha : b64; oc_warns : list owarn; oc_string : bytes }.

Record variant := mkVar { v_kind : Z; v_p : b64; v_n1 : Z; v_n2 : Z; v_valid : bool }.
Definition as_variant (s : sx) : option variant :=
  match s with
  | SL [SZ k; p; SZ n1; SZ n2; ok] => do p <- as_f64 p; do ok <- as_bool ok; Some (mkVar k p n1 n2 ok)
  | _ => None
  end.

Inductive case :=
| KSummary (a : Z) (vals : list b64) (conf : b64) (obs : option osummary) (o : oracles)
| KCompare (a : Z) (x1 x2 : list b64) (alpha : b64) (obs : option ocompare)
           (deltas : list (b64 * b64 * bytes)) (vars : list variant)
| KDelta (p alpha old new : b64) (s : bytes)
| KPct (c lo hi : b64) (s : bytes)
| KString (p : b64) (n1 n2 : Z) (s : bytes).

Definition as_opt2 (s : sx) : option (option (b64 * b64)) :=
  match s with
  | SL [] => Some None
  | SL [a; b] => do a <- as_f64 a; do b <- as_f64 b; Some (Some (a, b))
  | _ => None
  end.

Definition decode (s : sx) : option case :=
  match s with
  | SL [SZ 1; SZ a; vals; conf; SL [SZ 1]] =>
      do vals <- as_floats vals; do conf <- as_f64 conf;
      Some (KSummary a vals conf None (mkOr [] [] None))
  | SL [SZ 1; SZ a; vals; conf; SL [SZ 0; sorted; c; lo; hi; cf; warns; SB pct]; SL [qcis; chooses; tinv]] =>
      do vals <- as_floats vals; do conf <- as_f64 conf;
      do sorted <- as_floats sorted; do c <- as_f64 c; do lo <- as_f64 lo; do hi <- as_f64 hi;
      do cf <- as_f64 cf; do warns <- as_list as_owarn warns;
      do qcis <- as_list as_qci qcis;
      do chooses <- as_list (as_pair as_z as_floats) chooses;
      do tinv <- as_opt2 tinv;
      Some (KSummary a vals conf (Some (mkOsum sorted c lo hi cf warns pct)) (mkOr qcis chooses tinv))
  | SL [SZ 2; SZ a; x1; x2; alpha; SL [SZ 1]] =>
      do x1 <- as_floats x1; do x2 <- as_floats x2; do alpha <- as_f64 alpha;
      Some (KCompare a x1 x2 alpha None [] [])
  | SL [SZ 2; SZ a; x1; x2; alpha; SL [SZ 0; p; SZ n1; SZ n2; al; warns; SB str]; deltas; vars] =>
      do x1 <- as_floats x1; do x2 <- as_floats x2; do alpha <- as_f64 alpha;
      do p <- as_f64 p; do al <- as_f64 al; do warns <- as_list as_owarn warns;
      do deltas <- as_list (as_triple as_f64 as_f64 as_b) deltas;
      do vars <- as_list as_variant vars;
      Some (KCompare a x1 x2 alpha (Some (mkOcmp p n1 n2 al warns str)) deltas vars)
  | SL [SZ 3; p; al; old; new; SB str] =>
      do p <- as_f64 p; do al <- as_f64 al; do old <- as_f64 old; do new <- as_f64 new;
      Some (KDelta p al old new str)
  | SL [SZ 4; c; lo; hi; SB str] =>
      do c <- as_f64 c; do lo <- as_f64 lo; do hi <- as_f64 hi; Some (KPct c lo hi str)
  | SL [SZ 5; p; SZ n1; SZ n2; SB str] => do p <- as_f64 p; Some (KString p n1 n2 str)
  | _ => None
  end.

(** ** helpers *)
Definition floats_same := list_eqb b64_same.

Fixpoint is_sorted (l : list b64) : bool :=
  match l with
  | x :: ((y :: _) as l') => b64_le x y && is_sorted l'
  | _ => true
  end.

Definition warn_matches (w : warn) (o : owarn) : bool :=
  match w with
  | WNeedCI ge n => (w_kind o =? 1) && Bool.eqb (w_ge o) ge && (w_n o =? n)
  | WNeedAlpha ge n => (w_kind o =? 2) && Bool.eqb (w_ge o) ge && (w_n o =? n)
  | WRange => w_kind o =? 3
  | WErrSampleSize => w_kind o =? 4
  | WErrSamplesEqual => w_kind o =? 5
  | WErrZeroVariance => w_kind o =? 6
  end.
Fixpoint warns_match (ws : list warn) (os : list owarn) : bool :=
  match ws, os with
  | [], [] => true
  | w :: ws', o :: os' => warn_matches w o && warns_match ws' os'
  | _, _ => false
  end.

Fixpoint assoc {A} (k : Z) (l : list (Z * A)) : option A :=
  match l with
  | [] => None
  | (k', v) :: l' => if k =? k' then Some v else assoc k l'
  end.

Definition choose_of (o : oracles) (n k : Z) : option b64 :=
  match assoc n (or_choose o) with
  | Some row => nth_error row (Z.to_nat k)
  | None => None
  end.
Definition approx_of (o : oracles) (n : Z) : option qci := assoc n (or_qci o).
Definition tinv_of (o : oracles) (alpha : b64) : option b64 :=
  match or_tinv o with
  | Some (a, t) => if b64_same a alpha then Some t else None
  | None => None
  end.

Definition thr0 : thresholds := mkThr (b64_of_bits 0x3FA999999999999A).   (* DefaultThresholds: 0.05 *)

Definition model_summary (a : Z) (vals : list b64) (conf : b64) (o : oracles) : option summary :=
  let s := new_sample vals thr0 in
  match a with
  | 0 => summary_nothing (choose_of o) (approx_of o) s conf
  | 1 => summary_exact s
  | 2 => summary_normal (tinv_of o) s conf
  | _ => None
  end.

Definition qci_same (a b : qci) : bool :=
  (q_lo a =? q_lo b) && (q_hi a =? q_hi b) && b64_same (q_conf a) (q_conf b).

(** ** summaries *)
Definition corr_summary (a : Z) (vals : list b64) (conf : b64) (obs : option osummary) (o : oracles) : bool :=
  match obs, model_summary a vals conf o with
  | None, None => true
  | Some ob, Some m =>
      floats_same (sort_f vals) (os_sorted ob)
      && b64_same (sm_center m) (os_center ob) && b64_same (sm_lo m) (os_lo ob)
      && b64_same (sm_hi m) (os_hi ob) && b64_same (sm_conf m) (os_conf ob)
      && warns_match (sm_warn m) (os_warns ob)
      && beq (pct_range_string m) (os_pct ob)
      && fixed_agree false 0 (pct_value' (sm_center m) (sm_lo m) (sm_hi m))
      (* the model's exact-branch QuantileCI agrees with direct calls of stats.QuantileCI *)
      && (if a =? 0 then
            forallb (fun '(n, ci) =>
                       if n <=? 30 then
                         match quantile_ci (choose_of o) (approx_of o) n conf with
                         | Some ci' => qci_same ci ci'
                         | None => false
                         end
                       else true) (or_qci o)
          else true)
  | _, _ => false
  end.

Definition in_open_unit (x : b64) : bool := b64_lt f_zero x && b64_lt x b64_one.
Definition rat_half_sum (a b : rat) : rat := (fst a * snd b + fst b * snd a, 2 * snd a * snd b).
Definition rat_sum (l : list rat) : rat :=
  fold_left (fun acc x => (fst acc * snd x + fst x * snd acc, snd acc * snd x)) l (0, 1).

Definition omap_rat (xs : list b64) : option (list rat) := omap rat_of_b64 xs.

(** conf' with 1 - conf' = (1 - conf) * k / 100000 *)
Definition perturb (q : rat) (k : Z) : rat :=
  (100000 * snd q - (snd q - fst q) * k, 100000 * snd q).

Definition prop_summary (a : Z) (vals : list b64) (conf : b64) (obs : option osummary) (o : oracles) : bool :=
  match obs with
  | None => match vals with [] => true | _ => false end      (* never panics on a non-empty sample *)
  | Some ob =>
      let xs := os_sorted ob in
      let n := zlen xs in
      let c := os_center ob in
      let lo := os_lo ob in
      let hi := os_hi ob in
      is_sorted xs && floats_same (sort_f xs) (sort_f vals)
      && beq (os_pct ob) (pct_range_string (mkSummary c lo hi (os_conf ob) []))
      && forallb w_textok (os_warns ob)
      && match a with
         | 0 =>
             (* centre: the sample median *)
             let lm := nth_f xs ((n - 1) / 2) in
             let um := nth_f xs (n / 2) in
             b64_le lm c && b64_le c um
             && match rat_of_b64 lm, rat_of_b64 um, rat_of_b64 c with
                | Some ql, Some qu, Some qc => rat_close_rel qc (rat_half_sum ql qu)
                | _, _, _ => false
                end
             (* interval ends: order statistics (witness l, r from a direct QuantileCI call) or infinite *)
             && match approx_of o n with
                | None => false
                | Some w =>
                    let l := q_lo w in
                    let r := q_hi w in
                    (* requested levels outside (0,1) are outside the contract: only the
                       correspondence is checked for them *)
                    negb (in_open_unit conf) ||
                    (0 <=? l) && (l <? r) && (r <=? n + 1)
                    && b64_same lo (if l <? 1 then f_inf true else nth_f xs (l - 1))
                    && b64_same hi (if n <? r then f_inf false else nth_f xs (r - 1))
                    && b64_le lo c && b64_le c hi
                    && (if in_open_unit conf then
                          (* n <= 30: the true binomial coverage of the returned band is at least
                             the requested level and the reported level is that coverage (exactly
                             when mathx.Choose is exact, n <= 20; to rounding above);
                             n > 30 (normal approximation): reported >= requested *)
                          if n <=? 30 then
                            match rat_of_b64 (os_conf ob), rat_of_b64 conf with
                            | Some q, Some qc =>
                                rat_le qc (coverage n l r)
                                && (if n <=? 20 then rat_eq q (coverage n l r) && b64_ge (os_conf ob) conf
                                    else rat_close_rel q (coverage n l r))
                            | _, _ => false
                            end
                          else b64_ge (os_conf ob) conf
                        else true)
                end
             (* warning exactly when an end is infinite, with the needed sample count *)
             && (let inf := b64_is_inf lo || b64_is_inf hi in
                 match os_warns ob with
                 | [] => negb inf
                 | [w] =>
                     inf && (w_kind w =? 1)
                     && (if in_open_unit conf then
                           match rat_of_b64 conf with
                           | Some q =>
                               (* least n with 1 - 2/2^n >= conf; where mathx.Choose is inexact
                                  (n > 20) a level within 1e-5 (relative to 1 - conf) of the step
                                  may fall on either side *)
                               let above := 30 <? w_n w in
                               let ok m := match m with
                                           | Some m => if m <=? 30 then w_ge w && (w_n w =? m) else above
                                           | None => above
                                           end in
                               let m := need_samples q in
                               match m with
                               | Some m' => if m' <=? 20 then ok m
                                            else ok m || ok (need_samples (perturb q 100001))
                                                 || ok (need_samples (perturb q 99999))
                               | None => ok m
                               end
                           | None => false
                           end
                         else true)
                 | _ => false
                 end)
         | 1 =>
             is_mode c xs && b64_same lo (nth_f xs 0) && b64_same hi (nth_f xs (n - 1))
             && forallb (fun x => b64_le lo x && b64_le x hi) xs
             && b64_same (os_conf ob) b64_one
             && match os_warns ob with
                | [] => all_equal xs
                | [w] => (w_kind w =? 3) && negb (all_equal xs)
                | _ => false
                end
         | 2 =>
             (* centre: the mean; symmetric t interval around it *)
             match omap_rat xs, rat_of_b64 c with
             | Some qs, Some qc =>
                 let s := rat_sum qs in
                 rat_close_rel qc (fst s, snd s * n)
             | _, _ => false
             end
             && b64_le lo c && b64_le c hi
             && b64_same (os_conf ob) conf
             && (if in_open_unit conf && (n <=? 1) then b64_same lo (f_inf true) && b64_same hi (f_inf false)
                 else true)
             && match os_warns ob with [] => true | _ => false end
         | _ => false
         end
  end.

(** ** comparisons *)
(** [r] = utest x1 x2, evaluated once by the caller (utest sorts its arguments itself) *)
Definition model_compare (a : Z) (x1 x2 : list b64) (alpha p_o : b64) (r : uresult) : option comparison :=
  let s1 := new_sample x1 (mkThr alpha) in
  let s2 := new_sample x2 (mkThr (b64_of_bits 0x3FE8000000000000)) in   (* the harness gives s2 another threshold *)
  let uf := fun _ _ : list b64 => utest_outcome_of r p_o in
  match a with
  | 0 => compare uf (welch_outcome p_o) ANothing s1 s2
  | 1 => compare uf (welch_outcome p_o) AExact s1 s2
  | 2 => compare uf (welch_outcome p_o) ANormal s1 s2
  | _ => None
  end.

Definition ocmp_to_cmp (ob : ocompare) : comparison :=
  mkCmp (oc_p ob) (oc_n1 ob) (oc_n2 ob) (oc_alpha ob) [].

(** the as-is go-moremath exact p (rational) against a reported float p *)
Definition asis_close_r (r : uresult) (p : b64) : bool :=
  match r with
  | UExactP num den =>
      match rat_of_b64 p with
      | Some q => rat_close q (num, den)
      | None => false
      end
  | UPanic => false
  | _ => true
  end.

Definition corr_compare (a : Z) (x1 x2 : list b64) (alpha : b64) (obs : option ocompare)
           (deltas : list (b64 * b64 * bytes)) (vars : list variant) : bool :=
  match obs with
  | None =>
      (* the implementation panicked: so must the model *)
      let r := if a =? 0 then utest x1 x2 else UApprox in
      match model_compare a x1 x2 alpha f_zero r with None => true | Some _ => false end
  | Some ob =>
      let r := if a =? 0 then utest x1 x2 else UApprox in
      match model_compare a x1 x2 alpha (oc_p ob) r with
      | None => false
      | Some m =>
          b64_same (c_p m) (oc_p ob) && (c_n1 m =? oc_n1 ob) && (c_n2 m =? oc_n2 ob)
          && b64_same (c_alpha m) (oc_alpha ob) && warns_match (c_warn m) (oc_warns ob)
          && beq (comparison_string m) (oc_string ob)
          && forallb (fun '(old, new, s) => beq (format_delta m old new) s
                                            && fixed_agree true 2 (delta_value old new)) deltas
          && fixed_agree false 3 (oc_p ob)
          && (if a =? 0 then
                (* one evaluation serves the call and its shuffled variant (same sorted samples) *)
                asis_close_r r (oc_p ob)
                && forallb (fun v => if v_kind v =? 2 then asis_close_r r (v_p v) else true) vars
                && (if (zlen x1 <=? 25) && (zlen x2 <=? 25) then
                      let r' := utest x2 x1 in
                      forallb (fun v => if v_kind v =? 1 then asis_close_r r' (v_p v) else true) vars
                    else true)
              else true)
      end
  end.

(** 0 <= p <= 1, the upper end up to float rounding: go-moremath's untied exact
    path sums a float DP and doubles it without capping, so an exact p of 1 can
    come out as 1 + 2^-52 (observed for 3 vs 3 untied values with U = 4 vs 5) *)
Definition one_plus_eps : b64 := b64_of_ZE (2 ^ 40 + 1) (-40).
Definition in_unit (p : b64) : bool := b64_le f_zero p && b64_le p one_plus_eps.

Definition p_close (p q : b64) : bool :=
  match rat_of_b64 p, rat_of_b64 q with
  | Some a, Some b => rat_close_rel a b
  | _, _ => false
  end.

(** least n in 1..9 with RN(2 / C(2n, n)) <= alpha, else (">", 10) *)
Fixpoint min_samples_go (fuel : nat) (n : Z) (alpha : b64) : bool * Z :=
  match fuel with
  | O => (false, n)
  | S f => if b64_le (b64_div (b64_of_Z 2) (b64_of_Z (binom (2 * n) n))) alpha then (true, n)
           else min_samples_go f (n + 1) alpha
  end.
Definition min_samples (alpha : b64) : bool * Z := min_samples_go 9 1 alpha.

(** exact permutation p: plain enumeration when small, group DP otherwise; None = not evaluated *)
Definition spec_p (x1 x2 : list b64) : option rat :=
  let n1 := zlen x1 in
  let n2 := zlen x2 in
  if (n1 =? 0) || (n2 =? 0) then None
  else if binom (n1 + n2) n1 <=? 1500 then Some (perm_p x1 x2)
  else if (n1 <=? 25) && (n2 <=? 25) then Some (perm_p_dp x1 x2)
  else None.

Definition close_to_spec (sp : rat) (p : b64) : bool :=
  match rat_of_b64 p with
  | Some q => rat_close q sp
  | None => false
  end.

Definition is_untied (x1 x2 : list b64) : bool := negb (us_ties (u_statistic x1 x2)).

Definition prop_compare (a : Z) (x1 x2 : list b64) (alpha : b64) (obs : option ocompare)
           (deltas : list (b64 * b64 * bytes)) (vars : list variant) : bool :=
  match obs with
  | None => false           (* a comparison never panics *)
  | Some ob =>
      let n1 := zlen x1 in
      let n2 := zlen x2 in
      let p := oc_p ob in
      let cm := ocmp_to_cmp ob in
      let valid := filter v_valid vars in
      (oc_n1 ob =? n1) && (oc_n2 ob =? n2)
      && in_unit p
      (* rendering rules on what was observed *)
      && beq (oc_string ob) (comparison_string cm)
      && forallb (fun '(old, new, s) => beq (format_delta cm old new) s) deltas
      && forallb w_textok (oc_warns ob)
      (* symmetric, invariant under reordering and rescaling *)
      && forallb (fun v => p_close p (v_p v)
                           && (if v_kind v =? 1 then (v_n1 v =? n2) && (v_n2 v =? n1)
                               else (v_n1 v =? n1) && (v_n2 v =? n2))) valid
      && match a with
         | 0 =>
             b64_same (oc_alpha ob) alpha
             && (let eq := all_equal (x1 ++ x2) in
                 match oc_warns ob with
                 | [w] =>
                     if w_kind w =? 5 then eq && b64_same p b64_one
                     else
                       let '(ge, n) := min_samples alpha in
                       (w_kind w =? 2) && negb eq && b64_gt p alpha && (n1 <? n) && (n2 <? n)
                       && Bool.eqb (w_ge w) ge && (w_n w =? n)
                 | [] =>
                     let '(_, n) := min_samples alpha in
                     negb eq && negb (b64_gt p alpha && (n1 <? n) && (n2 <? n))
                 | _ => false
                 end)
             && (if (n1 <=? 25) && (n2 <=? 25) then
                   match spec_p x1 x2 with
                   | Some sp => close_to_spec sp p && forallb (fun v => close_to_spec sp (v_p v)) valid
                   | None => true
                   end
                 else
                   (* untied samples up to 50 use the exact distribution as well *)
                   if (n1 <=? 50) && (n2 <=? 50) && is_untied x1 x2 then
                     match spec_p x1 x2 with
                     | Some sp => close_to_spec sp p
                     | None => true
                     end
                   else true)
         | 1 => b64_same p f_zero && match oc_warns ob with [] => true | _ => false end
         | 2 =>
             b64_same (oc_alpha ob) alpha
             && match oc_warns ob with
                | [] => (1 <? n1) && (1 <? n2) && negb (all_equal x1 && all_equal x2)
                | [w] =>
                    b64_same p b64_one
                    && (if (n1 <=? 1) || (n2 <=? 1) then w_kind w =? 4
                        else (w_kind w =? 6) && all_equal x1 && all_equal x2)
                | _ => false
                end
         | _ => false
         end
  end.

(** ** direct rendering cases *)
Definition ok_delta (p alpha old new : b64) (s : bytes) : bool :=
  beq (format_delta (mkCmp p 0 0 alpha []) old new) s && fixed_agree true 2 (delta_value old new).
Definition ok_pct (c lo hi : b64) (s : bytes) : bool :=
  beq (pct_range_string (mkSummary c lo hi f_zero [])) s && fixed_agree false 0 (pct_value' c lo hi).
Definition ok_string (p : b64) (n1 n2 : Z) (s : bytes) : bool :=
  beq (comparison_string (mkCmp p n1 n2 f_zero [])) s && fixed_agree false 3 p.

Definition corr_ok (c : case) : bool :=
  match c with
  | KSummary a vals conf obs o => corr_summary a vals conf obs o
  | KCompare a x1 x2 alpha obs deltas vars => corr_compare a x1 x2 alpha obs deltas vars
  | KDelta p alpha old new s => ok_delta p alpha old new s
  | KPct c lo hi s => ok_pct c lo hi s
  | KString p n1 n2 s => ok_string p n1 n2 s
  end.

Definition prop_ok (c : case) : bool :=
  match c with
  | KSummary a vals conf obs o => prop_summary a vals conf obs o
  | KCompare a x1 x2 alpha obs deltas vars => prop_compare a x1 x2 alpha obs deltas vars
  | KDelta p alpha old new s => ok_delta p alpha old new s
  | KPct c lo hi s => ok_pct c lo hi s
  | KString p n1 n2 s => ok_string p n1 n2 s
  end.

Definition run_case (s : sx) : N :=
  match decode s with
  | Some c => code_of (corr_ok c) (prop_ok c)
  | None => code_undecodable
  end.
