(** Correspondence evaluator for C13 (benchmath summaries and comparisons).
    Case kinds (first field):
      1 summary   (1 a values conf (0 sorted center lo hi conf' warns pct) (qci choose tinv)) | (1 a values conf (1))
      2 compare   (2 a x1 x2 alpha (0 p n1 n2 alpha' warns string) deltas variants raw)      | (2 a x1 x2 alpha (1))
                  raw = (p) the p-value of a direct call of go-moremath's test (MannWhitneyUTest for a = 0,
                  TwoSampleWelchTTest for a = 2) on the same values, () when that call fails or a = 1
      3 FormatDelta on arbitrary floats   (3 p alpha old new string)
      4 PctRangeString on arbitrary floats (4 center lo hi string)
      5 Comparison.String                 (5 p n1 n2 string)
    a: 0 nothing, 1 exact, 2 normal. Floats travel as bit patterns.
    corr_ok: the model (Model/BenchMath.v, Model/MoreMathU.v) reproduces the
    observation. prop_ok: the observation satisfies the specification
    (Model/BenchMathSpec.v and the rendering rules), independently of the model's
    algorithms: exact rational arithmetic with tolerances relative to the scale of
    the quantity judged, Model/BenchMathJudge.v).
    AssumeNothing.Compare is modelled WITH the repair hooks/fix_c13_cap_p_at_one.diff
    (Model/BenchMathCap.v: P = math.Min(res.P, 1)); on unchanged /repo the untied
    exact path reports 1 + 2^-52 for an exact p of 1 and the check says VIOLATION.
    known_ok: prop_ok with exactly the recorded deviations of the two known
    findings allowed, each on its own input domain (decided here from the input). *)
From Perf Require Import Base.Bytes Base.Sx Base.B64 Base.SxF Base.FmtPct
     Model.StatsF Model.MoreMathU Model.BenchMath Model.BenchMathSpec
     Model.BenchMathCap Model.BenchMathJudge.
From Perf Require Base.FmtFixed.
Local Open Scope Z_scope.

(** ** the two fixed-precision printers of the framework agree (Base/FmtPct.v,
    written for C13, and Base/FmtFixed.v, shared): checked on every number
    rendered in a case so that they cannot drift apart *)
Definition fixed_agree (plus : bool) (prec : nat) (x : b64) : bool :=
  let b := FmtFixed.fmt_fixed x prec in
  beq (fmt_fixed plus prec x)
      (if plus then match b with x2d :: _ | x2b :: _ => b | _ => x2b :: b end else b).

Definition delta_value (old new : b64) : b64 :=
  b64_mul (b64_sub (b64_div new old) b64_one) f_hundred.
Definition pct_value' (c lo hi : b64) : b64 :=
  b64_mul f_hundred (b64_max (b64_sub (b64_div hi c) b64_one) (b64_sub b64_one (b64_div lo c))).

(** ** decoding *)
Record owarn := mkOwarn { w_kind : Z; w_ge : bool; w_n : Z; w_textok : bool }.
Definition as_owarn (s : sx) : option owarn :=
  match s with
  | SL [SZ k; ge; SZ n; ok] => do ge <- as_bool ge; do ok <- as_bool ok; Some (mkOwarn k ge n ok)
  | _ => None
  end.

Definition as_floats := as_list as_f64.

Record osummary := mkOsum {
  os_sorted : list b64; os_center : b64; os_lo : b64; os_hi : b64; os_conf : b64;
  os_warns : list owarn; os_pct : bytes }.

Record oracles := mkOr {
  or_qci : list (Z * qci);
  or_choose : list (Z * list b64);
  or_tinv : option (b64 * b64) }.

Definition as_qci (s : sx) : option (Z * qci) :=
  match s with
  | SL [SZ n; SZ lo; SZ hi; c] => do c <- as_f64 c; Some (n, mkQci lo hi c)
  | _ => None
  end.

Record ocompare := mkOcmp {
  oc_p : b64; oc_n1 : Z; oc_n2 : Z; oc_alpha : b64; oc_warns : list owarn; oc_string : bytes }.

Record variant := mkVar { v_kind : Z; v_p : b64; v_n1 : Z; v_n2 : Z; v_valid : bool }.
Definition as_variant (s : sx) : option variant :=
  match s with
  | SL [SZ k; p; SZ n1; SZ n2; ok] => do p <- as_f64 p; do ok <- as_bool ok; Some (mkVar k p n1 n2 ok)
  | _ => None
  end.

Inductive case :=
| KSummary (a : Z) (vals : list b64) (conf : b64) (obs : option osummary) (o : oracles)
| KCompare (a : Z) (x1 x2 : list b64) (alpha : b64) (obs : option ocompare)
           (deltas : list (b64 * b64 * bytes)) (vars : list variant) (raw : option b64)
| KDelta (p alpha old new : b64) (s : bytes)
| KPct (c lo hi : b64) (s : bytes)
| KString (p : b64) (n1 n2 : Z) (s : bytes).

Definition as_opt2 (s : sx) : option (option (b64 * b64)) :=
  match s with
  | SL [] => Some None
  | SL [a; b] => do a <- as_f64 a; do b <- as_f64 b; Some (Some (a, b))
  | _ => None
  end.

Definition as_opt1 (s : sx) : option (option b64) :=
  match s with
  | SL [] => Some None
  | SL [a] => do a <- as_f64 a; Some (Some a)
  | _ => None
  end.

Definition decode (s : sx) : option case :=
  match s with
  | SL [SZ 1; SZ a; vals; conf; SL [SZ 1]] =>
      do vals <- as_floats vals; do conf <- as_f64 conf;
      Some (KSummary a vals conf None (mkOr [] [] None))
  | SL [SZ 1; SZ a; vals; conf; SL [SZ 0; sorted; c; lo; hi; cf; warns; SB pct]; SL [qcis; chooses; tinv]] =>
      do vals <- as_floats vals; do conf <- as_f64 conf;
      do sorted <- as_floats sorted; do c <- as_f64 c; do lo <- as_f64 lo; do hi <- as_f64 hi;
      do cf <- as_f64 cf; do warns <- as_list as_owarn warns;
      do qcis <- as_list as_qci qcis;
      do chooses <- as_list (as_pair as_z as_floats) chooses;
      do tinv <- as_opt2 tinv;
      Some (KSummary a vals conf (Some (mkOsum sorted c lo hi cf warns pct)) (mkOr qcis chooses tinv))
  | SL [SZ 2; SZ a; x1; x2; alpha; SL [SZ 1]] =>
      do x1 <- as_floats x1; do x2 <- as_floats x2; do alpha <- as_f64 alpha;
      Some (KCompare a x1 x2 alpha None [] [] None)
  | SL [SZ 2; SZ a; x1; x2; alpha; SL [SZ 0; p; SZ n1; SZ n2; al; warns; SB str]; deltas; vars; raw] =>
      do x1 <- as_floats x1; do x2 <- as_floats x2; do alpha <- as_f64 alpha;
      do p <- as_f64 p; do al <- as_f64 al; do warns <- as_list as_owarn warns;
      do deltas <- as_list (as_triple as_f64 as_f64 as_b) deltas;
      do vars <- as_list as_variant vars;
      do raw <- as_opt1 raw;
      Some (KCompare a x1 x2 alpha (Some (mkOcmp p n1 n2 al warns str)) deltas vars raw)
  | SL [SZ 3; p; al; old; new; SB str] =>
      do p <- as_f64 p; do al <- as_f64 al; do old <- as_f64 old; do new <- as_f64 new;
      Some (KDelta p al old new str)
  | SL [SZ 4; c; lo; hi; SB str] =>
      do c <- as_f64 c; do lo <- as_f64 lo; do hi <- as_f64 hi; Some (KPct c lo hi str)
  | SL [SZ 5; p; SZ n1; SZ n2; SB str] => do p <- as_f64 p; Some (KString p n1 n2 str)
  | _ => None
  end.

(** ** helpers *)
Definition floats_same := list_eqb b64_same.

Fixpoint is_sorted (l : list b64) : bool :=
  match l with
  | x :: ((y :: _) as l') => b64_le x y && is_sorted l'
  | _ => true
  end.

Definition warn_matches (w : warn) (o : owarn) : bool :=
  match w with
  | WNeedCI ge n => (w_kind o =? 1) && Bool.eqb (w_ge o) ge && (w_n o =? n)
  | WNeedAlpha ge n => (w_kind o =? 2) && Bool.eqb (w_ge o) ge && (w_n o =? n)
  | WRange => w_kind o =? 3
  | WErrSampleSize => w_kind o =? 4
  | WErrSamplesEqual => w_kind o =? 5
  | WErrZeroVariance => w_kind o =? 6
  end.
Fixpoint warns_match (ws : list warn) (os : list owarn) : bool :=
  match ws, os with
  | [], [] => true
  | w :: ws', o :: os' => warn_matches w o && warns_match ws' os'
  | _, _ => false
  end.

Fixpoint assoc {A} (k : Z) (l : list (Z * A)) : option A :=
  match l with
  | [] => None
  | (k', v) :: l' => if k =? k' then Some v else assoc k l'
  end.

Definition choose_of (o : oracles) (n k : Z) : option b64 :=
  match assoc n (or_choose o) with
  | Some row => nth_error row (Z.to_nat k)
  | None => None
  end.
Definition approx_of (o : oracles) (n : Z) : option qci := assoc n (or_qci o).
Definition tinv_of (o : oracles) (alpha : b64) : option b64 :=
  match or_tinv o with
  | Some (a, t) => if b64_same a alpha then Some t else None
  | None => None
  end.

Definition thr0 : thresholds := mkThr (b64_of_bits 0x3FA999999999999A).   (* DefaultThresholds: 0.05 *)

Definition model_summary (a : Z) (vals : list b64) (conf : b64) (o : oracles) : option summary :=
  let s := new_sample vals thr0 in
  match a with
  | 0 => summary_nothing (choose_of o) (approx_of o) s conf
  | 1 => summary_exact s
  | 2 => summary_normal (tinv_of o) s conf
  | _ => None
  end.

Definition qci_same (a b : qci) : bool :=
  (q_lo a =? q_lo b) && (q_hi a =? q_hi b) && b64_same (q_conf a) (q_conf b).

(** ** summaries *)
Definition corr_summary (a : Z) (vals : list b64) (conf : b64) (obs : option osummary) (o : oracles) : bool :=
  match obs, model_summary a vals conf o with
  | None, None => true
  | Some ob, Some m =>
      floats_same (sort_f vals) (os_sorted ob)
      && b64_same (sm_center m) (os_center ob) && b64_same (sm_lo m) (os_lo ob)
      && b64_same (sm_hi m) (os_hi ob) && b64_same (sm_conf m) (os_conf ob)
      && warns_match (sm_warn m) (os_warns ob)
      (* the numbers printed in the warning texts parse back to the values the code had
         (decided by the harness; ties model and code, not part of the specification) *)
      && forallb w_textok (os_warns ob)
      && beq (pct_range_string m) (os_pct ob)
      && fixed_agree false 0 (pct_value' (sm_center m) (sm_lo m) (sm_hi m))
      (* the model's exact-branch QuantileCI agrees with direct calls of stats.QuantileCI *)
      && (if a =? 0 then
            forallb (fun '(n, ci) =>
                       if n <=? 30 then
                         match quantile_ci (choose_of o) (approx_of o) n conf with
                         | Some ci' => qci_same ci ci'
                         | None => false
                         end
                       else true) (or_qci o)
          else true)
  | _, _ => false
  end.

Definition in_open_unit (x : b64) : bool := b64_lt f_zero x && b64_lt x b64_one.
(** conf' with 1 - conf' = (1 - conf) * k / 100000 *)
Definition perturb (q : rat) (k : Z) : rat :=
  (100000 * snd q - (snd q - fst q) * k, 100000 * snd q).

Definition prop_summary (a : Z) (vals : list b64) (conf : b64) (obs : option osummary) (o : oracles) : bool :=
  match obs with
  | None => match vals with [] => true | _ => false end      (* never panics on a non-empty sample *)
  | Some ob =>
      let xs := os_sorted ob in
      let n := zlen xs in
      let c := os_center ob in
      let lo := os_lo ob in
      let hi := os_hi ob in
      is_sorted xs && floats_same (sort_f xs) (sort_f vals)
      && beq (os_pct ob) (pct_range_string (mkSummary c lo hi (os_conf ob) []))
      && match a with
         | 0 =>
             (* centre: the sample median *)
             let lm := nth_f xs ((n - 1) / 2) in
             let um := nth_f xs (n / 2) in
             b64_le lm c && b64_le c um
             && median_ok xs c
             (* interval ends: order statistics (witness l, r from a direct QuantileCI call) or infinite *)
             && match approx_of o n with
                | None => false
                | Some w =>
                    let l := q_lo w in
                    let r := q_hi w in
                    (* requested levels outside (0,1) are outside the contract: only the
                       correspondence is checked for them *)
                    negb (in_open_unit conf) ||
                    (0 <=? l) && (l <? r) && (r <=? n + 1)
                    && b64_same lo (if l <? 1 then f_inf true else nth_f xs (l - 1))
                    && b64_same hi (if n <? r then f_inf false else nth_f xs (r - 1))
                    && b64_le lo c && b64_le c hi
                    && (if in_open_unit conf then
                          (* every n: the TRUE binomial coverage of the returned band [l, r) is at
                             least the requested level, and so is the reported level;
                             n <= 30 (small samples): the reported level is that coverage (exactly
                             when mathx.Choose is exact, n <= 20; to 10^-9 relative above, where the
                             float sum of inexact binomials can fall a few ulps short of a requested
                             level that is itself within 10^-15 of the coverage);
                             n > 30: the reported level is go-moremath's normal-approximation
                             number, only required to be >= the requested one *)
                          match rat_of_b64 (os_conf ob), rat_of_b64 conf with
                          | Some q, Some qc =>
                              let cov := coverage n l r in
                              rat_le qc cov
                              && (if n <=? 20 then rat_eq q cov && b64_ge (os_conf ob) conf
                                  else if n <=? 30 then rat_within 9 q cov cov
                                  else b64_ge (os_conf ob) conf)
                          | _, _ => false
                          end
                        else true)
                end
             (* warning exactly when an end is infinite, with the needed sample count *)
             && (let inf := b64_is_inf lo || b64_is_inf hi in
                 match os_warns ob with
                 | [] => negb inf
                 | [w] =>
                     inf && (w_kind w =? 1)
                     && (if in_open_unit conf then
                           match rat_of_b64 conf with
                           | Some q =>
                               (* least n with 1 - 2/2^n >= conf; where mathx.Choose is inexact
                                  (n > 20) a level within 1e-5 (relative to 1 - conf) of the step
                                  may fall on either side *)
                               let above := 30 <? w_n w in
                               let ok m := match m with
                                           | Some m => if m <=? 30 then w_ge w && (w_n w =? m) else above
                                           | None => above
                                           end in
                               let m := need_samples q in
                               match m with
                               | Some m' => if m' <=? 20 then ok m
                                            else ok m || ok (need_samples (perturb q 100001))
                                                 || ok (need_samples (perturb q 99999))
                               | None => ok m
                               end
                           | None => false
                           end
                         else true)
                 | _ => false
                 end)
         | 1 =>
             is_mode c xs && b64_same lo (nth_f xs 0) && b64_same hi (nth_f xs (n - 1))
             && forallb (fun x => b64_le lo x && b64_le x hi) xs
             (* the reported level of the exact model (the code says 1) is not part of the
                statement: compared with the model in corr_ok only *)
             && match os_warns ob with
                | [] => all_equal xs
                | [w] => (w_kind w =? 3) && negb (all_equal xs)
                | _ => false
                end
         | 2 =>
             (* centre: the mean; its t interval: symmetric about the centre, half width
                |t quantile| * sd / sqrt n with the recorded quantile (BenchMathJudge.t_interval_ok);
                a single value has no spread estimate: the interval is the whole line *)
             mean_ok xs c
             && b64_le lo c && b64_le c hi
             && b64_same (os_conf ob) conf
             && (if in_open_unit conf then
                   if n <=? 1 then b64_same lo (f_inf true) && b64_same hi (f_inf false)
                   else match or_tinv o with
                        | Some (al, tq) => t_interval_ok xs conf c lo hi al tq
                        | None => false
                        end
                 else true)
             && match os_warns ob with [] => true | _ => false end
         | _ => false
         end
  end.

(** ** comparisons *)
(** [r] = utest x1 x2, evaluated once by the caller (utest sorts its arguments itself);
    [p_o] = the p-value of the direct library call (oracle for the float the test returns).
    AssumeNothing.Compare as REPAIRED (hooks/fix_c13_cap_p_at_one.diff): P = math.Min(res.P, 1) *)
Definition model_compare (a : Z) (x1 x2 : list b64) (alpha p_o : b64) (r : uresult) : option comparison :=
  let s1 := new_sample x1 (mkThr alpha) in
  let s2 := new_sample x2 (mkThr (b64_of_bits 0x3FE8000000000000)) in   (* the harness gives s2 another threshold *)
  let uf := fun _ _ : list b64 => utest_outcome_of r p_o in
  match a with
  | 0 => compare_capped uf (welch_outcome p_o) ANothing s1 s2
  | 1 => compare_capped uf (welch_outcome p_o) AExact s1 s2
  | 2 => compare_capped uf (welch_outcome p_o) ANormal s1 s2
  | _ => None
  end.

Definition ocmp_to_cmp (ob : ocompare) : comparison :=
  mkCmp (oc_p ob) (oc_n1 ob) (oc_n2 ob) (oc_alpha ob) [].

(** the as-is go-moremath exact p (rational num/den, possibly above 1 on the tied
    path) against a float: [cap] = the float went through benchmath's cap.
    10^-9 relative (the rational is > 0). *)
Definition asis_close_r (cap : bool) (r : uresult) (p : b64) : bool :=
  match r with
  | UExactP num den =>
      match rat_of_b64 p with
      | Some q =>
          let e := if cap && (den <? num) then (1, 1) else (num, den) in
          rat_within 9 q e (rat_abs e)
      | None => false
      end
  | UPanic => false
  | _ => true
  end.

Definition corr_compare (a : Z) (x1 x2 : list b64) (alpha : b64) (obs : option ocompare)
           (deltas : list (b64 * b64 * bytes)) (vars : list variant) (raw : option b64) : bool :=
  let p_o := match raw with Some p => p | None => S754_nan end in
  match obs with
  | None =>
      (* the implementation panicked: so must the model *)
      let r := if a =? 0 then utest x1 x2 else UApprox in
      match model_compare a x1 x2 alpha p_o r with None => true | Some _ => false end
  | Some ob =>
      let r := if a =? 0 then utest x1 x2 else UApprox in
      match model_compare a x1 x2 alpha p_o r with
      | None => false
      | Some m =>
          b64_same (c_p m) (oc_p ob) && (c_n1 m =? oc_n1 ob) && (c_n2 m =? oc_n2 ob)
          && b64_same (c_alpha m) (oc_alpha ob) && warns_match (c_warn m) (oc_warns ob)
          (* numbers printed in warning texts parse back (decided by the harness) *)
          && forallb w_textok (oc_warns ob)
          && beq (comparison_string m) (oc_string ob)
          && forallb (fun '(old, new, s) => beq (format_delta m old new) s
                                            && fixed_agree true 2 (delta_value old new)) deltas
          && fixed_agree false 3 (oc_p ob)
          && (if a =? 0 then
                (* the library's float against the as-is rational of the model; one evaluation
                   serves the call and its shuffled variant (same sorted samples) *)
                match raw with Some pr => asis_close_r false r pr | None => true end
                && asis_close_r true r (oc_p ob)
                && forallb (fun v => if v_kind v =? 2 then asis_close_r true r (v_p v) else true) vars
                && (if (zlen x1 <=? 25) && (zlen x2 <=? 25) then
                      let r' := utest x2 x1 in
                      forallb (fun v => if v_kind v =? 1 then asis_close_r true r' (v_p v) else true) vars
                    else true)
              else true)
      end
  end.

(** 0 <= p <= 1, with Go's <= (NaN is outside) *)
Definition in_unit (p : b64) : bool := b64_le f_zero p && b64_le p b64_one.

(** exact permutation p: plain enumeration when small, group DP otherwise; None = not evaluated *)
Definition spec_p (x1 x2 : list b64) : option rat :=
  let n1 := zlen x1 in
  let n2 := zlen x2 in
  if (n1 =? 0) || (n2 =? 0) then None
  else if binom (n1 + n2) n1 <=? 1500 then Some (perm_p x1 x2)
  else if (n1 <=? 25) && (n2 <=? 25) then Some (perm_p_dp x1 x2)
  else None.

Definition is_untied (x1 x2 : list b64) : bool := negb (us_ties (u_statistic x1 x2)).

(** ** input domains of the two known findings (both in the dependency go-moremath) *)
(** C13_moremath_tied_exact_path: the pooled values have ties and both sizes are
    within MannWhitneyTiesExactLimit = 25 *)
Definition tied_domain (x1 x2 : list b64) : bool :=
  negb (is_untied x1 x2) && (zlen x1 <=? 25) && (zlen x2 <=? 25).
(** C13_normal_compare_overflow_panic: Welch's test passes its error checks and its
    degrees of freedom are not a finite number ((variance/n)^2 overflowed or underflowed) *)
Definition welch_domain (x1 x2 : list b64) : bool :=
  let y1 := sort_f x1 in
  let y2 := sort_f x2 in
  negb (b64_le (weight_f y1) b64_one || b64_le (weight_f y2) b64_one)
  && negb (b64_eq (variance_f y1) f_zero && b64_eq (variance_f y2) f_zero)
  && negb (b64_is_finite (w_dof (welch_stats y1 y2))).

(** which pairs of p-values come from an exact computation on both sides *)
Definition exact_path (a : Z) (x1 x2 : list b64) : bool :=
  (a =? 1)
  || ((a =? 0) && (((zlen x1 <=? 25) && (zlen x2 <=? 25))
                   || ((zlen x1 <=? 50) && (zlen x2 <=? 50) && is_untied x1 x2))).

(** [relax = false]: the specification.  [relax = true]: the same with exactly the
    recorded deviations of the known findings allowed, each only on its input domain:
    - tied exact path (a = 0, [tied_domain]): p need not equal the exact permutation
      p-value and need not be symmetric (the swapped call may report another value);
      everything else - sizes, p in [0,1], reordering and rescaling invariance,
      threshold, rendering - is still demanded;
    - Welch overflow (a = 2, [welch_domain]): the call may panic, or return a p that
      is not the test's value (NaN; 1 when the variance itself overflowed), so the
      variants are not compared with it; sizes, threshold, rendering and a p that is
      NaN or in [0,1] are still demanded. *)
Definition prop_compare_gen (relax : bool) (a : Z) (x1 x2 : list b64) (alpha : b64) (obs : option ocompare)
           (deltas : list (b64 * b64 * bytes)) (vars : list variant) : bool :=
  let tied := relax && (a =? 0) && tied_domain x1 x2 in
  let welch := relax && (a =? 2) && welch_domain x1 x2 in
  match obs with
  | None => welch           (* a comparison never panics *)
  | Some ob =>
      let n1 := zlen x1 in
      let n2 := zlen x2 in
      let p := oc_p ob in
      let cm := ocmp_to_cmp ob in
      let valid := filter v_valid vars in
      let ex := exact_path a x1 x2 in
      (oc_n1 ob =? n1) && (oc_n2 ob =? n2)
      && (in_unit p || (welch && b64_is_nan p))
      (* rendering rules on what was observed *)
      && beq (oc_string ob) (comparison_string cm)
      && forallb (fun '(old, new, s) => beq (format_delta cm old new) s) deltas
      (* symmetric, invariant under reordering and rescaling *)
      && (welch
          || forallb (fun v => (p_same ex p (v_p v) || (tied && (v_kind v =? 1)))
                               && (if v_kind v =? 1 then (v_n1 v =? n2) && (v_n2 v =? n1)
                                   else (v_n1 v =? n1) && (v_n2 v =? n2))) valid)
      && match a with
         | 0 =>
             (* the threshold the first sample was created with *)
             b64_same (oc_alpha ob) alpha
             (* the exact permutation p-value *)
             && (tied
                 || if (n1 <=? 25) && (n2 <=? 25) then
                      match spec_p x1 x2 with
                      | Some sp => p_is_spec sp p && forallb (fun v => p_is_spec sp (v_p v)) valid
                      | None => true
                      end
                    else
                      (* untied samples up to 50 use the exact distribution as well *)
                      if (n1 <=? 50) && (n2 <=? 50) && is_untied x1 x2 then
                        match spec_p x1 x2 with
                        | Some sp => p_is_spec sp p
                        | None => true
                        end
                      else true)
         | 1 => true            (* no test performed: nothing beyond the common clauses *)
         | 2 => b64_same (oc_alpha ob) alpha
         | _ => false
         end
  end.

Definition prop_compare := prop_compare_gen false.

(** ** direct rendering cases *)
Definition ok_delta (p alpha old new : b64) (s : bytes) : bool :=
  beq (format_delta (mkCmp p 0 0 alpha []) old new) s && fixed_agree true 2 (delta_value old new).
Definition ok_pct (c lo hi : b64) (s : bytes) : bool :=
  beq (pct_range_string (mkSummary c lo hi f_zero [])) s && fixed_agree false 0 (pct_value' c lo hi).
Definition ok_string (p : b64) (n1 n2 : Z) (s : bytes) : bool :=
  beq (comparison_string (mkCmp p n1 n2 f_zero [])) s && fixed_agree false 3 p.

Definition corr_ok (c : case) : bool :=
  match c with
  | KSummary a vals conf obs o => corr_summary a vals conf obs o
  | KCompare a x1 x2 alpha obs deltas vars raw => corr_compare a x1 x2 alpha obs deltas vars raw
  | KDelta p alpha old new s => ok_delta p alpha old new s
  | KPct c lo hi s => ok_pct c lo hi s
  | KString p n1 n2 s => ok_string p n1 n2 s
  end.

Definition prop_ok (c : case) : bool :=
  match c with
  | KSummary a vals conf obs o => prop_summary a vals conf obs o
  | KCompare a x1 x2 alpha obs deltas vars _ => prop_compare a x1 x2 alpha obs deltas vars
  | KDelta p alpha old new s => ok_delta p alpha old new s
  | KPct c lo hi s => ok_pct c lo hi s
  | KString p n1 n2 s => ok_string p n1 n2 s
  end.

(** the judge of the known findings C13_moremath_tied_exact_path and
    C13_normal_compare_overflow_panic: everything [prop_ok] demands except exactly
    their recorded deviations, each on its own input domain (see [prop_compare_gen]) *)
Definition known_ok (c : case) : bool :=
  match c with
  | KCompare a x1 x2 alpha obs deltas vars _ => prop_compare_gen true a x1 x2 alpha obs deltas vars
  | _ => prop_ok c
  end.

Definition run_case (s : sx) : N :=
  match decode s with
  | Some c => code_of3 (corr_ok c) (prop_ok c) (known_ok c)
  | None => code_undecodable
  end.
