(** Correspondence evaluator for C09: the case format, decoder and driver are
    those of C08 (Corr/RunC08.v); here the Less matrix and the SortKeys results
    observed on the real code are compared with the model, and checked directly:
    Less is a strict total order on the Keys of each projection (irreflexive,
    antisymmetric, transitive over all triples, total), every SortKeys result is a
    Less-sorted permutation of its input, and equal key sets sort equally; and
    every entry of the Less matrix is what the expression of the deciding field
    says (declarative per-field specifications, [pair_ok]).

    The model is that of the code with the two repairs proposed for C09
    (Model/SortR.v): a leading sign belongs to the numeral of a suffixed
    number, and the missing value "" of a late .config sub-field ranks by its
    first observation. On the unrepaired code both show as VIOLATION. *)
From Perf Require Import Base.Bytes Base.Sx Base.B64 Base.SxF Model.Name Model.Extract Model.Key
  Model.Projection Model.ProjectionTx Model.Sort Model.SortR Corr.RunC08.

(** ** oracle tables *)
Record oracle := mkO { o_pf : list (bytes * option b64); o_pow : list (Z * Z * b64) }.

Definition as_pf (s : sx) : option (bytes * option b64) :=
  match s with
  | SL [SB x; ok; v] => do ok <- as_bool ok; do v <- as_f64 v; Some (x, if ok then Some v else None)
  | _ => None
  end.
Definition as_pw (s : sx) : option (Z * Z * b64) :=
  match s with
  | SL [SZ b; SZ e; v] => do v <- as_f64 v; Some (b, e, v)
  | _ => None
  end.
Definition as_oracle (s : sx) : option oracle :=
  match s with
  | SL [pf; pw] => do pf <- as_list as_pf pf; do pw <- as_list as_pw pw; Some (mkO pf pw)
  | _ => None
  end.

Fixpoint pf_lookup (t : list (bytes * option b64)) (x : bytes) : option (option b64) :=
  match t with
  | [] => None
  | (y, v) :: t' => if beq x y then Some v else pf_lookup t' x
  end.
Fixpoint pw_lookup (t : list (Z * Z * b64)) (b e : Z) : option b64 :=
  match t with
  | [] => None
  | (b', e', v) :: t' => if (b =? b')%Z && (e =? e')%Z then Some v else pw_lookup t' b e
  end.

(** strconv.ParseFloat on a sign followed by a run of [0-9.]: the harness
    records the verdict on every value and on every maximal run of [0-9.] in it,
    not on sign + run; that one is derived: the same verdict, negated for '-'
    (ParseFloat reads the sign first and applies it to the correctly rounded
    magnitude; rounding to nearest even is symmetric). [sign_sym_ok] re-checks
    this on every table entry of the shape sign + run whose run is in the table
    too ("-1" next to "1", "-0", "+1", ... occur in most cases). *)
Definition signed_run (x : bytes) : option (byte * bytes) :=
  match x with
  | s :: ((_ :: _) as m) => if is_sign s && forallb is_numch m then Some (s, m) else None
  | _ => None
  end.
Definition apply_sign (s : byte) (v : b64) : b64 := if Byte.eqb s c_minus then b64_neg v else v.

Definition pf_derived (o : oracle) (x : bytes) : option (option b64) :=
  match signed_run x with
  | Some (s, m) => match pf_lookup (o_pf o) m with
                   | Some v => Some (option_map (apply_sign s) v)
                   | None => None
                   end
  | None => None
  end.

Definition pf_ext (o : oracle) (x : bytes) : option (option b64) :=
  match pf_lookup (o_pf o) x with
  | Some v => Some v
  | None => pf_derived o x
  end.

Definition o_parse_float (o : oracle) (x : bytes) : option b64 :=
  match pf_ext o x with Some v => v | None => None end.
Definition pf_known (o : oracle) (x : bytes) : bool :=
  match pf_ext o x with Some _ => true | None => false end.
Definition o_powf (o : oracle) (iec : bool) (e : nat) : b64 :=
  match pw_lookup (o_pow o) (if iec then 1024 else 1000)%Z (Z.of_nat e) with
  | Some v => v | None => S754_nan end.

Definition opt_same (a b : option b64) : bool :=
  match a, b with
  | Some x, Some y => b64_same x y
  | None, None => true
  | _, _ => false
  end.

Definition sign_sym_ok (o : oracle) : bool :=
  forallb (fun '(x, v) => match pf_derived o x with Some d => opt_same v d | None => true end) (o_pf o).

(** every ParseFloat argument the model needs on value [v] is known
    (otherwise the model would be guessing: OracleMiss) *)
Definition asked_ok (o : oracle) (v : bytes) : bool :=
  match pf_lookup (o_pf o) v with
  | None => false
  | Some (Some _) => true
  | Some None =>
      match num_match_r v with
      | None => true
      | Some (m, _) => pf_known o m
      end
  end.

Definition num_fields (p : projection) : list nat :=
  filter (fun idx => match nth_error (p_fields p) idx with
                     | Some f => match fi_ord f with ONum => true | _ => false end
                     | None => false end) (flat p).

Definition oracle_covers (o : oracle) (p : projection) : bool :=
  Nat.leb 18 (length (o_pow o)) &&
  forallb (fun idx => forallb (fun vals => asked_ok o (vals_get vals idx)) (p_keys p)) (num_fields p).

(** ** model vs observed *)
Definition proj_corr9 (o : oracle) (p : projection) (ob : pobs) : bool :=
  let n := length (p_keys p) in
  let ks := seq 0 n in
  let lt := key_less_r (o_parse_float o) (o_powf o) p in
  oracle_covers o p
  && list_eqb (list_eqb Bool.eqb) (map (fun a => map (fun b => lt a b) ks) ks) (po_less ob)
  && forallb (fun '(inp, out) => nat_list_eqb (sort_by lt inp) out) (po_sorts ob).

(** the model run is that of RunC08.run_corr: the repaired Parse
    (Model/ProjectionTx.v; identical to [run_ops] when no Parse call fails) *)
Definition run_corr9 (o : oracle) (ops : list op) (obs : list pobs) : bool :=
  let '(w, _) := run_ops_tx new_world ops in
  forallb2 (proj_corr9 o) (w_projs w) obs.

Definition case_oracle (c : case) : option oracle :=
  match c with CProto _ _ _ s | CFree _ _ _ s => as_oracle s end.

(** ** the specification, on the implementation's observations *)
Definition mat (m : list (list bool)) (i j : nat) : bool := nth j (nth i m []) false.

Definition strict_total (m : list (list bool)) : bool :=
  let n := length m in
  let ix := seq 0 n in
  forallb (fun r => Nat.eqb (length r) n) m
  && forallb (fun i => negb (mat m i i)) ix
  && forallb (fun i => forallb (fun j => Nat.eqb i j || negb (mat m i j && mat m j i)) ix) ix
  && forallb (fun i => forallb (fun j => Nat.eqb i j || mat m i j || mat m j i) ix) ix
  && forallb (fun i => forallb (fun j => negb (mat m i j) ||
        forallb (fun k => negb (mat m j k) || mat m i k) ix) ix) ix.

Fixpoint count_occ_nat (l : list nat) (x : nat) : nat :=
  match l with [] => 0 | y :: l' => (if Nat.eqb x y then 1 else 0) + count_occ_nat l' x end.

Definition is_perm (a b : list nat) : bool :=
  Nat.eqb (length a) (length b)
  && forallb (fun x => Nat.eqb (count_occ_nat a x) (count_occ_nat b x)) a.

Fixpoint sorted_wrt (m : list (list bool)) (l : list nat) : bool :=
  match l with
  | [] => true
  | x :: l' => forallb (fun y => negb (mat m y x)) l' && sorted_wrt m l'
  end.

Definition sorts_ok (ob : pobs) : bool :=
  forallb (fun '(inp, out) => is_perm inp out && sorted_wrt (po_less ob) out) (po_sorts ob)
  && forallb (fun '(i1, o1) => forallb (fun '(i2, o2) => negb (is_perm i1 i2) || nat_list_eqb o1 o2)
                                       (po_sorts ob)) (po_sorts ob).

(** the assumptions made of the oracle values (Properties/C09.v, Section
    hypotheses on the float order) hold for the values of this case *)
Fixpoint dedup_f (l : list b64) : list b64 :=
  match l with
  | [] => []
  | x :: l' => if existsb (b64_same x) l' then dedup_f l' else x :: dedup_f l'
  end.

Definition num_values (o : oracle) : list b64 :=
  dedup_f (flat_map (fun '(x, _) => match parse_num_r (o_parse_float o) (o_powf o) x with
                                    | Some v => [v] | None => [] end) (o_pf o)).

Definition float_order_ok (vs : list b64) : bool :=
  forallb (fun x => negb (b64_lt x x)) vs
  && forallb (fun x => forallb (fun y =>
       (negb (b64_lt x y) || negb (b64_lt y x))
       && (negb (b64_is_nan x || b64_is_nan y) || (negb (b64_lt x y)))
       && forallb (fun z =>
            (negb (b64_lt x y && b64_lt y z) || b64_lt x z)
            && (b64_is_nan x || b64_is_nan y || b64_is_nan z
                || b64_lt x y || b64_lt y x || b64_lt y z || b64_lt z y
                || negb (b64_lt x z || b64_lt z x))) vs) vs) vs.

(** math.Pow returned the correctly rounded powers (hypothesis [pow_rounded] of
    Proofs/NumSpec.num_spec) *)
Definition pow_table_ok (o : oracle) : bool :=
  forallb (fun '(b, e, v) => b64_same v (b64_of_Z (b ^ e))) (o_pow o).

Definition corr_ok (c : case) : bool :=
  RunC08.corr_ok c &&
  match case_oracle c with
  | None => false
  | Some o =>
      float_order_ok (num_values o) && pow_table_ok o && sign_sym_ok o &&
      match c with
      | CFree ops _ obs _ => run_corr9 o ops obs
      | CProto ex st runs _ => forallb (fun r => run_corr9 o (proto_ops ex st (pr_perm r)) (pr_obs r)) runs
      end
  end.

Definition obs_ok (ob : pobs) : bool :=
  Nat.eqb (length (po_less ob)) (length (po_keys ob)) && strict_total (po_less ob) && sorts_ok ob.

(** ** the documented per-field orders, from the observations alone

    For every pair of Keys, the first flattened field on which they differ
    decides; what that field must say is given by its expression:
    - num: [Model.SortR.num_before_r] - the declarative specification (value
      denoted by each string via the ParseFloat table and EXACT powers, a
      leading sign belonging to the numeral: "-1k" is -1000; numbers before
      non-numbers, NaN last among numbers, ties by string order);
    - alpha: string order;
    - first (top-level or sub-field of .config, .unit, residue): Keys are numbered
      in interning order; of two values - the missing value "" of a Key that
      lacks the field is a value like any other - the one whose first Key has
      the smaller number sorts first;
    - fixed: "the listed order": when every listing of one word precedes every
      listing of the other ([Model.SortR.listed_before]; for words listed once:
      their positions) that word sorts first. Two words whose listings
      interleave (a b a) are not ordered by the statement, and a word that is
      not listed cannot occur behind the filter that key@(...) installs (the
      harness projects without filtering): for those only the strict total
      order over all triples is demanded. *)

(** the parsed fields each projection was built from; [None] = a residue *)
Fixpoint proj_specs (ops : list op) (outs : list (list Z)) : list (option (bool * list pspec)) :=
  match ops, outs with
  | OpParse wu fs :: ops', o :: outs' =>
      match o with
      | [1%Z] => Some (wu, fs) :: proj_specs ops' outs'
      | _ => proj_specs ops' outs'
      end
  | OpResidue :: ops', _ :: outs' => None :: proj_specs ops' outs'
  | _ :: ops', _ :: outs' => proj_specs ops' outs'
  | _, _ => []
  end.

Definition flat_specs (sp : option (bool * list pspec)) (o : pobs) : list pspec :=
  match sp with
  | None => map (fun _ => spec_first []) (po_flat o)
  | Some (wu, fs) =>
      flat_map (fun '(s, f) => if fo_tuple f then map (fun _ => s) (fo_subs f) else [s])
               (combine fs (po_fields o))
      ++ (if wu then [spec_first key_unit] else [])
  end.

Fixpoint first_key_with (j : nat) (v : bytes) (ks : list kobs) (i : nat) : nat :=
  match ks with
  | [] => i
  | k :: ks' => if beq (nth j (ko_gets k) []) v then i else first_key_with j v ks' (S i)
  end.

Fixpoint first_diff (a b : list bytes) (j : nat) : option (nat * bytes * bytes) :=
  match a, b with
  | x :: a', y :: b' => if beq x y then first_diff a' b' (S j) else Some (j, x, y)
  | _, _ => None
  end.

(** the specification can be evaluated on [v]: ParseFloat's verdicts are known *)
Definition spec_evaluable (o : oracle) (v : bytes) : bool :=
  match pf_lookup (o_pf o) v with
  | None => false
  | Some (Some _) => true
  | Some None =>
      match fst (numeral_of v) with
      | [] => true
      | m => pf_known o m
      end
  end.

Definition pair_ok (o : oracle) (flags : list pspec) (ob : pobs) (i j : nat) (ka kb : kobs) : bool :=
  match first_diff (ko_gets ka) (ko_gets kb) 0 with
  | None => true
  | Some (pos, va, vb) =>
      match nth_error flags pos with
      | None => true
      | Some s =>
          let got := mat (po_less ob) i j in
          if beq (ps_order s) (bs "num") then
            if spec_evaluable o va && spec_evaluable o vb
            then Bool.eqb got (num_before_r (o_parse_float o) va vb) else false
          else if beq (ps_order s) (bs "alpha") then Bool.eqb got (bltb va vb)
          else if beq (ps_order s) (bs "first") then
            Bool.eqb got (Nat.ltb (first_key_with pos va (po_keys ob) 0)
                                  (first_key_with pos vb (po_keys ob) 0))
          else if beq (ps_order s) (bs "fixed") then
            if listed_before (ps_fixed s) va vb then got
            else if listed_before (ps_fixed s) vb va then negb got
            else true
          else true
      end
  end.

Definition order_spec_ok (o : oracle) (flags : list pspec) (ob : pobs) : bool :=
  let iks := combine (seq 0 (length (po_keys ob))) (po_keys ob) in
  forallb (fun '(i, ka) => forallb (fun '(j, kb) => pair_ok o flags ob i j ka kb) iks) iks.

Definition run_order_ok (o : oracle) (ops : list op) (outs : list (list Z)) (obs : list pobs) : bool :=
  forallb2 (fun sp ob => order_spec_ok o (flat_specs sp ob) ob) (proj_specs ops outs) obs.

Definition prop_ok (c : case) : bool :=
  RunC08.prop_ok c &&
  match case_oracle c with
  | None => false
  | Some o =>
      match c with
      | CFree ops outs obs _ => forallb obs_ok obs && run_order_ok o ops outs obs
      | CProto ex st runs _ =>
          forallb (fun r => forallb obs_ok (pr_obs r)
                            && run_order_ok o (proto_ops ex st (pr_perm r)) (pr_outs r) (pr_obs r)) runs
      end
  end.

Definition run_case (s : sx) : N :=
  match decode s with
  | Some c => code_of (corr_ok c) (prop_ok c)
  | None => code_undecodable
  end.
