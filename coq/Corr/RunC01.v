(** Correspondence evaluator for C01: histories of results edited through the
    API and written by the real benchfmt.Writer, arbitrary texts sent
    through the cmd/benchfilter loop, through the REAL cmd/benchfilter binary
    (queries "*", key:value, .unit:literal; files or stdin) and through one
    Reader reused by Reset into one Writer; the written bytes are read back by
    the real reader.  corr_ok: model edits = real edits, model reader = real reader
    on the real bytes, and reading the MODEL writer's bytes gives the same
    observation as reading the real bytes (bytes themselves are not compared).
    prop_ok: the observation equals what the property states for the history:
    every result with its name, iteration count, measurements as written and
    exactly its file configuration, every unit-metadata record, nothing else, no
    error.  The expectation is written down from the records (declarative,
    Model/RoundTripSpec.v); it runs neither the writer nor the reader model.
    known_ok: the same predicate with exactly the recorded deviations of C01's
    known findings allowed (records the line format cannot express; a repeated
    unit-metadata record; a re-printed line over the scanner's limit). *)
From Perf Require Import Base.Bytes Base.Sx Base.B64 Base.SxF Base.Utf8 Base.Unicode
  Model.Name Model.Extract Model.Units Model.Reader Model.Files Model.ReaderSpec Model.Writer Model.RoundTripSpec Corr.RunC02.

(** what the property compares: positions dropped, measurements as written,
    configuration = the file part, as a map *)
Inductive ob :=
| ObRes (name : bytes) (iters : Z) (wr : list (b64 * bytes)) (fcfg : list cfg)
| ObUnit (tu key orig val : bytes)
| ObErr (kind : Z).

Definition ob_of_record (r : record) : ob :=
  match r with
  | RRes r => ObRes (r_name r) (r_iters r) (map written (r_vals r)) (filter c_file (r_cfg r))
  | RUnit u => let m := up_meta u in ObUnit (u_unit m) (u_key m) (u_orig m) (u_value m)
  | RErr _ _ k => ObErr (kind_code k)
  end.

Definition owritten (o : b64 * bytes * b64 * bytes) : b64 * bytes :=
  let '(a, u, c, ou) := o in if is_nil ou then (a, u) else (c, ou).

Definition ob_of_orec (o : orec) : ob :=
  match o with
  | ORes _ _ name it vals cfgs => ObRes name it (map owritten vals) (filter c_file cfgs)
  | OUnit _ _ tu k orig v => ObUnit tu k orig v
  | OErr _ _ k => ObErr k
  end.

Definition wr_eqb (a b : b64 * bytes) : bool := b64_same (fst a) (fst b) && beq (snd a) (snd b).

Definition ob_eqb (a b : ob) : bool :=
  match a, b with
  | ObRes n i w c, ObRes n' i' w' c' => beq n n' && Z.eqb i i' && list_eqb wr_eqb w w' && cfg_equivb c c'
  | ObUnit a1 a2 a3 a4, ObUnit b1 b2 b3 b4 => beq a1 b1 && beq a2 b2 && beq a3 b3 && beq a4 b4
  | ObErr k, ObErr k' => Z.eqb k 0 || Z.eqb k' 0 || Z.eqb k k'
  | _, _ => false
  end.
Definition obs_eqb (a b : list ob) : bool := list_eqb ob_eqb a b.

(** history steps *)
Inductive hstep :=
| HRes (edits : list cedit) (name : bytes) (iters : Z) (vals : list (b64 * bytes * b64 * bytes))
       (cfgobs : list cfg)                    (* res.Config after the edits, as observed *)
| HUnit (tu key orig val : bytes)
| HErr.

Definition fmt_table := list (b64 * bytes).

(** the queries given to the real cmd/benchfilter binary *)
Inductive query := QAll | QKey (k v : bytes) | QUnit (lit : bytes).

Inductive case :=
| KHist (orc : oracle) (fmt : fmt_table) (steps : list hstep) (out : bytes)
        (rb : list orec) (rberr : option Z)
| KText (orc : oracle) (fmt : fmt_table) (fs : list (bytes * bytes)) (paths : list bytes)
        (r1 : list orec) (out : bytes) (rb : list orec) (rberr : option Z)
| KBin (orc : oracle) (fmt : fmt_table) (fs : list (bytes * bytes)) (paths : list bytes) (stdin : bool)
       (q : query) (r1 : list orec) (exit : Z) (out : bytes) (rb : list orec) (rberr : option Z)
| KReset (orc : oracle) (fmt : fmt_table) (files : list (bytes * list (bytes * bytes) * bytes))
         (r1 : list orec) (out : bytes) (rb : list orec) (rberr : option Z)
| KPanic.

Definition as_query (s : sx) : option query :=
  match s with
  | SL [SZ 0] => Some QAll
  | SL [SZ 1; SB k; SB v] => Some (QKey k v)
  | SL [SZ 2; SB l] => Some (QUnit l)
  | _ => None
  end.

Definition as_edit (s : sx) : option cedit :=
  match s with
  | SL [SZ 0; SB k; SB v] => Some (ESet k v)
  | SL [SZ 1; SB k; SB v] => Some (ESetFile k v)
  | SL [SZ 2; SB k] => Some (EFlip k)
  | SL [SZ 3; SB k; SB v] => Some (EValue k v)
  | _ => None
  end.

Definition as_hstep (s : sx) : option hstep :=
  match s with
  | SL [SZ 0; edits; SB name; SZ it; vals; cfgs] =>
      do edits <- as_list as_edit edits; do vals <- as_list as_val vals; do cfgs <- as_list as_cfg cfgs;
      Some (HRes edits name it vals cfgs)
  | SL [SZ 1; SB tu; SB k; SB o; SB v] => Some (HUnit tu k o v)
  | SL [SZ 2] => Some HErr
  | _ => None
  end.

Definition as_fmt := as_list (as_pair as_f64 as_b).

Definition decode (s : sx) : option case :=
  match s with
  | SL [SZ 1; orc; fmt; steps; SB out; rb; rberr] =>
      do orc <- as_oracle orc; do fmt <- as_fmt fmt; do steps <- as_list as_hstep steps;
      do rb <- as_list as_orec rb; do rberr <- as_opt as_z rberr;
      Some (KHist orc fmt steps out rb rberr)
  | SL [SZ 2; orc; fmt; fs; paths; r1; SB out; rb; rberr] =>
      do orc <- as_oracle orc; do fmt <- as_fmt fmt;
      do fs <- as_list (as_pair as_b as_b) fs; do paths <- as_list as_b paths;
      do r1 <- as_list as_orec r1; do rb <- as_list as_orec rb; do rberr <- as_opt as_z rberr;
      Some (KText orc fmt fs paths r1 out rb rberr)
  | SL [SZ 3] => Some KPanic
  | SL [SZ 4; orc; fmt; fs; paths; stdin; q; r1; SZ exit; SB out; rb; rberr] =>
      do orc <- as_oracle orc; do fmt <- as_fmt fmt;
      do fs <- as_list (as_pair as_b as_b) fs; do paths <- as_list as_b paths;
      do stdin <- as_bool stdin; do q <- as_query q;
      do r1 <- as_list as_orec r1; do rb <- as_list as_orec rb; do rberr <- as_opt as_z rberr;
      Some (KBin orc fmt fs paths stdin q r1 exit out rb rberr)
  | SL [SZ 5; orc; fmt; files; r1; SB out; rb; rberr] =>
      do orc <- as_oracle orc; do fmt <- as_fmt fmt;
      do files <- as_list (as_triple as_b (as_list (as_pair as_b as_b)) as_b) files;
      do r1 <- as_list as_orec r1; do rb <- as_list as_orec rb; do rberr <- as_opt as_z rberr;
      Some (KReset orc fmt files r1 out rb rberr)
  | _ => None
  end.

Definition fmt_of (t : fmt_table) (x : b64) : bytes :=
  match find (fun e => b64_same (fst e) x) t with Some e => snd e | None => [] end.

Definition mk_value (o : b64 * bytes * b64 * bytes) : value :=
  let '(a, u, c, ou) := o in mkValue a u c ou.

Definition out_name : bytes := bs "out".

Section Run.
Variable orc : oracle.
Variable fmt : fmt_table.
Notation rf := (read_file_nl go_is_space go_is_lower go_is_upper (orc_atoi orc) (orc_pf orc)).

(** the model's run of a history: edits on the slots, writer on the results *)
Fixpoint run_hist (st : cstate) (w : wstate) (steps : list hstep) : bool * list wline :=
  match steps with
  | [] => (true, [])
  | HRes edits name it vals cfgobs :: steps' =>
      let st' := fold_left apply_edit edits st in
      let r := mkResult (live st') name it (map mk_value vals) [] 0 in
      let '(ls, w') := write_rec w (RRes r) in
      let '(ok, ls') := run_hist st' w' steps' in
      (cfg_list_eqb (live st') cfgobs && ok, ls ++ ls')
  | HUnit tu k o v :: steps' =>
      let '(ls, w') := write_rec w (RUnit (mkUmetap (mkUmeta tu k o v) [] 0)) in
      let '(ok, ls') := run_hist st w' steps' in (ok, ls ++ ls')
  | HErr :: steps' => run_hist st w steps'
  end.

(** the contract of the API edits, checked on the observed configurations *)
Fixpoint edits_ok (m : cmap) (steps : list hstep) : bool :=
  match steps with
  | [] => true
  | HRes edits _ _ _ cfgobs :: steps' =>
      let m' := fold_left apply_edit_map edits m in
      cfg_equivb cfgobs m' && edits_ok m' steps'
  | _ :: steps' => edits_ok m steps'
  end.

(** what reading the written stream must give.
    [relax = false] (the property): every result comes back with exactly its
    file configuration, every unit-metadata record comes back, SyntaxError
    records are not written (the writer documents that it ignores them).
    [relax = true] (known findings, exactly their recorded deviations):
    - C01_value_ends_with_CR, C01_value_starts_with_blank, C01_value_contains_LF,
      C01_empty_file_value, C01_file_key_not_a_key: the file configuration that
      comes back is [carried_cfg] of the one written, plus the keys set by the
      lines after the first LF of a file value ([inj], accumulated: the writer
      never deletes a key it does not know).  Such a key must not be a key of the
      history and must have one value throughout, a line after an LF must be
      recognisably inert or of the form key: value - otherwise the relaxed judge
      gives no expectation (None: the case fails);
    - C01_result_without_measurements, C01_name_with_white_space: such a result
      comes back as one syntax-error record;
    - C01_repeated_unit_metadata: a record whose (tidied unit, key) was already
      written does not come back if the value is the same and comes back as a
      syntax error (kind 8) if it differs. *)
Notation carried := (carried_cfg go_is_space go_is_lower go_is_upper).

Definition hist_keys (steps : list hstep) : list bytes :=
  flat_map (fun s => match s with HRes _ _ _ _ cfgobs => map c_key cfgobs | _ => [] end) steps.

Fixpoint add_injected (hk : list bytes) (ls : list bytes) (inj : list cfg) : option (list cfg) :=
  match ls with
  | [] => Some inj
  | l :: ls' =>
      match injected_of_line l with
      | LInert => add_injected hk ls' inj
      | LSets k v =>
          if existsb (beq k) hk then None
          else match cfg_lookup inj k with
               | Some c => if beq (c_val c) v then add_injected hk ls' inj else None
               | None => add_injected hk ls' (inj ++ [mkCfg k v true])
               end
      | LUnknown => None
      end
  end.

Fixpoint expect_hist (relax : bool) (hk : list bytes) (seen : list (bytes * bytes * bytes)) (inj : list cfg)
         (steps : list hstep) : option (list ob) :=
  match steps with
  | [] => Some []
  | HRes _ name it vals cfgobs :: steps' =>
      let F := filter c_file cfgobs in
      if relax then
        do inj' <- add_injected hk (flat_map (fun c => value_rest_lines (c_val c)) F) inj;
        do rest <- expect_hist relax hk seen inj' steps';
        Some ((if res_expressible go_is_space name vals
               then ObRes name it (map owritten vals) (carried F ++ inj')
               else ObErr 0) :: rest)
      else
        do rest <- expect_hist relax hk seen inj steps';
        Some (ObRes name it (map owritten vals) F :: rest)
  | HUnit _ k o v :: steps' =>
      let tu := spec_unit go_is_space o in
      if relax then
        match find (fun e => beq (fst (fst e)) tu && beq (snd (fst e)) k) seen with
        | Some e => do rest <- expect_hist relax hk seen inj steps';
                    Some (if beq (snd e) v then rest else ObErr 8 :: rest)
        | None => do rest <- expect_hist relax hk ((tu, k, v) :: seen) inj steps';
                  Some (ObUnit tu k o v :: rest)
        end
      else
        do rest <- expect_hist relax hk seen inj steps';
        Some (ObUnit tu k o v :: rest)
  | HErr :: steps' => expect_hist relax hk seen inj steps'
  end.

Definition hist_ok (relax : bool) (steps : list hstep) (got : list ob) : bool :=
  match expect_hist relax (hist_keys steps) [] [] steps with
  | Some e => obs_eqb e got
  | None => false
  end.

(** the text routes: [exp] is the stream that must come back (what the first
    reading delivered, minus syntax errors, filtered).  Relaxed
    (C01_value_ends_with_CR, C01_reprinted_line_exceeds_scanner_limit): file
    values come back as [carried_cfg] says (a reader never delivers a value with
    LF or a leading blank, so this removes one final CR), and the records from
    the first result on whose benchmark line as printed reaches 64 KiB do not
    come back, the reading ending with an error - exactly then. *)
Definition ob_too_long (o : ob) : bool :=
  match o with
  | ObRes n i w _ => line_too_long (bench_line_len n (print_Z i) (map (fun p => (fmt_of fmt (fst p), snd p)) w))
  | _ => false
  end.
Fixpoint cut_long (l : list ob) : list ob * bool :=
  match l with
  | [] => ([], false)
  | o :: l' => if ob_too_long o then ([], true)
               else let '(a, b) := cut_long l' in (o :: a, b)
  end.
Definition carried_ob (o : ob) : ob :=
  match o with ObRes n i w c => ObRes n i w (carried c) | _ => o end.
Definition is_some {A} (o : option A) : bool := match o with Some _ => true | None => false end.

(** mechanism 3 of the property (shortest %v formatting paired with a correctly
    rounding parser) is a HYPOTHESIS of the theorems ([bench_ok] in WFres,
    [recs_reprint] on the text route), not proved: fmt's %v and bytesconv are
    oracles.  It is therefore validated on every case: the printed iteration
    count is read back by Atoi, and every printed measurement is one field that
    the reader's atof reads back to the same float (bit for bit, NaNs
    identified).  Lines over the scanner's limit are exempt (they are outside
    [recs_reprint], and their fields are not in the oracle table). *)
Definition one_field (f : bytes) : bool := negb (is_nil f) && name_expressible go_is_space f.
Definition numbers_reprint (o : ob) : bool :=
  match o with
  | ObRes _ it w _ =>
      ob_too_long o
      || (match orc_atoi orc (print_Z it) with Some z => Z.eqb z it | None => false end
          && forallb (fun p : b64 * bytes =>
               let f := fmt_of fmt (fst p) in
               one_field f && match atof (orc_pf orc) f with Some y => b64_same y (fst p) | None => false end) w)
  | _ => true
  end.

Definition text_ok (relax : bool) (exp got : list ob) (rberr : option Z) : bool :=
  if relax then
    let '(pre, long) := cut_long exp in
    obs_eqb (map carried_ob pre) got && Bool.eqb long (is_some rberr)
  else negb (is_some rberr) && obs_eqb exp got.

Definition read_model (b : bytes) : list record * option Z :=
  let '(rs, e, _) := rf rs_empty out_name [] b in (rs, e).

Definition reader_agrees (out : bytes) (rb : list orec) (rberr : option Z) : bool :=
  let '(rs, e) := read_model out in
  orc_complete orc out && list_eqb2 (rec_eqb cfg_list_eqb) rs rb && err_eqb e rberr.

Definition model_bytes_agree (bm : bytes) (rb : list orec) : bool :=
  let '(rs, e) := read_model bm in
  orc_complete orc bm && obs_eqb (map ob_of_record rs) (map ob_of_orec rb).

(** one reader reused through Reset over successive inputs (name, labels, content) *)
Fixpoint reset_run (st : rstate) (files : list (bytes * list (bytes * bytes) * bytes)) : list record :=
  match files with
  | [] => []
  | (n, labels, c) :: files' =>
      let '(rs, _, st1) := rf st n labels c in rs ++ reset_run st1 files'
  end.
End Run.

(** ** the filter of cmd/benchfilter for the three query shapes.
    Model side: on the model's results (the [.unit] clause is Units.unit_filter_apply). *)
Definition keep_res (q : query) (r : result) : option result :=
  match q with
  | QAll => Some r
  | QKey k v => if beq (extract_config (r_cfg r) k) v then Some r else None
  | QUnit lit =>
      let '(k, any) := unit_filter_apply (beq lit) (r_vals r) in
      if any then Some (mkResult (r_cfg r) (r_name r) (r_iters r) k (r_file r) (r_line r)) else None
  end.

(** Specification side, on the observed records of the input: syntax errors
    are dropped, unit metadata passes, a result passes a key filter iff its
    configuration maps the key to the value (absent = empty), and a [.unit]
    filter keeps exactly the measurements whose base unit or written unit is the
    literal; a result with no measurement left is dropped. *)
Definition oval_named (lit : bytes) (o : b64 * bytes * b64 * bytes) : bool :=
  let '(_, u, _, ou) := o in beq lit u || (negb (is_nil ou) && beq lit ou).

Definition keep_orec (q : query) (o : orec) : list orec :=
  match o with
  | OErr _ _ _ => []
  | OUnit _ _ _ _ _ _ => [o]
  | ORes f l name it vals cfgs =>
      match q with
      | QAll => [o]
      | QKey k v => if beq (extract_config cfgs k) v then [o] else []
      | QUnit lit => match filter (oval_named lit) vals with
                     | [] => []
                     | vs => [ORes f l name it vs cfgs]
                     end
      end
  end.

(* the implicit stdin input of Files{AllowStdin} with no paths: Model/Files.v [files_run_stdin] (label "-" since
   fix 14f982c; the code before it said "-#0", which this file used to copy - see C02_stdin_label_old_refuted) *)

Definition is_err (o : orec) : bool := match o with OErr _ _ _ => true | _ => false end.

Definition corr_ok (c : case) : bool :=
  match c with
  | KPanic => false
  | KHist orc fmt steps out rb rberr =>
      let '(ok, ls) := run_hist cs_empty w_init steps in
      ok && reader_agrees orc out rb rberr && model_bytes_agree orc (emit_lines (fmt_of fmt) ls) rb
      && forallb (fun st => match st with
                            | HRes _ name it vals _ => numbers_reprint orc fmt (ObRes name it (map owritten vals) [])
                            | _ => true end) steps
  | KText orc fmt fs paths r1 out rb rberr =>
      let '(rs, e, _) := files_run_nl go_is_space go_is_lower go_is_upper (orc_atoi orc) (orc_pf orc) fs true paths in
      forallb (fun pc => orc_complete orc (snd pc)) fs
      && list_eqb2 (rec_eqb cfg_list_eqb) rs r1
      && reader_agrees orc out rb rberr
      && model_bytes_agree orc (benchfilter_loop (fmt_of fmt) Some rs) rb
      && forallb (fun o => numbers_reprint orc fmt (ob_of_orec o)) r1
  | KBin orc fmt fs paths stdin q r1 exit out rb rberr =>
      let rs :=
        if stdin then
          match fs with
          | (_, content) :: _ =>
              fst (fst (files_run_stdin_nl go_is_space go_is_lower go_is_upper (orc_atoi orc) (orc_pf orc)
                          [] true [] content))
          | [] => []
          end
        else fst (fst (files_run_nl go_is_space go_is_lower go_is_upper (orc_atoi orc) (orc_pf orc) fs true paths)) in
      forallb (fun pc => orc_complete orc (snd pc)) fs
      && list_eqb2 (rec_eqb cfg_list_eqb) rs r1
      && reader_agrees orc out rb rberr
      && model_bytes_agree orc (benchfilter_loop (fmt_of fmt) (keep_res q) rs) rb
      && forallb (fun o => numbers_reprint orc fmt (ob_of_orec o)) (flat_map (keep_orec q) r1)
  | KReset orc fmt files r1 out rb rberr =>
      let rs := reset_run orc rs_empty files in
      forallb (fun f => orc_complete orc (snd f)) files
      && list_eqb2 (rec_eqb cfg_list_eqb) rs r1
      && reader_agrees orc out rb rberr
      && model_bytes_agree orc (benchfilter_loop (fmt_of fmt) Some rs) rb
      && forallb (fun o => numbers_reprint orc fmt (ob_of_orec o)) r1
  end.

Definition prop_gen (relax : bool) (c : case) : bool :=
  match c with
  | KPanic => false
  | KHist orc fmt steps out rb rberr =>
      edits_ok [] steps
      && negb (is_some rberr)
      && hist_ok relax steps (map ob_of_orec rb)
  | KText orc fmt fs paths r1 out rb rberr =>
      text_ok fmt relax (map ob_of_orec (filter (fun o => negb (is_err o)) r1)) (map ob_of_orec rb) rberr
  | KBin orc fmt fs paths stdin q r1 exit out rb rberr =>
      (* the command succeeds and its output reads back as exactly the filtered stream *)
      Z.eqb exit 0
      && text_ok fmt relax (map ob_of_orec (flat_map (keep_orec q) r1)) (map ob_of_orec rb) rberr
  | KReset orc fmt files r1 out rb rberr =>
      text_ok fmt relax (map ob_of_orec (filter (fun o => negb (is_err o)) r1)) (map ob_of_orec rb) rberr
  end.

Definition prop_ok : case -> bool := prop_gen false.
(** the judge of C01's known findings: everything [prop_ok] demands except
    exactly their recorded deviations (see [expect_hist], [text_ok]) *)
Definition known_ok : case -> bool := prop_gen true.

Definition run_case (s : sx) : N :=
  match decode s with
  | Some c => code_of3 (corr_ok c) (prop_ok c) (known_ok c)
  | None => code_undecodable
  end.
