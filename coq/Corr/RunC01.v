(** Correspondence evaluator for C01: histories of results edited through the
    API and written by the real benchfmt.Writer, arbitrary texts sent
    through the cmd/benchfilter loop, through the REAL cmd/benchfilter binary
    (queries "*", key:value, .unit:literal; files or stdin) and through one
    Reader reused by Reset into one Writer; the written bytes are read back by
    the real reader.  corr_ok: model edits = real edits, model reader = real reader
    on the real bytes, and reading the MODEL writer's bytes gives the same
    observation as reading the real bytes (bytes themselves are not compared).
    prop_ok: the observation equals the expectation computed from the history. *)
From Perf Require Import Base.Bytes Base.Sx Base.B64 Base.SxF Base.Utf8 Base.Unicode
  Model.Name Model.Extract Model.Units Model.Reader Model.Files Model.Writer Corr.RunC02.

(** what the property compares: positions dropped, measurements as written,
    configuration = the file part, as a map *)
Inductive ob :=
| ObRes (name : bytes) (iters : Z) (wr : list (b64 * bytes)) (fcfg : list cfg)
| ObUnit (tu key orig val : bytes)
| ObErr (kind : Z).

Definition ob_of_record (r : record) : ob :=
  match r with
  | RRes r => ObRes (r_name r) (r_iters r) (map written (r_vals r)) (filter c_file (r_cfg r))
  | RUnit u => let m := up_meta u in ObUnit (u_unit m) (u_key m) (u_orig m) (u_value m)
  | RErr _ _ k => ObErr (kind_code k)
  end.

Definition owritten (o : b64 * bytes * b64 * bytes) : b64 * bytes :=
  let '(a, u, c, ou) := o in if is_nil ou then (a, u) else (c, ou).

Definition ob_of_orec (o : orec) : ob :=
  match o with
  | ORes _ _ name it vals cfgs => ObRes name it (map owritten vals) (filter c_file cfgs)
  | OUnit _ _ tu k orig v => ObUnit tu k orig v
  | OErr _ _ k => ObErr k
  end.

Definition wr_eqb (a b : b64 * bytes) : bool := b64_same (fst a) (fst b) && beq (snd a) (snd b).

Definition ob_eqb (a b : ob) : bool :=
  match a, b with
  | ObRes n i w c, ObRes n' i' w' c' => beq n n' && Z.eqb i i' && list_eqb wr_eqb w w' && cfg_equivb c c'
  | ObUnit a1 a2 a3 a4, ObUnit b1 b2 b3 b4 => beq a1 b1 && beq a2 b2 && beq a3 b3 && beq a4 b4
  | ObErr k, ObErr k' => Z.eqb k 0 || Z.eqb k' 0 || Z.eqb k k'
  | _, _ => false
  end.
Definition obs_eqb (a b : list ob) : bool := list_eqb ob_eqb a b.

(** history steps *)
Inductive hstep :=
| HRes (edits : list cedit) (name : bytes) (iters : Z) (vals : list (b64 * bytes * b64 * bytes))
       (cfgobs : list cfg)                    (* res.Config after the edits, as observed *)
| HUnit (tu key orig val : bytes)
| HErr.

Definition fmt_table := list (b64 * bytes).

(** the queries given to the real cmd/benchfilter binary *)
Inductive query := QAll | QKey (k v : bytes) | QUnit (lit : bytes).

Inductive case :=
| KHist (orc : oracle) (fmt : fmt_table) (steps : list hstep) (out : bytes)
        (rb : list orec) (rberr : option Z)
| KText (orc : oracle) (fmt : fmt_table) (fs : list (bytes * bytes)) (paths : list bytes)
        (r1 : list orec) (out : bytes) (rb : list orec) (rberr : option Z)
| KBin (orc : oracle) (fmt : fmt_table) (fs : list (bytes * bytes)) (paths : list bytes) (stdin : bool)
       (q : query) (r1 : list orec) (exit : Z) (out : bytes) (rb : list orec) (rberr : option Z)
| KReset (orc : oracle) (fmt : fmt_table) (files : list (bytes * list (bytes * bytes) * bytes))
         (r1 : list orec) (out : bytes) (rb : list orec) (rberr : option Z)
| KPanic.

Definition as_query (s : sx) : option query :=
  match s with
  | SL [SZ 0] => Some QAll
  | SL [SZ 1; SB k; SB v] => Some (QKey k v)
  | SL [SZ 2; SB l] => Some (QUnit l)
  | _ => None
  end.

Definition as_edit (s : sx) : option cedit :=
  match s with
  | SL [SZ 0; SB k; SB v] => Some (ESet k v)
  | SL [SZ 1; SB k; SB v] => Some (ESetFile k v)
  | SL [SZ 2; SB k] => Some (EFlip k)
  | SL [SZ 3; SB k; SB v] => Some (EValue k v)
  | _ => None
  end.

Definition as_hstep (s : sx) : option hstep :=
  match s with
  | SL [SZ 0; edits; SB name; SZ it; vals; cfgs] =>
      do edits <- as_list as_edit edits; do vals <- as_list as_val vals; do cfgs <- as_list as_cfg cfgs;
      Some (HRes edits name it vals cfgs)
  | SL [SZ 1; SB tu; SB k; SB o; SB v] => Some (HUnit tu k o v)
  | SL [SZ 2] => Some HErr
  | _ => None
  end.

Definition as_fmt := as_list (as_pair as_f64 as_b).

Definition decode (s : sx) : option case :=
  match s with
  | SL [SZ 1; orc; fmt; steps; SB out; rb; rberr] =>
      do orc <- as_oracle orc; do fmt <- as_fmt fmt; do steps <- as_list as_hstep steps;
      do rb <- as_list as_orec rb; do rberr <- as_opt as_z rberr;
      Some (KHist orc fmt steps out rb rberr)
  | SL [SZ 2; orc; fmt; fs; paths; r1; SB out; rb; rberr] =>
      do orc <- as_oracle orc; do fmt <- as_fmt fmt;
      do fs <- as_list (as_pair as_b as_b) fs; do paths <- as_list as_b paths;
      do r1 <- as_list as_orec r1; do rb <- as_list as_orec rb; do rberr <- as_opt as_z rberr;
      Some (KText orc fmt fs paths r1 out rb rberr)
  | SL [SZ 3] => Some KPanic
  | SL [SZ 4; orc; fmt; fs; paths; stdin; q; r1; SZ exit; SB out; rb; rberr] =>
      do orc <- as_oracle orc; do fmt <- as_fmt fmt;
      do fs <- as_list (as_pair as_b as_b) fs; do paths <- as_list as_b paths;
      do stdin <- as_bool stdin; do q <- as_query q;
      do r1 <- as_list as_orec r1; do rb <- as_list as_orec rb; do rberr <- as_opt as_z rberr;
      Some (KBin orc fmt fs paths stdin q r1 exit out rb rberr)
  | SL [SZ 5; orc; fmt; files; r1; SB out; rb; rberr] =>
      do orc <- as_oracle orc; do fmt <- as_fmt fmt;
      do files <- as_list (as_triple as_b (as_list (as_pair as_b as_b)) as_b) files;
      do r1 <- as_list as_orec r1; do rb <- as_list as_orec rb; do rberr <- as_opt as_z rberr;
      Some (KReset orc fmt files r1 out rb rberr)
  | _ => None
  end.

Definition fmt_of (t : fmt_table) (x : b64) : bytes :=
  match find (fun e => b64_same (fst e) x) t with Some e => snd e | None => [] end.

Definition mk_value (o : b64 * bytes * b64 * bytes) : value :=
  let '(a, u, c, ou) := o in mkValue a u c ou.

Definition out_name : bytes := bs "out".

Section Run.
Variable orc : oracle.
Variable fmt : fmt_table.
Notation rf := (read_file go_is_space go_is_lower go_is_upper (orc_atoi orc) (orc_pf orc)).

(** the model's run of a history: edits on the slots, writer on the results *)
Fixpoint run_hist (st : cstate) (w : wstate) (steps : list hstep) : bool * list wline :=
  match steps with
  | [] => (true, [])
  | HRes edits name it vals cfgobs :: steps' =>
      let st' := fold_left apply_edit edits st in
      let r := mkResult (live st') name it (map mk_value vals) [] 0 in
      let '(ls, w') := write_rec w (RRes r) in
      let '(ok, ls') := run_hist st' w' steps' in
      (cfg_list_eqb (live st') cfgobs && ok, ls ++ ls')
  | HUnit tu k o v :: steps' =>
      let '(ls, w') := write_rec w (RUnit (mkUmetap (mkUmeta tu k o v) [] 0)) in
      let '(ok, ls') := run_hist st w' steps' in (ok, ls ++ ls')
  | HErr :: steps' => run_hist st w steps'
  end.

(** the contract of the API edits, checked on the observed configurations *)
Fixpoint edits_ok (m : cmap) (steps : list hstep) : bool :=
  match steps with
  | [] => true
  | HRes edits _ _ _ cfgobs :: steps' =>
      let m' := fold_left apply_edit_map edits m in
      cfg_equivb cfgobs m' && edits_ok m' steps'
  | _ :: steps' => edits_ok m steps'
  end.

(** what reading the written stream must give *)
Fixpoint expect_hist (seen : list (bytes * bytes * bytes)) (steps : list hstep) : list ob :=
  match steps with
  | [] => []
  | HRes _ name it vals cfgobs :: steps' =>
      ObRes name it (map owritten vals) (filter c_file cfgobs) :: expect_hist seen steps'
  | HUnit _ k o v :: steps' =>
      let tu := spec_unit go_is_space o in
      match find (fun e => beq (fst (fst e)) tu && beq (snd (fst e)) k) seen with
      | Some e => if beq (snd e) v then expect_hist seen steps'
                  else ObErr 8 :: expect_hist seen steps'
      | None => ObUnit tu k o v :: expect_hist ((tu, k, v) :: seen) steps'
      end
  | HErr :: steps' => expect_hist seen steps'
  end.

Definition read_model (b : bytes) : list record * option Z :=
  let '(rs, e, _) := rf rs_empty out_name [] b in (rs, e).

Definition reader_agrees (out : bytes) (rb : list orec) (rberr : option Z) : bool :=
  let '(rs, e) := read_model out in
  orc_complete orc out && list_eqb2 (rec_eqb cfg_list_eqb) rs rb && err_eqb e rberr.

Definition model_bytes_agree (bm : bytes) (rb : list orec) : bool :=
  let '(rs, e) := read_model bm in
  orc_complete orc bm && obs_eqb (map ob_of_record rs) (map ob_of_orec rb).

(** one reader reused through Reset over successive inputs (name, labels, content) *)
Fixpoint reset_run (st : rstate) (files : list (bytes * list (bytes * bytes) * bytes)) : list record :=
  match files with
  | [] => []
  | (n, labels, c) :: files' =>
      let '(rs, _, st1) := rf st n labels c in rs ++ reset_run st1 files'
  end.
End Run.

(** ** the filter of cmd/benchfilter for the three query shapes.
    Model side: on the model's results (the [.unit] clause is Units.unit_filter_apply). *)
Definition keep_res (q : query) (r : result) : option result :=
  match q with
  | QAll => Some r
  | QKey k v => if beq (extract_config (r_cfg r) k) v then Some r else None
  | QUnit lit =>
      let '(k, any) := unit_filter_apply (beq lit) (r_vals r) in
      if any then Some (mkResult (r_cfg r) (r_name r) (r_iters r) k (r_file r) (r_line r)) else None
  end.

(** Specification side, on the observed records of the input: syntax errors
    are dropped, unit metadata passes, a result passes a key filter iff its
    configuration maps the key to the value (absent = empty), and a [.unit]
    filter keeps exactly the measurements whose base unit or written unit is the
    literal; a result with no measurement left is dropped. *)
Definition oval_named (lit : bytes) (o : b64 * bytes * b64 * bytes) : bool :=
  let '(_, u, _, ou) := o in beq lit u || (negb (is_nil ou) && beq lit ou).

Definition keep_orec (q : query) (o : orec) : list orec :=
  match o with
  | OErr _ _ _ => []
  | OUnit _ _ _ _ _ _ => [o]
  | ORes f l name it vals cfgs =>
      match q with
      | QAll => [o]
      | QKey k v => if beq (extract_config cfgs k) v then [o] else []
      | QUnit lit => match filter (oval_named lit) vals with
                     | [] => []
                     | vs => [ORes f l name it vs cfgs]
                     end
      end
  end.

(* the implicit stdin input of Files{AllowStdin} with no paths: Model/Files.v [files_run_stdin] (label "-" since
   fix 14f982c; the code before it said "-#0", which this file used to copy - see C02_stdin_label_old_refuted) *)

Definition is_err (o : orec) : bool := match o with OErr _ _ _ => true | _ => false end.

Definition corr_ok (c : case) : bool :=
  match c with
  | KPanic => false
  | KHist orc fmt steps out rb rberr =>
      let '(ok, ls) := run_hist cs_empty w_init steps in
      ok && reader_agrees orc out rb rberr && model_bytes_agree orc (emit_lines (fmt_of fmt) ls) rb
  | KText orc fmt fs paths r1 out rb rberr =>
      let '(rs, e, _) := files_run go_is_space go_is_lower go_is_upper (orc_atoi orc) (orc_pf orc) fs true paths in
      forallb (fun pc => orc_complete orc (snd pc)) fs
      && list_eqb2 (rec_eqb cfg_list_eqb) rs r1
      && reader_agrees orc out rb rberr
      && model_bytes_agree orc (benchfilter_loop (fmt_of fmt) Some rs) rb
  | KBin orc fmt fs paths stdin q r1 exit out rb rberr =>
      let rs :=
        if stdin then
          match fs with
          | (_, content) :: _ =>
              fst (fst (files_run_stdin go_is_space go_is_lower go_is_upper (orc_atoi orc) (orc_pf orc)
                          [] true [] content))
          | [] => []
          end
        else fst (fst (files_run go_is_space go_is_lower go_is_upper (orc_atoi orc) (orc_pf orc) fs true paths)) in
      forallb (fun pc => orc_complete orc (snd pc)) fs
      && list_eqb2 (rec_eqb cfg_list_eqb) rs r1
      && reader_agrees orc out rb rberr
      && model_bytes_agree orc (benchfilter_loop (fmt_of fmt) (keep_res q) rs) rb
  | KReset orc fmt files r1 out rb rberr =>
      let rs := reset_run orc rs_empty files in
      forallb (fun f => orc_complete orc (snd f)) files
      && list_eqb2 (rec_eqb cfg_list_eqb) rs r1
      && reader_agrees orc out rb rberr
      && model_bytes_agree orc (benchfilter_loop (fmt_of fmt) Some rs) rb
  end.

Definition prop_ok (c : case) : bool :=
  match c with
  | KPanic => false
  | KHist orc fmt steps out rb rberr =>
      edits_ok [] steps
      && match rberr with None => true | Some _ => false end
      && obs_eqb (expect_hist [] steps) (map ob_of_orec rb)
  | KText orc fmt fs paths r1 out rb rberr =>
      match rberr with None => true | Some _ => false end
      && obs_eqb (map ob_of_orec (filter (fun o => negb (is_err o)) r1)) (map ob_of_orec rb)
  | KBin orc fmt fs paths stdin q r1 exit out rb rberr =>
      (* the command succeeds and its output reads back as exactly the filtered stream *)
      Z.eqb exit 0
      && match rberr with None => true | Some _ => false end
      && obs_eqb (map ob_of_orec (flat_map (keep_orec q) r1)) (map ob_of_orec rb)
  | KReset orc fmt files r1 out rb rberr =>
      match rberr with None => true | Some _ => false end
      && obs_eqb (map ob_of_orec (filter (fun o => negb (is_err o)) r1)) (map ob_of_orec rb)
  end.

Definition run_case (s : sx) : N :=
  match decode s with
  | Some c => code_of (corr_ok c) (prop_ok c)
  | None => code_undecodable
  end.
