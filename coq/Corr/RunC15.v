(** Evaluator for C15: the byte-identity and race observations are made by the
    harness on the real binary; the permutation clause compares the cell maps of
    two runs here. The structural model (Builder / ToTables) is tied to the code
    by Corr/RunC14.v; the theorems are in Properties/C15.v. *)
From Perf Require Import Base.Bytes Base.Sx Base.B64 Base.SxF.

Record cellobs := mkCO {
  co_key : bytes; co_sample : list b64; co_centre : b64; co_lo : b64; co_hi : b64;
  co_cmp : option (b64 * N * N * list b64); co_warn : list bytes
}.
Record case := mkCase {
  k_identical : bool; k_race_ok : bool; k_a : list cellobs; k_b : list cellobs; k_runs : N
}.

Definition as_cellobs (s : sx) : option cellobs :=
  match s with
  | SL [k; smp; ce; lo; hi; cmp; w] =>
      do k <- as_b k; do smp <- as_list as_f64 smp; do ce <- as_f64 ce; do lo <- as_f64 lo; do hi <- as_f64 hi;
      do cmp <- (match cmp with
                 | SL [] => Some None
                 | SL [p; n1; n2; bs] => do p <- as_f64 p; do n1 <- as_N n1; do n2 <- as_N n2; do bs <- as_list as_f64 bs; Some (Some (p, n1, n2, bs))
                 | _ => None end);
      do w <- as_list as_b w;
      Some (mkCO k smp ce lo hi cmp w)
  | _ => None
  end.
Definition decode (s : sx) : option case :=
  match s with
  | SL [i; r; a; b; n] =>
      do i <- as_bool i; do r <- as_bool r; do a <- as_list as_cellobs a; do b <- as_list as_cellobs b; do n <- as_N n;
      Some (mkCase i r a b n)
  | _ => None
  end.

Definition fl_same := list_eqb b64_same.
Definition cell_same (x y : cellobs) : bool :=
  beq (co_key x) (co_key y) && fl_same (co_sample x) (co_sample y)
  && b64_same (co_centre x) (co_centre y) && b64_same (co_lo x) (co_lo y) && b64_same (co_hi x) (co_hi y)
  (* the comparison is against the first column in first-observation order, which
     permuting lines may legitimately change when columns are keyed by sub-name
     keys: compare it only when both runs compare against the same baseline sample *)
  && (match co_cmp x, co_cmp y with
      | Some (p, a, b, s), Some (p', a', b', s') =>
          if fl_same s s' then b64_same p p' && (a =? a')%N && (b =? b')%N else true
      | _, _ => true end)
  && list_eqb beq (co_warn x) (co_warn y).

(* both lists arrive sorted by key; labels are unique per cell *)
Fixpoint all2 (a b : list cellobs) : bool :=
  match a, b with
  | [], [] => true
  | x :: a', y :: b' => cell_same x y && all2 a' b'
  | _, _ => false
  end.

Definition prop_ok (c : case) : bool := k_identical c && k_race_ok c && all2 (k_a c) (k_b c).

Definition run_case (s : sx) : N :=
  match decode s with
  | Some c => code_of (prop_ok c) (prop_ok c)
  | None => code_undecodable
  end.
