(** Evaluator for C15: the byte-identity and race observations are made by the
    harness on the real binary; the permutation clause compares the cell maps of
    two runs here. The structural model (Builder / ToTables) is tied to the code
    by Corr/RunC14.v; the theorems are in Properties/C15.v.

    A second case kind (tag 7, "vary-warnings"): the projected measurements of a
    run (table / row / column / residue ids as in C14), the in-process tables
    (ids, key values, abstract table of Model/Render.v) and what the real binary
    printed in its first run (text, csv rows, csv warning stream), plus the
    harness' verdict on byte-identity of all repeated runs.  The warning
    "benchmarks vary in ..." of every cell is DERIVED here from the residue keys
    of the cell's own measurements and put into the abstract tables; the
    observed text (footnote marks and footnote list) and csv warnings must be
    what the rendering model (Render / RenderRun, tied to the code by C16) gives
    for those tables.

    A third case kind (tag 8, "nan-inf"): measurements that are NaN, +Inf or
    -Inf in samples of at most 32 values; several variants of one input in which
    the lines of every benchmark are permuted (special values first / in the
    middle / last). Per variant and cell: the measurements in order of arrival
    (recorded by the harness before Builder.Add) and the cell as benchtab built
    it. Specification: every cell's sample is the NaN-first ascending
    arrangement of its own measurements ([is_sample_of], Model/SampleSort.v),
    all variants have the same cells with identical contents, and the binary's
    text and csv bytes are the same for all variants and GOMAXPROCS settings.
    Model: [sort_go] (sort.Float64s: NaN sorts first).

    A fourth case kind (tag 9, "perm"; harness/cmd/gen/c15perm.go): one input
    run as given (A) and with the benchmark lines of every configuration block
    permuted (B).  Per run: the requested order of every field of the table /
    row / column projection, the stream of projected measurements in input
    order, the tables with their rows and columns in output order, every cell.
    Specification (Model/ArrangeSpec.v, declarative):
    - the arrangement of tables, rows and columns of A and of B is the one the
      stream and the requested orders determine ([arrangement_spec_ok]);
    - the cells are those of the stream, and a cell is compared with exactly the
      cell of its row in the first column of its table ([base_col]);
    - A and B have the same cells and EVERY field of every cell is the same,
      the comparison included (P, N1, N2, alpha, the baseline sample, and
      whether there is a comparison at all); so is every cell of the summary
      row (the geomean of a column, bit for bit; its ratio to the first column
      and its warnings).  The geomean clause follows the REPAIRED code
      (hooks/fix_c15_geomean_row_order.diff: the values are sorted before the
      order-sensitive running mean): unchanged, a permutation that reorders
      the rows changes the last digits of the geomean printed by -format csv.
    The last clause fails on unchanged golang/perf when the permutation changes
    which column is observed first in a table whose column key has no explicit
    order (documented behaviour; known finding C15_perm_changes_baseline).
    [known_ok_p] is the same predicate with the comparison of the cells of
    exactly those tables whose first column (by the specification) differs
    between A and B left open; everything else - samples, summaries, warnings,
    the arrangement, which baseline each run uses - is still demanded.
    Model: [arrangement_model] (order maps + Model/Sort.v's [val_less]).

    A fifth case kind (tag 10, "big-table"; harness/cmd/gen/c15big.go): one
    input whose tables have >= 1024 rows, run through the real binary at
    GOMAXPROCS 1, 2, 4, 16 in -format csv (the geomean row at full precision)
    and text, repeatedly, and through the -race build.  The case carries the
    standard output and standard error of EVERY run; the comparison is made
    here: all runs of one format print the same bytes (the csv warning stream
    too), no run reports a data race, every GOMAXPROCS setting occurs among
    the csv runs.  Model: the csv records and warnings are the rendering
    (Model/Render.v, through Corr/RunC16.v) of the tables built in process.

    Cells of 256..600 measurements arriving unsorted (c15big.go, "big-sample")
    use the third case kind: variants = the input as given, the same input
    again, its lines reversed, shuffled; p-values compared bit for bit.

    Repeated runs: every kind demands a minimum number of runs compared byte
    for byte ([min_runs]; 2 for the in-process sequence: the stand-alone run and
    the run inside the sequence). *)
From Perf Require Import Base.Bytes Base.Sx Base.B64 Base.SxF Model.BenchTab Model.Render Model.RenderRun Model.SampleSort Model.ArrangeSpec.
From Perf Require Corr.RunC14 Corr.RunC16.

Record cellobs := mkCO {
  co_key : bytes; co_sample : list b64; co_centre : b64; co_lo : b64; co_hi : b64;
  co_cmp : option (b64 * N * N * list b64); co_warn : list bytes
}.
Record case := mkCase {
  k_identical : bool; k_race_ok : bool; k_a : list cellobs; k_b : list cellobs; k_runs : N
}.

Definition as_cellobs (s : sx) : option cellobs :=
  match s with
  | SL [k; smp; ce; lo; hi; cmp; w] =>
      do k <- as_b k; do smp <- as_list as_f64 smp; do ce <- as_f64 ce; do lo <- as_f64 lo; do hi <- as_f64 hi;
      do cmp <- (match cmp with
                 | SL [] => Some None
                 | SL [p; n1; n2; bs] => do p <- as_f64 p; do n1 <- as_N n1; do n2 <- as_N n2; do bs <- as_list as_f64 bs; Some (Some (p, n1, n2, bs))
                 | _ => None end);
      do w <- as_list as_b w;
      Some (mkCO k smp ce lo hi cmp w)
  | _ => None
  end.
Definition decode (s : sx) : option case :=
  match s with
  | SL [i; r; a; b; n] =>
      do i <- as_bool i; do r <- as_bool r; do a <- as_list as_cellobs a; do b <- as_list as_cellobs b; do n <- as_N n;
      Some (mkCase i r a b n)
  | _ => None
  end.

Definition fl_same := list_eqb b64_same.
Definition cell_same (x y : cellobs) : bool :=
  beq (co_key x) (co_key y) && fl_same (co_sample x) (co_sample y)
  && b64_same (co_centre x) (co_centre y) && b64_same (co_lo x) (co_lo y) && b64_same (co_hi x) (co_hi y)
  (* "never the content of any cell": the comparison too - same baseline sample,
     same P, N1, N2, and a comparison in both runs or in neither *)
  && (match co_cmp x, co_cmp y with
      | Some (p, a, b, s), Some (p', a', b', s') =>
          fl_same s s' && b64_same p p' && (a =? a')%N && (b =? b')%N
      | None, None => true
      | _, _ => false end)
  && list_eqb beq (co_warn x) (co_warn y).

(* both lists arrive sorted by key; labels are unique per cell *)
Fixpoint all2 (a b : list cellobs) : bool :=
  match a, b with
  | [], [] => true
  | x :: a', y :: b' => cell_same x y && all2 a' b'
  | _, _ => false
  end.

(** repeated runs: at least this many runs of the binary were compared byte for byte *)
Definition min_runs : N := 8.
Definition min_runs_inproc : N := 2.
(* this shape is only emitted for the in-process sequence (no cells) *)
Definition prop_ok (c : case) : bool :=
  k_identical c && k_race_ok c && all2 (k_a c) (k_b c) && (min_runs_inproc <=? k_runs c)%N.

(** * vary-warnings *)
Record wtab := mkWT { wt_id : N; wt_rows : list N; wt_cols : list N; wt_key : list bytes; wt_abs : rtable }.
Record wcase := mkWC {
  w_identical : bool; w_race_ok : bool; w_runs : N;
  w_meas : list meas; w_resvals : list (N * list bytes); w_fields : list bytes;
  w_keyfields : list bytes; w_tabs : list wtab;
  w_text : bytes; w_recs : list (list bytes); w_warn : bytes }.

Definition as_wtab (s : sx) : option wtab :=
  match s with
  | SL [t; rows; cols; key; abs] =>
      do t <- as_N t; do rows <- as_list as_N rows; do cols <- as_list as_N cols;
      do key <- as_list as_b key; do abs <- RunC16.as_rtable abs;
      Some (mkWT t rows cols key abs)
  | _ => None
  end.
Definition decode_w (s : sx) : option wcase :=
  match s with
  | SL [SZ 7; i; r; n; ms; rv; fl; kf; tabs; SB text; recs; SB warn] =>
      do i <- as_bool i; do r <- as_bool r; do n <- as_N n;
      do ms <- as_list RunC14.as_meas ms;
      do rv <- as_list (as_pair as_N (as_list as_b)) rv; do fl <- as_list as_b fl;
      do kf <- as_list as_b kf; do tabs <- as_list as_wtab tabs;
      do recs <- as_list (as_list as_b) recs;
      Some (mkWC i r n ms rv fl kf tabs text recs warn)
  | _ => None
  end.

Definition vary_prefix : bytes := bs "benchmarks vary in ".
Definition is_vary (w : bytes) : bool := has_prefix w vary_prefix.
Fixpoint join_cs (l : list bytes) : bytes :=
  match l with [] => [] | [x] => x | x :: r => x ++ bs ", " ++ join_cs r end.

Section Vary.
  Variable c : wcase.
  (** summarizeCell's warning for a set of residue keys *)
  Definition vary_of (res : list N) : list bytes :=
    match map (fun i => nth i (w_fields c) [])
              (nonsingular (RunC14.lookup_resvals (w_resvals c)) (length (w_fields c)) res) with
    | [] => []
    | names => [vary_prefix ++ join_cs names]
    end.
  (** the model: the residue set Builder.Add collected in the cell *)
  Definition model_vary (ts : list btab) (t r cl : N) : list bytes := vary_of (lookup_res ts t r cl).
  (** the specification: the residue keys of the measurements that fall into the
      cell, straight from the measurement list *)
  Definition spec_vary (t r cl : N) : list bytes :=
    vary_of (dedup_first (map m_res (filter (m_is t r cl) (w_meas c)))).

  Definition subst_cell (vary : list bytes) (oc : option rcell) : option rcell :=
    option_map (fun x => mkRC (rc_csv x) (rc_txt x) (rc_range x)
                              (filter (fun w => negb (is_vary w)) (rc_swarn x) ++ vary)
                              (rc_mwarn x) (rc_cmp x)) oc.
  Definition subst_tab (f : N -> N -> N -> list bytes) (w : wtab) : rtable :=
    let a := wt_abs w in
    mkRT (rt_unit a) (rt_sumlabel a) (rt_nf a) (rt_cols a)
         (map (fun '(rid, (label, cells)) =>
                 (label, map (fun '(cid, oc) => subst_cell (f (wt_id w) rid cid) oc) (combine (wt_cols w) cells)))
              (combine (wt_rows w) (rt_rows a)))
         (rt_sums a).
  Definition shape_ok (w : wtab) : bool :=
    Nat.eqb (length (wt_rows w)) (length (rt_rows (wt_abs w)))
    && forallb (fun rw => Nat.eqb (length (wt_cols w)) (length (snd rw))) (rt_rows (wt_abs w)).

  (** the in-process tables carry, cell by cell, the model's warning *)
  Definition cell_warn_matches (f : N -> N -> N -> list bytes) (w : wtab) : bool :=
    forallb (fun '(rid, (_, cells)) =>
               forallb (fun '(cid, oc) =>
                          match oc with
                          | Some x => list_eqb beq (filter is_vary (rc_swarn x)) (f (wt_id w) rid cid)
                          | None => true
                          end) (combine (wt_cols w) cells))
            (combine (wt_rows w) (rt_rows (wt_abs w))).

  (** what the binary printed is the rendering of the tables whose cells carry [f]'s warnings *)
  Definition rendering_matches (f : N -> N -> N -> list bytes) : bool :=
    RunC16.corr_ok (RunC16.KRun (w_keyfields c) (map (fun w => (wt_key w, subst_tab f w)) (w_tabs c))
                                (w_text c) (w_recs c) (w_warn c)).

  Definition corr_ok_w : bool :=
    let ts := build (w_meas c) in
    forallb shape_ok (w_tabs c) && forallb (cell_warn_matches (model_vary ts)) (w_tabs c).
  Definition prop_ok_w : bool :=
    w_identical c && w_race_ok c && (min_runs <=? w_runs c)%N && forallb shape_ok (w_tabs c) && rendering_matches spec_vary.
End Vary.

(** * NaN / Inf measurements, permuted lines *)
Record ncell := mkNC { nc_vals : list b64; nc_obs : cellobs }.
Record ncase := mkNCase { n_identical : bool; n_race_ok : bool; n_runs : N; n_vars : list (list ncell) }.

Definition as_ncell (s : sx) : option ncell :=
  match s with
  | SL [vs; obs] => do vs <- as_list as_f64 vs; do obs <- as_cellobs obs; Some (mkNC vs obs)
  | _ => None
  end.
Definition decode_n (s : sx) : option ncase :=
  match s with
  | SL [SZ 8; i; r; n; vars] =>
      do i <- as_bool i; do r <- as_bool r; do n <- as_N n;
      do vars <- as_list (as_list as_ncell) vars;
      Some (mkNCase i r n vars)
  | _ => None
  end.

(** the property's clause for one cell: the sample is its measurements, NaN first, then ascending *)
Definition ncell_spec_ok (c : ncell) : bool := is_sample_of (nc_vals c) (co_sample (nc_obs c)).
(** the model: sort.Float64s *)
Definition ncell_model_ok (c : ncell) : bool := fl_same (co_sample (nc_obs c)) (sort_go (nc_vals c)).

(** two variants: the same cells (lists sorted by key), the same contents, the same measurements *)
Fixpoint all2n (a b : list ncell) : bool :=
  match a, b with
  | [], [] => true
  | x :: a', y :: b' =>
      cell_same (nc_obs x) (nc_obs y) && same_multiset (nc_vals x) (nc_vals y) && all2n a' b'
  | _, _ => false
  end.

Definition prop_ok_n (c : ncase) : bool :=
  n_identical c && n_race_ok c && (min_runs <=? n_runs c)%N
  && match n_vars c with
     | [] => false
     | v0 :: rest =>
         forallb (forallb ncell_spec_ok) (n_vars c) && forallb (all2n v0) rest
     end.
Definition corr_ok_n (c : ncase) : bool := forallb (forallb ncell_model_ok) (n_vars c).


(** * permuted lines: arrangement and cells (kind 9) *)
Record pcell := mkPC {
  pc_t : key; pc_r : key; pc_c : key; pc_sample : list b64; pc_centre : b64; pc_lo : b64; pc_hi : b64;
  pc_cmp : option (b64 * N * N * b64 * list b64);      (* P, N1, N2, alpha, baseline sample *)
  pc_warn : list bytes }.
(** a cell of the summary row ("geomean") *)
Record psum := mkPS {
  ps_t : key; ps_c : key; ps_has : bool; ps_val : b64; ps_has_ratio : bool; ps_ratio : b64; ps_warn : list bytes }.
Record prun := mkPR {
  pr_st : bool; pr_sr : bool; pr_sc : bool;             (* per dimension: all fields exist from the first result on *)
  pr_ft : list ford; pr_fr : list ford; pr_fc : list ford;
  pr_stream : list entry; pr_tabs : list otable; pr_cells : list pcell; pr_sums : list psum }.
Record pcase := mkPCase {
  p_identical : bool; p_race_ok : bool; p_runs : N; p_race_runs : N; p_a : prun; p_b : prun }.

Definition as_key := as_list as_b.
Definition as_ford (s : sx) : option ford :=
  match s with
  | SL [_; k; fixed; num] =>
      do k <- as_N k; do fixed <- as_list as_b fixed; do num <- as_list (as_pair as_b (as_opt as_f64)) num;
      match k with
      | 0%N => Some FFirst
      | 1%N => Some FAlpha
      | 2%N => Some (FFixed fixed)
      | 3%N => Some (FNum num)
      | _ => None
      end
  | _ => None
  end.
Definition as_pcell (s : sx) : option pcell :=
  match s with
  | SL [t; r; c; smp; ce; lo; hi; cmp; w] =>
      do t <- as_key t; do r <- as_key r; do c <- as_key c;
      do smp <- as_list as_f64 smp; do ce <- as_f64 ce; do lo <- as_f64 lo; do hi <- as_f64 hi;
      do cmp <- (match cmp with
                 | SL [] => Some None
                 | SL [p; n1; n2; a; bs] =>
                     do p <- as_f64 p; do n1 <- as_N n1; do n2 <- as_N n2; do a <- as_f64 a; do bs <- as_list as_f64 bs;
                     Some (Some (p, n1, n2, a, bs))
                 | _ => None end);
      do w <- as_list as_b w;
      Some (mkPC t r c smp ce lo hi cmp w)
  | _ => None
  end.
Definition as_psum (s : sx) : option psum :=
  match s with
  | SL [t; c; h; v; hr; r; w] =>
      do t <- as_key t; do c <- as_key c; do h <- as_bool h; do v <- as_f64 v;
      do hr <- as_bool hr; do r <- as_f64 r; do w <- as_list as_b w;
      Some (mkPS t c h v hr r w)
  | _ => None
  end.
Definition as_prun (s : sx) : option prun :=
  match s with
  | SL [SL [st; sr; sc]; SL [ft; fr; fc]; stream; tabs; cells; sums] =>
      do st <- as_bool st; do sr <- as_bool sr; do sc <- as_bool sc;
      do ft <- as_list as_ford ft; do fr <- as_list as_ford fr; do fc <- as_list as_ford fc;
      do stream <- as_list (as_triple as_key as_key as_key) stream;
      do tabs <- as_list (as_triple as_key (as_list as_key) (as_list as_key)) tabs;
      do cells <- as_list as_pcell cells; do sums <- as_list as_psum sums;
      Some (mkPR st sr sc ft fr fc stream tabs cells sums)
  | _ => None
  end.
Definition decode_p (s : sx) : option pcase :=
  match s with
  | SL [SZ 9; i; r; n; nr; a; b] =>
      do i <- as_bool i; do r <- as_bool r; do n <- as_N n; do nr <- as_N nr;
      do a <- as_prun a; do b <- as_prun b;
      Some (mkPCase i r n nr a b)
  | _ => None
  end.

Definition otab_eqb (x y : otable) : bool :=
  let '(t, rows, cols) := x in let '(t', rows', cols') := y in
  key_eqb t t' && list_eqb key_eqb rows rows' && list_eqb key_eqb cols cols'.

Section Perm.
  (** the arrangement of one run, judged per dimension whose fields are static
      (sub-fields of .config that appear only later in the input are the one
      thing the stream of final key values does not determine; the harness says
      so per dimension from the keys: a .config sub-field with an empty value) *)
  Definition arr_ok (arr : list ford -> list key -> list key -> list key -> bool) (r : prun) : bool :=
    let s := pr_stream r in
    (if pr_st r then arr (pr_ft r) (map e_t s) (map e_t s) (map (fun o => fst (fst o)) (pr_tabs r)) else true)
    && forallb (fun o => let '(t, rows, cols) := o in
                  (if pr_sr r then arr (pr_fr r) (map e_r s) (map e_r (in_table t s)) rows else true)
                  && (if pr_sc r then arr (pr_fc r) (map e_c s) (map e_c (in_table t s)) cols else true))
               (pr_tabs r).
  Definition arr_spec_ok : prun -> bool := arr_ok arranged.
  Definition arr_model_ok : prun -> bool :=
    arr_ok (fun fs ks members out => list_eqb key_eqb (model_arrange fs ks members) out).

  (** the first column of a table: by the specification where the column fields
      are static, else the one printed *)
  Definition fcol (r : prun) (t : key) : option key :=
    if pr_sc r then first_col (pr_fc r) (pr_stream r) t
    else match find (fun o => key_eqb (fst (fst o)) t) (pr_tabs r) with
         | Some (_, _, c :: _) => Some c
         | _ => None
         end.
  Definition opt_key_eqb (a b : option key) : bool :=
    match a, b with Some x, Some y => key_eqb x y | None, None => true | _, _ => false end.

  Definition find_cell (r : prun) (t rw c : key) : option pcell :=
    find (fun x => key_eqb (pc_t x) t && key_eqb (pc_r x) rw && key_eqb (pc_c x) c) (pr_cells r).

  (** the cells are those of the stream; every printed table/row/column holds a
      measurement; each cell is compared with the cell the specification names *)
  Definition cells_ok (r : prun) : bool :=
    forallb (fun x => has_cell (pr_stream r) (pc_t x) (pc_r x) (pc_c x)) (pr_cells r)
    && forallb (fun e => match find_cell r (e_t e) (e_r e) (e_c e) with Some _ => true | None => false end) (pr_stream r)
    && forallb (fun x =>
         let want := match fcol r (pc_t x) with
                     | Some b => if key_eqb b (pc_c x) then None
                                 else option_map pc_sample (find_cell r (pc_t x) (pc_r x) b)
                     | None => None
                     end in
         match want, pc_cmp x with
         | None, None => true
         | Some bs, Some (_, _, _, _, bs') => fl_same bs bs'
         | _, _ => false
         end) (pr_cells r).

  Definition cmp_same (x y : pcell) : bool :=
    match pc_cmp x, pc_cmp y with
    | Some (p, a, b, al, s), Some (p', a', b', al', s') =>
        fl_same s s' && b64_same p p' && (a =? a')%N && (b =? b')%N && b64_same al al'
    | None, None => true
    | _, _ => false
    end.
  (** [relax]: the recorded deviation - the comparison of the cells of a table
      whose first column differs between the two runs is left open *)
  Definition pcell_same (relax : bool) (a b : prun) (x y : pcell) : bool :=
    key_eqb (pc_t x) (pc_t y) && key_eqb (pc_r x) (pc_r y) && key_eqb (pc_c x) (pc_c y)
    && fl_same (pc_sample x) (pc_sample y)
    && b64_same (pc_centre x) (pc_centre y) && b64_same (pc_lo x) (pc_lo y) && b64_same (pc_hi x) (pc_hi y)
    && list_eqb beq (pc_warn x) (pc_warn y)
    && (cmp_same x y || (relax && negb (opt_key_eqb (fcol a (pc_t x)) (fcol b (pc_t x))))).
  (** the summary row: the geomean of a column is a cell too; its ratio to the
      first column and the warnings about the baseline are comparison fields *)
  Definition is_sumwarn (w : bytes) : bool := has_prefix w (bs "summaries must be").
  Definition psum_same (relax : bool) (a b : prun) (x y : psum) : bool :=
    key_eqb (ps_t x) (ps_t y) && key_eqb (ps_c x) (ps_c y)
    && Bool.eqb (ps_has x) (ps_has y) && (if ps_has x then b64_same (ps_val x) (ps_val y) else true)
    && list_eqb beq (filter is_sumwarn (ps_warn x)) (filter is_sumwarn (ps_warn y))
    && ((Bool.eqb (ps_has_ratio x) (ps_has_ratio y)
         && (if ps_has_ratio x then b64_same (ps_ratio x) (ps_ratio y) else true)
         && list_eqb beq (ps_warn x) (ps_warn y))
        || (relax && negb (opt_key_eqb (fcol a (ps_t x)) (fcol b (ps_t x))))).
  Fixpoint all2s (f : psum -> psum -> bool) (a b : list psum) : bool :=
    match a, b with
    | [], [] => true
    | x :: a', y :: b' => f x y && all2s f a' b'
    | _, _ => false
    end.
  Fixpoint all2p (f : pcell -> pcell -> bool) (a b : list pcell) : bool :=
    match a, b with
    | [], [] => true
    | x :: a', y :: b' => f x y && all2p f a' b'
    | _, _ => false
    end.

  Definition judge_p (relax : bool) (c : pcase) : bool :=
    p_identical c && p_race_ok c && (min_runs <=? p_runs c)%N
    && arr_spec_ok (p_a c) && arr_spec_ok (p_b c)
    && cells_ok (p_a c) && cells_ok (p_b c)
    && all2p (pcell_same relax (p_a c) (p_b c)) (pr_cells (p_a c)) (pr_cells (p_b c))
    && all2s (psum_same relax (p_a c) (p_b c)) (pr_sums (p_a c)) (pr_sums (p_b c)).
  Definition prop_ok_p : pcase -> bool := judge_p false.
  Definition known_ok_p : pcase -> bool := judge_p true.
  Definition corr_ok_p (c : pcase) : bool := arr_model_ok (p_a c) && arr_model_ok (p_b c).
End Perm.

(** * big tables: every run's bytes, compared here (kind 10) *)
Record grun := mkGR { gr_procs : N; gr_csv : bool; gr_race : bool; gr_out : bytes; gr_err : bytes }.
Record gcase := mkGC {
  g_rows : N; g_fields : list bytes; g_tabs : list (list bytes * rtable);
  g_recs : list (list bytes); g_runs : list grun }.

Definition as_grun (s : sx) : option grun :=
  match s with
  | SL [p; c; r; SB out; SB err] =>
      do p <- as_N p; do c <- as_bool c; do r <- as_bool r; Some (mkGR p c r out err)
  | _ => None
  end.
Definition decode_g (s : sx) : option gcase :=
  match s with
  | SL [SZ 10; rows; kf; tabs; recs; runs] =>
      do rows <- as_N rows; do kf <- as_list as_b kf;
      do tabs <- as_list (as_pair (as_list as_b) RunC16.as_rtable) tabs;
      do recs <- as_list (as_list as_b) recs; do runs <- as_list as_grun runs;
      Some (mkGC rows kf tabs recs runs)
  | _ => None
  end.

Definition big_rows : N := 1024.
Definition race_report : bytes := bs "DATA RACE".
(** the reference run of a format: the first run of the plain binary in it *)
Definition ref_run (c : gcase) (csv : bool) : option grun :=
  find (fun r => Bool.eqb (gr_csv r) csv && negb (gr_race r)) (g_runs c).
Definition grun_same (c : gcase) (r : grun) : bool :=
  match ref_run c (gr_csv r) with
  | Some r0 => beq (gr_out r) (gr_out r0)
               (* the warning stream of the plain binary; the race build's standard
                  error is only searched for a report *)
               && (gr_race r || beq (gr_err r) (gr_err r0))
  | None => false
  end.
Definition plain_csv (c : gcase) : list grun := filter (fun r => gr_csv r && negb (gr_race r)) (g_runs c).
Definition prop_ok_g (c : gcase) : bool :=
  forallb (fun r => negb (contains (gr_err r) race_report)) (g_runs c)
  && forallb (grun_same c) (g_runs c)
  && (min_runs <=? N.of_nat (length (plain_csv c)))%N
  && forallb (fun p => existsb (fun r => (gr_procs r =? p)%N) (plain_csv c)) [1; 2; 4; 16]%N
  && existsb gr_race (g_runs c)
  && (big_rows <=? g_rows c)%N && (g_rows c <=? N.of_nat (length (g_recs c)))%N.
Definition corr_ok_g (c : gcase) : bool :=
  (* the csv half of the rendering model (the text layout of a table of this
     size is left to C16's own cases) *)
  match ref_run c true with
  | Some r0 => RunC16.corr_ok (RunC16.KCsvTables (Model.RenderRun.run_tabs (g_fields c) (g_tabs c)) (g_recs c) (gr_err r0))
  | None => false
  end.

Definition run_case (s : sx) : N :=
  match s with
  | SL (SZ 10 :: _) =>
      match decode_g s with
      | Some c => code_of (corr_ok_g c) (prop_ok_g c)
      | None => code_undecodable
      end
  | SL (SZ 9 :: _) =>
      match decode_p s with
      | Some c => code_of3 (corr_ok_p c) (prop_ok_p c) (known_ok_p c)
      | None => code_undecodable
      end
  | SL (SZ 8 :: _) =>
      match decode_n s with
      | Some c => code_of (corr_ok_n c) (prop_ok_n c)
      | None => code_undecodable
      end
  | SL (SZ 7 :: _) =>
      match decode_w s with
      | Some c => code_of (corr_ok_w c) (prop_ok_w c)
      | None => code_undecodable
      end
  | _ =>
      match decode s with
      | Some c => code_of (prop_ok c) (prop_ok c)
      | None => code_undecodable
      end
  end.
