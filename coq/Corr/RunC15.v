(** Evaluator for C15: the byte-identity and race observations are made by the
    harness on the real binary; the permutation clause compares the cell maps of
    two runs here. The structural model (Builder / ToTables) is tied to the code
    by Corr/RunC14.v; the theorems are in Properties/C15.v.

    A second case kind (tag 7, "vary-warnings"): the projected measurements of a
    run (table / row / column / residue ids as in C14), the in-process tables
    (ids, key values, abstract table of Model/Render.v) and what the real binary
    printed in its first run (text, csv rows, csv warning stream), plus the
    harness' verdict on byte-identity of all repeated runs.  The warning
    "benchmarks vary in ..." of every cell is DERIVED here from the residue keys
    of the cell's own measurements and put into the abstract tables; the
    observed text (footnote marks and footnote list) and csv warnings must be
    what the rendering model (Render / RenderRun, tied to the code by C16) gives
    for those tables.

    A third case kind (tag 8, "nan-inf"): measurements that are NaN, +Inf or
    -Inf in samples of at most 32 values; several variants of one input in which
    the lines of every benchmark are permuted (special values first / in the
    middle / last). Per variant and cell: the measurements in order of arrival
    (recorded by the harness before Builder.Add) and the cell as benchtab built
    it. Specification: every cell's sample is the NaN-first ascending
    arrangement of its own measurements ([is_sample_of], Model/SampleSort.v),
    all variants have the same cells with identical contents, and the binary's
    text and csv bytes are the same for all variants and GOMAXPROCS settings.
    Model: [sort_go] (sort.Float64s: NaN sorts first). *)
From Perf Require Import Base.Bytes Base.Sx Base.B64 Base.SxF Model.BenchTab Model.Render Model.SampleSort.
From Perf Require Corr.RunC14 Corr.RunC16.

Record cellobs := mkCO {
  co_key : bytes; co_sample : list b64; co_centre : b64; co_lo : b64; co_hi : b64;
  co_cmp : option (b64 * N * N * list b64); co_warn : list bytes
}.
Record case := mkCase {
  k_identical : bool; k_race_ok : bool; k_a : list cellobs; k_b : list cellobs; k_runs : N
}.

Definition as_cellobs (s : sx) : option cellobs :=
  match s with
  | SL [k; smp; ce; lo; hi; cmp; w] =>
      do k <- as_b k; do smp <- as_list as_f64 smp; do ce <- as_f64 ce; do lo <- as_f64 lo; do hi <- as_f64 hi;
      do cmp <- (match cmp with
                 | SL [] => Some None
                 | SL [p; n1; n2; bs] => do p <- as_f64 p; do n1 <- as_N n1; do n2 <- as_N n2; do bs <- as_list as_f64 bs; Some (Some (p, n1, n2, bs))
                 | _ => None end);
      do w <- as_list as_b w;
      Some (mkCO k smp ce lo hi cmp w)
  | _ => None
  end.
Definition decode (s : sx) : option case :=
  match s with
  | SL [i; r; a; b; n] =>
      do i <- as_bool i; do r <- as_bool r; do a <- as_list as_cellobs a; do b <- as_list as_cellobs b; do n <- as_N n;
      Some (mkCase i r a b n)
  | _ => None
  end.

Definition fl_same := list_eqb b64_same.
Definition cell_same (x y : cellobs) : bool :=
  beq (co_key x) (co_key y) && fl_same (co_sample x) (co_sample y)
  && b64_same (co_centre x) (co_centre y) && b64_same (co_lo x) (co_lo y) && b64_same (co_hi x) (co_hi y)
  (* the comparison is against the first column in first-observation order, which
     permuting lines may legitimately change when columns are keyed by sub-name
     keys: compare it only when both runs compare against the same baseline sample *)
  && (match co_cmp x, co_cmp y with
      | Some (p, a, b, s), Some (p', a', b', s') =>
          if fl_same s s' then b64_same p p' && (a =? a')%N && (b =? b')%N else true
      | _, _ => true end)
  && list_eqb beq (co_warn x) (co_warn y).

(* both lists arrive sorted by key; labels are unique per cell *)
Fixpoint all2 (a b : list cellobs) : bool :=
  match a, b with
  | [], [] => true
  | x :: a', y :: b' => cell_same x y && all2 a' b'
  | _, _ => false
  end.

Definition prop_ok (c : case) : bool := k_identical c && k_race_ok c && all2 (k_a c) (k_b c).

(** * vary-warnings *)
Record wtab := mkWT { wt_id : N; wt_rows : list N; wt_cols : list N; wt_key : list bytes; wt_abs : rtable }.
Record wcase := mkWC {
  w_identical : bool; w_race_ok : bool; w_runs : N;
  w_meas : list meas; w_resvals : list (N * list bytes); w_fields : list bytes;
  w_keyfields : list bytes; w_tabs : list wtab;
  w_text : bytes; w_recs : list (list bytes); w_warn : bytes }.

Definition as_wtab (s : sx) : option wtab :=
  match s with
  | SL [t; rows; cols; key; abs] =>
      do t <- as_N t; do rows <- as_list as_N rows; do cols <- as_list as_N cols;
      do key <- as_list as_b key; do abs <- RunC16.as_rtable abs;
      Some (mkWT t rows cols key abs)
  | _ => None
  end.
Definition decode_w (s : sx) : option wcase :=
  match s with
  | SL [SZ 7; i; r; n; ms; rv; fl; kf; tabs; SB text; recs; SB warn] =>
      do i <- as_bool i; do r <- as_bool r; do n <- as_N n;
      do ms <- as_list RunC14.as_meas ms;
      do rv <- as_list (as_pair as_N (as_list as_b)) rv; do fl <- as_list as_b fl;
      do kf <- as_list as_b kf; do tabs <- as_list as_wtab tabs;
      do recs <- as_list (as_list as_b) recs;
      Some (mkWC i r n ms rv fl kf tabs text recs warn)
  | _ => None
  end.

Definition vary_prefix : bytes := bs "benchmarks vary in ".
Definition is_vary (w : bytes) : bool := has_prefix w vary_prefix.
Fixpoint join_cs (l : list bytes) : bytes :=
  match l with [] => [] | [x] => x | x :: r => x ++ bs ", " ++ join_cs r end.

Section Vary.
  Variable c : wcase.
  (** summarizeCell's warning for a set of residue keys *)
  Definition vary_of (res : list N) : list bytes :=
    match map (fun i => nth i (w_fields c) [])
              (nonsingular (RunC14.lookup_resvals (w_resvals c)) (length (w_fields c)) res) with
    | [] => []
    | names => [vary_prefix ++ join_cs names]
    end.
  (** the model: the residue set Builder.Add collected in the cell *)
  Definition model_vary (ts : list btab) (t r cl : N) : list bytes := vary_of (lookup_res ts t r cl).
  (** the specification: the residue keys of the measurements that fall into the
      cell, straight from the measurement list *)
  Definition spec_vary (t r cl : N) : list bytes :=
    vary_of (dedup_first (map m_res (filter (m_is t r cl) (w_meas c)))).

  Definition subst_cell (vary : list bytes) (oc : option rcell) : option rcell :=
    option_map (fun x => mkRC (rc_csv x) (rc_txt x) (rc_range x)
                              (filter (fun w => negb (is_vary w)) (rc_swarn x) ++ vary)
                              (rc_mwarn x) (rc_cmp x)) oc.
  Definition subst_tab (f : N -> N -> N -> list bytes) (w : wtab) : rtable :=
    let a := wt_abs w in
    mkRT (rt_unit a) (rt_sumlabel a) (rt_nf a) (rt_cols a)
         (map (fun '(rid, (label, cells)) =>
                 (label, map (fun '(cid, oc) => subst_cell (f (wt_id w) rid cid) oc) (combine (wt_cols w) cells)))
              (combine (wt_rows w) (rt_rows a)))
         (rt_sums a).
  Definition shape_ok (w : wtab) : bool :=
    Nat.eqb (length (wt_rows w)) (length (rt_rows (wt_abs w)))
    && forallb (fun rw => Nat.eqb (length (wt_cols w)) (length (snd rw))) (rt_rows (wt_abs w)).

  (** the in-process tables carry, cell by cell, the model's warning *)
  Definition cell_warn_matches (f : N -> N -> N -> list bytes) (w : wtab) : bool :=
    forallb (fun '(rid, (_, cells)) =>
               forallb (fun '(cid, oc) =>
                          match oc with
                          | Some x => list_eqb beq (filter is_vary (rc_swarn x)) (f (wt_id w) rid cid)
                          | None => true
                          end) (combine (wt_cols w) cells))
            (combine (wt_rows w) (rt_rows (wt_abs w))).

  (** what the binary printed is the rendering of the tables whose cells carry [f]'s warnings *)
  Definition rendering_matches (f : N -> N -> N -> list bytes) : bool :=
    RunC16.corr_ok (RunC16.KRun (w_keyfields c) (map (fun w => (wt_key w, subst_tab f w)) (w_tabs c))
                                (w_text c) (w_recs c) (w_warn c)).

  Definition corr_ok_w : bool :=
    let ts := build (w_meas c) in
    forallb shape_ok (w_tabs c) && forallb (cell_warn_matches (model_vary ts)) (w_tabs c).
  Definition prop_ok_w : bool :=
    w_identical c && w_race_ok c && forallb shape_ok (w_tabs c) && rendering_matches spec_vary.
End Vary.

(** * NaN / Inf measurements, permuted lines *)
Record ncell := mkNC { nc_vals : list b64; nc_obs : cellobs }.
Record ncase := mkNCase { n_identical : bool; n_race_ok : bool; n_runs : N; n_vars : list (list ncell) }.

Definition as_ncell (s : sx) : option ncell :=
  match s with
  | SL [vs; obs] => do vs <- as_list as_f64 vs; do obs <- as_cellobs obs; Some (mkNC vs obs)
  | _ => None
  end.
Definition decode_n (s : sx) : option ncase :=
  match s with
  | SL [SZ 8; i; r; n; vars] =>
      do i <- as_bool i; do r <- as_bool r; do n <- as_N n;
      do vars <- as_list (as_list as_ncell) vars;
      Some (mkNCase i r n vars)
  | _ => None
  end.

(** the property's clause for one cell: the sample is its measurements, NaN first, then ascending *)
Definition ncell_spec_ok (c : ncell) : bool := is_sample_of (nc_vals c) (co_sample (nc_obs c)).
(** the model: sort.Float64s *)
Definition ncell_model_ok (c : ncell) : bool := fl_same (co_sample (nc_obs c)) (sort_go (nc_vals c)).

(** two variants: the same cells (lists sorted by key), the same contents, the same measurements *)
Fixpoint all2n (a b : list ncell) : bool :=
  match a, b with
  | [], [] => true
  | x :: a', y :: b' =>
      cell_same (nc_obs x) (nc_obs y) && same_multiset (nc_vals x) (nc_vals y) && all2n a' b'
  | _, _ => false
  end.

Definition prop_ok_n (c : ncase) : bool :=
  n_identical c && n_race_ok c
  && match n_vars c with
     | [] => false
     | v0 :: rest =>
         forallb (forallb ncell_spec_ok) (n_vars c) && forallb (all2n v0) rest
     end.
Definition corr_ok_n (c : ncase) : bool := forallb (forallb ncell_model_ok) (n_vars c).

Definition run_case (s : sx) : N :=
  match s with
  | SL (SZ 8 :: _) =>
      match decode_n s with
      | Some c => code_of (corr_ok_n c) (prop_ok_n c)
      | None => code_undecodable
      end
  | SL (SZ 7 :: _) =>
      match decode_w s with
      | Some c => code_of (corr_ok_w c) (prop_ok_w c)
      | None => code_undecodable
      end
  | _ =>
      match decode s with
      | Some c => code_of (prop_ok c) (prop_ok c)
      | None => code_undecodable
      end
  end.
