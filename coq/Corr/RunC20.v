(** Correspondence evaluator for C20. Kinds of cases:
      0  one upload request run against the in-process storage server after a
         history of earlier uploads, with one injected fault (file-store
         operation n fails / unexpected field / file without benchmark lines /
         client abort / body cut at an offset / connection drop) or none;
         observed: status, /search, /uploads, the file store (in memory, or
         the local-disk store of storage/fs/local: then every non-directory
         entry found below its root and in TMPDIR afterwards, under whatever
         name; "complete" = the store was told to keep exactly that file)
      1  IDs handed out by DB.NewUpload: sequentially, and by 16 goroutines
         concurrently on one database
      2  a history of uploads on one database under a chosen clock (tagged hook
         db.VerifSetNow): (2 steps), step = (kind day id n commit ok resid
         listing): kind 0 = NewUpload at a clock reading on UTC day [day]
         (YYYYMMDD), 1 = ReplaceUpload of the absent explicit ID [id]; n records
         inserted, then committed or aborted; observed: ok, the ID handed out,
         and the listing (id, count) of ALL uploads after the step
      3  two front ends with skewed clocks at once: (3 (dayA dayB) seeds per
         errs listing): seeds = (id n) uploads present before, per goroutine the
         (id n) obtained from NewUpload while the clock alternates between the
         two days (n = records committed, 0 = aborted), the final listing
    The part sequence of a (possibly cut) multipart body and the way it ends
    are taken from mime/multipart itself, run by the harness on the same bytes
    (library oracle); the number of body writes per file from a fault-free run
    of the same request. *)
From Perf Require Import Base.Bytes Base.Sx Model.Words Model.Query Model.StoreFmt Model.Upload Model.UploadSpec Model.Ids
     Model.IdsHist.

Definition z2n (z : Z) : N := match z with Zpos p => Npos p | _ => 0%N end.
Definition z2nat (z : Z) : nat := N.to_nat (z2n z).

Definition count_of {A} (eqb : A -> A -> bool) (x : A) (l : list A) : nat := length (filter (eqb x) l).
Definition mset_eqb {A} (eqb : A -> A -> bool) (a b : list A) : bool :=
  Nat.eqb (length a) (length b) && forallb (fun x => Nat.eqb (count_of eqb x a) (count_of eqb x b)) a.

(** ** decoding *)
Definition as_item (s : sx) : option item :=
  match s with
  | SL [SZ 0; SB name; SB body; SZ nw; cut] => do c <- as_bool cut; Some (IFile name body (z2nat nw) c)
  | SL [SZ 1] => Some ICommit
  | SL [SZ 2; SB f] => Some (IOther f)
  | _ => None
  end.

Definition as_end (s : sx) : option req_end :=
  match s with SZ 0 => Some EndClosed | SZ 1 => Some EndBroken | SZ 2 => Some EndInHeader | _ => None end.

(** a request together with the ID the server allocated for it, if known *)
Record rcase := mkR { rc_id : option bytes; rc_req : request }.

Definition as_rcase (s : sx) : option rcase :=
  match s with
  | SL [id; SB tm; SB user; items; e] =>
      do id <- as_opt as_b id; do items <- as_list as_item items; do e <- as_end e;
      Some (mkR id (mkReq items e user tm))
  | _ => None
  end.

(** a further query or listing: kind 0 a search that does not name the upload
    under test, 1 such a listing, 4 the plain listing limited to one row, 2 / 3
    the search / listing for upload:<id> of an ID the Uploads table gained *)
Definition more_t := (Z * bytes * list (bytes * bytes))%type.

Record obs := mkObs {
  ob_ok : bool; ob_id : bytes;
  ob_search : list (bytes * bytes);          (* (upload label, content line) *)
  ob_list : list (bytes * N);                (* (upload id, count), as listed *)
  ob_fs : list (bytes * bytes * bool);       (* (path, content, complete) *)
  ob_more : list more_t }.

Definition as_more (s : sx) : option more_t :=
  match s with
  | SL [SZ k; SB name; rows] => do rows <- as_list (as_pair as_b as_b) rows; Some (k, name, rows)
  | _ => None
  end.

Definition as_obs (s : sx) : option obs :=
  match s with
  | SL [ok; SB id; sr; li; fs; more] =>
      do ok <- as_bool ok; do sr <- as_list (as_pair as_b as_b) sr;
      do li <- as_list (as_pair as_b (fun s => match s with SZ z => Some (z2n z) | _ => None end)) li;
      do fs <- as_list (as_triple as_b as_b as_bool) fs;
      do more <- as_list as_more more;
      Some (mkObs ok id sr li fs more)
  | _ => None
  end.

(** an earlier upload of the history: its request, the single fault it met
    (same encoding as for the upload under test) and whether it was answered 200 *)
Record pcase := mkP { pc_r : rcase; pc_fs : Z; pc_sq : Z; pc_sp : Z; pc_ok : bool }.

Definition as_pcase (s : sx) : option pcase :=
  match s with
  | SL [r; SZ ff; SZ sq; SZ sp; ok] => do r <- as_rcase r; do ok <- as_bool ok; Some (mkP r ff sq sp ok)
  | _ => None
  end.

Record ucase := mkUc {
  uc_pre : list pcase; uc_req : rcase;
  uc_fsfault : Z;                 (* index of the failing file-store operation, -1 = none *)
  uc_sqlfault : Z;                (* failing database step: 0 none, 1 NewUpload, 2 a flush at Commit,
                                     3 the commit, 4 a flush forced while part [uc_sqlpart] is read *)
  uc_sqlpart : Z;
  uc_used0 : list bytes;          (* every ID seen in use (rows of the Uploads table, uploads/<id>/ in the
                                     file store) after any step of the history, before the request ... *)
  uc_used1 : list bytes;          (* ... and those together with what is seen after the request *)
  uc_before : obs; uc_after : obs }.

Definition decode_u (l : list sx) : option ucase :=
  match l with
  | [pre; rq; SZ ff; SZ sq; SZ sp; u0; u1; b; a] =>
      do pre <- as_list as_pcase pre; do rq <- as_rcase rq;
      do u0 <- as_list as_b u0; do u1 <- as_list as_b u1; do b <- as_obs b; do a <- as_obs a;
      Some (mkUc pre rq ff sq sp u0 u1 b a)
  | _ => None
  end.

(** ** the model run *)
Definition st0 : ustate StoreFmt.rec := mkUs [] [] [].

Definition no_fault : oracle := mkOracle false (fun _ => false) (fun _ => false) false false.
Definition fs_fault (n sq sp : Z) : oracle :=
  mkOracle (sq =? 1)%Z (fun k => if (n <? 0)%Z then false else Nat.eqb k (Z.to_nat n))
           (fun i => (sq =? 4)%Z && (i =? z2n sp)%N)
           (sq =? 2)%Z (sq =? 3)%Z.

(** the history: every earlier upload with the fault it met *)
Definition run_pre (pre : list pcase) : ustate StoreFmt.rec :=
  fold_left (fun st p => fst (run_upload_sf (rc_id (pc_r p)) (fs_fault (pc_fs p) (pc_sq p) (pc_sp p)) st
                                            (rc_req (pc_r p)))) pre st0.

Definition model_search (st : ustate StoreFmt.rec) : list (bytes * bytes) :=
  flat_map (fun ir => flat_map (fun rc => map (fun r => (fst ir, r_content r)) (rec_results rc)) (snd ir))
           (us_recs st).
Definition model_list (st : ustate StoreFmt.rec) : list (bytes * N) :=
  map (fun ic => (fst ic, N.of_nat (snd ic))) (listing _ st).

Definition pair_eqb (a b : bytes * bytes) : bool := beq (fst a) (fst b) && beq (snd a) (snd b).
Definition idn_eqb (a b : bytes * N) : bool := beq (fst a) (fst b) && (snd a =? snd b)%N.
Definition fsent_eqb (a b : bytes * bytes * bool) : bool :=
  pair_eqb (fst a) (fst b) && Bool.eqb (snd a) (snd b).

Definition state_matches (st : ustate StoreFmt.rec) (o : obs) : bool :=
  mset_eqb pair_eqb (model_search st) (ob_search o)
  && list_eqb idn_eqb (model_list st) (ob_list o)
  && mset_eqb fsent_eqb (map (fun pc => (pc, true)) (us_fs st)) (ob_fs o).

Definition corr_u (c : ucase) : bool :=
  let st := run_pre (uc_pre c) in
  let '(st', out) := run_upload_sf (rc_id (uc_req c)) (fs_fault (uc_fsfault c) (uc_sqlfault c) (uc_sqlpart c)) st (rc_req (uc_req c)) in
  state_matches st (uc_before c)
  && state_matches st' (uc_after c)
  && match out with
     | UOk id _ => ob_ok (uc_after c) && beq id (ob_id (uc_after c))
     | UErr => negb (ob_ok (uc_after c))
     end.

(** *** the specification on the observed output (declarative: Model/UploadSpec.v;
    nothing below runs the part loop of the model) *)

Definition c_dot : byte := x2e.

(** "YYYYMMDD.N" -> (day, seq) *)
Definition parse_id (s : bytes) : option uid :=
  match index_byte s c_dot with
  | Some i =>
      let d := firstn i s in let n := skipn (S i) s in
      if Nat.eqb (length d) 8 && negb (Nat.eqb (length n) 0)
         && negb (match n with c :: _ :: _ => Byte.eqb c x30 | _ => false end)
      then match digits_val d 0, digits_val n 0 with
           | Some dv, Some nv => if (nv =? 0)%N then None else Some (dv, nv)
           | _, _ => None
           end
      else None
  | None => None
  end.

Fixpoint nodup_bytes (l : list bytes) : bool :=
  match l with [] => true | x :: r => negb (existsb (beq x) r) && nodup_bytes r end.

(** the upload-time of the server's metadata header: RFC 3339 in UTC, to the
    second (YYYY-MM-DDTHH:MM:SSZ) *)
Definition time_ok (t : bytes) : bool :=
  match t with
  | [y1; y2; y3; y4; d1; m1; m2; d2; a1; a2; tsep; h1; h2; c1; n1; n2; c2; s1; s2; z] =>
      forallb is_digit [y1; y2; y3; y4; m1; m2; a1; a2; h1; h2; n1; n2; s1; s2]
      && Byte.eqb d1 x2d && Byte.eqb d2 x2d && Byte.eqb tsep x54 && Byte.eqb c1 x3a && Byte.eqb c2 x3a
      && Byte.eqb z x5a
  | _ => false
  end.

(** the content of a part is in order: it arrived completely and has a benchmark line *)
Definition item_good (id user tm : bytes) (i : N) (it : item) : bool :=
  match it with
  | IFile name body _ cut =>
      negb cut && match read_with (part_meta id i name user tm) body with [] => false | _ => true end
  | ICommit => true
  | IOther _ => false
  end.
Definition has_file (items : list item) : bool :=
  existsb (fun it => match it with IFile _ _ _ _ => true | _ => false end) items.

Fixpoint all_results (id user tm : bytes) (i : N) (items : list item) : list result :=
  match items with
  | [] => []
  | IFile name body _ _ :: r => read_with (part_meta id i name user tm) body ++ all_results id user tm (i + 1) r
  | _ :: r => all_results id user tm (i + 1) r
  end.

Definition mset_sub {A} (eqb : A -> A -> bool) (a b : list A) : bool :=
  forallb (fun x => Nat.leb (count_of eqb x a) (count_of eqb x b)) a.

Definition obs_same (a b : obs) : bool :=
  mset_eqb pair_eqb (ob_search a) (ob_search b) && mset_eqb idn_eqb (ob_list a) (ob_list b).

Definition find_more (name : bytes) (l : list more_t) : option (list (bytes * bytes)) :=
  match filter (fun m => beq (snd (fst m)) name) l with m :: _ => Some (snd m) | [] => None end.
Definition has_more (k : Z) (name : bytes) (l : list more_t) : bool :=
  existsb (fun m => (fst (fst m) =? k)%Z && beq (snd (fst m)) name) l.

(** the further queries and listings after a FAILED upload: each one that was
    also made before gives what it gave before; the ones naming an ID the
    server is seen to use since this request (they are made for every such ID)
    give nothing *)
Definition more_failed (c : ucase) : bool :=
  let b := ob_more (uc_before c) in let a := ob_more (uc_after c) in
  forallb (fun m => match find_more (snd (fst m)) a with Some _ => true | None => false end) b
  && forallb (fun m : more_t =>
       let '(k, name, rows) := m in
       if (k =? 2)%Z || (k =? 3)%Z || (k =? 5)%Z then match rows with [] => true | _ => false end
       else match find_more name b with
            | Some r0 => if (k =? 0)%Z then mset_eqb pair_eqb r0 rows else list_eqb pair_eqb r0 rows
            | None => false
            end) a
  && forallb (fun id => existsb (beq id) (uc_used0 c)
                        || (has_more 2 (bs "S:upload:" ++ id) a && has_more 3 (bs "L:upload:" ++ id) a))
             (uc_used1 c).

(** ... and after a SUCCESSFUL upload [id] whose records are [exp] and which
    is listed with [n] records: a search that does not name it returns what it
    returned before plus records of this upload only, each of them one of [exp]
    and none more often than there; a listing that does not name it lists the
    earlier uploads as before and this one at most once; the plain listing
    limited to one row lists this upload; upload:<id> returns exactly [exp] and
    lists exactly this upload with all its records; upload:<id> narrowed by
    "has a non-empty label upload-part / upload-time / name" returns exactly
    the records of the upload that carry that label ([with_label]) *)
(** the records of upload [id] that carry a non-empty value for label [k] (as
    a file/server label or as a name label): what "upload:<id> k>" must return.
    Every record has upload-part and upload-time (permanent server labels); a
    record whose benchmark name is empty has no non-empty [name] label. *)
Definition with_label (id k : bytes) (res : list result) : list (bytes * bytes) :=
  map (fun r => (id, r_content r))
      (filter (fun r => negb (is_nilb (lget k (r_labels r))) || negb (is_nilb (lget k (r_namelabels r)))) res).
Definition kind5_keys : list bytes := [bs "upload-part"; bs "upload-time"; bs "name"].

Definition more_succeeded (c : ucase) (id : bytes) (n : N) (exp : list (bytes * bytes)) (res : list result) : bool :=
  let b := ob_more (uc_before c) in let a := ob_more (uc_after c) in
  let mine (r : bytes * bytes) := beq (fst r) id in
  forallb (fun m => match find_more (snd (fst m)) a with Some _ => true | None => false end) b
  && has_more 2 (bs "S:upload:" ++ id) a && has_more 3 (bs "L:upload:" ++ id) a
  && has_more 5 (bs "S:upload:" ++ id ++ bs " name>") a
  && has_more 5 (bs "S:upload:" ++ id ++ bs " upload-part>") a
  && forallb (fun m : more_t =>
       let '(k, name, rows) := m in
       (* kind 5: upload:<id> together with "has a non-empty label k" (the server's upload-part /
          upload-time, the benchmark's name): exactly the records of the upload that carry it *)
       if (k =? 5)%Z then
         if has_prefix name (bs "S:upload:" ++ id ++ bs " ")
         then existsb (fun key => beq name (bs "S:upload:" ++ id ++ bs " " ++ key ++ bs ">")
                                  && mset_eqb pair_eqb rows (with_label id key res)) kind5_keys
         else match rows with [] => true | _ => false end
       else if (k =? 2)%Z then
         if beq name (bs "S:upload:" ++ id) then mset_eqb pair_eqb rows exp
         else match rows with [] => true | _ => false end
       else if (k =? 3)%Z then
         if beq name (bs "L:upload:" ++ id)
         then match rows with
              | [(i, d)] => beq i id && has_prefix d (dec n ++ bs "|")
              | _ => false
              end
         else match rows with [] => true | _ => false end
       else if (k =? 4)%Z then match rows with [(i, _)] => beq i id | _ => false end
       else match find_more name b with
            | None => false
            | Some r0 =>
                if (k =? 0)%Z then
                  let added := filter mine rows in
                  mset_sub pair_eqb r0 rows && Nat.eqb (length rows) (length r0 + length added)
                  && mset_sub pair_eqb added exp
                else
                  list_eqb pair_eqb (filter (fun r => negb (mine r)) rows) r0
                  && Nat.leb (length (filter mine rows)) 1
            end) a.

Definition db_fault_of (sq sp : Z) : db_fault :=
  if (sq =? 1)%Z then DbNewUpload else if (sq =? 4)%Z then DbWhilePart (z2n sp)
  else if (sq =? 0)%Z then DbNone else DbAtCommit.

(** [relax] = the judge of the known finding C20_truncated_in_later_part_header:
    a cleanly framed body that stops inside the MIME header of a later part is
    taken for a complete form consisting of the parts before the cut. Nothing
    else changes: with [relax] such a request must then be committed EXACTLY as
    that shorter form (all the success clauses below, for the files before the
    cut), or be refused with all the failure clauses. *)
Definition prop_u_gen (relax : bool) (c : ucase) : bool :=
  let rq := rc_req (uc_req c) in
  let id := match rc_id (uc_req c) with Some i => i | None => [] end in
  let user := rq_user rq in let tm := rq_time rq in let items := rq_items rq in
  let good := item_good id user tm in
  let fsf := if (uc_fsfault c <? 0)%Z then None else Some (Z.to_nat (uc_fsfault c)) in
  (* some step of this upload fails: the body does not end with its closing
     delimiter, no file, a faulty part, rows the database refuses, a file-store
     operation that is reached fails, a database step fails *)
  let faulty :=
    match rq_end rq with EndClosed => false | EndInHeader => negb relax | EndBroken => true end
    || negb (has_file items)
    || negb (forallb (fun x => x) (map (fun p => good (fst p) (snd p))
                                      (combine (map N.of_nat (seq 0 (length items))) items)))
    || rejects_sf (coalesce_sf (all_results id user tm 0 items))
    || match fsf with Some n => Nat.ltb n (spec_ops id user tm items 0) | None => false end
    || negb (uc_sqlfault c =? 0)%Z in
  let b := uc_before c in let a := uc_after c in
  (* the history: what can be queried or listed before the request is of earlier
     uploads that were answered 200, and each of those is listed - nothing of an
     earlier upload that failed or was aborted *)
  let ok_ids := flat_map (fun p => if pc_ok p then match rc_id (pc_r p) with Some i => [i] | None => [] end else [])
                         (uc_pre c) in
  forallb (fun r => existsb (beq (fst r)) ok_ids) (ob_search b)
  && mset_eqb beq (map fst (ob_list b)) ok_ids
  && forallb (fun m : more_t => forallb (fun r => existsb (beq (fst r)) ok_ids) (snd m)) (ob_more b)
  && forallb (fun u => existsb (beq u) (uc_used1 c)) (uc_used0 c)
  (* no partial file is ever left behind; files present before are untouched *)
  && forallb (fun e => snd e) (ob_fs a)
  && forallb (fun e => existsb (fsent_eqb e) (ob_fs a)) (ob_fs b)
  && if ob_ok a then
       (* it succeeds: then no step failed; every record of every file is queryable, once, by
          every query; the upload is listed; its ID has the form YYYYMMDD.N, was never handed
          out before (also not to a failed upload) and lies above the earlier ones of its day;
          each file stored once with its header *)
       let nid := ob_id a in
       let exp := map (fun r => (nid, r_content r)) (all_results nid user tm 0 items) in
       negb faulty && time_ok tm
       && mset_eqb pair_eqb (ob_search a) (ob_search b ++ exp)
       && match filter (fun e => beq (fst e) nid) (ob_list a) with
          | [(_, n)] => negb (n =? 0)%N
                        && mset_eqb idn_eqb (filter (fun e => negb (beq (fst e) nid)) (ob_list a)) (ob_list b)
                        && more_succeeded c nid n exp (all_results nid user tm 0 items)
          | _ => false
          end
       && negb (existsb (beq nid) (uc_used0 c)) && existsb (beq nid) (uc_used1 c)
       && match parse_id nid with
          | Some u => forallb (fun o => match parse_id o with
                                        | Some v => negb (fst v =? fst u)%N || (snd v <? snd u)%N
                                        | None => false
                                        end) (uc_used0 c)
          | None => false
          end
       && mset_eqb fsent_eqb (ob_fs a)
            (ob_fs b ++ map (fun pc => (pc, true)) (spec_files nid user tm items 0))
     else
       (* it fails: nothing of this upload can be queried or listed by any query; earlier
          uploads unaffected; whatever it left in the store is a completely written file
          (header + body) of a part BEFORE the part being processed when the fault happened *)
       obs_same b a && more_failed c
       && (let k := failing_part id user tm items good fsf (db_fault_of (uc_sqlfault c) (uc_sqlpart c)) in
           let allowed := spec_files id user tm (firstn k items) 0 in
           forallb (fun e => existsb (fsent_eqb e) (ob_fs b)
                             || existsb (fun pc => fsent_eqb e (pc, true)) allowed) (ob_fs a)).

Definition prop_u := prop_u_gen false.
(** the judge of the known finding: everything the property demands, except
    that a body stopping inside a later part's header counts as the complete
    form of the parts before the cut *)
Definition known_u := prop_u_gen true.

(** ** kind 1: IDs *)
Record icase := mkI { ic_day : N; ic_seq : list bytes; ic_conc : list (list bytes); ic_errs : N }.

Definition decode_i (l : list sx) : option icase :=
  match l with
  | [SZ day; sq; conc; SZ errs] =>
      do sq <- as_list as_b sq; do conc <- as_list (as_list as_b) conc;
      Some (mkI (z2n day) sq conc (z2n errs))
  | _ => None
  end.

Fixpoint strictly_increasing (l : list uid) : bool :=
  match l with
  | a :: ((b :: _) as r) => uid_ltb a b && strictly_increasing r
  | _ => true
  end.

Fixpoint nodup_b (l : list uid) : bool :=
  match l with [] => true | x :: r => negb (mem x r) && nodup_b r end.

Definition corr_i (c : icase) : bool :=
  (* sequential: exactly what the model allocates at that day from an empty table *)
  match omap parse_id (ic_seq c) with
  | Some ids =>
      let '(res, _) := alloc_seq (map (fun _ => ic_day c) ids) [] in
      list_eqb uid_eqb (flat_map (fun o => match o with Some u => [u] | None => [] end) res) ids
  | None => false
  end
  (* concurrent: the successful IDs are of that day and numbered within 1 .. successes + failed calls
     (a call failing after its ID transaction committed uses a number up) *)
  && match omap (omap parse_id) (ic_conc c) with
     | Some per =>
         let all := concat per in
         forallb (fun u => (fst u =? ic_day c)%N && (snd u <=? N.of_nat (length all) + ic_errs c)%N) all
     | None => false
     end.

Definition prop_i (c : icase) : bool :=
  match omap parse_id (ic_seq c), omap (omap parse_id) (ic_conc c) with
  | Some ids, Some per =>
      nodup_b ids && strictly_increasing ids
      && nodup_b (concat per) && forallb strictly_increasing per
  | _, _ => false   (* some ID is not of the form YYYYMMDD.N *)
  end.

(** ** kind 2: histories under a chosen clock *)
Record hobs := mkHo { ho_new : bool; ho_day : N; ho_id : bytes; ho_n : N; ho_commit : bool;
                      ho_ok : bool; ho_res : bytes; ho_list : list (bytes * N) }.

Definition as_idn (s : sx) : option (bytes * N) :=
  match s with SL [SB i; SZ n] => Some (i, z2n n) | _ => None end.

Definition as_hobs (s : sx) : option hobs :=
  match s with
  | SL [SZ k; SZ day; SB id; SZ n; c; ok; SB res; li] =>
      do c <- as_bool c; do ok <- as_bool ok; do li <- as_list as_idn li;
      Some (mkHo (k =? 0)%Z (z2n day) id (z2n n) c ok res li)
  | _ => None
  end.

Definition uidn_eqb (a b : uid * N) : bool := uid_eqb (fst a) (fst b) && (snd a =? snd b)%N.

Definition parse_listing (l : list (bytes * N)) : option (list (uid * N)) :=
  omap (fun e => match parse_id (fst e) with Some u => Some (u, snd e) | None => None end) l.

(** newest first: ORDER BY Day DESC, Seq DESC *)
Fixpoint strictly_decreasing (l : list uid) : bool :=
  match l with
  | a :: ((b :: _) as r) => uid_ltb b a && strictly_decreasing r
  | _ => true
  end.

(** the model run next to the observations: every step hands out what the
    model hands out (or fails where it fails), and lists what the model lists *)
Fixpoint corr_h (s : hstate) (l : list hobs) : bool :=
  match l with
  | [] => true
  | o :: r =>
      let op := if ho_new o then Some (HNew (ho_day o) (ho_n o) (ho_commit o))
                else match parse_id (ho_id o) with Some u => Some (HSeed u (ho_n o) (ho_commit o)) | None => None end in
      match op with
      | None => false
      | Some op =>
          let '(s', res) := hstep s op in
          match res with
          | Some u => ho_ok o && beq (ho_res o) (id_text u)
          | None => negb (ho_ok o)
          end
          && match parse_listing (ho_list o) with
             | Some li => mset_eqb uidn_eqb li (hlisting s') && strictly_decreasing (map fst li)
             | None => false
             end
          && corr_h s' r
      end
  end.

(** the specification on the observations alone.  [used]: every ID handed out
    so far (by NewUpload, or given explicitly); [com]: the uploads committed so
    far with the number of their records.  A NewUpload that succeeds returns an
    ID of the form YYYYMMDD.N that is not in [used]; after EVERY step (also a
    failed or an aborted one) the listing is exactly [com] *)
Fixpoint prop_h (used : list bytes) (com : list (bytes * N)) (l : list hobs) : bool :=
  match l with
  | [] => true
  | o :: r =>
      let fresh := negb (existsb (beq (ho_res o)) used) in
      let wellformed := match parse_id (ho_res o) with Some _ => true | None => false end in
      let used' := if ho_ok o then ho_res o :: used else used in
      let com' := if ho_ok o && ho_commit o && negb (ho_n o =? 0)%N then (ho_res o, ho_n o) :: com else com in
      (if ho_ok o then wellformed && (if ho_new o then fresh else beq (ho_res o) (ho_id o)) else true)
      && mset_eqb idn_eqb (ho_list o) com'
      && prop_h used' com' r
  end.

(** ** kind 3: skewed clocks at once *)
Record skew := mkSk { sk_days : list N; sk_seeds : list (bytes * N); sk_per : list (list (bytes * N));
                      sk_errs : N; sk_list : list (bytes * N) }.

Definition decode_s (l : list sx) : option skew :=
  match l with
  | [SL [SZ a; SZ b]; seeds; per; SZ errs; li] =>
      do seeds <- as_list as_idn seeds; do per <- as_list (as_list as_idn) per; do li <- as_list as_idn li;
      Some (mkSk [z2n a; z2n b] seeds per (z2n errs) li)
  | _ => None
  end.

(** what the model fixes of a concurrent run: every ID is of one of the two days
    and numbered within what the calls can have used up *)
Definition corr_s (c : skew) : bool :=
  let all := concat (sk_per c) in
  match omap (fun e => parse_id (fst e)) all with
  | Some ids =>
      forallb (fun u => existsb (N.eqb (fst u)) (sk_days c)
                        && (snd u <=? N.of_nat (length all + length (sk_seeds c)) + sk_errs c)%N) ids
  | None => false
  end.


(** no ID twice (among the new ones and the ones present before); the listing
    is exactly the earlier uploads plus the committed new ones *)
Definition prop_s (c : skew) : bool :=
  let all := concat (sk_per c) in
  nodup_bytes (map fst (sk_seeds c ++ all))
  && forallb (fun e => match parse_id (fst e) with Some _ => true | None => false end) all
  && mset_eqb idn_eqb (sk_list c)
       (sk_seeds c ++ filter (fun e => negb (snd e =? 0)%N) all).

Definition run_case (s : sx) : N :=
  match s with
  | SL (SZ 0 :: l) => match decode_u l with Some c => code_of3 (corr_u c) (prop_u c) (known_u c) | None => code_undecodable end
  | SL (SZ 1 :: l) => match decode_i l with Some c => code_of (corr_i c) (prop_i c) | None => code_undecodable end
  | SL [SZ 2; steps] =>
      match as_list as_hobs steps with
      | Some l => code_of (corr_h h0 l) (prop_h [] [] l)
      | None => code_undecodable
      end
  | SL (SZ 3 :: l) => match decode_s l with Some c => code_of (corr_s c) (prop_s c) | None => code_undecodable end
  | _ => code_undecodable
  end.
