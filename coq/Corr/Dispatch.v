(** The single entry point extracted to OCaml: property number -> case -> code. *)
From Perf Require Import Base.Bytes Base.Sx.
From Perf Require Corr.RunC05 Corr.RunC14 Corr.RunC15.

Definition run (prop : N) (s : sx) : N :=
  match prop with
  | 5%N => RunC05.run_case s
  | 14%N => RunC14.run_case s
  | 15%N => RunC15.run_case s
  | _ => code_undecodable
  end.

(** In-Coq evaluation of the same entry point (cross-check of the extraction). *)
Fixpoint run_all (prop : N) (cs : list sx) : list N :=
  match cs with [] => [] | c :: cs' => run prop c :: run_all prop cs' end.
