(** Correspondence evaluator for C10: observations of benchunit.CommonScale,
    Scale, Scaler.Format, NoOpScaler, ClassOf against Model/Scale.v, and the
    specification predicates of Model/ScaleSpec.v on the observed outputs.
    Kind 4 (and kind 6 of C16, which re-uses [rtab_corr] / [rtab_prop]): real
    benchtab tables - the centres Table.ToText printed, read from the text
    (Model/RowText.v), against Model/RowScale.v and the shared-scale clause. *)
From Perf Require Import Base.Bytes Base.Sx Base.B64 Base.SxF Base.FmtFixed Model.Scale Model.ScaleSpec Model.RowScale.
From Perf Require Model.RowText.
From Perf Require Base.Unicode Model.Units.
Local Open Scope Z_scope.

Definition obs_scaler := option (Z * b64 * bytes).     (* None = panic *)

(** one real benchtab.Table (kind 4; kind 6 of C16): unit, the text ToText
    wrote, per row whether the harness saw RowScaler return the scale of the
    least non-zero |centre| alone, and the centres of the row's cells *)
Definition obs_row := (bool * list (option b64))%type.
Definition obs_rtab := (bytes * bytes * list obs_row)%type.
Definition as_rtabs : sx -> option (list obs_rtab) :=
  as_list (as_triple as_b as_b (as_list (as_pair as_bool (as_list (as_opt as_f64))))).

Inductive case :=
  | KRows (tabs : list obs_rtab)
  | KTables (cls : class) (rows : list (Z * obs_scaler * obs_scaler * (option bytes * option bytes)))
  | KCommon (cls : class) (vals : list b64) (s : obs_scaler) (strs : list bytes)
            (scale_str : option bytes) (same_as_min : bool)
  | KFormat (prec : Z) (factor : b64) (prefix : bytes) (v : b64) (oracle : list (b64 * bytes)) (out : bytes)
  | KClass (unit : bytes) (cls : Z).

Definition as_class (s : sx) : option class :=
  match s with SZ 0 => Some Decimal | SZ 1 => Some Binary | SZ _ => Some BadClass | _ => None end.
Definition as_scaler : sx -> option obs_scaler := as_opt (as_triple as_z as_f64 as_b).

Definition decode (s : sx) : option case :=
  match s with
  | SL [SZ 0; c; rows] =>
      do c <- as_class c;
      do rows <- as_list (as_pair (as_triple as_z as_scaler as_scaler) (as_pair (as_opt as_b) (as_opt as_b))) rows;
      Some (KTables c rows)
  | SL [SZ 1; c; vals; sc; strs; ss; same] =>
      do c <- as_class c;
      do vals <- as_list as_f64 vals;
      do sc <- as_scaler sc;
      do strs <- as_list as_b strs;
      do ss <- as_opt as_b ss;
      do same <- as_bool same;
      Some (KCommon c vals sc strs ss same)
  | SL [SZ 2; SZ p; f; SB pre; v; orc; SB out] =>
      do f <- as_f64 f;
      do v <- as_f64 v;
      do orc <- as_list (as_pair as_f64 as_b) orc;
      Some (KFormat p f pre v orc out)
  | SL [SZ 3; SB u; SZ c] => Some (KClass u c)
  | SL [SZ 4; tabs] => do tabs <- as_rtabs tabs; Some (KRows tabs)
  | _ => None
  end.

Definition scaler_eqb (a : scaler) (o : Z * b64 * bytes) : bool :=
  let '(p, f, pre) := o in
  (s_prec a =? p) && b64_same (s_factor a) f && beq (s_prefix a) pre.

Definition oscaler_eqb (a : option scaler) (o : obs_scaler) : bool :=
  match a, o with
  | Some a, Some o => scaler_eqb a o
  | None, None => true
  | _, _ => false
  end.

(** oracle replay of strconv's shortest formatting; a miss is a divergence *)
Definition oracle_miss : bytes := bs "<oracle-miss>".
Fixpoint lookup_shortest (t : list (b64 * bytes)) (q : b64) : bytes :=
  match t with
  | [] => oracle_miss
  | (k, v) :: t' => if b64_same k q then v else lookup_shortest t' q
  end.

Definition blist_eqb := list_eqb beq.
Definition obytes_eqb (a b : option bytes) : bool :=
  match a, b with Some x, Some y => beq x y | None, None => true | _, _ => false end.

(** ** thresholds of the model's tables that must show as change points *)
Definition table_thresholds (cls : class) : list b64 :=
  match factors_of cls with
  | Some fs => flat_map (fun f => [f_t100 f; f_t10 f; f_t1 f]) fs
  | None => []
  end.
(** with factor 1 (Binary) the quotient is the value, so the sigfigs entries
    except the last (never compared) and the first (= t1 of "") show directly *)
Definition direct_sigfigs (cls : class) : list b64 :=
  match cls with
  | Binary => removelast (tl sigfigs)
  | _ => []
  end.
Definition expected_changes (cls : class) : nat :=
  match cls with Decimal => 30 | Binary => 21 | BadClass => 0 end.

(** ** rows of real tables: the centres the text prints, paired with the cells *)
Fixpoint pair_cells (cs : list (option b64)) (ss : list (option bytes)) : option (list b64 * list bytes) :=
  match cs, ss with
  | [], [] => Some ([], [])
  | None :: cs', None :: ss' => pair_cells cs' ss'
  | Some v :: cs', Some s :: ss' =>
      match pair_cells cs' ss' with Some (vs, strs) => Some (v :: vs, s :: strs) | None => None end
  | _, _ => None
  end.

Fixpoint zip_rows {A B} (a : list A) (b : list B) : list (A * B) :=
  match a, b with x :: a', y :: b' => (x, y) :: zip_rows a' b' | _, _ => [] end.

(** [f same cells vals strs] on every row of the table; the text must show
    exactly the rows' present cells (one centre per present cell, none for a
    missing one, as many column groups as the row has columns) *)
Definition rtab_eval (f : bool -> list (option b64) -> list b64 -> list bytes -> bool) (t : obs_rtab) : bool :=
  let '(_, text, rows) := t in
  match RowText.row_centres text (length rows) with
  | Some cs =>
      Nat.eqb (length cs) (length rows)
      && forallb (fun '((same, cells), ss) =>
           match pair_cells cells ss with
           | Some (vs, strs) => f same cells vs strs
           | None => false
           end) (zip_rows rows cs)
  | None => false
  end.

(** model: RowScaler + Format *)
Definition rtab_corr (t : obs_rtab) : bool :=
  let cls := class_of (fst (fst t)) in
  rtab_eval (fun _ cells vals strs =>
    match row_scaler cells cls with
    | Some m => blist_eqb (map (format (fun _ => oracle_miss) m) vals) strs
    | None => false
    end) t.

(** ** corr_ok *)
Definition corr_ok (c : case) : bool :=
  match c with
  | KRows tabs => forallb rtab_corr tabs
  | KTables cls rows =>
      forallb (fun '(b, at_b, below, (sa, sb)) =>
                 oscaler_eqb (common_scale [b64_of_bits b] cls) at_b
                 && oscaler_eqb (common_scale [b64_of_bits (b - 1)] cls) below
                 && obytes_eqb (scale (fun _ => oracle_miss) (b64_of_bits b) cls) sa
                 && obytes_eqb (scale (fun _ => oracle_miss) (b64_of_bits (b - 1)) cls) sb) rows
      && forallb (fun t => existsb (fun '(b, _, _, _) => b =? bits_of_b64 t) rows)
                 (table_thresholds cls ++ direct_sigfigs cls)
      && Nat.eqb (length rows) (expected_changes cls)
  | KCommon cls vals s strs ss _ =>
      let ms := common_scale vals cls in
      oscaler_eqb ms s
      && match ms with
         | Some m =>
             blist_eqb (map (format (fun _ => oracle_miss) m) vals) strs
             && match vals, ss with
                | [v], Some str => beq (format (fun _ => oracle_miss) m v) str
                | [v], None => false
                | _, None => true
                | _, Some _ => false
                end
         | None => match strs, ss with [], None => true | _, _ => false end
         end
  | KFormat p f pre v orc out =>
      beq (format (lookup_shortest orc) (mkScaler p f pre) v) out
  | KClass u c =>
      match class_of u, c with
      | Decimal, 0 => true
      | Binary, 1 => true
      | _, _ => false
      end
  end.

(** ** prop_ok: the specification on what the implementation printed *)

Definition is_pos_finite (x : b64) : bool :=
  match x with S754_finite false _ _ => true | _ => false end.

(** checks of one printed value [str] for value [v] under the observed scale.
    [relax = false]: the property (the sharp half-unit bound, no allowance).
    [relax = true]: the judge of the known findings ([known_ok]): exactly the
    recorded deviations of C10_shared_scale_quotient_overflow and
    C10_quotient_rounded_before_printing are allowed in addition *)
Definition printed_ok_gen (relax : bool) (cls : class) (p : Z) (pre : bytes) (v : b64) (str : bytes) : option Z :=
  (* returns the scaled integer printed, if the text is well-formed and within half a unit *)
  match v with
  | S754_nan => if beq str (bs "NaN" ++ pre) then Some 0 else None
  | S754_infinity s => if beq str ((if s then bs "-Inf" else bs "+Inf") ++ pre) then Some 0 else None
  | S754_zero s =>
      match parse_fixed str with
      | Some pf =>
          if Bool.eqb (pf_neg pf) s && (pf_scaled pf =? 0) && (Z.of_nat (pf_prec pf) =? p) && beq (pf_rest pf) pre
          then Some 0 else None
      | None => None
      end
  | S754_finite s m e =>
      match parse_fixed str, exact_factor cls pre with
      | None, Some (fn, fd) =>
          (* the quotient by a sub-unit factor can leave the binary64 range
             (|v| > 1.8e299 scaled together with a tiny value): a finite value
             then prints as an infinity *)
          (* KNOWN FINDING C10_shared_scale_quotient_overflow: the real code prints
             "+Inf<prefix>" there, which is not within half a unit of the value, so the
             property fails on such a case (the harness tags it; corr_ok still ties
             the model's +Inf to the code's).  With [relax] exactly this outcome is
             allowed: the text is the infinity of the value's sign and the exact
             quotient really is out of range *)
          if relax && beq str ((if s then bs "-Inf" else bs "+Inf") ++ pre)
             && (2 ^ 1023 * fn * 2 ^ (Z.max (- e) 0) <=? Zpos m * 2 ^ (Z.max e 0) * fd)
          then Some (2 ^ 1100) else None
      | Some pf, Some (fn, fd) =>
          (* KNOWN FINDING C10_quotient_rounded_before_printing: the code prints the
             decimal of the binary64 quotient v / Factor, so under a decimal prefix a
             value next to a rounding tie (m, micro, n) or with more digits than a
             binary64 holds (any decimal prefix, shared scale) is off by more than half
             a unit.  The property has no allowance: [sn = 0].  With [relax] the error
             of that one quotient ([quotient_slack]: nothing for power-of-two factors)
             is allowed on top of the half unit, nothing else *)
          let '(sn, sd) := if relax then quotient_slack fn fd else (0, 1) in
          if Bool.eqb (pf_neg pf) s && (Z.of_nat (pf_prec pf) =? p) && beq (pf_rest pf) pre
             && half_unit_slack sn sd m e (pf_scaled pf) (pf_prec pf) fn fd
             (* no leading zeros beyond the one before the point *)
             && ((pf_int_digits pf =? 1)%nat || (10 ^ (Z.of_nat (pf_int_digits pf) - 1 + Z.of_nat (pf_prec pf)) <=? pf_scaled pf))
          then Some (pf_scaled pf) else None
      | _, _ => None
      end
  end.

Definition printed_ok := printed_ok_gen false.

Fixpoint zip {A B} (a : list A) (b : list B) : list (A * B) :=
  match a, b with x :: a', y :: b' => (x, y) :: zip a' b' | _, _ => [] end.

Definition has_nan (vals : list b64) : bool := existsb b64_is_nan vals.

Definition prop_common_gen (relax : bool) (cls : class) (vals : list b64) (s : obs_scaler) (strs : list bytes)
           (ss : option bytes) (same : bool) : bool :=
  if has_nan vals then true   (* the property quantifies over finite magnitudes; NaN behaviour is compared by corr_ok only *)
  else
  match cls, s with
  | BadClass, None => negb (b64_eq (spec_min vals) b64_zero)   (* panics only when there is something to scale *)
  | BadClass, Some (p, f, pre) => forallb (fun v => b64_eq v b64_zero) vals && (p =? 3) && beq pre []
  | _, None => false
  | _, Some (p, f, pre) =>
      Nat.eqb (length vals) (length strs)
      && match exact_factor cls pre with Some _ => true | None => false end
      && (0 <=? p)
      && (has_nan vals ||
          let mn := spec_min vals in
          same
          && forallb (fun '(v, str) =>
               match printed_ok_gen relax cls p pre v str with
               | None => false
               | Some n =>
                   match v with
                   | S754_finite _ _ _ =>
                       (* the least magnitude decides; every other value is at least as large *)
                       (if in_range4 cls mn then
                          (if b64_same (b64_abs v) mn then four_sig cls p n else 1000 <=? n)
                        else if in_range3 cls mn then
                          (if b64_same (b64_abs v) mn then three_sig n else 100 <=? n)
                        else true)
                   | _ => true
                   end
               end) (zip vals strs))
      && match vals, ss with
         | [v], Some str => match strs with [s1] => beq s1 str | _ => false end
         | [v], None => false
         | _, _ => true
         end
  end.

Definition prop_common := prop_common_gen false.

(** a row of a real table, judged by the shared-scale clause on what the text
    shows: precision and prefix are read from the first centre that is a
    number; [prop_common] then demands that every centre of the row carries that
    precision and prefix (one scale per row), that the prefix belongs to the
    unit's class, that the scale is the one of the least non-zero magnitude
    ([same] and the digit counts: four resp. three significant digits on the
    least magnitude, at least as many on the others) and that every printed
    centre is within half a unit of its last digit of the cell's value *)
Definition first_fixed (strs : list bytes) : option parsed_fixed :=
  match flat_map (fun s => match parse_fixed s with Some p => [p] | None => [] end) strs with
  | p :: _ => Some p
  | [] => None
  end.
Definition row_prop (relax : bool) (cls : class) (same : bool) (vals : list b64) (strs : list bytes) : bool :=
  match vals with
  | [] => true
  | _ =>
      match first_fixed strs with
      | Some pf =>
          prop_common_gen relax cls vals (Some (Z.of_nat (pf_prec pf), b64_zero, pf_rest pf)) strs
                      (match strs with [s] => Some s | _ => None end) same
      | None => forallb (fun v => negb (b64_is_finite v)) vals    (* only NaN / infinities to print *)
      end
  end.
Definition rtab_judge (relax : bool) (cls : class) (t : obs_rtab) : bool :=
  rtab_eval (fun same _ vals strs => row_prop relax cls same vals strs) t.
(** the property on one table: the class is the one the unit has ([spec_class]) *)
Definition rtab_prop_sharp (t : obs_rtab) : bool := rtab_judge false (spec_class (fst (fst t))) t.
(** the same up to C10's known findings (the quotient's rounding, its overflow,
    a unit whose bytes are spelled in a way ClassOf does not know judged as
    Decimal).  This is [known_ok] of kind 4 and what C16 (kind 6) demands of its
    rows: C16 is about the table, C10's recorded deviations are reported here *)
Definition rtab_prop (t : obs_rtab) : bool :=
  let u := fst (fst t) in
  rtab_judge true (spec_class u) t || rtab_judge true (narrow_class u) t.

(** Format with an arbitrary Scaler: the text is the half-even decimal of the
    binary64 quotient (exactly: no slack), resp. the shortest decimal that
    reads back to it *)
Definition prop_format (p : Z) (f : b64) (pre : bytes) (v : b64) (out : bytes) : bool :=
  let q := b64_div v f in
  match q with
  | S754_nan => beq out (bs "NaN" ++ pre)
  | S754_infinity s => beq out ((if s then bs "-Inf" else bs "+Inf") ++ pre)
  | S754_zero s =>
      match parse_fixed out with
      | Some pf => Bool.eqb (pf_neg pf) s && (pf_scaled pf =? 0) && beq (pf_rest pf) pre
                   && ((p <? 0) && (pf_prec pf =? 0)%nat || (Z.of_nat (pf_prec pf) =? p))
      | None => false
      end
  | S754_finite s m e =>
      match parse_fixed (firstn (length out - length pre) out) with
      | Some pf =>
          Bool.eqb (pf_neg pf) s && beq (pf_rest pf) [] && beq (skipn (length out - length pre) out) pre
          && if p <? 0 then shortest_ok s (pf_scaled pf) (pf_prec pf) q
             else (Z.of_nat (pf_prec pf) =? p) && half_unit_ok false 0 m e (pf_scaled pf) (pf_prec pf) 1 1
                  && is_rne (pf_scaled pf) (Zpos m * 2 ^ (Z.max e 0) * 10 ^ p) (2 ^ (Z.max (- e) 0))
      | None => false
      end
  end.

(** ** change points (kind 0): prefix boundaries coincide exactly with how the
    mantissa rounds.  [b] is the bit pattern of the least binary64 that gets the
    scale [at_b]; the one just below gets [below].  Both are judged like any
    lone value (four resp. three significant digits with the mantissa in range,
    half a unit, the text of Scale), and across the boundary the mantissa rolls
    over: the value below prints the largest mantissa of its scale (9.999, 99.99,
    999.9; 1023.9 below a binary prefix; 0.09999 ...), the value at the boundary
    1.000 / 10.00 / 100.0 / 0.1000 ... of the next - "999.95 prints as 1.000k and
    never as 1000.0 or 0.9999k" *)
Definition printed_n (cls : class) (s : obs_scaler) (v : b64) (str : option bytes) : option (Z * Z) :=
  match s, str with
  | Some (p, _, pre), Some str =>
      match printed_ok_gen true cls p pre v str with Some n => Some (p, n) | None => None end
  | _, _ => None
  end.
Definition olist {A} (o : option A) : list A := match o with Some x => [x] | None => [] end.
Definition prop_boundary (relax : bool) (cls : class)
           (row : Z * obs_scaler * obs_scaler * (option bytes * option bytes)) : bool :=
  let '(b, at_b, below, (sa, sb)) := row in
  let v1 := b64_of_bits b in
  let v0 := b64_of_bits (b - 1) in
  prop_common_gen relax cls [v1] at_b (olist sa) sa true
  && prop_common_gen relax cls [v0] below (olist sb) sb true
  && (if b64_le (lo3 cls) v0 && b64_lt v1 (top cls) then
        match printed_n cls at_b v1 sa, printed_n cls below v0 sb with
        | Some (_, n1), Some (p0, n0) =>
            (n1 =? 1000) && (n0 =? (match cls with Binary => if p0 =? 1 then 10239 else 9999 | _ => 9999 end))
        | _, _ => false
        end
      else true).

Definition class_matches (c : class) (z : Z) : bool :=
  match c, z with Decimal, 0 => true | Binary, 1 => true | _, _ => false end.

Definition prop_ok (c : case) : bool :=
  match c with
  | KRows tabs => forallb rtab_prop_sharp tabs
  | KTables cls rows => forallb (prop_boundary false cls) rows
  | KCommon cls vals s strs ss same => prop_common cls vals s strs ss same
  | KFormat p f pre v _ out => prop_format p f pre v out
  | KClass u c => class_matches (spec_class u) c
  end.

(** the judge of the known findings of C10: everything [prop_ok] demands, except
    exactly their recorded deviations -
    C10_shared_scale_quotient_overflow: a finite value whose exact quotient by the
      shared factor is out of the binary64 range may print as the infinity of its sign;
    C10_quotient_rounded_before_printing: under a decimal prefix the half unit may
      be exceeded by the rounding error of the binary64 quotient ([quotient_slack]:
      2^-53 |v| for k M G T, 2^-52 (1 + 2^-52) |v| for m micro n, nothing otherwise);
    C10_classof_byte_spellings: a unit whose only byte tokens in the numerator are
      spelled otherwise than B, MB, bytes may be classified Decimal *)
Definition known_ok (c : case) : bool :=
  match c with
  | KRows tabs => forallb rtab_prop tabs
  | KTables cls rows => forallb (prop_boundary true cls) rows
  | KCommon cls vals s strs ss same => prop_common_gen true cls vals s strs ss same
  | KClass u c => class_matches (spec_class u) c || class_matches (narrow_class u) c
  | KFormat _ _ _ _ _ _ => prop_ok c
  end.

(** ** kind 5: a HISTORY of calls made one after the other in ONE process that
    had not used the package before (harness/cmd/c10proc, run once per case), or
    in the generator's own process.  A step is an observation of kind 1
    (CommonScale + Format of every value, Scale for a lone value), of kind 3
    (ClassOf), or [(9 unit v tv tu)]: Tidy(v, unit) = (tv, tu).  The package's
    state is its three threshold tables, written at initialisation only, and
    Tidy's memo table; so the model answers every call as if it were the only
    one (Model/Scale.v, Model/Units.v: pure functions), and the property judges
    every step by its own clause, whatever came before: ClassOf is a function of
    the unit alone (spec_class), a scaled value has its significant digits
    within half a unit "as for any other order".  No allowance: the histories
    the harness builds avoid the inputs of the known findings, so [prop_ok] is
    the judge and a history is never excused. *)
Inductive hstep :=
  | HCase (c : case)                            (* KCommon or KClass *)
  | HTidy (u : bytes) (v tv : b64) (tu : bytes).

Definition decode_step (s : sx) : option hstep :=
  match s with
  | SL [SZ 9; SB u; v; tv; SB tu] =>
      do v <- as_f64 v; do tv <- as_f64 tv; Some (HTidy u v tv tu)
  | _ =>
      match decode s with
      | Some (KClass u c) => Some (HCase (KClass u c))
      | Some (KCommon cls vals sc strs ss same) => Some (HCase (KCommon cls vals sc strs ss same))
      | _ => None
      end
  end.

Definition step_corr (st : hstep) : bool :=
  match st with
  | HCase c => corr_ok c
  | HTidy u v tv tu =>
      let '(mv, mu) := Units.tidy Unicode.go_is_space v u in b64_same mv tv && beq mu tu
  end.

(** Tidy is judged by C04; here it is only a step that may disturb the others *)
Definition step_prop (st : hstep) : bool :=
  match st with
  | HCase c => prop_ok c
  | HTidy _ _ _ _ => true
  end.

(** "a function of the unit alone": within one history every ClassOf of a unit
    gives one class (implied by [step_prop] on each; stated for the replay) *)
Fixpoint class_obs (h : list hstep) : list (bytes * Z) :=
  match h with
  | HCase (KClass u c) :: h' => (u, c) :: class_obs h'
  | _ :: h' => class_obs h'
  | [] => []
  end.
Fixpoint class_consistent (l : list (bytes * Z)) : bool :=
  match l with
  | [] => true
  | (u, c) :: l' => forallb (fun '(u', c') => negb (beq u u') || (c =? c')) l' && class_consistent l'
  end.

Definition hist_corr (h : list hstep) : bool := forallb step_corr h.
Definition hist_prop (h : list hstep) : bool := forallb step_prop h && class_consistent (class_obs h).

Definition run_case (s : sx) : N :=
  match s with
  | SL [SZ 5; steps] =>
      match as_list decode_step steps with
      | Some h => code_of (hist_corr h) (hist_prop h)
      | None => code_undecodable
      end
  | _ =>
      match decode s with
      | Some c => code_of3 (corr_ok c) (prop_ok c) (known_ok c)
      | None => code_undecodable
      end
  end.
