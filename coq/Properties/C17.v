(** C17 — The legacy benchstat library's tables follow its documented statistics.
    Statements only; proofs are in Proofs/Legacy.v, Proofs/LegacySort.v,
    Proofs/LegacyTables.v (and Proofs/LegacyMean.v for the binary64 mean).
    The model (Model/Legacy.v) takes the significance test as a parameter
    [dtest] (its p-values are C11's and C12's subject) and math.Log/math.Exp
    as oracles.  Histories on one collection (several Tables() calls with
    Format calls and further AddConfig in between): Model/LegacyHist.v,
    Proofs/LegacyHist.v, section "one collection, several reports" below.

    The model follows golang/perf WITH the repair
      hooks/fix_c17_change_direction.diff   improvement/regression decided on
        the means (new.Mean < old.Mean), not on the sign of the percentage.
    The observed output is judged (Corr/RunC17.v prop_ok) with the exact-rational
    specification Model/LegacySpec.v, section "the declarative specification"
    below; known finding C17_binary64_overflow: C17_mean_overflow_refuted,
    C17_fence_overflow_refuted. *)
From Coq Require Import ZArith Reals List Bool Sorting.Permutation Sorting.Sorted.
From Flocq Require Import Core BinarySingleNaN.
From Perf Require Import Base.Bytes Base.Sx Base.B64 Model.StatsF Model.Legacy Model.LegacyHist.
From Perf Require Import Base.FmtFixed Proofs.B64Flocq.
From Perf Require Import Proofs.Legacy Proofs.LegacySort Proofs.LegacyTables Proofs.LegacyMean Proofs.LegacyHist.
From Perf Require Model.StatsQ Model.LegacySpec Proofs.LegacySpec.
Import ListNotations.
Local Open Scope Z_scope.

(** ** the collection is a function of the records read, in order *)
Theorem C17_collection_first_appearance : forall split cfs,
  let c := build split cfs in
  let recs := all_records split cfs in
  c_configs c = map fst cfs /\
  c_groups c = firsts (map (fun r => k_group (fst r)) recs) /\
  c_units c = firsts (map (fun r => k_unit (fst r)) recs) /\
  (forall g, benchmarks_of c g = benches_of_spec recs g) /\
  (forall k, find_metrics k (c_metrics c) = opt_nonempty (values_of recs k)).
Proof. exact build_spec. Qed.
Print Assumptions C17_collection_first_appearance.

(** [firsts] is first-appearance order: no duplicates, same elements, and an
    element's place is decided by its first occurrence *)
Theorem C17_firsts_characterised : forall l,
  NoDup (firsts l) /\ (forall x, In x (firsts l) <-> In x l) /\
  (forall l1 x l2, l = l1 ++ x :: l2 -> ~ In x l1 ->
     exists rest, firsts l = firsts l1 ++ x :: rest).
Proof.
  intros l. split; [apply firsts_NoDup|]. split; [intros x; apply firsts_In|].
  intros l1 x l2 -> H. eexists. now apply firsts_app_first.
Qed.
Print Assumptions C17_firsts_characterised.

(** ** statistics: retained values are the fenced values, in input order *)
Theorem C17_rvalues_are_fenced_in_order : forall split cfs k m,
  stat_of (build split cfs) k = Some m ->
  let vals := values_of (all_records split cfs) k in
  vals <> [] /\ m_unit m = k_unit k /\ m_values m = vals
  /\ m_rvalues m = filter (in_fence (fence vals)) vals
  /\ subseq (m_rvalues m) vals
  /\ (m_min m, m_max m) = bounds_f (m_rvalues m) /\ m_mean m = mean_f (m_rvalues m).
Proof. exact stat_of_build. Qed.
Print Assumptions C17_rvalues_are_fenced_in_order.

Theorem C17_no_values_no_statistics : forall split cfs k,
  stat_of (build split cfs) k = None <-> values_of (all_records split cfs) k = [].
Proof. exact stat_of_build_none. Qed.
Print Assumptions C17_no_values_no_statistics.

(** the retention loop is a filter, the fence is Q1 - 1.5 IQR .. Q3 + 1.5 IQR on R8 quartiles *)
Theorem C17_retain_is_filter : forall lohi vals, retain lohi vals = filter (in_fence lohi) vals.
Proof. exact retain_is_filter. Qed.
Print Assumptions C17_retain_is_filter.

(** Min and Max of the retained values are their extremes (samples without NaN) *)
Theorem C17_min_max_are_extremes : forall xs,
  xs <> [] -> Forall not_nan xs ->
  let '(mn, mx) := bounds_f xs in
  In mn xs /\ In mx xs
  /\ (forall y, In y xs -> b64_lt y mn = false /\ b64_lt mx y = false)
  /\ b64_lt mx mn = false.
Proof. exact bounds_are_extremes. Qed.
Print Assumptions C17_min_max_are_extremes.

(** Min <= Mean <= Max in binary64, for the incremental mean exactly as coded
    (m += (x - m) / float64(i+1)), on valid finite values, fewer than 2^53 of
    them, whenever no difference x - m formed on the way overflows
    ([mean_no_overflow], the exact guard; every other operation of a step is
    then finite too). Uses the real numbers (Flocq): standard-library axioms. *)
Theorem C17_min_le_mean_le_max : forall xs : list b64,
  xs <> [] ->
  Forall (fun x => valid_binary 53 1024 x = true /\ b64_is_finite x = true) xs ->
  (Z.of_nat (length xs) < 2 ^ 53)%Z ->
  mean_no_overflow xs = true ->
  b64_le (fst (bounds_f xs)) (mean_f xs) = true /\ b64_le (mean_f xs) (snd (bounds_f xs)) = true.
Proof. exact min_le_mean_le_max_b64. Qed.
Print Assumptions C17_min_le_mean_le_max.

(** the guard holds in particular when every magnitude is at most 2^1022 *)
Theorem C17_no_overflow_below_2p1022 : forall bxs : list (binary_float 53 1024),
  Forall (fun x => is_finite x = true /\ (Rabs (B2R x) <= bpow radix2 1022)%R) bxs ->
  (Z.of_nat (length bxs) < 2 ^ 53)%Z ->
  mean_no_overflow (map B2SF bxs) = true.
Proof. exact mean_no_overflow_of_magnitude. Qed.
Print Assumptions C17_no_overflow_below_2p1022.

(** the model's %+.2f / %0.3f are FmtFixed's exact fixed notation plus fmt's sign rule *)
Theorem C17_fmt_is_fmt_fixed : forall plus p x,
  fmt_f plus p x =
  (if plus && negb (b64_signbit x) && negb (b64_is_inf x) then [x2b] else []) ++ fmt_fixed x p.
Proof. reflexivity. Qed.
Print Assumptions C17_fmt_is_fmt_fixed.

(** ** rows: labels, cells and delta columns *)
Theorem C17_rows_are_cells : forall dtest alpha0 split cfs unit r,
  let c := build split cfs in
  In r (plain_rows dtest alpha0 c unit) ->
  exists g b, In (g, b) (all_benchmarks c) /\ row_present c unit (g, b) = true
    /\ w_bench r = b
    /\ w_group r = (if (1 <? length (c_groups c))%nat then g else [])
    /\ w_metrics r = map (cell c unit g b) (map fst cfs)
    /\ if (length cfs =? 2)%nat then
         exists o n, stat_of c (mkKey (cfg0 c) g b unit) = Some o
                  /\ stat_of c (mkKey (cfg1 c) g b unit) = Some n
                  /\ (w_pct r, w_delta r, w_note r, w_change r)
                     = delta_cells (metric_of unit) (eff_alpha alpha0) (dtest o n) o n
       else (w_pct r, w_delta r, w_note r, w_change r) = (f_zero, [], [], 0).
Proof. exact plain_rows_build. Qed.
Print Assumptions C17_rows_are_cells.

Theorem C17_rows_first_appearance : forall dtest alpha0 c unit,
  map w_bench (plain_rows dtest alpha0 c unit)
  = map snd (filter (row_present c unit) (all_benchmarks c)).
Proof. exact plain_rows_labels. Qed.
Print Assumptions C17_rows_first_appearance.

Theorem C17_benchmarks_first_appearance : forall split cfs,
  all_benchmarks (build split cfs) =
  concat (map (fun g => map (fun b => (g, b)) (benches_of_spec (all_records split cfs) g))
              (firsts (map (fun r => k_group (fst r)) (all_records split cfs)))).
Proof. exact all_benchmarks_build. Qed.
Print Assumptions C17_benchmarks_first_appearance.

(** ** significance gate, delta value, direction, notes *)
Theorem C17_delta_iff_significant : forall metric alpha p e o n,
  snd (fst (fst (delta_cells metric alpha (p, e) o n))) <> s_tilde
  <-> (e = ENone /\ b64_lt p alpha = true).
Proof. exact delta_iff_significant. Qed.
Print Assumptions C17_delta_iff_significant.

(** all four cells by cases: delta value (new/old - 1) * 100 in binary64 and its
    "%+.2f%%" text, "0.00%" for equal means, "~" otherwise; the note is the
    reason or p and the retained sizes; Change is +1/-1 by sign and direction *)
Theorem C17_delta_value_note_change : forall metric alpha p e o n,
  delta_cells metric alpha (p, e) o n =
  (if significant alpha p e then
     if b64_eq (m_mean n) (m_mean o) then (f_zero, bs "0.00%") else
       (pct_delta (m_mean o) (m_mean n), fmt_delta (pct_delta (m_mean o) (m_mean n)))
   else (f_zero, s_tilde),
   match e with
   | ENone => if b64_eq p f_m1 then [] else fmt_pnote p (length (m_rvalues o)) (length (m_rvalues n))
   | _ => err_note e
   end,
   if significant alpha p e then
     if b64_eq (m_mean n) (m_mean o) then 0
     else if Bool.eqb (b64_lt (m_mean n) (m_mean o)) (negb (beq metric s_speed))
          then 1 else -1
   else 0).
Proof. exact delta_cells_spec. Qed.
Print Assumptions C17_delta_value_note_change.

(** higher is better exactly for the unit MB/s (and a unit literally called "speed") *)
Theorem C17_change_direction : forall unit,
  metric_of unit = s_speed <-> (unit = bs "MB/s" \/ unit = s_speed).
Proof. exact metric_of_speed. Qed.
Print Assumptions C17_change_direction.

Theorem C17_alpha_default : forall a,
  eff_alpha a = if b64_eq a f_zero then f_0_05 else a.
Proof. reflexivity. Qed.
Print Assumptions C17_alpha_default.

(** ** orders *)
Theorem C17_sort_stable : forall o rows,
  Forall (order_domain o) rows ->
  stable_sorted (order_less o) (order_domain o) rows (go_stable_sort (order_less o) rows).
Proof. exact sort_stable_all_orders. Qed.
Print Assumptions C17_sort_stable.

Theorem C17_rows_sorted_stably : forall dtest alpha0 ord c unit o,
  ord = Some o -> Forall (order_domain o) (plain_rows dtest alpha0 c unit) ->
  stable_sorted (order_less o) (order_domain o) (plain_rows dtest alpha0 c unit)
                (sorted_rows dtest alpha0 ord c unit).
Proof. exact sorted_rows_stable. Qed.
Print Assumptions C17_rows_sorted_stably.

Theorem C17_rows_unsorted : forall dtest alpha0 ord c unit,
  ord = None -> sorted_rows dtest alpha0 ord c unit = plain_rows dtest alpha0 c unit.
Proof. exact sorted_rows_unordered. Qed.
Print Assumptions C17_rows_unsorted.

(** ** tables *)
Theorem C17_tables_follow_unit_order : forall dtest log_o exp_o alpha0 ord geo c ts,
  tables dtest log_o exp_o alpha0 ord geo c = Some ts ->
  map t_metric ts = map metric_of (filter (fun u => negb (is_empty (plain_rows dtest alpha0 c u))) (c_units c))
  /\ Forall2 (fun u t => table_of dtest log_o exp_o alpha0 ord geo c u = Some (Some t))
             (filter (fun u => negb (is_empty (plain_rows dtest alpha0 c u))) (c_units c)) ts.
Proof. exact tables_follow_unit_order. Qed.
Print Assumptions C17_tables_follow_unit_order.

Theorem C17_table_rows : forall dtest log_o exp_o alpha0 ord geo c unit t,
  table_of dtest log_o exp_o alpha0 ord geo c unit = Some (Some t) ->
  t_metric t = metric_of unit /\ t_oldnew t = oldnew c
  /\ t_configs t = c_configs c /\ t_groups t = c_groups c
  /\ sorted_rows dtest alpha0 ord c unit <> []
  /\ (t_rows t = sorted_rows dtest alpha0 ord c unit
      \/ exists r, geo = true /\ geomean_row log_o exp_o c unit = Some (Some r)
                   /\ t_rows t = sorted_rows dtest alpha0 ord c unit ++ [r]).
Proof. exact table_of_spec. Qed.
Print Assumptions C17_table_rows.

(** ** geomean row: per configuration stats.GeoMean of the non-zero means, taken
    over the existing statistics in first-appearance order *)
Theorem C17_geomean_of_nonzero_means : forall log_o exp_o c unit r,
  geomean_row log_o exp_o c unit = Some (Some r) ->
  w_bench r = s_geomean /\ w_group r = [] /\ w_note r = [] /\ w_change r = 0
  /\ Forall2 (fun cf m => geo_cell log_o exp_o unit (nonzero_means c unit cf) m) (c_configs c) (w_metrics r)
  /\ (exists cf, In cf (c_configs c) /\ (1 < length (nonzero_means c unit cf))%nat)
  /\ ((w_delta r = [] /\ w_pct r = f_zero)
      \/ (oldnew c = true /\ exists m0 m1, w_metrics r = [m0; m1]
          /\ w_pct r = pct_delta (m_mean m0) (m_mean m1) /\ w_delta r = fmt_delta (w_pct r))).
Proof. exact geomean_row_spec. Qed.
Print Assumptions C17_geomean_of_nonzero_means.

Theorem C17_nonzero_means : forall c unit cf,
  nonzero_means c unit cf =
  filter (fun x => negb (b64_eq x f_zero)) (map m_mean (present_stats c unit cf)).
Proof. exact nonzero_means_spec. Qed.
Print Assumptions C17_nonzero_means.

(** the geomean of a configuration is taken over ALL benchmarks of the
    collection that have statistics for that unit and configuration, in
    first-appearance order, whether or not the table shows a row for them (the
    statement does not restrict the geomean to the rows shown) *)
Theorem C17_geomean_over_all_benchmarks : forall c unit cf m,
  In m (present_stats c unit cf) <->
  exists gb, In gb (all_benchmarks c) /\ stat_of c (mkKey cf (fst gb) (snd gb) unit) = Some m.
Proof. exact present_stats_all. Qed.
Print Assumptions C17_geomean_over_all_benchmarks.

(** the direction rule of the code as it was (sign of the percentage) calls a
    rise from -10 to -5 ns/op an improvement; repaired by
    hooks/fix_c17_change_direction.diff (C17_delta_value_note_change above
    states the repaired rule: new mean < old mean, reversed for speed) *)
Theorem C17_direction_by_pct_sign_refuted :
  let o := b64_of_Z (-10) in let n := b64_of_Z (-5) in
  b64_lt o n = true /\ b64_lt (pct_delta o n) f_zero = true.
Proof. exact Proofs.LegacySpec.direction_by_pct_sign_refuted. Qed.
Print Assumptions C17_direction_by_pct_sign_refuted.

(** ** the declarative specification (Model/LegacySpec.v) the observed output is
    judged with: exact rationals, no operation of the code replayed.
    On a sample without infinities its quartiles are the textbook R8
    percentiles of the sorted sample (Model/StatsQ.percentile_q, bounded and
    monotone: Properties/C12.v) ... *)
Theorem C17_spec_quartiles_are_R8 : forall vals p,
  LegacySpec.sp_nneg vals = 0%Z ->
  Z.of_nat (length (LegacySpec.sp_sorted vals)) = LegacySpec.sp_N vals -> (0 < LegacySpec.sp_N vals)%Z ->
  QArith_base.Qle_bool p (QArith_base.inject_Z 0) = false -> QArith_base.Qle_bool (QArith_base.inject_Z 1) p = false ->
  LegacySpec.quantile_x vals p = Some (StatsQ.percentile_q (LegacySpec.sp_sorted vals) p).
Proof. exact Proofs.LegacySpec.quantile_x_finite. Qed.
Print Assumptions C17_spec_quartiles_are_R8.

(** ... its mean is sum/n of the retained values ... *)
Theorem C17_spec_mean_is_sum_div_n : forall rv,
  LegacySpec.mean_x rv
  = QArith_base.Qdiv (StatsQ.sum_q (map (fun x => QArith_base.inject_Z (B64Q.scaled_int (B64Q.min_exp rv) x)) rv))
                     (QArith_base.inject_Z (Z.of_nat (length rv))).
Proof. exact Proofs.LegacySpec.mean_x_is_sum_div_n. Qed.
Print Assumptions C17_spec_mean_is_sum_div_n.

(** ... which is what the code's recurrence m += (x - m)/(i+1) computes when
    nothing is rounded.  NOT proved: that the binary64 recurrence [mean_f] and
    the binary64 fence [fence] stay within the tolerances the judge grants
    (Model/LegacySpec.v header); that is tested on every generated sample
    (bin/props.d/C17.json modelled_not_verified). *)
Theorem C17_mean_recurrence_exact_is_sum_div_n : forall xs,
  xs <> [] -> QArith_base.Qeq (StatsQ.mean_inc_q (QArith_base.inject_Z 0) 0 xs) (StatsQ.mean_q xs).
Proof. exact Proofs.LegacySpec.mean_recurrence_exact. Qed.
Print Assumptions C17_mean_recurrence_exact_is_sum_div_n.

(** KNOWN FINDING C17_binary64_overflow (recorded, not repaired): on finite
    values near the top of the binary64 range (a) the mean is NaN although all
    four values are retained and sum/n = 0 ... *)
Theorem C17_mean_overflow_refuted :
  let vals := [Proofs.LegacySpec.big; b64_neg Proofs.LegacySpec.big; Proofs.LegacySpec.big; b64_neg Proofs.LegacySpec.big] in
  let m := compute_stats (bs "ns/op") vals in
  forallb b64_is_finite vals = true
  /\ m_rvalues m = vals
  /\ b64_is_nan (m_mean m) = true
  /\ LegacySpec.mean_value_spec (m_rvalues m) (m_mean m) = false
  /\ LegacySpec.mean_value_spec (m_rvalues m) f_zero = true
  /\ mean_no_overflow vals = false.
Proof. exact Proofs.LegacySpec.mean_overflow_refuted. Qed.
Print Assumptions C17_mean_overflow_refuted.

(** ... and (b) the fence is (+Inf, -Inf): none of three values inside the exact fence is retained *)
Theorem C17_fence_overflow_refuted :
  let vals := [Proofs.LegacySpec.big17; b64_neg Proofs.LegacySpec.big17; Proofs.LegacySpec.big17] in
  let m := compute_stats (bs "ns/op") vals in
  forallb b64_is_finite vals = true
  /\ fence vals = (S754_infinity false, S754_infinity true)
  /\ m_rvalues m = []
  /\ LegacySpec.retained_spec vals false (m_rvalues m) = false
  /\ LegacySpec.retained_spec vals false vals = true.
Proof. exact Proofs.LegacySpec.fence_overflow_refuted. Qed.
Print Assumptions C17_fence_overflow_refuted.

(** ** one collection, several reports
    A history is any sequence of AddConfig/AddFile/AddResults, Tables() and
    FormatText/FormatCSV/FormatHTML on one collection.  Every Tables() call
    reports on exactly the collection built from the configurations added
    before it, so every theorem above about [build split cfs] holds of each
    report of a history with [cfs] = the configurations added so far. *)
Theorem C17_history_reports : forall split ops,
  hist_reports split empty_coll ops = map (build split) (adds_before_reports [] ops).
Proof. intros split ops. exact (hist_reports_build split ops []). Qed.
Print Assumptions C17_history_reports.

(** one report per Tables() call *)
Theorem C17_history_one_report_per_call : forall ops acc,
  length (adds_before_reports acc ops)
  = length (filter (fun op => match op with HTables => true | _ => false end) ops).
Proof. exact adds_before_reports_length. Qed.
Print Assumptions C17_history_one_report_per_call.

(** Tables() and the Format functions leave the collection alone *)
Theorem C17_history_collection : forall split ops,
  hist_final split empty_coll ops = build split (hist_adds ops).
Proof. intros split ops. exact (hist_final_build split ops []). Qed.
Print Assumptions C17_history_collection.

(** computeStats as repaired (RValues emptied first) recomputes the statistics
    from Unit and Values alone, whatever an earlier call left behind ... *)
Theorem C17_compute_stats_again : forall u vals rv mn me mx,
  compute_stats_again (mkMstat u vals rv mn me mx) = compute_stats u vals.
Proof. exact compute_stats_again_ignores. Qed.
Print Assumptions C17_compute_stats_again.

Theorem C17_compute_stats_again_idempotent : forall m,
  compute_stats_again (compute_stats_again m) = compute_stats_again m.
Proof. exact compute_stats_again_idem. Qed.
Print Assumptions C17_compute_stats_again_idempotent.

(** ... while the code as it was (RValues appended to) agreed on the first
    call only: the second Tables() doubles the retained values (n=3+3 becomes
    n=6+6 and the p-value changes).  Defect of golang/perf, repaired by
    hooks/fix_c17_tables_twice.diff. *)
Theorem C17_compute_stats_old_first_call : forall u vals,
  compute_stats_old (fresh_mstat u vals) = compute_stats u vals.
Proof. exact compute_stats_old_fresh. Qed.
Print Assumptions C17_compute_stats_old_first_call.

Theorem C17_tables_twice_old_refuted :
  exists u vals,
    let m1 := compute_stats_old (fresh_mstat u vals) in
    let m2 := compute_stats_old m1 in
    m_values m2 = m_values m1 /\ length (m_rvalues m1) = 3%nat /\ length (m_rvalues m2) = 6%nat
    /\ m2 <> compute_stats u vals.
Proof. exact compute_stats_old_twice_refuted. Qed.
Print Assumptions C17_tables_twice_old_refuted.

(** ** non-vacuity: a concrete two-configuration collection with an outlier *)
Definition ex_f (z : Z) : b64 := b64_of_Z z.
Definition ex_result (v : Z) : result :=
  mkResult [] [] [bs "BenchmarkA"; bs "1"; bs "v"; bs "ns/op"] 1 [Some (ex_f v)].
Definition ex_cfs : list (bytes * list result) :=
  [(bs "old", map ex_result [10; 11; 12; 10; 100]); (bs "new", map ex_result [5; 6; 5; 6; 5])].
Definition ex_dtest (o n : mstat) : b64 * terr := (b64_div (ex_f 1) (ex_f 100), ENone).

Example C17_example_collection :
  (c_configs (build [] ex_cfs), c_units (build [] ex_cfs),
   option_map m_rvalues (stat_of (build [] ex_cfs) (mkKey (bs "old") [] (bs "A") (bs "ns/op"))))
  = ([bs "old"; bs "new"], [bs "ns/op"], Some (map ex_f [10; 11; 12; 10])).
Proof. vm_compute. reflexivity. Qed.

Example C17_example_tables :
  option_map (map (fun t => (t_metric t, map (fun r => (w_bench r, w_delta r, w_note r, w_change r)) (t_rows t))))
             (tables ex_dtest (fun _ => None) (fun _ => None) f_zero (Some (ByDelta, 1%nat)) false (build [] ex_cfs))
    = Some [(bs "time/op", [(bs "A", bs "-49.77%", bs "(p=0.010 n=4+5)", 1)])].
Proof. vm_compute. reflexivity. Qed.

Example C17_example_sort_domain :
  forallb (fun r => negb (b64_is_nan (delta_key r))) (plain_rows ex_dtest f_zero (build [] ex_cfs) (bs "ns/op")) = true.
Proof. vm_compute. reflexivity. Qed.

(** the hypotheses of C17_min_le_mean_le_max hold on a concrete sample, and its
    conclusion evaluates to true there; a sample whose differences overflow is
    rejected by the guard (and its mean indeed leaves the hull: it is NaN) *)
Example C17_example_mean_guard :
  let xs := map ex_f [10; 11; 12; 10] in
  (forallb (fun x => valid_binary 53 1024 x && b64_is_finite x) xs, mean_no_overflow xs,
   b64_le (fst (bounds_f xs)) (mean_f xs) && b64_le (mean_f xs) (snd (bounds_f xs)))
  = (true, true, true)
  /\ let big := b64_of_bits 0x7FEFFFFFFFFFFFFF in
     (mean_no_overflow [big; b64_neg big], b64_is_nan (mean_f [big; b64_neg big; big])) = (false, true).
Proof. vm_compute. split; reflexivity. Qed.

(** a history on the example collection: report, format, add "new", report again *)
Example C17_example_history :
  let ops := [HAdd (nth 0 ex_cfs ([], [])); HTables; HFormat 1; HAdd (nth 1 ex_cfs ([], [])); HTables; HTables] in
  (map c_configs (hist_reports [] empty_coll ops), adds_before_reports [] ops)
  = ([[bs "old"]; [bs "old"; bs "new"]; [bs "old"; bs "new"]],
     [firstn 1 ex_cfs; ex_cfs; ex_cfs]).
Proof. vm_compute. reflexivity. Qed.

(** the hypotheses of C17_spec_quartiles_are_R8 hold on the example sample; its
    exact quartiles are 10 and 124/3 (in units of 2^E) *)
Example C17_example_spec_quartiles :
  let vals := map ex_f [10; 11; 12; 10; 100] in
  (LegacySpec.sp_nneg vals, Z.of_nat (length (LegacySpec.sp_sorted vals)) =? LegacySpec.sp_N vals, 0 <? LegacySpec.sp_N vals,
   QArith_base.Qle_bool (QArith_base.Qmake 1 4) (QArith_base.inject_Z 0), QArith_base.Qle_bool (QArith_base.inject_Z 1) (QArith_base.Qmake 1 4),
   match LegacySpec.quantile_x vals (QArith_base.Qmake 1 4), LegacySpec.quantile_x vals (QArith_base.Qmake 3 4) with
   | Some q1, Some q3 =>
       QArith_base.Qeq_bool (QArith_base.Qmult q1 (LegacySpec.pow2Q (LegacySpec.sp_E vals))) (QArith_base.Qmake 10 1)
       && QArith_base.Qeq_bool (QArith_base.Qmult q3 (LegacySpec.pow2Q (LegacySpec.sp_E vals))) (QArith_base.Qmake 124 3)
   | _, _ => false
   end)
  = (0, true, true, false, false, true).
Proof. vm_compute. reflexivity. Qed.
