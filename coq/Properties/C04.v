(** C04 — Measurements are normalised to base units for every value, original kept.
    Statements only; proofs are in Proofs/Units.v.

    [is_space] stands for unicode.IsSpace. The only fact about it that is
    used is its value on ASCII ([ascii_ok]); the concrete table the model is
    evaluated with satisfies it ([C04_hypothesis_satisfiable]) and is compared
    with the toolchain's unicode package on every run. *)
From Perf Require Import Base.Bytes Base.B64 Base.Utf8 Base.Unicode Model.Units Model.UnitsSpec Model.UnitsMeta Proofs.Units Proofs.UnitsSpec Proofs.UnitsMeta.
Local Open Scope N_scope.

Definition ascii_ok (is_space : N -> bool) : Prop :=
  forall r, r < 128 -> is_space r = ascii_space r.

(** the unit every reader-produced value carries is the tidied unit, for
    EVERY value v (0, -0, +/-Inf, NaN included: v is not inspected) *)
Theorem C04_reader_unit_always_tidy : forall is_space v u,
  v_unit (read_value is_space v u) = fst (tidy_unit is_space u).
Proof. exact reader_unit_always_tidy. Qed.
Print Assumptions C04_reader_unit_always_tidy.

(** so two measurements of one metric can never be reported under two unit names *)
Theorem C04_one_metric_one_unit : forall is_space v1 v2 u,
  v_unit (read_value is_space v1 u) = v_unit (read_value is_space v2 u).
Proof. exact one_metric_one_unit. Qed.
Print Assumptions C04_one_metric_one_unit.

(** tidyUnit returns exactly the tokenwise rewrite: numerator tokens "ns"/"MB"
    become "sec"/"B", every other byte (separators, denominators, longer
    words containing ns/MB) is untouched *)
Theorem C04_tidy_is_tokenwise_rewrite : forall is_space, ascii_ok is_space ->
  forall u, fst (tidy_unit is_space u) = spec_unit is_space u.
Proof. exact tidy_is_tokenwise_rewrite. Qed.
Print Assumptions C04_tidy_is_tokenwise_rewrite.

(** the factor is the float product, in token order, of /1e9 per "ns" and *1e6 per "MB" *)
Theorem C04_factor_is_product : forall is_space, ascii_ok is_space ->
  forall u, snd (tidy_unit is_space u) = fold_left apply_scale (spec_scales is_space u) b64_one.
Proof. exact factor_is_product. Qed.
Print Assumptions C04_factor_is_product.

(** the literal fast paths and the substring guard agree with the general path *)
Theorem C04_fastpath_eq_slowpath : forall is_space, ascii_ok is_space ->
  forall u, tidy_unit is_space u = tidy_uncached is_space u.
Proof. exact fastpath_eq_slowpath. Qed.
Print Assumptions C04_fastpath_eq_slowpath.

(** the position-based editing of tidyUnitUncached is the tokenwise rewrite (no hypothesis) *)
Theorem C04_uncached_is_tokenwise_rewrite : forall is_space u,
  tidy_uncached is_space u = (spec_unit is_space u, spec_factor is_space u).
Proof. exact tidy_uncached_spec. Qed.
Print Assumptions C04_uncached_is_tokenwise_rewrite.

(** normalising a normalised unit: same unit, factor exactly 1 *)
Theorem C04_tidy_idempotent : forall is_space, ascii_ok is_space ->
  forall u, tidy_unit is_space (fst (tidy_unit is_space u)) = (fst (tidy_unit is_space u), b64_one).
Proof. exact tidy_idempotent. Qed.
Print Assumptions C04_tidy_idempotent.

(** the whole reported value, in the code's evaluation order (unit = tokenwise
    rewrite, value = v times the accumulated factor, original pair kept iff
    rewritten).  This ties the model to the rewrite; the DECLARATIVE statement
    of the value clause is [value_ok] below *)
Theorem C04_reader_value_is_spec : forall is_space, ascii_ok is_space ->
  forall v u, read_value is_space v u = spec_value is_space v u.
Proof. exact read_value_spec. Qed.
Print Assumptions C04_reader_value_is_spec.

Theorem C04_orig_kept_iff_rewritten : forall is_space, ascii_ok is_space ->
  forall v u,
  let r := read_value is_space v u in
  (spec_unit is_space u = u /\ r = mkValue v u b64_zero []) \/
  (spec_unit is_space u <> u /\ u <> [] /\
   r = mkValue (b64_mul v (spec_factor is_space u)) (spec_unit is_space u) v u).
Proof. exact orig_kept_iff_rewritten. Qed.
Print Assumptions C04_orig_kept_iff_rewritten.


(** ** the declarative specification (Model/UnitsSpec.v), which is what the
    executable judge [Corr.RunC04.prop_ok] checks on the real code's output:
    unit = tokenwise rewrite; original pair kept iff rewritten; untouched when
    nothing is to normalise; value = the REAL product v * 10^(6 #MB - 9 #ns) up
    to [tol_ulps] units in the last place (no evaluation order prescribed),
    NaN / zeros / infinities fixed.

    Every clause but the value clause, for ALL values and units: *)
Theorem C04_report_meets_spec_given_value_clause : forall is_space, ascii_ok is_space ->
  forall (vj : b64 -> bytes -> b64 -> bool) v u,
  vj v u (b64_mul v (spec_factor is_space u)) = true ->
  let r := read_value is_space v u in
  report_ok is_space vj v u (v_val r, v_unit r, v_oval r, v_ounit r) = true.
Proof. exact report_ok_model. Qed.
Print Assumptions C04_report_meets_spec_given_value_clause.

(** the filter clause of the judge ([named]) is the model's [unit_match] *)
Theorem C04_named_is_unit_match : forall is_space, ascii_ok is_space ->
  forall (mt : bytes -> bool) v u,
  unit_match mt (read_value is_space v u) = named is_space mt u.
Proof. exact named_is_unit_match. Qed.
Print Assumptions C04_named_is_unit_match.

(** the value clause: NaN, for every unit *)
Theorem C04_value_nan : forall is_space relax u,
  value_ok is_space relax S754_nan u (b64_mul S754_nan (spec_factor is_space u)) = true.
Proof. exact value_ok_nan. Qed.
Print Assumptions C04_value_nan.

(** the value clause: zeros and infinities, whenever the accumulated factor is
    a finite positive non-zero number (satisfiable: [factor_hypothesis_satisfiable]) *)
Theorem C04_value_zero_inf_partial : forall is_space u m e v,
  spec_factor is_space u = S754_finite false m e ->
  b64_is_zero v = true \/ b64_is_inf v = true ->
  value_ok is_space false v u (b64_mul v (spec_factor is_space u)) = true.
Proof. exact value_ok_zero_inf. Qed.
Print Assumptions C04_value_zero_inf_partial.

(** the value clause does NOT hold for all units (known finding
    C04_scale_factor_out_of_range): with 52 "MB" numerator components the
    accumulated factor is +Inf and the value 0 is reported as NaN; the relaxed
    judge [value_ok .. true] of the finding accepts exactly that product.
    More witnesses: [value_scaling_refuted_witnesses] (evaluated).
    NOT proved: the value clause for finite non-zero values while the factor
    stays in the normal range (a rounding-error bound of n+1 IEEE operations);
    it is judged on every generated case instead. *)
Theorem C04_value_scaling_refuted :
  exists v u, value_ok go_is_space false v u (v_val (read_value go_is_space v u)) = false
           /\ value_ok go_is_space true v u (v_val (read_value go_is_space v u)) = true.
Proof. exact value_scaling_refuted. Qed.
Print Assumptions C04_value_scaling_refuted.

(** unit metadata is found whether the written or the base unit is named *)
Theorem C04_metadata_lookup_either_unit : forall is_space, ascii_ok is_space ->
  forall m u k, units_get is_space m u k = units_get is_space m (fst (tidy_unit is_space u)) k.
Proof. exact metadata_lookup_either_unit. Qed.
Print Assumptions C04_metadata_lookup_either_unit.


(** GetBetter and GetAssumption answer the same whether the written or the base
    unit is named - with metadata and without (built-in defaults).  GetBetter
    is modelled as REPAIRED (hooks/fix_c04_getbetter_default_tidied.diff) *)
Theorem C04_get_better_either_unit : forall is_space, ascii_ok is_space ->
  forall m u, get_better is_space m u = get_better is_space m (fst (tidy_unit is_space u)).
Proof. exact get_better_either_unit. Qed.
Print Assumptions C04_get_better_either_unit.

Theorem C04_get_assumption_either_unit : forall is_space, ascii_ok is_space ->
  forall m u, get_assume_exact is_space m u = get_assume_exact is_space m (fst (tidy_unit is_space u)).
Proof. exact get_assume_either_unit. Qed.
Print Assumptions C04_get_assumption_either_unit.

(** before the repair the defaults were looked up by the unit as given:
    GetBetter("MB/op") = 0, GetBetter("B/op") = -1 *)
Theorem C04_get_better_old_refuted :
  exists m u, get_better_old go_is_space m u <> get_better_old go_is_space m (fst (tidy_unit go_is_space u)).
Proof. exact get_better_old_refuted. Qed.
Print Assumptions C04_get_better_old_refuted.

(** a [.unit] term keeps a value iff it matches the base unit or the written unit *)
Theorem C04_unit_filter_either : forall is_space, ascii_ok is_space ->
  forall (m : bytes -> bool) v u,
  unit_match m (read_value is_space v u) = m (spec_unit is_space u) || m u.
Proof. exact unit_filter_either. Qed.
Print Assumptions C04_unit_filter_either.

(** a value list / regexp alternative judges each measurement independently:
    [.unit:(a OR b)] keeps a measurement iff [.unit:a] or [.unit:b] keeps it,
    and a result line keeps exactly its matching measurements (it survives iff one does) *)
Theorem C04_unit_filter_list : forall (m1 m2 : bytes -> bool) v,
  unit_match (fun u => m1 u || m2 u) v = unit_match m1 v || unit_match m2 v.
Proof. exact unit_match_or. Qed.
Print Assumptions C04_unit_filter_list.

Theorem C04_unit_filter_per_measurement : forall (m : bytes -> bool) vals,
  fst (unit_filter_apply m vals) = filter (unit_match m) vals /\
  snd (unit_filter_apply m vals) = existsb (unit_match m) vals.
Proof. exact unit_filter_apply_pointwise. Qed.
Print Assumptions C04_unit_filter_per_measurement.

(** record of the repaired defect: deciding on [tidyVal == val] kept "ns/op" for 0 *)
Theorem C04_old_decision_refuted :
  exists v u, v_unit (read_value_old go_is_space v u) <> fst (tidy_unit go_is_space u).
Proof. exact read_value_old_refuted. Qed.
Print Assumptions C04_old_decision_refuted.

(** non-vacuity *)
Example C04_hypothesis_satisfiable : ascii_ok go_is_space.
Proof. exact go_is_space_ascii. Qed.

Example C04_example :
  tidy_unit go_is_space (bs "MB*ns/ns-xns ns") = (bs "B*sec/ns-xns ns", b64_of_bits 0x3F50624DD2F1A9FC) /\
  spec_scales go_is_space (bs "MB*ns/ns-xns ns") = [ScMB; ScNs] /\
  v_unit (read_value go_is_space (S754_infinity false) (bs "ns/op")) = bs "sec/op" /\
  v_ounit (read_value go_is_space (S754_zero true) (bs "ns/op")) = bs "ns/op" /\
  tidy_unit go_is_space (hx "6e73c2a06f70") = (hx "736563c2a06f70", f_1em9).
Proof. vm_compute. repeat split. Qed.
