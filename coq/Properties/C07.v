(** C07 — Any string is expressible in expression syntax; bad expressions fail
    cleanly. Statements only; proofs are in Proofs/Unquote.v, Proofs/Tok.v,
    Proofs/FilterParse.v, Proofs/ProjParse.v.

    [is_space] stands for unicode.IsSpace and [re_ok] for "regexp.Compile
    succeeds"; the theorems hold for every such pair of functions, the
    expressibility theorems under the single fact that the double quote is not
    a space. [cquote s] is the canonical double-quoted Go literal of [s]
    (backslash-escape the quote and the backslash, \xHH for every byte outside
    0x20..0x7e). *)
From Perf Require Import Base.Bytes Base.Rune Model.Unquote Model.Tok Model.FilterAst
  Model.FilterParse Model.ProjParse Proofs.Unquote Proofs.Tok Proofs.FilterParse Proofs.ProjParse.

(** the model of strconv.Unquote undoes the canonical quoting of any byte string *)
Theorem C07_unquote_cquote : forall s, unquote (cquote s) = Some s.
Proof. exact unquote_cquote. Qed.
Print Assumptions C07_unquote_cquote.

(** tokenising the canonical quoting of ANY byte string [s], followed by ANY
    text, yields the quoted word [s] and leaves exactly that text *)
Theorem C07_quoted_word_roundtrip :
  forall (is_space : N -> bool) (re_ok : bytes -> bool) (n0 : nat),
  is_space 34%N = false ->
  forall allow_regexp s rest e,
  next is_space re_ok n0 allow_regexp (cquote s ++ rest) e =
  (mkTok KQuoted (off_of n0 (cquote s ++ rest)) s, rest, cquote s ++ rest, e).
Proof. exact quoted_word_roundtrip. Qed.
Print Assumptions C07_quoted_word_roundtrip.

(** hence "k":"v" parses, as a filter, to the match of key k against literal v *)
Theorem C07_filter_denotes_string :
  forall is_space re_ok, is_space 34%N = false ->
  forall k v,
  parse_filter is_space re_ok (cquote k ++ c_colon :: cquote v) = Ok (FMatch k (MLit v) 0).
Proof. exact filter_denotes_string. Qed.
Print Assumptions C07_filter_denotes_string.

(** ... and benchproc.NewFilter accepts it unless the key is empty or .config *)
Theorem C07_new_filter_denotes_string :
  forall is_space re_ok, is_space 34%N = false ->
  forall k v, k <> [] -> k <> key_config ->
  new_filter is_space re_ok (cquote k ++ c_colon :: cquote v) = Ok (FMatch k (MLit v) 0).
Proof. exact new_filter_denotes_string. Qed.
Print Assumptions C07_new_filter_denotes_string.

(** "k" parses, as a projection, to the single field k in first-observation order *)
Theorem C07_projection_denotes_string :
  forall is_space re_ok, is_space 34%N = false ->
  forall k,
  parse_projection is_space re_ok (cquote k) = Ok [mkField k ord_first [] 0 (length k)].
Proof. exact projection_denotes_string. Qed.
Print Assumptions C07_projection_denotes_string.

Theorem C07_new_projection_denotes_string :
  forall is_space re_ok, is_space 34%N = false ->
  forall k, k <> [] -> k <> key_unit ->
  new_projection is_space re_ok (cquote k) = Ok [mkField k ord_first [] 0 (length k)].
Proof. exact new_projection_denotes_string. Qed.
Print Assumptions C07_new_projection_denotes_string.

(** an unquoted word denotes exactly its bytes: if, in the text w ++ rest, the
    word w splits into whole runes none of which is a space, an operator
    character or the blank (invalid bytes count as one-byte runes, so letters
    whose UTF-8 encoding contains 0x85 or 0xA0 are ordinary), w does not start
    with an operator start, a quote or (for a value) a slash, is not AND / OR,
    and rest is empty or starts with a space or an operator, then the next
    token is the word w and what follows is exactly rest *)
Theorem C07_bare_word_ok :
  forall (is_space : N -> bool) (re_ok : bytes -> bool) (n0 : nat) allow_regexp c w rest e,
  runes_in is_space rest (c :: w) -> word_stop is_space rest ->
  is_start_op c = false -> c <> c_dquote -> (allow_regexp = true -> c <> c_fslash) ->
  c :: w <> word_AND -> c :: w <> word_OR ->
  next is_space re_ok n0 allow_regexp ((c :: w) ++ rest) e =
  (mkTok KWord (off_of n0 ((c :: w) ++ rest)) (c :: w), rest, (c :: w) ++ rest, e).
Proof. exact bare_word_ok. Qed.
Print Assumptions C07_bare_word_ok.

(** non-vacuity: x, a-grave (c3 a0), U+5165 (e5 85 a5), then a colon *)
Example C07_bare_example :
  runes_in go_is_space [c_colon; x76] [x78; xc3; xa0; xe5; x85; xa5] /\
  word_stop go_is_space [c_colon; x76] /\
  parse_filter go_is_space (fun _ => true) ([x78; xc3; xa0; xe5; x85; xa5] ++ [c_colon; x76])
    = Ok (FMatch [x78; xc3; xa0; xe5; x85; xa5] (MLit [x76]) 0).
Proof.
  split; [|split; [right; reflexivity | vm_compute; reflexivity]].
  apply (runes_cons go_is_space _ [x78] [xc3; xa0; xe5; x85; xa5] 120%N); try reflexivity; [discriminate|].
  apply (runes_cons go_is_space _ [xc3; xa0] [xe5; x85; xa5] 224%N); try reflexivity; [discriminate|].
  apply (runes_cons go_is_space _ [xe5; x85; xa5] [] 20837%N); try reflexivity; [discriminate|].
  constructor.
Qed.

(** parsing any text whatsoever ends with a tree or an error: the fuel of the
    recursive-descent model never runs out, including on the paths the code
    takes after it has recorded a syntax error *)
Theorem C07_parse_filter_total :
  forall is_space re_ok q, parse_filter is_space re_ok q <> OutOfFuel.
Proof. exact parse_filter_total. Qed.
Print Assumptions C07_parse_filter_total.

Theorem C07_parse_projection_total :
  forall is_space re_ok q, parse_projection is_space re_ok q <> OutOfFuel.
Proof. exact parse_projection_total. Qed.
Print Assumptions C07_parse_projection_total.

(** a syntax error is positioned inside the text *)
Theorem C07_filter_error_offset_in_range :
  forall is_space re_ok q off, parse_filter is_space re_ok q = Err off -> off <= length q.
Proof. exact parse_filter_error_offset. Qed.
Print Assumptions C07_filter_error_offset_in_range.

Theorem C07_projection_error_offset_in_range :
  forall is_space re_ok q off, parse_projection is_space re_ok q = Err off -> off <= length q.
Proof. exact parse_projection_error_offset. Qed.
Print Assumptions C07_projection_error_offset_in_range.

(** non-vacuity: Go's unicode.IsSpace (the table the correspondence run
    re-checks) satisfies the hypothesis; concrete instances, including the
    string that the unrepaired end-quote scan rejected (a\ : quoted "a\\") *)
Example C07_hypothesis_holds : go_is_space 34%N = false.
Proof. reflexivity. Qed.

Example C07_example_backslash :
  cquote (bs "a\") = [x22; x61; x5c; x5c; x22] /\
  parse_filter go_is_space (fun _ => true) (bs ".name:" ++ cquote (bs "a\"))
    = Ok (FMatch (bs ".name") (MLit (bs "a\")) 0).
Proof. split; reflexivity. Qed.

Example C07_example_errors :
  parse_filter go_is_space (fun _ => true) (bs "(a:b") = Err 4 /\
  parse_filter go_is_space (fun _ => true) (bs "a:""b") = Err 2 /\
  parse_filter go_is_space (fun _ => true) (bs "a:/b") = Err 2 /\
  parse_projection go_is_space (fun _ => true) (bs "a@()") = Err 3 /\
  new_projection go_is_space (fun _ => true) (bs "a@bogus") = Err 2 /\
  new_projection go_is_space (fun _ => true) (bs ".unit") = Err 0 /\
  new_filter go_is_space (fun _ => true) (bs "a:b .config:c") = Err 4.
Proof. repeat split; vm_compute; reflexivity. Qed.
