(** C07 — Any string is expressible in expression syntax; bad expressions fail
    cleanly. Statements only; proofs are in Proofs/Unquote.v, Proofs/Tok.v,
    Proofs/FilterParse.v, Proofs/ProjParse.v, Proofs/TokStream.v,
    Proofs/FilterReject.v, Proofs/ProjReject.v, Proofs/ReDelim.v,
    Proofs/ExprSpec.v (declarative clauses of Model/ExprSpec.v).

    [is_space] stands for unicode.IsSpace and [re_ok] for "regexp.Compile
    succeeds"; the theorems hold for every such pair of functions, the
    expressibility theorems under the single fact that the double quote is not
    a space. [cquote s] is the canonical double-quoted Go literal of [s]
    (backslash-escape the quote and the backslash, \xHH for every byte outside
    0x20..0x7e). *)
From Perf Require Import Base.Bytes Base.Rune Model.Unquote Model.Tok Model.FilterAst
  Model.FilterParse Model.ProjParse Proofs.Unquote Proofs.Tok Proofs.FilterParse Proofs.ProjParse
  Proofs.TokStream Proofs.FilterReject Proofs.ProjReject Proofs.ReDelim
  Model.ExprSpec Proofs.ExprSpec.

(** the model of strconv.Unquote undoes the canonical quoting of any byte string *)
Theorem C07_unquote_cquote : forall s, unquote (cquote s) = Some s.
Proof. exact unquote_cquote. Qed.
Print Assumptions C07_unquote_cquote.

(** tokenising the canonical quoting of ANY byte string [s], followed by ANY
    text, yields the quoted word [s] and leaves exactly that text *)
Theorem C07_quoted_word_roundtrip :
  forall (is_space : N -> bool) (re_ok : bytes -> bool) (n0 : nat),
  is_space 34%N = false ->
  forall allow_regexp s rest e,
  next is_space re_ok n0 allow_regexp (cquote s ++ rest) e =
  (mkTok KQuoted (off_of n0 (cquote s ++ rest)) s, rest, cquote s ++ rest, e).
Proof. exact quoted_word_roundtrip. Qed.
Print Assumptions C07_quoted_word_roundtrip.

(** hence "k":"v" parses, as a filter, to the match of key k against literal v *)
Theorem C07_filter_denotes_string :
  forall is_space re_ok, is_space 34%N = false ->
  forall k v,
  parse_filter is_space re_ok (cquote k ++ c_colon :: cquote v) = Ok (FMatch k (MLit v) 0).
Proof. exact filter_denotes_string. Qed.
Print Assumptions C07_filter_denotes_string.

(** ... and benchproc.NewFilter accepts it unless the key is .config -- or
    empty: the statement promises ANY key string, the code refuses the empty
    one (known finding C07_empty_key_refused, [C07_any_key_usable_refuted]
    below) *)
Theorem C07_new_filter_denotes_string :
  forall is_space re_ok, is_space 34%N = false ->
  forall k v, k <> [] -> k <> key_config ->
  new_filter is_space re_ok (cquote k ++ c_colon :: cquote v) = Ok (FMatch k (MLit v) 0).
Proof. exact new_filter_denotes_string. Qed.
Print Assumptions C07_new_filter_denotes_string.

(** "k" parses, as a projection, to the single field k in first-observation order *)
Theorem C07_projection_denotes_string :
  forall is_space re_ok, is_space 34%N = false ->
  forall k,
  parse_projection is_space re_ok (cquote k) = Ok [mkField k ord_first [] 0 (length k)].
Proof. exact projection_denotes_string. Qed.
Print Assumptions C07_projection_denotes_string.

Theorem C07_new_projection_denotes_string :
  forall is_space re_ok, is_space 34%N = false ->
  forall k, k <> [] -> k <> key_unit ->
  new_projection is_space re_ok (cquote k) = Ok [mkField k ord_first [] 0 (length k)].
Proof. exact new_projection_denotes_string. Qed.
Print Assumptions C07_new_projection_denotes_string.

(** KNOWN FINDING C07_empty_key_refused: "any key string whatsoever can be
    used": not the empty one.  The syntax layer reads "":"v" and "" as the
    statement says, the semantic layer (NewFilter, ProjectionParser.Parse)
    refuses both at offset 0 -- and the statement lists only .config in a
    filter and .unit in a projection as refused. *)
Example C07_any_key_usable_refuted :
  exists k v : bytes,
    k <> key_config /\ k <> key_unit
    /\ parse_filter go_is_space (fun _ => true) (cquote k ++ c_colon :: cquote v) = Ok (FMatch k (MLit v) 0)
    /\ new_filter go_is_space (fun _ => true) (cquote k ++ c_colon :: cquote v) = Err 0
    /\ parse_projection go_is_space (fun _ => true) (cquote k) = Ok [mkField k ord_first [] 0 (length k)]
    /\ new_projection go_is_space (fun _ => true) (cquote k) = Err 0.
Proof.
  exists [], [x76]. split; [discriminate|]. split; [discriminate|].
  repeat split; vm_compute; reflexivity.
Qed.

(** an unquoted word denotes exactly its bytes: if, in the text w ++ rest, the
    word w splits into whole runes none of which is a space, an operator
    character or the blank (invalid bytes count as one-byte runes, so letters
    whose UTF-8 encoding contains 0x85 or 0xA0 are ordinary), w does not start
    with an operator start, a quote or (for a value) a slash, is not AND / OR,
    and rest is empty or starts with a space or an operator, then the next
    token is the word w and what follows is exactly rest *)
Theorem C07_bare_word_ok :
  forall (is_space : N -> bool) (re_ok : bytes -> bool) (n0 : nat) allow_regexp c w rest e,
  runes_in is_space rest (c :: w) -> word_stop is_space rest ->
  is_start_op c = false -> c <> c_dquote -> (allow_regexp = true -> c <> c_fslash) ->
  c :: w <> word_AND -> c :: w <> word_OR ->
  next is_space re_ok n0 allow_regexp ((c :: w) ++ rest) e =
  (mkTok KWord (off_of n0 ((c :: w) ++ rest)) (c :: w), rest, (c :: w) ++ rest, e).
Proof. exact bare_word_ok. Qed.
Print Assumptions C07_bare_word_ok.

(** non-vacuity: x, a-grave (c3 a0), U+5165 (e5 85 a5), then a colon *)
Example C07_bare_example :
  runes_in go_is_space [c_colon; x76] [x78; xc3; xa0; xe5; x85; xa5] /\
  word_stop go_is_space [c_colon; x76] /\
  parse_filter go_is_space (fun _ => true) ([x78; xc3; xa0; xe5; x85; xa5] ++ [c_colon; x76])
    = Ok (FMatch [x78; xc3; xa0; xe5; x85; xa5] (MLit [x76]) 0).
Proof.
  split; [|split; [right; reflexivity | vm_compute; reflexivity]].
  apply (runes_cons go_is_space _ [x78] [xc3; xa0; xe5; x85; xa5] 120%N); try reflexivity; [discriminate|].
  apply (runes_cons go_is_space _ [xc3; xa0] [xe5; x85; xa5] 224%N); try reflexivity; [discriminate|].
  apply (runes_cons go_is_space _ [xe5; x85; xa5] [] 20837%N); try reflexivity; [discriminate|].
  constructor.
Qed.

(** "whenever it contains none of the DOCUMENTED special characters": which
    characters those are is read from the package documentation
    (Model/ExprSpec.v: [docsyn], [doc_bare]).  The documentation of golang/perf
    named only the blank and ( ) : @ , as ending a word ([doc_pinned]), while
    the tokenizer ends a word at every Unicode white space ([C07_bare_word_ok]
    needs [runes_in], which excludes them): under that documentation the word
    a TAB b is promised to work and does not.  Repaired in the documentation
    (hooks/fix_c07_doc_bareword_white_space.diff, [doc_repaired]): such a word
    is no longer promised. *)
Example C07_pinned_documentation_refuted :
  exists w : bytes,
    doc_bare go_is_space doc_pinned true w = true
    /\ doc_bare go_is_space doc_pinned false w = true
    /\ parse_filter go_is_space (fun _ => true) (bs "k:" ++ w) = Err 4
    /\ parse_filter go_is_space (fun _ => true) (w ++ bs ":v") = Err 0
    /\ parse_projection go_is_space (fun _ => true) w = Ok [mkField [x61] ord_first [] 0 1; mkField [x62] ord_first [] 2 3]
    /\ doc_bare go_is_space doc_repaired true w = false
    /\ doc_bare go_is_space doc_repaired false w = false.
Proof. exists [x61; x09; x62]. repeat split; vm_compute; reflexivity. Qed.

(** the same for the other white space the documentation did not name: U+0085
    (c2 85), U+00A0 (c2 a0), U+2003 (e2 80 83), line feed *)
Example C07_pinned_documentation_refuted_more :
  forallb (fun sp : bytes =>
    let w := x61 :: sp ++ [x62] in
    doc_bare go_is_space doc_pinned true w
    && negb (doc_bare go_is_space doc_repaired true w)
    && match parse_filter go_is_space (fun _ => true) (bs "k:" ++ w) with Err _ => true | _ => false end)
    [[xc2; x85]; [xc2; xa0]; [xe2; x80; x83]; [x0a]] = true.
Proof. vm_compute. reflexivity. Qed.

(** parsing any text whatsoever ends with a tree or an error: the fuel of the
    recursive-descent model never runs out, including on the paths the code
    takes after it has recorded a syntax error *)
Theorem C07_parse_filter_total :
  forall is_space re_ok q, parse_filter is_space re_ok q <> OutOfFuel.
Proof. exact parse_filter_total. Qed.
Print Assumptions C07_parse_filter_total.

Theorem C07_parse_projection_total :
  forall is_space re_ok q, parse_projection is_space re_ok q <> OutOfFuel.
Proof. exact parse_projection_total. Qed.
Print Assumptions C07_parse_projection_total.

(** a syntax error is positioned inside the text *)
Theorem C07_filter_error_offset_in_range :
  forall is_space re_ok q off, parse_filter is_space re_ok q = Err off -> off <= length q.
Proof. exact parse_filter_error_offset. Qed.
Print Assumptions C07_filter_error_offset_in_range.

Theorem C07_projection_error_offset_in_range :
  forall is_space re_ok q off, parse_projection is_space re_ok q = Err off -> off <= length q.
Proof. exact parse_projection_error_offset. Qed.
Print Assumptions C07_projection_error_offset_in_range.

(** non-vacuity: Go's unicode.IsSpace (the table the correspondence run
    re-checks) satisfies the hypothesis; concrete instances, including the
    string that the unrepaired end-quote scan rejected (a\ : quoted "a\\") *)
Example C07_hypothesis_holds : go_is_space 34%N = false.
Proof. reflexivity. Qed.

Example C07_example_backslash :
  cquote (bs "a\") = [x22; x61; x5c; x5c; x22] /\
  parse_filter go_is_space (fun _ => true) (bs ".name:" ++ cquote (bs "a\"))
    = Ok (FMatch (bs ".name") (MLit (bs "a\")) 0).
Proof. split; reflexivity. Qed.

Example C07_example_errors :
  parse_filter go_is_space (fun _ => true) (bs "(a:b") = Err 4 /\
  parse_filter go_is_space (fun _ => true) (bs "a:""b") = Err 2 /\
  parse_filter go_is_space (fun _ => true) (bs "a:/b") = Err 2 /\
  parse_projection go_is_space (fun _ => true) (bs "a@()") = Err 3 /\
  new_projection go_is_space (fun _ => true) (bs "a@bogus") = Err 2 /\
  new_projection go_is_space (fun _ => true) (bs ".unit") = Err 0 /\
  new_filter go_is_space (fun _ => true) (bs "a:b .config:c") = Err 4.
Proof. repeat split; vm_compute; reflexivity. Qed.

(** * What is always rejected

    The clauses are stated over ALL texts through the tokenizer's own token
    stream: parentheses, colons, "@" inside a quoted word or a regexp are part
    of that word's token and do not count. The parser asks the tokenizer for a
    value token (a leading slash starts a regexp) right after a colon and
    inside a value list k:(...), for a key-or-operator token everywhere else;
    [filter_tokens q] is the resulting token stream as a function of the text
    alone ([LexOk ts], or the first lexical fault with its offset), and
    [filter_lexes q ts st r] says the tokenizer reads the tokens [ts] from [q]
    without a fault, is then in mode [st] and has [r] left. Projections are
    read in key-or-operator mode throughout ([proj_tokens], [proj_lexes]).
    [rejected res q] = [exists off, res = Err off /\ off <= length q]. *)

(** the master theorems. A text the filter parser accepts has no lexical
    fault; its token stream is accepted by the one-counter automaton [dstep]
    (Proofs/FilterReject.v: operand and operator positions, key : value,
    value lists, depth of the group parentheses); every key token is a key of
    the tree; every offset stored in the tree lies inside the text *)
Theorem C07_parse_filter_sound :
  forall is_space re_ok q x,
  parse_filter is_space re_ok q = Ok x ->
  exists ts, filter_tokens is_space re_ok q = LexOk ts /\ accepts ts = true
    /\ incl (dkeys (DO, 0) ts) (fkeys x) /\ Forall (fun o => o <= length q) (foffs x).
Proof. exact parse_filter_sound. Qed.
Print Assumptions C07_parse_filter_sound.

(** a text the projection parser accepts has no lexical fault and the
    automaton with output [pstep] (Proofs/ProjReject.v: key, key@word,
    key@(word+), optional commas between fields) maps its token stream to
    exactly the fields returned *)
Theorem C07_parse_projection_sound :
  forall is_space re_ok q l,
  parse_projection is_space re_ok q = Ok l ->
  exists ts, proj_tokens is_space re_ok q = LexOk ts /\ proj_fields ts = Some l.
Proof. exact parse_projection_sound. Qed.
Print Assumptions C07_parse_projection_sound.

(** any lexical fault (missing end quote, bad escape, missing closing slash,
    regexp that does not compile, regexp not followed by space/operator) *)
Theorem C07_rejects_lexical_fault :
  forall is_space re_ok q why off,
  filter_tokens is_space re_ok q = LexErr why off -> rejected (parse_filter is_space re_ok q) q.
Proof. exact rejects_lexical_fault. Qed.
Print Assumptions C07_rejects_lexical_fault.

Theorem C07_rejects_lexical_fault_projection :
  forall is_space re_ok q why off,
  proj_tokens is_space re_ok q = LexErr why off -> rejected (parse_projection is_space re_ok q) q.
Proof. exact proj_rejects_lexical_fault. Qed.
Print Assumptions C07_rejects_lexical_fault_projection.

(** ** rejects_unbalanced: [balanced ts] = scanning the tokens, the number of
    open parentheses never goes below zero and is zero at the end *)
Theorem C07_rejects_unbalanced :
  forall is_space re_ok q ts,
  filter_tokens is_space re_ok q = LexOk ts -> balanced ts = false ->
  rejected (parse_filter is_space re_ok q) q.
Proof. exact rejects_unbalanced. Qed.
Print Assumptions C07_rejects_unbalanced.

Theorem C07_rejects_unbalanced_projection :
  forall is_space re_ok q ts,
  proj_tokens is_space re_ok q = LexOk ts -> balanced ts = false ->
  rejected (parse_projection is_space re_ok q) q.
Proof. exact proj_rejects_unbalanced. Qed.
Print Assumptions C07_rejects_unbalanced_projection.

(** "(a:b" is unbalanced and rejected; the parenthesis in  a:"("  and in
    a:/[(]/  is inside a word / a regexp: those texts are balanced and accepted *)
Example C07_unbalanced_example :
  let sp := go_is_space in let re := fun _ : bytes => true in
  (exists ts, filter_tokens sp re (bs "(a:b") = LexOk ts /\ balanced ts = false)
  /\ parse_filter sp re (bs "(a:b") = Err 4
  /\ (exists ts, filter_tokens sp re (bs "a:b)") = LexOk ts /\ balanced ts = false)
  /\ parse_filter sp re (bs "a:b)") = Err 3
  /\ (exists ts, filter_tokens sp re (bs "a:""(""") = LexOk ts /\ balanced ts = true)
  /\ parse_filter sp re (bs "a:""(""") = Ok (FMatch (bs "a") (MLit (bs "(")) 0)
  /\ (exists ts, filter_tokens sp re (bs "a:/[(]/") = LexOk ts /\ balanced ts = true)
  /\ parse_filter sp re (bs "a:/[(]/") = Ok (FMatch (bs "a") (MRe (bs "[(]")) 0)
  /\ (exists ts, proj_tokens sp re (bs "a@(b") = LexOk ts /\ balanced ts = false)
  /\ parse_projection sp re (bs "a@(b") = Err 4.
Proof.
  cbv zeta. repeat split; try (vm_compute; reflexivity); eexists; split; vm_compute; reflexivity.
Qed.

(** ** rejects_unterminated_quote: after reading some tokens without a fault
    the tokenizer stands (after white space) at a double quote whose scan for
    the closing quote -- skipping a backslash together with the byte after
    it -- reaches the end of the text *)
Theorem C07_rejects_unterminated_quote :
  forall is_space re_ok q ts st r s,
  filter_lexes is_space re_ok q ts st r ->
  skip_spaces is_space r 0 = c_dquote :: s -> qscan s = None ->
  rejected (parse_filter is_space re_ok q) q.
Proof. exact rejects_unterminated_quote. Qed.
Print Assumptions C07_rejects_unterminated_quote.

Theorem C07_rejects_unterminated_quote_projection :
  forall is_space re_ok q ts r s,
  proj_lexes is_space re_ok q ts r ->
  skip_spaces is_space r 0 = c_dquote :: s -> qscan s = None ->
  rejected (parse_projection is_space re_ok q) q.
Proof. exact proj_rejects_unterminated_quote. Qed.
Print Assumptions C07_rejects_unterminated_quote_projection.

(** that situation is exactly the fault [ENoEndQuote] of the token stream, and
    the offset it carries is the position of the opening quote in the text *)
Theorem C07_unterminated_quote_iff :
  forall is_space re_ok q off,
  filter_tokens is_space re_ok q = LexErr ENoEndQuote off <->
  exists ts st r p s, filter_lexes is_space re_ok q ts st r
    /\ skip_spaces is_space r 0 = c_dquote :: s /\ qscan s = None
    /\ q = p ++ c_dquote :: s /\ off = length p.
Proof. exact filter_tokens_quote_fault. Qed.
Print Assumptions C07_unterminated_quote_iff.

Example C07_unterminated_quote_example :
  let sp := go_is_space in let re := fun _ : bytes => true in
  (exists ts st r p s, filter_lexes sp re (bs "a:""b\""") ts st r
     /\ skip_spaces sp r 0 = c_dquote :: s /\ qscan s = None
     /\ bs "a:""b\""" = p ++ c_dquote :: s /\ 2 = length p)
  /\ parse_filter sp re (bs "a:""b\""") = Err 2
  /\ proj_tokens sp re (bs "a ""b") = LexErr ENoEndQuote 2
  /\ parse_projection sp re (bs "a ""b") = Err 2.
Proof.
  cbv zeta. split; [|repeat split; vm_compute; reflexivity].
  apply filter_tokens_quote_fault. vm_compute. reflexivity.
Qed.

(** ** rejects_unterminated_regexp: in value position (right after a colon or
    inside a value list) the tokenizer stands at a slash and the regexp
    scanner regexpParseUntil ([re_scan]: a slash counts only outside [...]
    and (...), a backslash hides the next byte) finds no closing slash *)
Theorem C07_rejects_unterminated_regexp :
  forall is_space re_ok q ts st r s,
  filter_lexes is_space re_ok q ts st r -> lmode st = true ->
  skip_spaces is_space r 0 = c_fslash :: s -> re_scan s 0 0 false = None ->
  rejected (parse_filter is_space re_ok q) q.
Proof. exact rejects_unterminated_regexp. Qed.
Print Assumptions C07_rejects_unterminated_regexp.

Theorem C07_unterminated_regexp_iff :
  forall is_space re_ok q off,
  filter_tokens is_space re_ok q = LexErr ENoCloseSlash off <->
  exists ts st r p s, filter_lexes is_space re_ok q ts st r /\ lmode st = true
    /\ skip_spaces is_space r 0 = c_fslash :: s /\ re_scan s 0 0 false = None
    /\ q = p ++ c_fslash :: s /\ off = length p.
Proof. exact filter_tokens_regexp_fault. Qed.
Print Assumptions C07_unterminated_regexp_iff.

(** the same clause with a condition that does not mention the scanner
    (Model/ExprSpec.v, the one the judge uses): after the opening slash there
    is no slash at all, or every slash has an odd number of backslashes right
    in front of it and there is no backslash-Q *)
Theorem C07_unterminated_regexp_declarative :
  forall s, re_unterminated s = true -> re_scan s 0 0 false = None.
Proof. exact re_unterminated_no_delim. Qed.
Print Assumptions C07_unterminated_regexp_declarative.

Theorem C07_rejects_unterminated_regexp_declarative :
  forall is_space re_ok q ts st r s,
  filter_lexes is_space re_ok q ts st r -> lmode st = true ->
  skip_spaces is_space r 0 = c_fslash :: s -> re_unterminated s = true ->
  rejected (parse_filter is_space re_ok q) q.
Proof. exact rejects_unterminated_regexp_decl. Qed.
Print Assumptions C07_rejects_unterminated_regexp_declarative.

(** and an accepted regexp value is the text between its delimiters: what the
    scanner cuts off is followed by a slash *)
Theorem C07_regexp_value_between_delimiters :
  forall s i, re_scan s 0 0 false = Some i -> re_delimited s (firstn i s) = true.
Proof. exact re_scan_delimited. Qed.
Print Assumptions C07_regexp_value_between_delimiters.

Example C07_unterminated_regexp_declarative_example :
  re_unterminated (bs "b") = true /\ re_unterminated (bs "a\/b\\\/") = true
  /\ re_unterminated (bs "a\\/") = false /\ re_unterminated (bs "\Qa\/") = false
  /\ re_unterminated (bs "\Qa") = true /\ re_unterminated (bs "[/]") = false.
Proof. repeat split; vm_compute; reflexivity. Qed.

(** a:/b has no second slash; in a:/(/ x the second slash is inside an open
    group and does not close the regexp; in key position a slash is an
    ordinary character: /b:c is accepted *)
Example C07_unterminated_regexp_example :
  let sp := go_is_space in let re := fun _ : bytes => true in
  filter_tokens sp re (bs "a:/b") = LexErr ENoCloseSlash 2
  /\ parse_filter sp re (bs "a:/b") = Err 2
  /\ filter_tokens sp re (bs "a:/(/ x") = LexErr ENoCloseSlash 2
  /\ parse_filter sp re (bs "a:/(/ x") = Err 2
  /\ parse_filter sp re (bs "/b:c") = Ok (FMatch (bs "/b") (MLit (bs "c")) 0).
Proof. cbv zeta. repeat split; vm_compute; reflexivity. Qed.

(** ** where a regexp ends.  [closes s i] (Proofs/ReDelim.v): position [i] of
    the text after the opening slash holds a slash, and the prefix before it
    leaves the scanner neutral -- no open [...] , no open (...) , no pending
    backslash ([re_state], a left fold of the one-byte step [re_step]).  The
    delimiter is the FIRST closing slash; there is none iff the regexp is
    unterminated.  A backslash hides exactly one byte, whatever it is: there
    is no literal-section mode for backslash-Q ... backslash-E. *)
Theorem C07_regexp_delimiter_is_first_closing_slash :
  forall s i,
  re_scan s 0 0 false = Some i <->
  closes s i = true /\ forall j, j < i -> closes s j = false.
Proof. exact re_scan_first_closing. Qed.
Print Assumptions C07_regexp_delimiter_is_first_closing_slash.

Theorem C07_regexp_unterminated_iff_no_closing_slash :
  forall s, re_scan s 0 0 false = None <-> forall j, closes s j = false.
Proof. exact re_scan_none_iff. Qed.
Print Assumptions C07_regexp_unterminated_iff_no_closing_slash.

(** the regexp token ends exactly there: the token text is the text before
    the delimiter and the tokenizer continues right after it (when that text
    compiles and is followed by the end, a space or an operator start) *)
Theorem C07_regexp_token_ends_at_delimiter :
  forall is_space re_ok n0 c s e i,
  re_scan s 0 0 false = Some i -> re_ok (firstn i s) = true ->
  follow_ok is_space (skipn (S i) s) = true ->
  regexp_tok is_space re_ok n0 (c :: s) e =
  (mkTok KRegexp (off_of n0 (c :: s)) (firstn i s), skipn (S i) s, c :: s, e).
Proof. exact regexp_tok_at_delim. Qed.
Print Assumptions C07_regexp_token_ends_at_delimiter.

(** else an error: at the opening slash when the text before the delimiter
    does not compile, right after the delimiter when something is glued to it *)
Theorem C07_regexp_token_bad_regexp :
  forall is_space re_ok n0 c s e i,
  re_scan s 0 0 false = Some i -> re_ok (firstn i s) = false ->
  regexp_tok is_space re_ok n0 (c :: s) e = tok_error n0 (c :: s) e.
Proof. exact regexp_tok_bad_regexp. Qed.
Print Assumptions C07_regexp_token_bad_regexp.

Theorem C07_regexp_token_bad_follower :
  forall is_space re_ok n0 c s e i,
  re_scan s 0 0 false = Some i -> re_ok (firstn i s) = true ->
  follow_ok is_space (skipn (S i) s) = false ->
  regexp_tok is_space re_ok n0 (c :: s) e = tok_error n0 (skipn (S i) s) e.
Proof. exact regexp_tok_bad_follower. Qed.
Print Assumptions C07_regexp_token_bad_follower.

(** literal sections: two of them and the closing slash after them; a stray
    backslash-E first; a backslash-Q never closed; a slash INSIDE a section
    closes the regexp (offset 3 of \Qa/b\E/), one inside a class does not; the
    filter k:/\Qa\E\Qb\E/ is the regexp match, k:/\Qa/b\E/ is refused right
    after the first slash following a (offset 7) *)
Example C07_regexp_quote_sections_example :
  let sp := go_is_space in let re := fun _ : bytes => true in
  re_scan (bs "\Qa\E\Qb\E/") 0 0 false = Some 10
  /\ re_scan (bs "\E\Qa\E/") 0 0 false = Some 7
  /\ re_scan (bs "\Qa/") 0 0 false = Some 3
  /\ re_scan (bs "\Qa/b\E/") 0 0 false = Some 3
  /\ re_scan (bs "\Qa\E[/]\Qb\E/") 0 0 false = Some 13
  /\ re_scan (bs "\Qa\E\Qb\E") 0 0 false = None
  /\ parse_filter sp re (bs "k:/\Qa\E\Qb\E/") = Ok (FMatch (bs "k") (MRe (bs "\Qa\E\Qb\E")) 0)
  /\ parse_filter sp re (bs "k:/\Qa/b\E/") = Err 7
  /\ parse_filter sp re (bs "k:(x OR /\Qa\E\Qb\E/)")
     = Ok (FOr [FMatch (bs "k") (MLit (bs "x")) 0; FMatch (bs "k") (MRe (bs "\Qa\E\Qb\E")) 0]).
Proof. cbv zeta. repeat split; vm_compute; reflexivity. Qed.

(** ** rejects_missing_colon_or_value.
    (a) a word (bare or quoted) read in key mode -- [lstate_after pre = LKey]:
    not right after a colon, not inside a value list -- that is the last
    token or is followed by anything but a colon *)
Theorem C07_rejects_missing_colon :
  forall is_space re_ok q pre k post,
  filter_tokens is_space re_ok q = LexOk (pre ++ k :: post) ->
  lstate_after pre = LKey -> is_word (t_kind k) = true ->
  match post with [] => True | c :: _ => is_colon c = false end ->
  rejected (parse_filter is_space re_ok q) q.
Proof. exact rejects_missing_colon. Qed.
Print Assumptions C07_rejects_missing_colon.

(** (b) a colon that is the last token, or is followed by a token that is
    neither a value (word, quoted word, regexp) nor "(" opening a value list
    whose first token is a value; the keywords AND and OR are not values *)
Theorem C07_rejects_missing_value :
  forall is_space re_ok q pre c post,
  filter_tokens is_space re_ok q = LexOk (pre ++ c :: post) -> is_colon c = true ->
  match post with
  | [] => True
  | v :: post' =>
      is_value (t_kind v) = false /\
      (is_lpar v = true ->
       match post' with [] => True | v' :: _ => is_value (t_kind v') = false end)
  end ->
  rejected (parse_filter is_space re_ok q) q.
Proof. exact rejects_missing_value. Qed.
Print Assumptions C07_rejects_missing_value.

Example C07_missing_colon_or_value_example :
  let sp := go_is_space in let re := fun _ : bytes => true in
  let w o s := mkTok KWord o s in let op o c := mkTok (KOp c) o [c] in
  (filter_tokens sp re (bs "a b:c") = LexOk ([] ++ w 0 (bs "a") :: [w 2 (bs "b"); op 3 c_colon; w 4 (bs "c")])
   /\ lstate_after [] = LKey /\ is_word (t_kind (w 0 (bs "a"))) = true /\ is_colon (w 2 (bs "b")) = false
   /\ parse_filter sp re (bs "a b:c") = Err 0)
  /\ (filter_tokens sp re (bs "a:") = LexOk ([w 0 (bs "a")] ++ op 1 c_colon :: [])
      /\ parse_filter sp re (bs "a:") = Err 0)
  /\ (filter_tokens sp re (bs "a:()") = LexOk ([w 0 (bs "a")] ++ op 1 c_colon :: [op 2 c_lpar; op 3 c_rpar])
      /\ is_value (t_kind (op 2 c_lpar)) = false /\ is_value (t_kind (op 3 c_rpar)) = false
      /\ parse_filter sp re (bs "a:()") = Err 3)
  /\ (filter_tokens sp re (bs "a:AND") = LexOk ([w 0 (bs "a")] ++ op 1 c_colon :: [mkTok KAnd 2 (bs "AND")])
      /\ parse_filter sp re (bs "a:AND") = Err 0).
Proof. cbv zeta. repeat split; vm_compute; reflexivity. Qed.

(** ** rejects_empty_fixed_list: "k@()" -- an opening parenthesis directly
    followed by a closing one, anywhere in a projection *)
Theorem C07_rejects_empty_fixed_list :
  forall is_space re_ok q pre lp rp post,
  proj_tokens is_space re_ok q = LexOk (pre ++ lp :: rp :: post) ->
  is_lpar lp = true -> is_rpar rp = true ->
  rejected (parse_projection is_space re_ok q) q.
Proof. exact rejects_empty_fixed_list. Qed.
Print Assumptions C07_rejects_empty_fixed_list.

Example C07_empty_fixed_list_example :
  let sp := go_is_space in let re := fun _ : bytes => true in
  let w o s := mkTok KWord o s in let op o c := mkTok (KOp c) o [c] in
  proj_tokens sp re (bs "a@()") = LexOk ([w 0 (bs "a"); op 1 c_at] ++ op 2 c_lpar :: op 3 c_rpar :: [])
  /\ parse_projection sp re (bs "a@()") = Err 3.
Proof. cbv zeta. split; vm_compute; reflexivity. Qed.

(** ** rejects_unknown_order. The semantic layer new_projection accepts a list
    of fields exactly when every field has one of the four orders, a fixed
    order has at least one value, .config is not combined with fixed, and the
    key is neither .unit nor "" *)
Theorem C07_known_order_iff :
  forall o, known_order o = true <->
            o = bs "fixed" \/ o = bs "first" \/ o = bs "alpha" \/ o = bs "num".
Proof. exact known_order_iff. Qed.
Print Assumptions C07_known_order_iff.

Theorem C07_new_projection_ok_iff :
  forall is_space re_ok q l,
  new_projection is_space re_ok q = Ok l <->
  parse_projection is_space re_ok q = Ok l /\
  Forall (fun p => known_order (pf_order p) = true /\
                   (pf_order p = ord_fixed -> pf_fixed p <> []) /\
                   (pf_key p = key_config -> pf_order p <> ord_fixed) /\
                   pf_key p <> key_unit /\ pf_key p <> []) l.
Proof. exact new_projection_ok_iff. Qed.
Print Assumptions C07_new_projection_ok_iff.

(** "k@name": a word right after an "@" whose text is none of first, alpha,
    num -- every unknown name, and the name fixed (the order of a
    parenthesised list; spelled out as a name it has no values) *)
Theorem C07_rejects_unknown_order :
  forall is_space re_ok q pre a w post,
  proj_tokens is_space re_ok q = LexOk (pre ++ a :: w :: post) ->
  is_at a = true -> is_word (t_kind w) = true ->
  ~ (t_text w = bs "first" \/ t_text w = bs "alpha" \/ t_text w = bs "num") ->
  rejected (new_projection is_space re_ok q) q.
Proof. exact rejects_unknown_order. Qed.
Print Assumptions C07_rejects_unknown_order.

(** what the code accepts, for ALL byte strings k and name written as quoted
    words: the syntax layer takes any name as the order (also "fixed") ... *)
Theorem C07_named_order_syntax :
  forall is_space re_ok, is_space 34%N = false ->
  forall k o,
  parse_projection is_space re_ok (cquote k ++ c_at :: cquote o)
  = Ok [mkField k o [] 0 (S (length (cquote k)))].
Proof. exact projection_named_order. Qed.
Print Assumptions C07_named_order_syntax.

(** ... and the semantic layer exactly the three names first, alpha, num *)
Theorem C07_named_order_accepted_iff :
  forall is_space re_ok, is_space 34%N = false ->
  forall k o,
  (exists l, new_projection is_space re_ok (cquote k ++ c_at :: cquote o) = Ok l) <->
  (o = bs "first" \/ o = bs "alpha" \/ o = bs "num") /\ k <> key_unit /\ k <> [].
Proof. exact new_projection_named_order_iff. Qed.
Print Assumptions C07_named_order_accepted_iff.

(** "k"@"fixed" is refused for EVERY key k, at the offset of the order name
    (since golang/perf 9f4ec2f; found while proving this clause) *)
Theorem C07_rejects_fixed_by_name :
  forall is_space re_ok, is_space 34%N = false ->
  forall k,
  new_projection is_space re_ok (cquote k ++ c_at :: cquote ord_fixed)
  = Err (S (length (cquote k)))
  /\ S (length (cquote k)) <= length (cquote k ++ c_at :: cquote ord_fixed).
Proof. exact rejects_fixed_by_name. Qed.
Print Assumptions C07_rejects_fixed_by_name.

(** hence, together with rejects_empty_fixed_list: no accepted projection has a
    fixed order without values, however it is written *)
Theorem C07_no_empty_fixed_list :
  forall is_space re_ok q l p,
  new_projection is_space re_ok q = Ok l -> In p l -> pf_order p = ord_fixed -> pf_fixed p <> [].
Proof. exact no_empty_fixed_list. Qed.
Print Assumptions C07_no_empty_fixed_list.

Example C07_unknown_order_example :
  let sp := go_is_space in let re := fun _ : bytes => true in
  let w o s := mkTok KWord o s in let op o c := mkTok (KOp c) o [c] in
  proj_tokens sp re (bs "a@bogus") = LexOk ([w 0 (bs "a")] ++ op 1 c_at :: w 2 (bs "bogus") :: [])
  /\ ~ (bs "bogus" = bs "first" \/ bs "bogus" = bs "alpha" \/ bs "bogus" = bs "num")
  /\ parse_projection sp re (bs "a@bogus") = Ok [mkField (bs "a") (bs "bogus") [] 0 2]
  /\ new_projection sp re (bs "a@bogus") = Err 2
  /\ new_projection sp re (bs "a@num") = Ok [mkField (bs "a") (bs "num") [] 0 2]
  /\ parse_projection sp re (bs "a@fixed") = Ok [mkField (bs "a") (bs "fixed") [] 0 2]
  /\ new_projection sp re (bs "a@fixed") = Err 2
  /\ new_projection sp re (bs "a@(x y)") = Ok [mkField (bs "a") (bs "fixed") [bs "x"; bs "y"] 0 2]
  /\ new_projection sp re (bs ".config@fixed") = Err 8.
Proof.
  cbv zeta. repeat split; try (vm_compute; reflexivity).
  intros [H|[H|H]]; discriminate H.
Qed.

(** the defect that was repaired: with the semantic check as it was before
    golang/perf 9f4ec2f ([check_field_before_fix]: no test for a fixed order
    without values), a@fixed passed with an empty value list -- the projection
    that a@() is refused for *)
Example C07_fixed_by_name_was_accepted :
  exists l p,
    parse_projection go_is_space (fun _ => true) (bs "a@fixed") = Ok l /\ In p l
    /\ check_field_before_fix p = None /\ pf_order p = ord_fixed /\ pf_fixed p = []
    /\ check_field p = Some 2.
Proof.
  exists [mkField (bs "a") (bs "fixed") [] 0 2], (mkField (bs "a") (bs "fixed") [] 0 2).
  repeat split; try (vm_compute; reflexivity). now left.
Qed.

(** ** rejects_unit_in_projection: some field of the parsed projection has the
    key .unit -- whatever its order, wherever it stands *)
Theorem C07_rejects_unit_in_projection :
  forall is_space re_ok q l p,
  parse_projection is_space re_ok q = Ok l -> In p l -> pf_key p = key_unit ->
  rejected (new_projection is_space re_ok q) q.
Proof. exact rejects_unit_tree. Qed.
Print Assumptions C07_rejects_unit_in_projection.

(** the same on the text: the word .unit (bare or quoted) in key position,
    i.e. outside parentheses and not right after an "@" *)
Theorem C07_rejects_unit_in_projection_text :
  forall is_space re_ok q pre k post,
  proj_tokens is_space re_ok q = LexOk (pre ++ k :: post) ->
  is_word (t_kind k) = true ->
  (paren_depth 0 pre = Some 0 /\ forall pre' a, pre = pre' ++ [a] -> is_at a = false) ->
  t_text k = key_unit ->
  rejected (new_projection is_space re_ok q) q.
Proof. exact rejects_unit_text. Qed.
Print Assumptions C07_rejects_unit_in_projection_text.

Example C07_unit_in_projection_example :
  let sp := go_is_space in let re := fun _ : bytes => true in
  let w o s := mkTok KWord o s in let op o c := mkTok (KOp c) o [c] in
  proj_tokens sp re (bs "b,.unit@alpha")
    = LexOk ([w 0 (bs "b"); op 1 c_comma] ++ w 2 (bs ".unit") :: [op 7 c_at; w 8 (bs "alpha")])
  /\ paren_depth 0 [w 0 (bs "b"); op 1 c_comma] = Some 0
  /\ (forall pre' a, [w 0 (bs "b"); op 1 c_comma] = pre' ++ [a] -> is_at a = false)
  /\ parse_projection sp re (bs "b,.unit@alpha")
     = Ok [mkField (bs "b") ord_first [] 0 1; mkField key_unit (bs "alpha") [] 2 8]
  /\ new_projection sp re (bs "b,.unit@alpha") = Err 2
  (* as a member of a fixed list or as an order name .unit is no key: accepted / other error *)
  /\ new_projection sp re (bs "a@(.unit b)") = Ok [mkField (bs "a") ord_fixed [key_unit; bs "b"] 0 2].
Proof.
  cbv zeta. repeat split; try (vm_compute; reflexivity).
  intros pre' a H. destruct pre' as [|x [|y [|z pre']]]; try discriminate H.
  injection H as _ <-. reflexivity.
Qed.

(** ** rejects_config_in_filter. NewFilter accepts a tree exactly when none of
    its keys -- at any depth, including the keys of value lists -- is .config
    or the empty key *)
Theorem C07_new_filter_ok_iff :
  forall is_space re_ok q x,
  new_filter is_space re_ok q = Ok x <->
  parse_filter is_space re_ok q = Ok x /\
  Forall (fun k => k <> key_config /\ k <> []) (fkeys x).
Proof. exact new_filter_ok_iff. Qed.
Print Assumptions C07_new_filter_ok_iff.

Theorem C07_rejects_config_in_filter :
  forall is_space re_ok q x,
  parse_filter is_space re_ok q = Ok x -> In key_config (fkeys x) ->
  rejected (new_filter is_space re_ok q) q.
Proof. exact rejects_config_tree. Qed.
Print Assumptions C07_rejects_config_in_filter.

(** the same on the text: the word .config (bare or quoted) in front of a
    colon, anywhere in the text *)
Theorem C07_rejects_config_in_filter_text :
  forall is_space re_ok q pre k c post,
  filter_tokens is_space re_ok q = LexOk (pre ++ k :: c :: post) ->
  is_word (t_kind k) = true -> is_colon c = true -> t_text k = key_config ->
  rejected (new_filter is_space re_ok q) q.
Proof. exact rejects_config_text. Qed.
Print Assumptions C07_rejects_config_in_filter_text.

(** under a negation, in a group, in the second operand of an AND, with a value list *)
Example C07_config_in_filter_example :
  let sp := go_is_space in let re := fun _ : bytes => true in
  let q := bs "-(a:b OR (x:y "".config"":(c OR d)))" in
  (exists x, parse_filter sp re q = Ok x /\ In key_config (fkeys x))
  /\ (exists pre k c post, filter_tokens sp re q = LexOk (pre ++ k :: c :: post)
        /\ is_word (t_kind k) = true /\ is_colon c = true /\ t_text k = key_config)
  /\ new_filter sp re q = Err 14
  (* as a value .config is fine *)
  /\ new_filter sp re (bs "a:.config") = Ok (FMatch (bs "a") (MLit key_config) 0).
Proof.
  cbv zeta. split; [|split; [|split; vm_compute; reflexivity]].
  - eexists. split; [vm_compute; reflexivity|]. vm_compute. tauto.
  - exists (firstn 10 (match filter_tokens go_is_space (fun _ => true)
                              (bs "-(a:b OR (x:y "".config"":(c OR d)))") with LexOk ts => ts | _ => [] end)).
    do 3 eexists. split; [vm_compute; reflexivity|]. repeat split.
Qed.

(** ** semantic_error_offset_in_range, and totality of the semantic layers *)
Theorem C07_new_filter_error_offset_in_range :
  forall is_space re_ok q off, new_filter is_space re_ok q = Err off -> off <= length q.
Proof. exact new_filter_error_offset. Qed.
Print Assumptions C07_new_filter_error_offset_in_range.

Theorem C07_new_projection_error_offset_in_range :
  forall is_space re_ok q off, new_projection is_space re_ok q = Err off -> off <= length q.
Proof. exact new_projection_error_offset. Qed.
Print Assumptions C07_new_projection_error_offset_in_range.

Theorem C07_new_filter_total :
  forall is_space re_ok q, new_filter is_space re_ok q <> OutOfFuel.
Proof. exact new_filter_total. Qed.
Print Assumptions C07_new_filter_total.

Theorem C07_new_projection_total :
  forall is_space re_ok q, new_projection is_space re_ok q <> OutOfFuel.
Proof. exact new_projection_total. Qed.
Print Assumptions C07_new_projection_total.

(** OBSERVATION behind the projection bound: a field without "@" stores
    OrderOff = KeyOff + len(unquoted key), which can lie beyond the text (two
    raw 0xff bytes in quotes: 4 bytes of text, a 6-byte key, OrderOff 6); the
    semantic layer never reports that offset because the order is then
    "first", which is why the bound holds *)
Example C07_order_offset_beyond_text :
  parse_projection go_is_space (fun _ => true) [x22; xff; xff; x22]
  = Ok [mkField [xef; xbf; xbd; xef; xbf; xbd] ord_first [] 0 6].
Proof. vm_compute. reflexivity. Qed.
