(** C14 — benchstat puts each measurement in one cell and reports its true statistics.
    Statements only; proofs are in Proofs/BenchTab.v. The model is
    Model/BenchTab.v (Builder.Add, ToTables, summarizeCol, NonSingularFields);
    sample statistics are parameters (C11-C13 are about them). *)
From Perf Require Import Base.Bytes Base.B64 Model.BenchTab Proofs.BenchTab.
From Coq Require Import Sorting.Permutation.
From Perf Require Model.Reader Model.Files Model.Units Model.FilterAst Model.FilterEval Model.Projection Model.Pipeline
  Proofs.Reader Proofs.Exclusion Proofs.KeyGet Proofs.Lossless Proofs.Pipeline.
From Perf Require Import Model.Extract.

(** the sample of cell (table, row, col) is exactly the measurements projected
    there, each counted once, in input order: cells partition the measurements *)
Theorem C14_cell_sample_exact : forall ms t r c,
  lookup_vals (build ms) t r c = map m_v (filter (m_is t r c) ms).
Proof. exact cell_sample_exact. Qed.
Print Assumptions C14_cell_sample_exact.

(** a cell exists iff at least one measurement falls under its keys *)
Theorem C14_cell_exists_iff : forall ms t r c,
  lookup_cell (build ms) t r c <> None <-> exists m, In m ms /\ m_is t r c m = true.
Proof. exact cell_exists_iff. Qed.
Print Assumptions C14_cell_exists_iff.

(** the residue keys recorded for a cell are exactly those of its measurements *)
Theorem C14_cell_residue_exact : forall ms t r c k,
  In k (lookup_res (build ms) t r c) <-> exists m, In m ms /\ m_is t r c m = true /\ m_res m = k.
Proof. exact cell_residue_exact. Qed.
Print Assumptions C14_cell_residue_exact.

(** the "benchmarks vary in" warning names exactly the residue fields on which
    two merged results differ *)
Theorem C14_nonsingular_iff : forall (vals : N -> list bytes) nf keys i,
  In i (nonsingular vals nf keys) <->
  (i < nf)%nat /\ exists k1 k2, In k1 keys /\ In k2 keys /\ fval vals k1 i <> fval vals k2 i.
Proof. exact nonsingular_iff. Qed.
Print Assumptions C14_nonsingular_iff.

(** the baseline (first) column is a minimum of the column order *)
Theorem C14_baseline_is_first_col : forall rank l c0 rest,
  sort_by rank l = c0 :: rest -> forall c, In c l -> (rank c0 <= rank c)%N.
Proof. exact sorted_head_min. Qed.
Print Assumptions C14_baseline_is_first_col.

(** rows, columns and tables are the keys present, each once, in sort order *)
Theorem C14_sorted_keys : forall rank l,
  Permutation (sort_by rank (dedup l)) (dedup l) /\ NoDup (dedup l) /\
  (forall x, In x (dedup l) <-> In x l) /\
  Sorted.StronglySorted (rank_le rank) (sort_by rank (dedup l)).
Proof.
  intros. repeat split; try apply dedup_in.
  - apply sort_by_perm. - apply dedup_nodup. - apply sort_by_sorted.
Qed.
Print Assumptions C14_sorted_keys.

(** the "benchmark set differs from baseline" warning is raised for a column iff
    its set of rows differs from the baseline column's *)
Theorem C14_set_warning_iff : forall centre geomean cs rows c0 col,
  cs_warn_set (col_summary centre geomean cs rows c0 false col) = false <->
  forall r, In r rows -> has_cell cs c0 r = has_cell cs col r.
Proof. exact set_warning_iff. Qed.
Print Assumptions C14_set_warning_iff.

Theorem C14_base_col_no_set_warning : forall centre geomean cs rows c0 col,
  cs_warn_set (col_summary centre geomean cs rows c0 true col) = false.
Proof. exact base_col_no_set_warning. Qed.
Print Assumptions C14_base_col_no_set_warning.

(** headline refinement: for every sequence of measurements, the tables the
    builder produces are the specified ones - one table per table key present,
    in sort order; rows and columns the keys present, in sort order; one cell per
    populated (row, col) holding exactly its measurements and residue keys;
    baseline = first column; summaries as summarizeCol computes them from those
    cells (sort orders injective on keys, which C09 establishes) *)
Theorem C14_build_meets_spec :
  forall rank_t rank_r rank_c centre geomean,
  (forall a b, rank_r a = rank_r b -> a = b) ->
  (forall a b, rank_c a = rank_c b -> a = b) ->
  (forall a b, rank_t a = rank_t b -> a = b) ->
  forall ms,
  to_tables rank_t rank_r rank_c centre geomean (build ms) =
  spec_tables rank_t rank_r rank_c centre geomean ms.
Proof. exact build_meets_spec. Qed.
Print Assumptions C14_build_meets_spec.

(** the stateful lookup of a cell is the declarative one *)
Theorem C14_build_cell_is_spec : forall ms t r c, lookup_cell (build ms) t r c = spec_cell ms t r c.
Proof. exact build_cell_is_spec. Qed.
Print Assumptions C14_build_cell_is_spec.

(** non-vacuity *)
Example C14_example :
  let ms := [mkMeas 0 0 0 0 b64_one; mkMeas 0 0 1 1 b64_zero; mkMeas 0 0 0 2 b64_zero] in
  lookup_vals (build ms) 0 0 0 = [b64_one; b64_zero] /\ lookup_res (build ms) 0 0 0 = [0; 2]%N.
Proof. split; reflexivity. Qed.

(** * The composed model: cmd/benchstat/main.go from flag strings and file texts
    (Model/Pipeline.v; proofs in Proofs/Pipeline.v).  [benchstat_run fl files]
    is the run of benchstat on the five flag strings [fl] and the inputs
    [files] (command-line argument, text); library behaviour (unicode classes,
    bytesconv.Atoi/ParseFloat, regexp) is universally quantified.
    [run_facts fl files o assign] is the anatomy of a successful run [o]:
    the flags compiled, the files read without I/O error, [o_kept o] the
    results that were added (in file order), [assign] the Keys (table Keys per
    value, row, column, residue) each of them received from the projection
    stream, [o_tuples o] what Builder.Add received. *)
Import Perf.Model.Pipeline.

(** the run is total: it ends in tables or in a flag / file error, never in a
    disagreement between the component models (EInternal) or out of fuel; and
    a successful run has the anatomy the following theorems speak about *)
Theorem C14_pipeline_total :
  forall is_space is_lower is_upper atoi parse_float re_ok rematch fl files,
  match benchstat_run is_space is_lower is_upper atoi parse_float re_ok rematch fl files with
  | POk o => exists assign, Proofs.Pipeline.run_facts is_space is_lower is_upper atoi parse_float re_ok rematch fl files o assign
  | PErr e => e <> EInternal /\ e <> EFuel
  end.
Proof. exact Proofs.Pipeline.run_anatomy. Qed.
Print Assumptions C14_pipeline_total.

(** pipeline_cell_exact: for every list of files and flags on which the
    pipeline succeeds, the sample of cell (t, r, c) of [build (tuples)] is
    exactly, in input order: for every result line of the files that has a
    measurement passing the filter (the record carries the file configuration
    in scope at its line), if its row and column Keys are r and c, its passing
    measurements - the values AFTER Tidy - whose table Key (the projection of
    the result with that measurement's tidied unit) is t.  Each once, nothing else. *)
Theorem C14_pipeline_cell_exact :
  forall is_space is_lower is_upper atoi parse_float re_ok rematch fl files o assign t r c,
  Proofs.Pipeline.run_facts is_space is_lower is_upper atoi parse_float re_ok rematch fl files o assign ->
  lookup_vals (build (o_tuples o)) t r c
  = flat_map (Proofs.Pipeline.contrib t r c) (combine (o_kept o) assign).
Proof. exact Proofs.Pipeline.cell_exact. Qed.
Print Assumptions C14_pipeline_cell_exact.

(** the kept results are exactly the result records with a passing measurement,
    in file order, each cut down to its passing measurements (the filter step
    of the code - 32-bit masks, short circuits, Apply - equals its boolean
    specification on everything the reader can deliver) *)
Theorem C14_pipeline_filter_exact :
  forall is_space is_lower is_upper atoi parse_float re_ok rematch fl files,
  benchstat_run is_space is_lower is_upper atoi parse_float re_ok rematch fl files
  = benchstat_run_spec is_space is_lower is_upper atoi parse_float re_ok rematch fl files.
Proof. exact Proofs.Pipeline.run_is_spec_run. Qed.
Print Assumptions C14_pipeline_filter_exact.

(** pipeline_filter_sound: every tuple is a measurement of a result line that
    passes the filter; a line or measurement that fails it is in no cell *)
Theorem C14_pipeline_filter_sound :
  forall is_space is_lower is_upper atoi parse_float re_ok rematch fl files o assign m,
  Proofs.Pipeline.run_facts is_space is_lower is_upper atoi parse_float re_ok rematch fl files o assign ->
  In m (o_tuples o) ->
  exists r i v, In (Reader.RRes r) (o_records o) /\ nth_error (Reader.r_vals r) i = Some v /\
                meas_passes rematch (o_compiled o) r i = true /\ m_v m = Units.v_val v.
Proof. exact Proofs.Pipeline.filter_sound. Qed.
Print Assumptions C14_pipeline_filter_sound.

(** ... and nothing that passes is lost *)
Theorem C14_pipeline_filter_complete :
  forall is_space is_lower is_upper atoi parse_float re_ok rematch fl files o assign r,
  Proofs.Pipeline.run_facts is_space is_lower is_upper atoi parse_float re_ok rematch fl files o assign ->
  In (Reader.RRes r) (o_records o) ->
  (exists i, i < length (Reader.r_vals r) /\ meas_passes rematch (o_compiled o) r i = true) ->
  In (kept_of r (spec_kept_vals rematch (o_compiled o) r)) (o_kept o).
Proof. exact Proofs.Pipeline.filter_complete. Qed.
Print Assumptions C14_pipeline_filter_complete.

(** which measurements of a result stay: those of which [meas_passes] holds *)
Theorem C14_pipeline_kept_measurement :
  forall rematch c r v,
  In v (spec_kept_vals rematch c r) <->
  exists i, nth_error (Reader.r_vals r) i = Some v /\ meas_passes rematch c r i = true.
Proof. exact Proofs.Pipeline.kept_measurement. Qed.
Print Assumptions C14_pipeline_kept_measurement.

(** the records the run works on are, record for record, what the format
    prescribes for each file read on its own (configuration as a map, nothing
    leaking between files, unit metadata carried along): C02 under the run;
    every result has a measurement and pairwise distinct configuration keys *)
Theorem C14_pipeline_reads_linespec :
  forall is_space is_lower is_upper atoi parse_float files recs e st,
  read_files is_space is_lower is_upper atoi parse_float files = (recs, e, st) ->
  Forall Proofs.Pipeline.res_wf recs /\
  exists recs2,
    Files.files_spec_loop is_space is_lower is_upper atoi parse_float (file_system files)
      (Files.files_inputs true (map fst files)) [] = (recs2, e, Reader.rs_units st) /\
    Forall2 Proofs.Reader.rec_equiv recs recs2.
Proof.
  intros. split; [eapply Proofs.Pipeline.read_files_wf; eauto|eapply Proofs.Pipeline.read_files_refine_spec; eauto].
Qed.
Print Assumptions C14_pipeline_reads_linespec.

(** the Key a kept result got for its row / column / residue, read in the final
    projections: every field holds what its extractor yields on THAT result
    (C05's extractors; the full name minus individually projected name keys;
    file-configuration values in .config sub-fields); every file key no flag
    names has a sub-field in each .config group; no group has a sub-field for
    an individually named key *)
Theorem C14_pipeline_key_meaning :
  forall is_space is_lower is_upper atoi parse_float re_ok rematch fl files o assign i k a pi key,
  Proofs.Pipeline.run_facts is_space is_lower is_upper atoi parse_float re_ok rematch fl files o assign ->
  nth_error (o_kept o) i = Some k -> nth_error assign i = Some a ->
  In (pi, key) [(pi_row, Proofs.Pipeline.a_row a); (pi_col, Proofs.Pipeline.a_col a); (pi_residue, Proofs.Pipeline.a_res a)] ->
  let pa := Proofs.Exclusion.parser_after (Proofs.Pipeline.calls_of (o_compiled o)) in
  exists pF, nth_error (Projection.w_projs (o_world o)) pi = Some pF /\ key < length (Projection.p_keys pF) /\
    (forall idx f, nth_error (Projection.p_fields pF) idx = Some f ->
       Projection.key_get pF key idx = Proofs.KeyGet.want (Projection.pp_full pa) (k_res k) f) /\
    (forall g ord cf, In (Projection.PConfig g ord) (Projection.p_items pF) ->
       In cf (Projection.r_cfg (k_res k)) -> c_file cf = true -> ~ In (c_key cf) (Projection.pp_cfg pa) ->
       exists j, In j (Projection.group_subs pF g) /\ Projection.field_name pF j = c_key cf /\
                 Projection.key_get pF key j = c_val cf) /\
    (forall g j, In j (Projection.group_subs pF g) -> ~ In (Projection.field_name pF j) (Projection.pp_cfg pa)).
Proof. exact Proofs.Pipeline.key_meaning. Qed.
Print Assumptions C14_pipeline_key_meaning.

(** two Keys of a projection of the run are equal iff they read the same in every field *)
Theorem C14_pipeline_key_eq_iff_values :
  forall is_space is_lower is_upper atoi parse_float re_ok rematch fl files o assign pi p k1 k2,
  Proofs.Pipeline.run_facts is_space is_lower is_upper atoi parse_float re_ok rematch fl files o assign ->
  nth_error (Projection.w_projs (o_world o)) pi = Some p ->
  k1 < length (Projection.p_keys p) -> k2 < length (Projection.p_keys p) ->
  (k1 = k2 <-> forall idx, idx < Projection.nfields p -> Projection.key_get p k1 idx = Projection.key_get p k2 idx).
Proof. exact Proofs.Pipeline.key_eq_iff_values. Qed.
Print Assumptions C14_pipeline_key_eq_iff_values.

(** pipeline_ignore: a file-configuration key that a flag names individually -
    the keys of -ignore in particular - has no sub-field in any .config group
    of ANY projection of the run (table, row, column, residue): it never splits
    tables, rows or columns unless that projection's own flag names it *)
Theorem C14_pipeline_ignore :
  forall is_space is_lower is_upper atoi parse_float re_ok rematch fl files o assign fields p pi pF g j,
  Proofs.Pipeline.run_facts is_space is_lower is_upper atoi parse_float re_ok rematch fl files o assign ->
  In fields (cp_all (o_compiled o)) -> In p fields -> Proofs.Pipeline.plain_flag_key (FilterAst.pf_key p) ->
  nth_error (Projection.w_projs (o_world o)) pi = Some pF ->
  In j (Projection.group_subs pF g) -> Projection.field_name pF j <> FilterAst.pf_key p.
Proof. exact Proofs.Pipeline.ignore_never_splits. Qed.
Print Assumptions C14_pipeline_ignore.

(** a field list the text parser and its checks accept (C07) is one
    makeProjection accepts (C08): the two models of Parse agree on acceptance *)
Theorem C14_pipeline_parse_models_agree : forall l,
  ProjParse.check_fields l = None -> forallb Proofs.Exclusion.spec_ok (map to_spec l) = true.
Proof. exact Proofs.Pipeline.check_fields_spec_ok. Qed.
Print Assumptions C14_pipeline_parse_models_agree.

(** PARTIAL (C15 at the level of the run): runs whose tuple lists are
    permutations of each other have the same multiset in every cell.  The
    statement from the RECORDS the reader delivers - permuted result records
    give permuted tuples up to a renaming of Keys (first-seen interning and
    first-seen .config sub-field creation rename them) - is
    C14_pipeline_line_perm below.  Still missing: that permuting result LINES
    of the text within one configuration scope permutes the records (a fact
    about Reader on text layout, not about the pipeline). *)
Theorem C14_pipeline_line_perm_partial :
  forall is_space is_lower is_upper atoi parse_float re_ok rematch fl files fl' files' o o' assign assign' t r c,
  Proofs.Pipeline.run_facts is_space is_lower is_upper atoi parse_float re_ok rematch fl files o assign ->
  Proofs.Pipeline.run_facts is_space is_lower is_upper atoi parse_float re_ok rematch fl' files' o' assign' ->
  Permutation (o_tuples o) (o_tuples o') ->
  Permutation (lookup_vals (build (o_tuples o)) t r c) (lookup_vals (build (o_tuples o')) t r c).
Proof. exact Proofs.Pipeline.line_perm_partial. Qed.
Print Assumptions C14_pipeline_line_perm_partial.

(** non-vacuity: a concrete run from text.  Two files (one labelled), file
    configuration, ns/op needing Tidy, a /key=value name with a gomaxprocs
    suffix, a malformed line; -filter keeps only the sec/op measurements. *)
Definition ex_is_space (r : N) : bool := (r =? 32)%N || (r =? 9)%N.
Definition ex_is_lower (r : N) : bool := (97 <=? r)%N && (r <=? 122)%N.
Definition ex_is_upper (r : N) : bool := (65 <=? r)%N && (r <=? 90)%N.
Definition ex_atoi (s : bytes) : option Z := if beq s (bs "10") then Some 10%Z else None.
Definition ex_pf (s : bytes) : option b64 := None.
Definition ex_text : bytes :=
  bs "goos: linux" ++ [x0a] ++ bs "BenchmarkFib/n=1-4 10 2 ns/op 3 B/op" ++ [x0a]
  ++ bs "BenchmarkFib/n=1-4 10 4 ns/op" ++ [x0a] ++ bs "BenchmarkFib 10 x" ++ [x0a].
Definition ex_flags : flags := mkFlags (bs ".unit:sec/op") (bs ".config") (bs ".fullname") (bs ".file") [].
Definition ex_run := benchstat_run ex_is_space ex_is_lower ex_is_upper ex_atoi ex_pf (fun _ => true) (fun _ _ => false)
                       ex_flags [(bs "a.txt", ex_text); (bs "new=b.txt", ex_text)].
Example C14_pipeline_example :
  match ex_run with
  | POk o =>
      length (o_kept o) = 4 /\ length (o_tuples o) = 4 /\
      syntax_errors (o_records o) = [(bs "a.txt", 4%Z); (bs "b.txt", 4%Z)] /\
      map (fun m => (m_t m, m_r m, m_c m)) (o_tuples o) = [(0, 0, 0); (0, 0, 0); (0, 0, 1); (0, 0, 1)]%N /\
      key_named (proj_of (o_world o) pi_col) 1 = [(bs ".file", bs "new")] /\
      table_unit (proj_of (o_world o) pi_table) 0 = bs "sec/op"
  | PErr _ => False
  end.
Proof. vm_compute. repeat split. Qed.

(** * Table Keys, and the order of the result lines
    (Proofs/PipelineKeys.v, Proofs/ProjectionRename.v, Proofs/PipelinePerm.v) *)
From Perf Require Proofs.LosslessUnits Proofs.ProjectionRename Proofs.PipelineKeys Proofs.PipelinePerm.

(** pipeline_table_key_meaning: the counterpart of C14_pipeline_key_meaning for
    the TABLE Keys (tableBy.ProjectValues).  The [i]-th kept result has one
    table Key per remaining measurement, in order; read in the table projection
    as it is after the whole run, the Key of a measurement holds that
    measurement's TIDIED unit in the projection's unit field (a field named
    ".unit") and, in every other field, what that field's extractor yields on
    the result; every file key of the result that no flag names has a sub-field
    in every .config group, holding its value in each of these Keys; no group
    has a sub-field for an individually named key *)
Theorem C14_pipeline_table_key_meaning :
  forall is_space is_lower is_upper atoi parse_float re_ok rematch fl files o assign i k a,
  Proofs.Pipeline.run_facts is_space is_lower is_upper atoi parse_float re_ok rematch fl files o assign ->
  nth_error (o_kept o) i = Some k -> nth_error assign i = Some a ->
  let pa := Proofs.Exclusion.parser_after (Proofs.Pipeline.calls_of (o_compiled o)) in
  exists pF u, nth_error (Projection.w_projs (o_world o)) pi_table = Some pF /\
    Projection.p_unit pF = Some u /\ Projection.field_name pF u = Projection.key_unit /\
    Forall2 (fun key un => key < length (Projection.p_keys pF) /\ Projection.key_get pF key u = un /\
               forall idx f, nth_error (Projection.p_fields pF) idx = Some f -> idx <> u ->
                 Projection.key_get pF key idx = Proofs.KeyGet.want (Projection.pp_full pa) (k_res k) f)
            (Proofs.Pipeline.a_tables a) (Projection.r_units (k_res k)) /\
    (forall g ord cf, In (Projection.PConfig g ord) (Projection.p_items pF) ->
       In cf (Projection.r_cfg (k_res k)) -> c_file cf = true -> ~ In (c_key cf) (Projection.pp_cfg pa) ->
       exists j, In j (Projection.group_subs pF g) /\ Projection.field_name pF j = c_key cf /\ j <> u /\
                 forall key, In key (Proofs.Pipeline.a_tables a) -> Projection.key_get pF key j = c_val cf) /\
    (forall g j, In j (Projection.group_subs pF g) -> ~ In (Projection.field_name pF j) (Projection.pp_cfg pa)).
Proof. exact Proofs.PipelineKeys.table_key_meaning. Qed.
Print Assumptions C14_pipeline_table_key_meaning.

(** the same per measurement, in the vocabulary of the tuples: the [j]-th table
    Key of a kept result goes with its [j]-th remaining value; Key.Get(unitField)
    of it - what main.go prints and asks GetAssumption about - is that
    measurement's tidied unit; and (that Key, row, column, residue, value) is a
    tuple Builder.Add received *)
Theorem C14_pipeline_table_key_of_measurement :
  forall is_space is_lower is_upper atoi parse_float re_ok rematch fl files o assign i k a j key,
  Proofs.Pipeline.run_facts is_space is_lower is_upper atoi parse_float re_ok rematch fl files o assign ->
  nth_error (o_kept o) i = Some k -> nth_error assign i = Some a ->
  nth_error (Proofs.Pipeline.a_tables a) j = Some key ->
  exists un v, nth_error (Projection.r_units (k_res k)) j = Some un /\ nth_error (k_vals k) j = Some v /\
    table_unit (proj_of (o_world o) pi_table) key = un /\
    In (mk_meas (Proofs.Pipeline.a_row a) (Proofs.Pipeline.a_col a) (Proofs.Pipeline.a_res a) (key, v)) (o_tuples o).
Proof. exact Proofs.PipelineKeys.table_key_of_measurement. Qed.
Print Assumptions C14_pipeline_table_key_of_measurement.

(** what [key_renaming p p' phi psi] says: [phi]/[psi] are inverse bijections
    between the Key numbers of [p] and of [p']; a Key and its image read the
    same in every pair of corresponding fields - same name, same kind (made
    for one key / .fullname / .config sub-field / .unit), both or neither the
    unit field; and every field of either projection has a corresponding field
    in the other (sub-fields of .config are numbered in first-seen order, so
    their indexes differ too) *)
Theorem C14_key_renaming_spelled : forall p p' phi psi,
  Proofs.ProjectionRename.key_renaming p p' phi psi ->
  (forall k, k < length (Projection.p_keys p) -> phi k < length (Projection.p_keys p') /\ psi (phi k) = k) /\
  (forall k', k' < length (Projection.p_keys p') -> psi k' < length (Projection.p_keys p) /\ phi (psi k') = k') /\
  (forall k idx f idx' f', k < length (Projection.p_keys p) ->
     nth_error (Projection.p_fields p) idx = Some f -> nth_error (Projection.p_fields p') idx' = Some f' ->
     Projection.fi_name f = Projection.fi_name f' -> Projection.fi_src f = Projection.fi_src f' ->
     (Projection.p_unit p = Some idx <-> Projection.p_unit p' = Some idx') ->
     Projection.key_get p k idx = Projection.key_get p' (phi k) idx') /\
  (forall idx f, nth_error (Projection.p_fields p) idx = Some f ->
     exists idx' f', nth_error (Projection.p_fields p') idx' = Some f' /\
       Projection.fi_name f = Projection.fi_name f' /\ Projection.fi_src f = Projection.fi_src f' /\
       (Projection.p_unit p = Some idx <-> Projection.p_unit p' = Some idx')) /\
  (forall idx' f', nth_error (Projection.p_fields p') idx' = Some f' ->
     exists idx f, nth_error (Projection.p_fields p) idx = Some f /\
       Projection.fi_name f = Projection.fi_name f' /\ Projection.fi_src f = Projection.fi_src f' /\
       (Projection.p_unit p = Some idx <-> Projection.p_unit p' = Some idx')).
Proof. exact Proofs.ProjectionRename.key_renaming_spelled. Qed.
Print Assumptions C14_key_renaming_spelled.

(** the Key-renaming invariant of the projection stream (C08 level), for a
    projection used through Project (rows, columns, residue): two streams of
    Project/ProjectValues calls, run after the same Parse calls and Residue,
    that put the same SET of results through projection [pi] end with Key sets
    that are renamings of each other, and the renaming maps the Key a result
    got in one stream to the Key the same result got in the other *)
Theorem C14_projection_renaming_plain : forall calls,
  Forall Proofs.Lossless.call_ok calls ->
  forall opsA opsB,
  Forall Proofs.ProjectionRename.proj_only opsA -> Forall Proofs.ProjectionRename.proj_only opsB ->
  Forall Proofs.KeyGet.op_wf opsA -> Forall Proofs.KeyGet.op_wf opsB ->
  forall pi p0,
  let w0 := fst (Projection.run_ops Projection.new_world (Proofs.Lossless.parse_ops calls ++ [Projection.OpResidue])) in
  nth_error (Projection.w_projs w0) pi = Some p0 ->
  (forall r, In (Projection.OpProject pi r) opsA <-> In (Projection.OpProject pi r) opsB) ->
  (forall r, In (Projection.OpProjectValues pi r) opsA <-> In (Projection.OpProjectValues pi r) opsB) ->
  (forall r, ~ In (Projection.OpProjectValues pi r) opsA) ->
  exists pA pB phi psi,
    nth_error (Projection.w_projs (fst (Projection.run_ops w0 opsA))) pi = Some pA /\
    nth_error (Projection.w_projs (fst (Projection.run_ops w0 opsB))) pi = Some pB /\
    Proofs.ProjectionRename.key_renaming pA pB phi psi /\
    (forall r k k',
       Proofs.ProjectionRename.handed_plain opsA (snd (Projection.run_ops w0 opsA)) pi r k ->
       Proofs.ProjectionRename.handed_plain opsB (snd (Projection.run_ops w0 opsB)) pi r k' ->
       k' = phi k /\ k = psi k').
Proof. exact Proofs.ProjectionRename.plain_renaming. Qed.
Print Assumptions C14_projection_renaming_plain.

(** ... and for the projection used through ProjectValues (tables, by unit):
    the renaming maps the Key of (result, unit of a measurement) to the Key
    the same pair got in the other stream *)
Theorem C14_projection_renaming_unit : forall calls,
  Forall Proofs.Lossless.call_ok calls ->
  forall opsA opsB,
  Forall Proofs.ProjectionRename.proj_only opsA -> Forall Proofs.ProjectionRename.proj_only opsB ->
  Forall Proofs.KeyGet.op_wf opsA -> Forall Proofs.KeyGet.op_wf opsB ->
  forall pi p0,
  let w0 := fst (Projection.run_ops Projection.new_world (Proofs.Lossless.parse_ops calls ++ [Projection.OpResidue])) in
  nth_error (Projection.w_projs w0) pi = Some p0 ->
  (forall r, In (Projection.OpProject pi r) opsA <-> In (Projection.OpProject pi r) opsB) ->
  (forall r, In (Projection.OpProjectValues pi r) opsA <-> In (Projection.OpProjectValues pi r) opsB) ->
  forall u, Projection.p_unit p0 = Some u ->
  (forall r, ~ In (Projection.OpProject pi r) opsA) ->
  exists pA pB phi psi,
    nth_error (Projection.w_projs (fst (Projection.run_ops w0 opsA))) pi = Some pA /\
    nth_error (Projection.w_projs (fst (Projection.run_ops w0 opsB))) pi = Some pB /\
    Proofs.ProjectionRename.key_renaming pA pB phi psi /\
    (forall x k k',
       Proofs.ProjectionRename.handed_unit opsA (snd (Projection.run_ops w0 opsA)) pi x k ->
       Proofs.ProjectionRename.handed_unit opsB (snd (Projection.run_ops w0 opsB)) pi x k' ->
       k' = phi k /\ k = psi k').
Proof. exact Proofs.ProjectionRename.unit_renaming. Qed.
Print Assumptions C14_projection_renaming_unit.

(** pipeline_line_perm (C15 for cmd/benchstat, from the records).  Two
    successful runs with the same compiled flags whose RESULT records say the
    same things in a different order - [content]: name, file configuration in
    scope, values with tidied units; not the position (file, line) of a record,
    nor unit-metadata or syntax-error records - produce the same cells up to the
    renaming of interned Key numbers: for the table, row, column and residue
    projections there are bijections [ren pi]/[inv pi] of Key numbers that
    preserve every reading (C14_key_renaming_spelled); the tuples of the second
    run are a permutation of the renamed tuples of the first; and cell
    (t, r, c) of the first run and cell (ren t, ren r, ren c) of the second
    hold the same multiset of values *)
Theorem C14_pipeline_line_perm :
  forall is_space is_lower is_upper atoi parse_float re_ok rematch fl files fl' files' o o' assign assign',
  Proofs.Pipeline.run_facts is_space is_lower is_upper atoi parse_float re_ok rematch fl files o assign ->
  Proofs.Pipeline.run_facts is_space is_lower is_upper atoi parse_float re_ok rematch fl' files' o' assign' ->
  o_compiled o = o_compiled o' ->
  Permutation (map Proofs.PipelinePerm.content (Proofs.PipelinePerm.results_of (o_records o)))
              (map Proofs.PipelinePerm.content (Proofs.PipelinePerm.results_of (o_records o'))) ->
  exists ren inv : nat -> nat -> nat,
    (forall pi, In pi [pi_table; pi_row; pi_col; pi_residue] ->
       exists pF pF', nth_error (Projection.w_projs (o_world o)) pi = Some pF /\
                      nth_error (Projection.w_projs (o_world o')) pi = Some pF' /\
                      Proofs.ProjectionRename.key_renaming pF pF' (ren pi) (inv pi)) /\
    Permutation (map (Proofs.PipelinePerm.rename_meas ren) (o_tuples o)) (o_tuples o') /\
    (forall t r c, t < Proofs.PipelinePerm.nkeys o pi_table -> r < Proofs.PipelinePerm.nkeys o pi_row ->
       c < Proofs.PipelinePerm.nkeys o pi_col ->
       Permutation (lookup_vals (build (o_tuples o)) (N.of_nat t) (N.of_nat r) (N.of_nat c))
                   (lookup_vals (build (o_tuples o'))
                      (N.of_nat (ren pi_table t)) (N.of_nat (ren pi_row r)) (N.of_nat (ren pi_col c)))).
Proof. exact Proofs.PipelinePerm.line_perm_records. Qed.
Print Assumptions C14_pipeline_line_perm.

(** the same from the kept results ([kc]: the result as Builder.Add sees it and
    its remaining values), with the Keys of corresponding results related
    one by one: a result kept in both runs gets, in the second run, exactly the
    renamed Keys it got in the first *)
Theorem C14_pipeline_line_perm_renaming :
  forall is_space is_lower is_upper atoi parse_float re_ok rematch fl fl' files files' o o' assign assign',
  Proofs.Pipeline.run_facts is_space is_lower is_upper atoi parse_float re_ok rematch fl files o assign ->
  Proofs.Pipeline.run_facts is_space is_lower is_upper atoi parse_float re_ok rematch fl' files' o' assign' ->
  o_compiled o = o_compiled o' ->
  Permutation (map Proofs.PipelinePerm.kc (o_kept o)) (map Proofs.PipelinePerm.kc (o_kept o')) ->
  exists ren inv : nat -> nat -> nat,
    (forall pi, In pi [pi_table; pi_row; pi_col; pi_residue] ->
       exists pF pF', nth_error (Projection.w_projs (o_world o)) pi = Some pF /\
                      nth_error (Projection.w_projs (o_world o')) pi = Some pF' /\
                      Proofs.ProjectionRename.key_renaming pF pF' (ren pi) (inv pi)) /\
    (forall i i' k a k' a', nth_error (o_kept o) i = Some k -> nth_error assign i = Some a ->
       nth_error (o_kept o') i' = Some k' -> nth_error assign' i' = Some a' ->
       Proofs.PipelinePerm.kc k = Proofs.PipelinePerm.kc k' -> a' = Proofs.PipelinePerm.rename_assign ren a) /\
    Permutation (map (Proofs.PipelinePerm.rename_meas ren) (o_tuples o)) (o_tuples o').
Proof. exact Proofs.PipelinePerm.line_perm_renaming. Qed.
Print Assumptions C14_pipeline_line_perm_renaming.

(** cells as multisets, and as LISTS when order is kept: if the kept results
    that contribute to cell (t, r, c) of the first run and those that
    contribute to the renamed cell of the second run are the same results in
    the same relative order, the two cells hold the same list of values *)
Theorem C14_pipeline_line_perm_cells :
  forall is_space is_lower is_upper atoi parse_float re_ok rematch fl fl' files files' o o' assign assign',
  Proofs.Pipeline.run_facts is_space is_lower is_upper atoi parse_float re_ok rematch fl files o assign ->
  Proofs.Pipeline.run_facts is_space is_lower is_upper atoi parse_float re_ok rematch fl' files' o' assign' ->
  o_compiled o = o_compiled o' ->
  Permutation (map Proofs.PipelinePerm.kc (o_kept o)) (map Proofs.PipelinePerm.kc (o_kept o')) ->
  exists ren inv : nat -> nat -> nat,
    (forall pi, In pi [pi_table; pi_row; pi_col; pi_residue] ->
       exists pF pF', nth_error (Projection.w_projs (o_world o)) pi = Some pF /\
                      nth_error (Projection.w_projs (o_world o')) pi = Some pF' /\
                      Proofs.ProjectionRename.key_renaming pF pF' (ren pi) (inv pi)) /\
    (forall t r c, t < Proofs.PipelinePerm.nkeys o pi_table -> r < Proofs.PipelinePerm.nkeys o pi_row ->
       c < Proofs.PipelinePerm.nkeys o pi_col ->
       Permutation (lookup_vals (build (o_tuples o)) (N.of_nat t) (N.of_nat r) (N.of_nat c))
                   (lookup_vals (build (o_tuples o'))
                      (N.of_nat (ren pi_table t)) (N.of_nat (ren pi_row r)) (N.of_nat (ren pi_col c)))) /\
    (forall t r c, t < Proofs.PipelinePerm.nkeys o pi_table -> r < Proofs.PipelinePerm.nkeys o pi_row ->
       c < Proofs.PipelinePerm.nkeys o pi_col ->
       let sel := fun ka => negb (Name.is_nil (Proofs.Pipeline.contrib (N.of_nat t) (N.of_nat r) (N.of_nat c) ka)) in
       let sel' := fun ka => negb (Name.is_nil (Proofs.Pipeline.contrib (N.of_nat (ren pi_table t)) (N.of_nat (ren pi_row r))
                                                  (N.of_nat (ren pi_col c)) ka)) in
       map (fun ka => Proofs.PipelinePerm.kc (fst ka)) (filter sel (combine (o_kept o) assign))
       = map (fun ka => Proofs.PipelinePerm.kc (fst ka)) (filter sel' (combine (o_kept o') assign')) ->
       lookup_vals (build (o_tuples o)) (N.of_nat t) (N.of_nat r) (N.of_nat c)
       = lookup_vals (build (o_tuples o'))
           (N.of_nat (ren pi_table t)) (N.of_nat (ren pi_row r)) (N.of_nat (ren pi_col c))).
Proof. exact Proofs.PipelinePerm.line_perm_cells. Qed.
Print Assumptions C14_pipeline_line_perm_cells.

(** non-vacuity of the hypotheses of C14_pipeline_line_perm (and of the table-Key
    theorems): two runs on the same two files given in the two orders.  The
    records are permuted; every number changes - table Keys 0,1,2 become 2,0,1,
    rows and columns swap, and the .config group of the table projection has its
    sub-fields goos, goarch in the other order - while the readings stay *)
Definition ex_textA : bytes := bs "goos: linux" ++ [x0a] ++ bs "BenchmarkA 10 2 ns/op" ++ [x0a].
Definition ex_textB : bytes := bs "goarch: amd64" ++ [x0a] ++ bs "BenchmarkB 10 4 ns/op 3 B/op" ++ [x0a].
Definition ex_run_files (files : list (bytes * bytes)) :=
  benchstat_run ex_is_space ex_is_lower ex_is_upper ex_atoi ex_pf (fun _ => true) (fun _ _ => false) default_flags files.
Definition ex_run_ab := ex_run_files [(bs "a.txt", ex_textA); (bs "b.txt", ex_textB)].
Definition ex_run_ba := ex_run_files [(bs "b.txt", ex_textB); (bs "a.txt", ex_textA)].
Example C14_pipeline_line_perm_example :
  match ex_run_ab, ex_run_ba with
  | POk o, POk o' =>
      o_compiled o = o_compiled o' /\
      Permutation (map Proofs.PipelinePerm.content (Proofs.PipelinePerm.results_of (o_records o)))
                  (map Proofs.PipelinePerm.content (Proofs.PipelinePerm.results_of (o_records o'))) /\
      map (fun m => (m_t m, m_r m, m_c m)) (o_tuples o) = [(0, 0, 0); (1, 1, 1); (2, 1, 1)]%N /\
      map (fun m => (m_t m, m_r m, m_c m)) (o_tuples o') = [(0, 0, 0); (1, 0, 0); (2, 1, 1)]%N /\
      key_named (proj_of (o_world o) pi_table) 0
        = [(bs "goos", bs "linux"); (bs "goarch", []); (bs ".unit", bs "sec/op")] /\
      key_named (proj_of (o_world o') pi_table) 2
        = [(bs "goarch", []); (bs "goos", bs "linux"); (bs ".unit", bs "sec/op")] /\
      table_unit (proj_of (o_world o) pi_table) 2 = bs "B/op" /\
      table_unit (proj_of (o_world o') pi_table) 1 = bs "B/op"
  | _, _ => False
  end.
Proof. vm_compute. repeat split. apply perm_swap. Qed.

(** ... and such runs have the anatomy the theorems speak about, with kept
    results and assignments to apply them to *)
Definition ex_lens (r : presult run_out) : option (list nat) :=
  match r with POk o => Some (map (fun k => length (k_vals k)) (o_kept o)) | PErr _ => None end.
Example C14_pipeline_table_key_example :
  exists o assign k a,
    Proofs.Pipeline.run_facts ex_is_space ex_is_lower ex_is_upper ex_atoi ex_pf (fun _ => true) (fun _ _ => false)
      default_flags [(bs "a.txt", ex_textA); (bs "b.txt", ex_textB)] o assign /\
    nth_error (o_kept o) 1 = Some k /\ nth_error assign 1 = Some a /\ length (Proofs.Pipeline.a_tables a) = 2.
Proof.
  assert (L : ex_lens ex_run_ab = Some [1; 2]) by (vm_compute; reflexivity).
  assert (T : match ex_run_ab with
              | POk o => exists assign,
                  Proofs.Pipeline.run_facts ex_is_space ex_is_lower ex_is_upper ex_atoi ex_pf (fun _ => true) (fun _ _ => false)
                    default_flags [(bs "a.txt", ex_textA); (bs "b.txt", ex_textB)] o assign
              | PErr e => e <> EInternal /\ e <> EFuel
              end).
  { exact (C14_pipeline_total ex_is_space ex_is_lower ex_is_upper ex_atoi ex_pf (fun _ => true) (fun _ _ => false)
             default_flags [(bs "a.txt", ex_textA); (bs "b.txt", ex_textB)]). }
  destruct ex_run_ab as [o|e]; [|discriminate]. cbn [ex_lens] in L. injection L as L.
  destruct T as [assign F].
  pose proof (Proofs.Pipeline.rf_assign _ _ _ _ _ _ _ _ _ _ _ F) as A.
  destruct (o_kept o) as [|k0 [|k1 [|k2 ks]]] eqn:EK; try discriminate.
  inversion A as [|? a0 ? ? _ A1]; subst. inversion A1 as [|? a1 ? ? L1 _]; subst.
  exists o, (a0 :: a1 :: l'0), k1, a1. split; [exact F|]. split; [now rewrite EK|]. split; [reflexivity|].
  cbn in L. injection L as _ L. congruence.
Qed.

(** ** the summary ("geomean") row, declaratively (Model/SummarySpec.v) *)
From Perf Require Import Model.SummarySpec.
From Perf Require Proofs.SummarySpec.

(** for every table, row list and column: the model of summarizeCol shows a
    geomean of the column's centres iff they are all positive (else "summaries
    must be >0"); outside the first column a geomean of the per-row ratios
    against the first column iff no ratio is uncomputable and all are positive,
    "ratios must be >0" iff none is uncomputable and not all are positive,
    neither when some ratio is uncomputable; the set warning iff the row sets
    differ; and the geomeans are taken of exactly the rule's lists.  Only
    assumption: GeoMean is NaN exactly on lists that are empty or hold a
    non-positive (or NaN) value - where the real GeoMean departs from that
    (C14_geomean_inf_order_refuted) the judge fails and the finding is recorded *)
Theorem C14_summary_rule_model :
  forall (centre geomean : list b64 -> b64),
  (forall l, b64_is_nan (geomean l) = negb (all_pos l)) ->
  forall cs c0 col rows is_base,
    let cc := cc_of centre cs in
    let m := col_summary centre geomean cs rows c0 is_base col in
    let ru := summary_rule rows cc c0 is_base col in
    cs_has_summary m = sr_has_summary ru
    /\ negb (cs_has_summary m) = sr_warn_sum ru
    /\ cs_summary m = geomean (sr_centres ru)
    /\ cs_has_ratio m = sr_has_ratio ru
    /\ (cs_has_ratio m = true -> cs_ratio m = geomean (sr_ratios ru))
    /\ col_warn_ratio centre geomean cs rows c0 is_base col = sr_warn_ratio ru
    /\ cs_warn_set m = sr_warn_set ru.
Proof. exact Proofs.SummarySpec.summary_rule_model. Qed.
Print Assumptions C14_summary_rule_model.

(** a "?" ratio geomean without a ratios-warning only arises over a zero centre
    in the first column, and then the first column carries "summaries must be >0":
    whenever a geomean is missing, a "must be >0" warning is in the summary row *)
Theorem C14_uncomputable_base_warned :
  forall (centre : list b64 -> b64) cs c0 col rows,
    let cc := cc_of centre cs in
    existsb is_uncomputable (col_ratios rows cc c0 col) = true ->
    sr_warn_sum (summary_rule rows cc c0 true c0) = true.
Proof. exact Proofs.SummarySpec.uncomputable_base_warned. Qed.
Print Assumptions C14_uncomputable_base_warned.

(** the hypothesis of C14_summary_rule_model is satisfiable, and the rule on
    cmd/benchstat/testdata/zero.txt's last two tables: 0/0 counts as ratio 1
    (geomean of ratios shown, base and column both warned about their zero
    centres); 100/0 is uncomputable ("?" without a ratios-warning) *)
Definition ex_geomean (l : list b64) : b64 := if all_pos l then b64_one else S754_nan.
Example C14_summary_rule_example :
  (forall l, b64_is_nan (ex_geomean l) = negb (all_pos l)) /\
  let z := b64_zero in let h := b64_of_Z 100 in
  let cc_x (r c : N) := Some z in
  let cc_y (r c : N) := if (c =? 0)%N then Some z else Some h in
  let rx := summary_rule [0; 1]%N cc_x 0%N false 1%N in
  let ry := summary_rule [0; 1]%N cc_y 0%N false 1%N in
  (sr_has_summary rx, sr_warn_sum rx, sr_has_ratio rx, sr_warn_ratio rx, sr_ratios rx)
    = (false, true, true, false, [b64_one; b64_one]) /\
  (sr_has_summary ry, sr_warn_sum ry, sr_has_ratio ry, sr_warn_ratio ry, sr_warn_set ry)
    = (true, false, false, false, false) /\
  sr_warn_sum (summary_rule [0; 1]%N cc_y 0%N true 0%N) = true.
Proof.
  split.
  - intros l. unfold ex_geomean. now destruct (all_pos l).
  - vm_compute. repeat split.
Qed.

(** the delta of a cell and the strings that denote it *)
Example C14_delta_rule_example :
  let f := b64_of_Z in let a := b64_of_ZE 1%Z (-5)%Z in   (* alpha = 1/32 *)
  delta_rule b64_one a (f 1%Z) (f 2%Z) = DTilde /\
  delta_rule b64_zero a (f 3%Z) (f 3%Z) = DZero /\
  delta_rule b64_zero a (f 0%Z) (f 3%Z) = DUnknown /\
  delta_str_ok (bs "+100.00%") (delta_rule b64_zero a (f 1%Z) (f 2%Z)) = true /\
  delta_str_ok (bs "-50.00%") (delta_rule b64_zero a (f 2%Z) (f 1%Z)) = true /\
  delta_str_ok (bs "+100.00%") (delta_rule b64_zero a (f 2%Z) (f 1%Z)) = false /\
  delta_str_ok (bs "-66.67%") (delta_rule b64_zero a (f 3%Z) (f 1%Z)) = true /\
  delta_str_ok (bs "-66.66%") (delta_rule b64_zero a (f 3%Z) (f 1%Z)) = false /\
  delta_str_ok (bs "+66.67%") (delta_rule b64_zero a (f 3%Z) (f 1%Z)) = false /\
  delta_str_ok (bs "+Inf%") (delta_rule b64_zero a (f 1%Z) (S754_infinity false)) = true.
Proof. vm_compute. repeat split. Qed.

(** ** recorded deviation C14_geomean_inf_order (known_findings.json): go-moremath's
    GeoMean is a running mean of logarithms; for ANY logarithm that maps +Inf
    to +Inf there is an all-positive list - the rule shows its geomean, +Inf, and
    no warning - on which that mean is NaN, so summarizeCol raises "summaries
    must be >0 to compute geomean" instead *)
Theorem C14_geomean_inf_order_refuted :
  forall ln : b64 -> b64,
    ln Proofs.SummarySpec.pinf = Proofs.SummarySpec.pinf -> b64_is_finite (ln b64_one) = true ->
    exists l, all_pos l = true /\ b64_is_nan (Proofs.SummarySpec.running_log_mean ln l) = true.
Proof. exact Proofs.SummarySpec.geomean_inf_order_refuted. Qed.
Print Assumptions C14_geomean_inf_order_refuted.

Example C14_geomean_inf_order_instance :
  let ln (x : b64) := if b64_is_inf x then x else b64_zero in
  ln Proofs.SummarySpec.pinf = Proofs.SummarySpec.pinf /\ b64_is_finite (ln b64_one) = true /\
  b64_is_nan (Proofs.SummarySpec.running_log_mean ln [Proofs.SummarySpec.pinf; b64_one]) = true /\
  b64_is_nan (Proofs.SummarySpec.running_log_mean ln [b64_one; Proofs.SummarySpec.pinf]) = false.
Proof. vm_compute. repeat split. Qed.
