(** C14 — benchstat puts each measurement in one cell and reports its true statistics.
    Statements only; proofs are in Proofs/BenchTab.v. The model is
    Model/BenchTab.v (Builder.Add, ToTables, summarizeCol, NonSingularFields);
    sample statistics are parameters (C11-C13 are about them). *)
From Perf Require Import Base.Bytes Base.B64 Model.BenchTab Proofs.BenchTab.
From Coq Require Import Sorting.Permutation.

(** the sample of cell (table, row, col) is exactly the measurements projected
    there, each counted once, in input order: cells partition the measurements *)
Theorem C14_cell_sample_exact : forall ms t r c,
  lookup_vals (build ms) t r c = map m_v (filter (m_is t r c) ms).
Proof. exact cell_sample_exact. Qed.
Print Assumptions C14_cell_sample_exact.

(** a cell exists iff at least one measurement falls under its keys *)
Theorem C14_cell_exists_iff : forall ms t r c,
  lookup_cell (build ms) t r c <> None <-> exists m, In m ms /\ m_is t r c m = true.
Proof. exact cell_exists_iff. Qed.
Print Assumptions C14_cell_exists_iff.

(** the residue keys recorded for a cell are exactly those of its measurements *)
Theorem C14_cell_residue_exact : forall ms t r c k,
  In k (lookup_res (build ms) t r c) <-> exists m, In m ms /\ m_is t r c m = true /\ m_res m = k.
Proof. exact cell_residue_exact. Qed.
Print Assumptions C14_cell_residue_exact.

(** the "benchmarks vary in" warning names exactly the residue fields on which
    two merged results differ *)
Theorem C14_nonsingular_iff : forall (vals : N -> list bytes) nf keys i,
  In i (nonsingular vals nf keys) <->
  (i < nf)%nat /\ exists k1 k2, In k1 keys /\ In k2 keys /\ fval vals k1 i <> fval vals k2 i.
Proof. exact nonsingular_iff. Qed.
Print Assumptions C14_nonsingular_iff.

(** the baseline (first) column is a minimum of the column order *)
Theorem C14_baseline_is_first_col : forall rank l c0 rest,
  sort_by rank l = c0 :: rest -> forall c, In c l -> (rank c0 <= rank c)%N.
Proof. exact sorted_head_min. Qed.
Print Assumptions C14_baseline_is_first_col.

(** rows, columns and tables are the keys present, each once, in sort order *)
Theorem C14_sorted_keys : forall rank l,
  Permutation (sort_by rank (dedup l)) (dedup l) /\ NoDup (dedup l) /\
  (forall x, In x (dedup l) <-> In x l) /\
  Sorted.StronglySorted (rank_le rank) (sort_by rank (dedup l)).
Proof.
  intros. repeat split; try apply dedup_in.
  - apply sort_by_perm. - apply dedup_nodup. - apply sort_by_sorted.
Qed.
Print Assumptions C14_sorted_keys.

(** the "benchmark set differs from baseline" warning is raised for a column iff
    its set of rows differs from the baseline column's *)
Theorem C14_set_warning_iff : forall centre geomean cs rows c0 col,
  cs_warn_set (col_summary centre geomean cs rows c0 false col) = false <->
  forall r, In r rows -> has_cell cs c0 r = has_cell cs col r.
Proof. exact set_warning_iff. Qed.
Print Assumptions C14_set_warning_iff.

Theorem C14_base_col_no_set_warning : forall centre geomean cs rows c0 col,
  cs_warn_set (col_summary centre geomean cs rows c0 true col) = false.
Proof. exact base_col_no_set_warning. Qed.
Print Assumptions C14_base_col_no_set_warning.

(** headline refinement: for every sequence of measurements, the tables the
    builder produces are the specified ones - one table per table key present,
    in sort order; rows and columns the keys present, in sort order; one cell per
    populated (row, col) holding exactly its measurements and residue keys;
    baseline = first column; summaries as summarizeCol computes them from those
    cells (sort orders injective on keys, which C09 establishes) *)
Theorem C14_build_meets_spec :
  forall rank_t rank_r rank_c centre geomean,
  (forall a b, rank_r a = rank_r b -> a = b) ->
  (forall a b, rank_c a = rank_c b -> a = b) ->
  (forall a b, rank_t a = rank_t b -> a = b) ->
  forall ms,
  to_tables rank_t rank_r rank_c centre geomean (build ms) =
  spec_tables rank_t rank_r rank_c centre geomean ms.
Proof. exact build_meets_spec. Qed.
Print Assumptions C14_build_meets_spec.

(** the stateful lookup of a cell is the declarative one *)
Theorem C14_build_cell_is_spec : forall ms t r c, lookup_cell (build ms) t r c = spec_cell ms t r c.
Proof. exact build_cell_is_spec. Qed.
Print Assumptions C14_build_cell_is_spec.

(** non-vacuity *)
Example C14_example :
  let ms := [mkMeas 0 0 0 0 b64_one; mkMeas 0 0 1 1 b64_zero; mkMeas 0 0 0 2 b64_zero] in
  lookup_vals (build ms) 0 0 0 = [b64_one; b64_zero] /\ lookup_res (build ms) 0 0 0 = [0; 2]%N.
Proof. split; reflexivity. Qed.
