(** C06 — Filters keep exactly the measurements their boolean meaning denotes.
    Statements only; proofs are in Proofs/FilterEval.v.

    [eval] is the model of the compiled filter of benchproc/filter.go (closures
    returning (mask, bool), 32-bit mask words, NOT/AND/OR with short-circuit
    and first-mask adoption); [denote] is ordinary boolean semantics per
    measurement; [rematch] stands for regexp matching (any function). The
    number of measurements is [length (fr_units r)]. *)
From Perf Require Import Base.Bytes Model.Name Model.Extract Model.FilterAst Model.FilterParse
  Model.ProjParse Model.FilterEval Proofs.FilterEval.

(** measurement i is matched iff the expression is true of measurement i —
    for every expression tree, every result, every measurement count *)
Theorem C06_eval_test_denote :
  forall rematch r f i, i < length (fr_units r) ->
  match_test (length (fr_units r)) (eval rematch f r) i = denote rematch f r i.
Proof. exact eval_test_denote. Qed.
Print Assumptions C06_eval_test_denote.

(** indices outside the result never match (bits above n, which NOT sets, are never seen) *)
Theorem C06_test_out_of_range :
  forall rematch r f i, length (fr_units r) <= i ->
  match_test (length (fr_units r)) (eval rematch f r) i = false.
Proof. exact test_out_of_range. Qed.
Print Assumptions C06_test_out_of_range.

(** Apply keeps precisely the matching measurements in their original order and
    reports whether any remain (results have at least one measurement) *)
Theorem C06_apply_keeps_exactly :
  forall rematch r f (A : Type) (vals : list A),
  length vals = length (fr_units r) -> 1 <= length (fr_units r) ->
  match_apply (eval rematch f r) vals =
  (keep (denote rematch f r) vals 0, existsb (denote rematch f r) (seq 0 (length (fr_units r)))).
Proof. intros; now apply apply_keeps_exactly. Qed.
Print Assumptions C06_apply_keeps_exactly.

(** All / Any at word level. Proved: the directions Apply relies on.
    Full statements (not proved: they additionally need the invariant that
    every mask word is below 2^32):
      match_all n (eval f r) = forallb (denote f r) (seq 0 n)
      match_any n (eval f r) = existsb (denote f r) (seq 0 n)
    Both equalities are checked on every generated case by prop_ok. *)
Theorem C06_all_forall_partial :
  forall rematch r f, match_all (length (fr_units r)) (eval rematch f r) = true ->
  forall i, i < length (fr_units r) -> denote rematch f r i = true.
Proof. exact all_sound. Qed.
Print Assumptions C06_all_forall_partial.

Theorem C06_any_exists_partial :
  forall rematch r f, match_any (length (fr_units r)) (eval rematch f r) = false ->
  forall i, i < length (fr_units r) -> denote rematch f r i = false.
Proof. exact any_sound. Qed.
Print Assumptions C06_any_exists_partial.

(** '*' is true; key:(a OR b) is the disjunction of key:a and key:b *)
Theorem C06_star_true : forall rematch r i, denote rematch (FAnd []) r i = true.
Proof. reflexivity. Qed.
Print Assumptions C06_star_true.

Theorem C06_value_list_is_disjunction :
  parse_filter Rune.go_is_space (fun _ => true) (bs "k:(a OR b)")
    = Ok (FOr [FMatch (bs "k") (MLit (bs "a")) 0; FMatch (bs "k") (MLit (bs "b")) 0])
  /\ forall rematch r i k a b o,
       denote rematch (FOr [FMatch k a o; FMatch k b o]) r i =
       denote rematch (FMatch k a o) r i || denote rematch (FMatch k b o) r i.
Proof. split; [vm_compute; reflexivity|]. intros. cbn [denote existsb]. now rewrite orb_false_r. Qed.
Print Assumptions C06_value_list_is_disjunction.

(** non-vacuity: a 33-measurement result, a NOT over a .unit mask crossing a word *)
Example C06_example :
  let r := mkRes (bs "Fib/k=1-8") [mkCfg (bs "goos") (bs "linux") true]
                 (repeat (bs "sec/op", bs "ns/op") 32 ++ [(bs "B/op", [])]) in
  let f := FAnd [FMatch (bs "goos") (MLit (bs "linux")) 0; FNot (FMatch (bs ".unit") (MLit (bs "ns/op")) 0)] in
  List.filter (match_test 33 (eval (fun _ _ => false) f r)) (seq 0 33) = [32]
  /\ match_apply (eval (fun _ _ => false) f r) (seq 0 33) = ([32], true).
Proof. split; vm_compute; reflexivity. Qed.
