(** C06 — Filters keep exactly the measurements their boolean meaning denotes.
    Statements only; proofs are in Proofs/FilterEval.v, Proofs/FilterMask.v
    (uint32 words, All/Any exact) and Proofs/FilterFixed.v (fixed-list filters).

    [eval] is the model of the compiled filter of benchproc/filter.go (closures
    returning (mask, bool), 32-bit mask words, NOT/AND/OR with short-circuit
    and first-mask adoption); [denote] is ordinary boolean semantics per
    measurement; [rematch] stands for regexp matching (any function). The
    number of measurements is [length (fr_units r)]. *)
From Perf Require Import Base.Bytes Model.Name Model.Extract Model.FilterAst Model.FilterParse
  Model.ProjParse Model.FilterEval Proofs.FilterEval Proofs.FilterMask Proofs.FilterFixed
  Model.FilterGrammarSpec Proofs.FilterGrammarSpec.

(** measurement i is matched iff the expression is true of measurement i —
    for every expression tree, every result, every measurement count *)
Theorem C06_eval_test_denote :
  forall rematch r f i, i < length (fr_units r) ->
  match_test (length (fr_units r)) (eval rematch f r) i = denote rematch f r i.
Proof. exact eval_test_denote. Qed.
Print Assumptions C06_eval_test_denote.

(** indices outside the result never match (bits above n, which NOT sets, are never seen) *)
Theorem C06_test_out_of_range :
  forall rematch r f i, length (fr_units r) <= i ->
  match_test (length (fr_units r)) (eval rematch f r) i = false.
Proof. exact test_out_of_range. Qed.
Print Assumptions C06_test_out_of_range.

(** Apply keeps precisely the matching measurements in their original order and
    reports whether any remain (results have at least one measurement) *)
Theorem C06_apply_keeps_exactly :
  forall rematch r f (A : Type) (vals : list A),
  length vals = length (fr_units r) -> 1 <= length (fr_units r) ->
  match_apply (eval rematch f r) vals =
  (keep (denote rematch f r) vals 0, existsb (denote rematch f r) (seq 0 (length (fr_units r)))).
Proof. intros; now apply apply_keeps_exactly. Qed.
Print Assumptions C06_apply_keeps_exactly.

(** All = "the expression is true of every measurement", Any = "of some
    measurement": exact, for every tree, result and measurement count n >= 1.
    The proof goes through the invariant that every mask word is a uint32
    ([eval_wf]) and the exact treatment of the bits >= n of the last word,
    which NOT sets and which All/Any neutralise with 0xffffffff << (n - i*32). *)
Theorem C06_all_forall :
  forall rematch r f, 1 <= length (fr_units r) ->
  match_all (length (fr_units r)) (eval rematch f r)
  = forallb (denote rematch f r) (seq 0 (length (fr_units r))).
Proof. exact all_forall. Qed.
Print Assumptions C06_all_forall.

Theorem C06_any_exists :
  forall rematch r f, 1 <= length (fr_units r) ->
  match_any (length (fr_units r)) (eval rematch f r)
  = existsb (denote rematch f r) (seq 0 (length (fr_units r))).
Proof. exact any_exists. Qed.
Print Assumptions C06_any_exists.

(** n = 0 (not producible by the reader): with a mask (some .unit term was
    evaluated) All = true and Any = false, as "for all"/"exists" over nothing;
    without a mask both return the value of the expression with every .unit
    term false — so All is false where "for all" is true when that value is
    false, and Any is true where "exists" is false when it is true. *)
Theorem C06_all_any_empty :
  forall rematch r f, length (fr_units r) = 0 ->
  match fst (eval rematch f r) with
  | Some _ => match_all 0 (eval rematch f r) = true /\ match_any 0 (eval rematch f r) = false
  | None => match_all 0 (eval rematch f r) = denote rematch f r 0
            /\ match_any 0 (eval rematch f r) = denote rematch f r 0
  end.
Proof. exact all_any_empty. Qed.
Print Assumptions C06_all_any_empty.

(** the word-level facts under the two theorems above *)
Theorem C06_mask_words_uint32 : forall rematch r f, wf_res (eval rematch f r).
Proof. exact eval_wf. Qed.
Print Assumptions C06_mask_words_uint32.

(** 0xffffffff << k on uint32: bits k..31; = 2^32 - 2^k for k <= 32, 0 from 32 on *)
Theorem C06_shl_ones :
  (forall k c, N.testbit (N.shiftl ones32 k mod two32) c = (k <=? c)%N && (c <? 32)%N)
  /\ (forall k, (k <= 32)%N -> (N.shiftl ones32 k mod two32 = two32 - 2 ^ k)%N)
  /\ (forall k, (32 <= k)%N -> (N.shiftl ones32 k mod two32 = 0)%N).
Proof. exact (conj shl_ones_bits (conj shl_ones_value shl_ones_zero)). Qed.
Print Assumptions C06_shl_ones.

(** (n+31)/32 words: word w exists iff it holds a measurement, so the shift
    count n - w*32 in All/Any is >= 1 (never negative); i < n lives in word i/32 *)
Theorem C06_word_count :
  (forall nn, nn <= nwords nn * 32 < nn + 32)
  /\ (forall w nn, w < nwords nn <-> w * 32 < nn)
  /\ (forall i nn, i < nn <-> i / 32 < nwords nn /\ (i / 32) * 32 + i mod 32 < nn).
Proof. exact (conj nwords_bounds (conj nwords_iff word_index_iff)). Qed.
Print Assumptions C06_word_count.

(** per word: &=, |=, ^ keep uint32; ^x flips the 32 low bits and is 0xffffffff - x *)
Theorem C06_word_ops :
  (forall a b, word32 a -> word32 (N.land a b))
  /\ (forall a b, word32 a -> word32 b -> word32 (N.lor a b))
  /\ (forall x, word32 (not32 x))
  /\ (forall x c, N.testbit (not32 x) c = (c <? 32)%N && negb (N.testbit x c))
  /\ (forall x, word32 x -> not32 x = (ones32 - x)%N).
Proof. exact (conj word32_land (conj word32_lor (conj word32_not32 (conj not32_bits not32_value)))). Qed.
Print Assumptions C06_word_ops.

(** one word of All / Any: x | high = 0xffffffff iff all bits of x that belong
    to measurements < n are set; x &^ high = 0 iff none is *)
Theorem C06_all_any_word :
  forall nn i x, word32 x ->
  ((N.lor x (high_bits nn i) =? ones32)%N = true <->
     forall b, b < 32 -> i * 32 + b < nn -> N.testbit x (N.of_nat b) = true)
  /\ ((N.ldiff x (high_bits nn i) =? 0)%N = true <->
     forall b, b < 32 -> i * 32 + b < nn -> N.testbit x (N.of_nat b) = false).
Proof. intros nn i x Hx. exact (conj (all_word_iff nn i x Hx) (any_word_iff nn i x Hx)). Qed.
Print Assumptions C06_all_any_word.

(** Apply's return value: it is Any, it says whether anything remains, and it
    is true iff some measurement satisfies the expression (n >= 1) *)
Theorem C06_apply_reports_any :
  forall rematch r f (A : Type) (vals : list A),
  length vals = length (fr_units r) -> 1 <= length (fr_units r) ->
  snd (match_apply (eval rematch f r) vals) = match_any (length (fr_units r)) (eval rematch f r)
  /\ snd (match_apply (eval rematch f r) vals) = negb (is_nil (fst (match_apply (eval rematch f r) vals)))
  /\ (snd (match_apply (eval rematch f r) vals) = true <->
      exists i, i < length (fr_units r) /\ denote rematch f r i = true).
Proof. intros; now apply apply_reports_any. Qed.
Print Assumptions C06_apply_reports_any.

(** Filter.Match hands the result back as it received it, can be repeated,
    and does not change what a later Apply does. In the functional model this
    holds by construction ([filter_match f r = (r, eval f r)]: the evaluator has
    no access to a result to write to); that the real Match leaves the real
    object untouched is checked on every generated case (field [unchanged] of
    the case, required by prop_ok). *)
Theorem C06_match_pure :
  forall rematch r f,
  fst (filter_match rematch f r) = r
  /\ filter_match rematch f (fst (filter_match rematch f r)) = filter_match rematch f r
  /\ filter_apply rematch f (fst (filter_match rematch f r)) = filter_apply rematch f r.
Proof. exact match_pure. Qed.
Print Assumptions C06_match_pure.

(** Apply, by contrast, rewrites the measurements *)
Example C06_apply_modifies :
  let r := mkRes (bs "Fib") [] [(bs "sec/op", bs "ns/op"); (bs "B/op", [])] in
  let f := FMatch (bs ".unit") (MLit (bs "B/op")) 0 in
  filter_apply (fun _ _ => false) f r = (mkRes (bs "Fib") [] [(bs "B/op", [])], true)
  /\ fst (filter_match (fun _ _ => false) f r) = r.
Proof. split; vm_compute; reflexivity. Qed.

(** ** fixed-list filters of projections (ProjectionParser.Parse)
    [wrap all_keys ps r inner] is the caller's filter result [inner] after the
    projections [ps] were parsed in order, each conjoining its fixed fields.
    A measurement passes iff every fixed field's PROJECTED value ([proj_value]:
    for .fullname the name with the parser's excluded parts deleted,
    [extractor_fullname all_keys]) is one of its listed words and the caller's
    expression is true of it. *)
Theorem C06_fixed_list_filter :
  forall r all_keys rematch ps f i, i < length (fr_units r) ->
  match_test (length (fr_units r)) (wrap all_keys ps r (eval rematch f r)) i
  = fixed_keeps all_keys ps r && denote rematch f r i.
Proof. exact fixed_list_filter. Qed.
Print Assumptions C06_fixed_list_filter.

(** [fixed_keeps] read as a proposition *)
Theorem C06_fixed_keeps_iff :
  forall r all_keys ps,
  fixed_keeps all_keys ps r = true <->
  forall fields p, In fields ps -> In p fields -> pf_order p = ord_fixed ->
    In (proj_value all_keys (pf_key p) r) (pf_fixed p).
Proof. exact fixed_keeps_iff. Qed.
Print Assumptions C06_fixed_keeps_iff.

(** the single field k@(v1 … vm) *)
Theorem C06_fixed_list_field :
  forall r all_keys rematch f p i, pf_order p = ord_fixed -> i < length (fr_units r) ->
  (match_test (length (fr_units r)) (wrap all_keys [[p]] r (eval rematch f r)) i = true <->
   In (proj_value all_keys (pf_key p) r) (pf_fixed p) /\ denote rematch f r i = true).
Proof. exact fixed_list_field. Qed.
Print Assumptions C06_fixed_list_field.

(** All / Any / Apply of the conjoined filter *)
Theorem C06_fixed_list_all_any :
  forall r all_keys rematch ps f, 1 <= length (fr_units r) ->
  match_all (length (fr_units r)) (wrap all_keys ps r (eval rematch f r))
  = fixed_keeps all_keys ps r && forallb (denote rematch f r) (seq 0 (length (fr_units r)))
  /\ match_any (length (fr_units r)) (wrap all_keys ps r (eval rematch f r))
  = fixed_keeps all_keys ps r && existsb (denote rematch f r) (seq 0 (length (fr_units r))).
Proof. intros. split; [now apply fixed_list_all|now apply fixed_list_any]. Qed.
Print Assumptions C06_fixed_list_all_any.

Theorem C06_fixed_list_apply :
  forall r all_keys rematch ps f (A : Type) (vals : list A),
  length vals = length (fr_units r) -> 1 <= length (fr_units r) ->
  match_apply (wrap all_keys ps r (eval rematch f r)) vals =
  (if fixed_keeps all_keys ps r then keep (denote rematch f r) vals 0 else [],
   fixed_keeps all_keys ps r && existsb (denote rematch f r) (seq 0 (length (fr_units r)))).
Proof. intros; now apply fixed_list_apply. Qed.
Print Assumptions C06_fixed_list_apply.

(** the projected value: .fullname is filtered on the name with the excluded
    parts deleted (not on the raw full name); every other key on its extractor *)
Theorem C06_fixed_list_projected_value :
  forall r all_keys,
  proj_value all_keys key_fullname r = extractor_fullname all_keys (fr_name r)
  /\ forall k, k <> key_fullname -> proj_value all_keys k r = extract k (fr_name r) (fr_cfg r).
Proof. intros r ak. exact (conj (proj_value_fullname r ak) (proj_value_other r ak)). Qed.
Print Assumptions C06_fixed_list_projected_value.

(** the empty word: a file-configuration key that the result lacks (or has
    with an empty value) projects to "", and a field whose projected value is
    "" keeps the result iff "" is one of the listed words *)
Theorem C06_fixed_list_empty_word :
  forall r all_keys,
  (forall k, k <> key_name -> k <> key_fullname -> is_subname_key k = false ->
     match cfg_lookup (fr_cfg r) k with Some c => c_val c = [] | None => True end ->
     proj_value all_keys k r = [])
  /\ (forall p, pf_order p = ord_fixed -> proj_value all_keys (pf_key p) r = [] ->
       (field_keeps all_keys p r = true <-> In [] (pf_fixed p))).
Proof. intros r ak. exact (conj (proj_value_absent r ak) (fixed_list_empty_word r ak)). Qed.
Print Assumptions C06_fixed_list_empty_word.

(** non-vacuity, through the parser: ".fullname@(Fib-8)" parsed together with
    "/k" filters on the projected name "Fib-8" (the raw full name is
    "Fib/k=1-8" and is not in the list); goos@(linux "") accepts a result
    without goos through the empty word and rejects goos:plan9 *)
Example C06_fixed_example :
  let parse q := match new_projection Rune.go_is_space (fun _ => true) q with Ok l => l | _ => [] end in
  let ps := [parse (bs ".fullname@(Fib-8)"); parse (bs "/k")] in
  let r := mkRes (bs "Fib/k=1-8") [] [(bs "sec/op", bs "ns/op"); (bs "B/op", [])] in
  let star := FAnd [] in
  map pf_fixed (concat ps) = [[bs "Fib-8"]; []]
  /\ fullname_keys ps = [bs "/k"]
  /\ proj_value (fullname_keys ps) key_fullname r = bs "Fib-8"
  /\ full (fr_name r) = bs "Fib/k=1-8"
  /\ fixed_keeps (fullname_keys ps) ps r = true
  /\ match_apply (wrap (fullname_keys ps) ps r (eval (fun _ _ => false) star r)) (seq 0 2) = ([0; 1], true)
  /\ (let qs := [parse (bs "goos@(linux """")")] in
      map pf_fixed (concat qs) = [[bs "linux"; []]]
      /\ fixed_keeps (fullname_keys qs) qs r = true
      /\ fixed_keeps (fullname_keys qs) qs (mkRes (bs "Fib") [mkCfg (bs "goos") (bs "plan9") true] []) = false).
Proof. vm_compute. repeat split; reflexivity. Qed.

(** AND, OR, NOT through Test *)
Theorem C06_and_is_conjunction :
  forall rematch r l i, i < length (fr_units r) ->
  match_test (length (fr_units r)) (eval rematch (FAnd l) r) i
  = forallb (fun g => match_test (length (fr_units r)) (eval rematch g r) i) l.
Proof. exact and_is_conjunction. Qed.
Print Assumptions C06_and_is_conjunction.

Theorem C06_or_is_disjunction :
  forall rematch r l i, i < length (fr_units r) ->
  match_test (length (fr_units r)) (eval rematch (FOr l) r) i
  = existsb (fun g => match_test (length (fr_units r)) (eval rematch g r) i) l.
Proof. exact or_is_disjunction. Qed.
Print Assumptions C06_or_is_disjunction.

Theorem C06_not_is_negation :
  forall rematch r g i, i < length (fr_units r) ->
  match_test (length (fr_units r)) (eval rematch (FNot g) r) i
  = negb (match_test (length (fr_units r)) (eval rematch g r) i).
Proof. exact not_is_negation. Qed.
Print Assumptions C06_not_is_negation.

(** '*' is true; key:(a OR b) is the disjunction of key:a and key:b *)
Theorem C06_star_true : forall rematch r i, denote rematch (FAnd []) r i = true.
Proof. reflexivity. Qed.
Print Assumptions C06_star_true.

Theorem C06_value_list_is_disjunction :
  parse_filter Rune.go_is_space (fun _ => true) (bs "k:(a OR b)")
    = Ok (FOr [FMatch (bs "k") (MLit (bs "a")) 0; FMatch (bs "k") (MLit (bs "b")) 0])
  /\ forall rematch r i k a b o,
       denote rematch (FOr [FMatch k a o; FMatch k b o]) r i =
       denote rematch (FMatch k a o) r i || denote rematch (FMatch k b o) r i.
Proof. split; [vm_compute; reflexivity|]. intros. cbn [denote existsb]. now rewrite orb_false_r. Qed.
Print Assumptions C06_value_list_is_disjunction.

(** non-vacuity: a 33-measurement result, a NOT over a .unit mask crossing a word *)
Example C06_example :
  let r := mkRes (bs "Fib/k=1-8") [mkCfg (bs "goos") (bs "linux") true]
                 (repeat (bs "sec/op", bs "ns/op") 32 ++ [(bs "B/op", [])]) in
  let f := FAnd [FMatch (bs "goos") (MLit (bs "linux")) 0; FNot (FMatch (bs ".unit") (MLit (bs "ns/op")) 0)] in
  List.filter (match_test 33 (eval (fun _ _ => false) f r)) (seq 0 33) = [32]
  /\ match_apply (eval (fun _ _ => false) f r) (seq 0 33) = ([32], true)
  (* the last word after NOT: bit 0 (measurement 32) and all 31 bits above n *)
  /\ fst (eval (fun _ _ => false) f r) = Some [0%N; 4294967295%N]
  /\ match_all 33 (eval (fun _ _ => false) f r) = false
  /\ match_any 33 (eval (fun _ _ => false) f r) = true
  /\ match_any 33 (eval (fun _ _ => false) (FNot f) r) = true
  /\ match_all 33 (eval (fun _ _ => false) (FOr [f; FNot f]) r) = true.
Proof. repeat split; vm_compute; reflexivity. Qed.

(** ** known finding C06_empty_result_answers: results WITHOUT measurements.
    The theorems above that speak of All / Any / Apply's return value assume
    n >= 1; for n = 0 the statement "All = every measurement matches, Any =
    some measurement matches, Apply reports whether any remain" is REFUTED by
    the faithful model (and by /repo: the cases tagged
    c06_result_without_measurements).  '*' on an empty result: Any = true and
    Apply returns true with nothing left; goos:linux on a result that lacks
    goos: All = false although no measurement fails to match. *)
Example C06_empty_result_answers_refuted :
  exists r f g,
    length (fr_units r) = 0
    /\ match_any 0 (eval (fun _ _ => false) f r) = true
    /\ existsb (denote (fun _ _ => false) f r) (seq 0 0) = false
    /\ match_apply (eval (fun _ _ => false) f r) (@nil nat) = ([], true)
    /\ match_all 0 (eval (fun _ _ => false) g r) = false
    /\ forallb (denote (fun _ _ => false) g r) (seq 0 0) = true.
Proof.
  exists (mkRes (bs "X") [] []), (FAnd []), (FMatch (bs "goos") (MLit (bs "linux")) 0).
  vm_compute. repeat split; reflexivity.
Qed.

(** ** the meaning of an expression TEXT: the documented grammar
    (Model/FilterGrammarSpec.v: [derives], the "Precise syntax" of go doc
    benchproc/syntax production by production, with the tree each production
    denotes).  The judge certifies, per case, the tree on which [denote] is
    evaluated with the recogniser [grammar_ok]; that check implies the
    declarative statement: *)
Theorem C06_grammar_ok_derives :
  forall is_space re_ok q f,
  grammar_ok is_space re_ok q f = true -> derives is_space re_ok (length q) q f.
Proof. exact grammar_ok_derives. Qed.
Print Assumptions C06_grammar_ok_derives.

(** non-vacuity and precedence: AND (juxtaposition) binds tighter than OR, '-'
    takes ONE match, parentheses regroup, a value list is a disjunction - and
    the trees a parser with the opposite precedence / a wide '-' would build
    are NOT derivable *)
Example C06_grammar_precedence :
  let ok q f := grammar_ok Rune.go_is_space (fun _ => true) q f in
  let m k v o := FMatch k (MLit v) o in
  ok (bs "a:1 b:2 OR c:3") (FOr [FAnd [m (bs "a") (bs "1") 0; m (bs "b") (bs "2") 4]; m (bs "c") (bs "3") 11]) = true
  /\ ok (bs "a:1 b:2 OR c:3") (FAnd [m (bs "a") (bs "1") 0; FOr [m (bs "b") (bs "2") 4; m (bs "c") (bs "3") 11]]) = false
  /\ ok (bs "a:1 OR b:2 AND c:3") (FOr [m (bs "a") (bs "1") 0; FAnd [m (bs "b") (bs "2") 7; m (bs "c") (bs "3") 15]]) = true
  /\ ok (bs "a:1 OR b:2 AND c:3") (FAnd [FOr [m (bs "a") (bs "1") 0; m (bs "b") (bs "2") 7]; m (bs "c") (bs "3") 15]) = false
  /\ ok (bs "a:1 (b:2 OR c:3)") (FAnd [m (bs "a") (bs "1") 0; FOr [m (bs "b") (bs "2") 5; m (bs "c") (bs "3") 12]]) = true
  /\ ok (bs "-a:1 b:2") (FAnd [FNot (m (bs "a") (bs "1") 1); m (bs "b") (bs "2") 5]) = true
  /\ ok (bs "-a:1 b:2") (FNot (FAnd [m (bs "a") (bs "1") 1; m (bs "b") (bs "2") 5])) = false
  /\ ok (bs "-(a:1 b:2)") (FNot (FAnd [m (bs "a") (bs "1") 2; m (bs "b") (bs "2") 6])) = true
  /\ ok (bs "k:(a OR b) *") (FAnd [FOr [m (bs "k") (bs "a") 0; m (bs "k") (bs "b") 0]; FAnd []]) = true
  /\ ok (bs "k:(a OR b)") (FOr [m (bs "k") (bs "a") 0; m (bs "k") (bs "c") 0]) = false
  /\ ok (bs "a:1 OR") (m (bs "a") (bs "1") 0) = false
  (* and on these texts the model of the parser builds the derivable tree *)
  /\ parse_filter Rune.go_is_space (fun _ => true) (bs "a:1 b:2 OR c:3")
     = Ok (FOr [FAnd [m (bs "a") (bs "1") 0; m (bs "b") (bs "2") 4]; m (bs "c") (bs "3") 11])
  /\ parse_filter Rune.go_is_space (fun _ => true) (bs "-a:1 b:2")
     = Ok (FAnd [FNot (m (bs "a") (bs "1") 1); m (bs "b") (bs "2") 5]).
Proof. vm_compute. repeat split; reflexivity. Qed.
