(** C16 — text tables are laid out without loss (texttab.Format, repaired
    all-shrink span), the column header tree partitions the keys at every level,
    and the text and CSV renderings of a table agree (placement, column headers,
    warnings/footnotes, cell references across tables).
    Statements only; proofs are in Proofs/TextTab*.v, Proofs/Runes.v,
    Proofs/KeyHeader*.v, Proofs/Render*.v. *)
From Coq Require Import Permutation.
From Perf Require Import Base.Bytes Model.Runes Model.TextTab Model.KeyHeader
     Proofs.Runes Proofs.TextTabWidths Proofs.TextTabEmit Proofs.TextTabFormat
     Proofs.TextTabBuild Proofs.TextTabTop Proofs.KeyHeader Proofs.KeyHeaderLevels Proofs.KeyHeaderSpec
     Model.Render Proofs.Render Proofs.RenderNotes Proofs.RenderRows Proofs.RenderAgree Proofs.RenderWarn
     Proofs.RenderTables Proofs.RenderFirstUse.
Local Open Scope Z_scope.

(** after the widest-first loop over a non-empty set of growable columns — in
    ANY processing order — those columns together are at least the need *)
Theorem C16_distribute_covers : forall order ws w,
  NoDup order -> (forall c, In c order -> (c < length ws)%nat) -> order <> [] ->
  w <= sumz (getz (distribute ws order w)) order.
Proof. exact distribute_covers. Qed.
Print Assumptions C16_distribute_covers.

(** widths never shrink while cells are processed (earlier cells stay satisfied) *)
Theorem C16_widths_monotone : forall lm sh l1 l2 ws i,
  getz (fold_left (width_step lm sh) l1 ws) i <= getz (fold_left (width_step lm sh) (l1 ++ l2) ws) i.
Proof. exact widths_monotone. Qed.
Print Assumptions C16_widths_monotone.

(** one cell: after its step it fits, all-shrink spans included *)
Theorem C16_width_step_satisfies : forall lm sh ws c,
  cell_wf (length ws) c -> need lm c <= sum_range (width_step lm sh ws c) (c_col c) (c_span c).
Proof. exact width_step_satisfies. Qed.
Print Assumptions C16_width_step_satisfies.

(** every cell fits its span in the final widths, in whatever order the cells
    were processed (so for every order sort.Slice may produce) *)
Theorem C16_widths_satisfy_any_order : forall lm sh ncols ordered c,
  (forall x, In x ordered -> cell_wf ncols x) -> In c ordered ->
  need lm c <= sum_range (widths lm sh ncols ordered) (c_col c) (c_span c).
Proof. exact widths_satisfy. Qed.
Print Assumptions C16_widths_satisfy_any_order.

(** ... and in the offsets Format computes: margin within the column's margin
    width, margin + text within offs[col+span] - offs[col] *)
Theorem C16_widths_satisfy_cells : forall t perm l,
  format t perm = OOut l -> spans_pos (t_cells t) ->
  forall c, In c (t_cells t) -> cell_fits (l_offs l) (l_lm l) c.
Proof. exact format_cells_fit. Qed.
Print Assumptions C16_widths_satisfy_cells.

(** tables built through the API with spans >= 1: rows in column order, no overlap *)
Theorem C16_build_wf : forall ops t,
  build ops = Some t -> ops_spans_pos ops -> spans_pos (t_cells t) /\ rows_disjoint (t_cells t).
Proof. exact build_wf. Qed.
Print Assumptions C16_build_wf.

(** every printed cell of every line sits at its column's offset: the line is
    A ++ margin field ++ text field ++ Q with A exactly offs[col] runes; the text
    starts at [text_start] >= offs[col] + lmargin[col] and ends <= offs[col+span]
    (no truncation: margin and text appear in full) *)
Theorem C16_cells_at_offsets : forall ops t perm l r pre c post,
  build ops = Some t -> ops_spans_pos ops -> format t perm = OOut l ->
  cells_valid (t_cells t) ->
  row_cells (t_cells t) r = pre ++ c :: post ->
  exists line A Q,
    nth_error (l_lines l) r = Some line /\
    line = A ++ (spaces (getz (l_lm l) (c_col c) - rune_count (c_margin c)) ++ c_margin c)
             ++ (spaces (text_start (l_offs l) (l_lm l) c - getz (l_offs l) (c_col c) - getz (l_lm l) (c_col c))
                 ++ c_val c)
             ++ Q /\
    rune_count A = getz (l_offs l) (c_col c) /\
    getz (l_offs l) (c_col c) + getz (l_lm l) (c_col c) <= text_start (l_offs l) (l_lm l) c /\
    cell_end (l_offs l) (l_lm l) c <= getz (l_offs l) (c_col c + c_span c).
Proof. exact layout_cells_at_offsets. Qed.
Print Assumptions C16_cells_at_offsets.

(** the same for arbitrary byte strings, in the widths of the pieces written
    (Format's own accounting: off += RuneCount of each piece) *)
Theorem C16_cells_at_offsets_pieces : forall ops t perm l r pre c post,
  build ops = Some t -> ops_spans_pos ops -> format t perm = OOut l ->
  row_cells (t_cells t) r = pre ++ c :: post ->
  exists line P Q,
    nth_error (l_lines l) r = Some line /\
    line = concat P ++ (spaces (getz (l_lm l) (c_col c) - rune_count (c_margin c)) ++ c_margin c)
             ++ (spaces (text_start (l_offs l) (l_lm l) c - getz (l_offs l) (c_col c) - getz (l_lm l) (c_col c))
                 ++ c_val c)
             ++ Q /\
    width_of P = getz (l_offs l) (c_col c).
Proof. exact layout_cells_at_offsets_pieces. Qed.
Print Assumptions C16_cells_at_offsets_pieces.

(** rune counting is additive on well-formed UTF-8 (what Format's running offset assumes) *)
Theorem C16_rune_count_additive : forall s t,
  valid_utf8 s = true -> rune_count (s ++ t) = rune_count s + rune_count t.
Proof. exact rune_count_app_valid. Qed.
Print Assumptions C16_rune_count_additive.

(** left-aligned text starts right after the column's margin; right-aligned
    (non-blank) text ends exactly where its span ends, so such cells end at one
    offset; a blank text is not padded (hooks/fix_c16_blank_aligned_padding.diff) *)
Theorem C16_left_aligned_start : forall offs lm c,
  c_align c = ALeft -> text_start offs lm c = getz offs (c_col c) + getz lm (c_col c).
Proof. exact left_start. Qed.
Theorem C16_blank_text_start : forall offs lm c,
  all_blank (c_val c) = true -> text_start offs lm c = getz offs (c_col c) + getz lm (c_col c).
Proof. exact blank_start. Qed.
Theorem C16_right_aligned_end : forall offs lm c,
  c_align c = ARight -> all_blank (c_val c) = false ->
  cell_end offs lm c = getz offs (c_col c + c_span c).
Proof. exact right_end. Qed.
Theorem C16_right_aligned_end_equal : forall offs lm c1 c2,
  c_align c1 = ARight -> c_align c2 = ARight ->
  all_blank (c_val c1) = false -> all_blank (c_val c2) = false ->
  (c_col c1 + c_span c1 = c_col c2 + c_span c2)%nat ->
  cell_end offs lm c1 = cell_end offs lm c2.
Proof. exact layout_right_aligned_end_equal. Qed.
Print Assumptions C16_right_aligned_end_equal.

(** no overlap: a later cell's column starts at or after the end of an earlier cell's text *)
Theorem C16_no_overlap_no_truncation : forall ops t perm l r pre a mid b post,
  build ops = Some t -> ops_spans_pos ops -> format t perm = OOut l ->
  row_cells (t_cells t) r = pre ++ a :: mid ++ b :: post ->
  cell_end (l_offs l) (l_lm l) a <= getz (l_offs l) (c_col b).
Proof. exact layout_no_overlap. Qed.
Print Assumptions C16_no_overlap_no_truncation.

(** no trailing blanks, for EVERY line with a printed cell (empty / blank texts,
    any alignment, any margin): the line ends with [tail_text] of its last
    printed cell and nothing is written after it - the cell's text if that is
    not blank, else its non-blank margin followed by the cell's own blank text
    (no alignment padding; before hooks/fix_c16_blank_aligned_padding.diff an
    empty centred / right-aligned text was padded:
    C16_trailing_blank_empty_aligned_refuted); a row without printed cells is
    an empty line *)
Theorem C16_no_trailing_blank : forall ops t perm l r pre c,
  build ops = Some t -> ops_spans_pos ops -> format t perm = OOut l ->
  row_cells (t_cells t) r = pre ++ [c] ->
  exists line X, nth_error (l_lines l) r = Some line /\ line = X ++ tail_text c /\
    (if all_blank (c_val c) then all_blank (c_margin c) = false else True).
Proof. exact layout_no_trailing_blank. Qed.
Print Assumptions C16_no_trailing_blank.

Theorem C16_blank_row_empty_line : forall t perm l r,
  format t perm = OOut l -> t_cells t <> [] -> (r <= last_row (t_cells t))%nat ->
  row_cells (t_cells t) r = [] -> nth_error (l_lines l) r = Some [].
Proof. exact layout_blank_row. Qed.
Print Assumptions C16_blank_row_empty_line.

Local Open Scope nat_scope.
(** ** the column header tree (benchproc.NewKeyHeader), ALL levels.
    [header_spec nf keys lv] (Proofs/KeyHeaderSpec.v): no keys => no levels;
    otherwise exactly [nf] levels, and at every level l the cells
    - tile the columns 0 .. #keys left to right ([tiling]: ordered, contiguous,
      each >= 1 column: pairwise disjoint, covering);
    - carry Field = l and, as Value, the value of field l of every key they span;
    - span keys that agree on fields 0..l, while keys under neighbouring cells
      do not agree on fields 0..l (maximal runs);
    and the cells of level l+1 lie inside cells of level l ([refines]), whose
    Children count is the number of those cells ([child_counts]; 0 at the last level). *)
Theorem C16_header_partition : forall nf keys,
  Forall (fun k => length k = nf) keys -> header_spec nf keys (key_header nf keys).
Proof. exact header_partition. Qed.
Print Assumptions C16_header_partition.

(** so every column is under exactly one header cell per level, labelled with
    the column key's value of that level's field *)
Theorem C16_header_column_unique : forall nf keys lv l e k,
  header_spec nf keys lv -> l < nf -> nth_error keys e = Some k ->
  exists nodes n, nth_error lv l = Some nodes /\ In n nodes /\ covers n e /\ h_field n = l /\
    h_value n = kget l k /\ forall n', In n' nodes -> covers n' e -> n' = n.
Proof. exact header_column_unique. Qed.
Print Assumptions C16_header_column_unique.

(** what a tiling gives: cover, at most one cell per column, order/disjointness, contiguity *)
Theorem C16_tiling_cover : forall nodes s e x,
  tiling nodes s e -> s <= x < e -> exists n, In n nodes /\ covers n x.
Proof. exact tiling_cover. Qed.
Theorem C16_tiling_unique : forall nodes s e x n n',
  tiling nodes s e -> In n nodes -> In n' nodes -> covers n x -> covers n' x -> n = n'.
Proof. exact tiling_unique. Qed.
Theorem C16_tiling_ordered : forall nodes s e pre a mid b post,
  tiling nodes s e -> nodes = pre ++ a :: mid ++ b :: post -> h_start a + h_len a <= h_start b.
Proof. exact tiling_ordered. Qed.
Theorem C16_tiling_adjacent : forall nodes s e pre a b post,
  tiling nodes s e -> nodes = pre ++ a :: b :: post -> h_start b = h_start a + h_len a.
Proof. exact tiling_adjacent. Qed.
Print Assumptions C16_tiling_unique.

(** the decidable description evaluated on every observed NewKeyHeader result
    ([header_ok], Corr/RunC16.v) holds of the model's tree, and means [header_spec]
    for ANY tree *)
Theorem C16_header_ok_complete : forall nf keys,
  Forall (fun k => length k = nf) keys -> header_ok nf keys (key_header nf keys) = true.
Proof. exact key_header_ok. Qed.
Theorem C16_header_ok_sound : forall nf keys lv,
  Forall (fun k => length k = nf) keys -> header_ok nf keys lv = true -> header_spec nf keys lv.
Proof. exact header_ok_sound. Qed.
Print Assumptions C16_header_ok_complete.
Print Assumptions C16_header_ok_sound.

(** degenerate inputs: no keys, or a projection without fields: no header lines *)
Theorem C16_header_degenerate : forall nf keys, key_header nf [] = [] /\ key_header 0 keys = [].
Proof. intros nf keys. split; [apply key_header_no_keys|apply key_header_no_fields]. Qed.

(** one level of the grouping loop (used by the above): maximal runs *)
Theorem C16_header_level_runs : forall level keys,
  let runs := group_runs level keys in
  concat (map snd runs) = keys /\ Forall (run_ok level) runs /\ adjacent_differ runs.
Proof. exact header_runs_partition. Qed.
Print Assumptions C16_header_level_runs.

(** non-vacuity: the example of keyheader.go's doc comment
    (K0 = a:1 b:1 c:1, K1 = a:1 b:1 c:2, K2 = a:2 b:2 c:2, K3 = a:2 b:3 c:3) *)
Example C16_header_example :
  let keys := [[bs "1"; bs "1"; bs "1"]; [bs "1"; bs "1"; bs "2"]; [bs "2"; bs "2"; bs "2"]; [bs "2"; bs "3"; bs "3"]] in
  Forall (fun k => length k = 3) keys /\
  key_header 3 keys =
    [[mkH 0 (bs "1") 0 2 1; mkH 0 (bs "2") 2 2 2];
     [mkH 1 (bs "1") 0 2 2; mkH 1 (bs "2") 2 1 1; mkH 1 (bs "3") 3 1 1];
     [mkH 2 (bs "1") 0 1 0; mkH 2 (bs "2") 1 1 0; mkH 2 (bs "2") 2 1 0; mkH 2 (bs "3") 3 1 0]].
Proof. split; [repeat constructor|vm_compute; reflexivity]. Qed.

(** ** text and CSV renderings agree (placement; the strings are the real
    Table's formatted values). [csv_start e] / [txt_start e] are the first CSV /
    texttab column of logical column [e]; the delta sits in the first column
    after the centre group in both. [place 0 ops] lists the (column, call) of
    every Cell/Span call; by C16_place_is_build these are the cells' columns. *)

(** data rows: label, centre, range; delta and p/n for non-baseline columns *)
Theorem C16_text_csv_agree_data : forall srow wl label cells e c,
  nth_error cells e = Some (Some c) ->
  let crow := fst (csv_data_row srow label cells) in
  let tops := snd (text_data_ops wl label cells) in
  field crow 0 = label /\ In (0, OSpan 1 label None ALeft) (place 0 tops) /\
  field crow (csv_start e) = rc_csv c /\ In (txt_start e, OSpan 1 (rc_txt c) None ARight) (place 0 tops) /\
  field crow (csv_start e + 1) = rc_range c /\
  In (txt_start e + 1, OSpan 1 (rc_range c) (Some (bs " ± ")) ARight) (place 0 tops) /\
  (0 < e -> forall cm, rc_cmp c = Some cm ->
     field crow (csv_start e + csv_center) = cm_delta cm /\
     In (txt_start e + txt_center, OSpan 1 (cm_delta cm) None ARight) (place 0 tops) /\
     field crow (csv_start e + csv_center + 1) = cm_pn cm /\
     In (txt_start e + txt_center + 1, OSpan 1 (bs "(" ++ cm_pn cm ++ bs ")") None ALeft) (place 0 tops))%nat.
Proof. exact text_csv_agree_data. Qed.
Print Assumptions C16_text_csv_agree_data.

(** summary row, every HasSummary / HasRatio combination: the geomean under the
    centre column, its delta (or "?") under the first delta column — in both *)
Theorem C16_text_csv_agree_summary : forall srow wl label sums e s,
  nth_error sums e = Some (Some s) ->
  let crow := fst (csv_summary_row srow label sums) in
  let tops := snd (text_summary_ops wl label sums) in
  field crow 0 = label /\ In (0, OSpan 1 label None ALeft) (place 0 tops) /\
  (rs_has s = true ->
     field crow (csv_start e) = rs_csv s /\ In (txt_start e, OSpan 1 (rs_txt s) None ARight) (place 0 tops)) /\
  (0 < e ->
     field crow (csv_start e + csv_center) = ratio_text s /\
     In (txt_start e + txt_center, OSpan 1 (ratio_text s) None (if rs_hasratio s then ARight else ALeft))
        (place 0 tops))%nat.
Proof. exact text_csv_agree_summary. Qed.
Print Assumptions C16_text_csv_agree_summary.

(** unit row: the unit over the centre group, "vs base" over the first delta column *)
Theorem C16_text_csv_agree_unit : forall unit n redge e,
  (e < n)%nat ->
  let crow := csv_unit_row unit n in
  let tops := text_unit_ops unit n redge in
  field crow (csv_start e) = unit /\ In (txt_start e, OSpan txt_center unit (Some bar3) ACenter) (place 0 tops) /\
  (0 < e -> field crow (csv_start e + csv_center) = bs "vs base" /\
            In (txt_start e + txt_center, OSpan 3 (bs "vs base") (Some [sp; sp]) ALeft) (place 0 tops))%nat.
Proof. exact text_csv_agree_unit. Qed.
Print Assumptions C16_text_csv_agree_unit.

(** CSV column-key header rows: field [f] of column [e]'s key at csv_start e *)
Theorem C16_csv_header_at : forall cols f e key,
  nth_error cols e = Some key -> field (csv_header_row cols f) (csv_start e) = kget f key.
Proof. exact csv_header_at. Qed.
Print Assumptions C16_csv_header_at.

(** the columns [place] computes are the columns of the cells texttab lays out *)
Theorem C16_place_is_build : forall ops t col o,
  build ops = Some t -> In (col, o) (place 0 ops) ->
  exists c, In c (t_cells t) /\ c_col c = col /\ (c_span c, c_val c, c_align c) = op_sig o.
Proof. exact place_is_build. Qed.
Print Assumptions C16_place_is_build.

(** rows as well: [placed ops] lists (row, column, call) with texttab's row
    counting; these are the rows and columns of the cells texttab lays out *)
Theorem C16_placed_is_build : forall ops t row col o,
  build ops = Some t -> In (row, col, o) (placed ops) ->
  exists c, In c (t_cells t) /\ c_row c = row /\ c_col c = col /\ (c_span c, c_val c, c_align c) = op_sig o.
Proof. exact placed_is_build. Qed.
Print Assumptions C16_placed_is_build.

(** header clause of text_csv_agree (with C16_header_partition): on text line f
    (= CSV record f) of a table, the header cell over logical column e - it
    starts at the start column of a column s <= e and ends at the start column
    of s + len > e - carries the CSV header field of column e, i.e. field f of
    column e's key; and no other cell of that line reaches over column e *)
Theorem C16_text_csv_agree_header : forall t start f e key,
  Forall (fun k => length k = rt_nf t) (rt_cols t) -> f < rt_nf t -> nth_error (rt_cols t) e = Some key ->
  exists crow, nth_error (fst (csv_model t start)) f = Some crow /\
  field crow (csv_start e) = kget f key /\
  (exists s len, s <= e < s + len /\
     In (f, txt_start s, OSpan (txt_start (s + len) - txt_start s) (field crow (csv_start e)) (Some bar3) ACenter)
        (placed (fst (text_model t)))) /\
  (forall col n v m a, In (f, col, OSpan n v m a) (placed (fst (text_model t))) ->
     col <= txt_start e < col + n -> v = field crow (csv_start e)).
Proof. exact text_csv_agree_header. Qed.
Print Assumptions C16_text_csv_agree_header.

(** the same for one header line on its own (any right-edge column beyond the table) *)
Theorem C16_text_csv_agree_header_row : forall nf cols redge f e key,
  Forall (fun k => length k = nf) cols -> f < nf -> nth_error cols e = Some key ->
  txt_start (length cols) <= redge ->
  let crow := csv_header_row cols f in
  exists nodes, nth_error (key_header nf cols) f = Some nodes /\
  let tops := text_header_row redge nodes in
  field crow (csv_start e) = kget f key /\
  (exists s len, s <= e < s + len /\
     In (txt_start s, OSpan (txt_start (s + len) - txt_start s) (field crow (csv_start e)) (Some bar3) ACenter)
        (place 0 tops)) /\
  (forall col n v m a, In (col, OSpan n v m a) (place 0 tops) -> col <= txt_start e < col + n ->
     v = field crow (csv_start e)).
Proof. exact text_csv_agree_header_row. Qed.
Print Assumptions C16_text_csv_agree_header_row.

(** ** footnotes and cell references *)

(** distinct footnote numbers give distinct marks, multi-digit ones included
    (below 10^20: everything ToText's 20-rune buffer holds, so every Go int) *)
Theorem C16_superscript_injective : forall i j,
  (N.of_nat i < 10 ^ 20)%N -> (N.of_nat j < 10 ^ 20)%N -> superscript i = superscript j -> i = j.
Proof. exact superscript_injective. Qed.
Print Assumptions C16_superscript_injective.

(** a footnote cell (marks joined by blanks) determines the list of its numbers *)
Theorem C16_marks_text_injective : forall a b,
  Forall (fun i => (N.of_nat i < 10 ^ 20)%N) a -> Forall (fun i => (N.of_nat i < 10 ^ 20)%N) b ->
  marks_text a = marks_text b -> a = b.
Proof. exact marks_text_injective. Qed.
Print Assumptions C16_marks_text_injective.

(** distinct CSV columns have distinct spreadsheet names (below 26^10: ToCSV's 10-byte buffer) *)
Theorem C16_sheet_col_injective : forall n m, sheet_ok n -> sheet_ok m -> sheet_col n = sheet_col m -> n = m.
Proof. exact sheet_col_injective. Qed.
Print Assumptions C16_sheet_col_injective.

(** one call of ToText's warn: the list is only extended, stays duplicate-free,
    holds exactly the old and the new messages, and the marks written denote the
    messages, in order *)
Theorem C16_footnote_first_use : forall wl msgs,
  let st := fnotes wl msgs in
  footnote wl msgs = (fst st, marks_text (snd st)) /\
  prefix wl (fst st) /\ (NoDup wl -> NoDup (fst st)) /\
  (forall m, In m (fst st) <-> In m wl \/ In m msgs) /\
  map (denote (fst st)) (snd st) = map Some msgs /\
  Forall (fun i => 1 <= i <= length (fst st)) (snd st).
Proof. intros wl msgs. split; [apply footnote_marks|apply fnotes_spec]. Qed.
Print Assumptions C16_footnote_first_use.

(** footnote number i denotes message m iff footer line i-1 reads "<mark i> m" *)
Theorem C16_footer_denotes : forall wl i m,
  denote wl i = Some m <-> exists k, i = S k /\ nth_error (text_footer wl) k = Some (superscript i ++ sp :: m).
Proof. exact footer_denotes. Qed.
Print Assumptions C16_footer_denotes.

(** warnings clause of text_csv_agree, whole table: the final footnote list is
    duplicate-free; for data row i (text line nh + i, CSV record nh + i,
    spreadsheet row start + nh + i) and logical column e, the footnote cell
    after the range holds marks denoting exactly the messages of the CSV
    warning lines with reference (name of CSV column csv_start e, that row) -
    the cell's sample and summary warnings, in order; the footnote cell after
    the p/n likewise for the delta's column and the comparison's warnings; the
    summary row's footnote cell for the geomean's warnings (text shows it for >= 2 rows) *)
Theorem C16_text_csv_agree_warnings : forall t start,
  table_ok t ->
  let ops := fst (text_model t) in
  let wl := snd (text_model t) in
  let ws := snd (csv_model t start) in
  let nh := rt_nf t + 1 in
  NoDup wl /\
  (forall i label cells e c,
     nth_error (rt_rows t) i = Some (label, cells) -> nth_error cells e = Some (Some c) ->
     (exists marks, In (nh + i, txt_start e + 2, OSpan 1 (marks_text marks) None ALeft) (placed ops) /\
        marks_for wl marks (warn_msgs ws (sheet_col (csv_start e)) (start + nh + i)) /\
        warn_msgs ws (sheet_col (csv_start e)) (start + nh + i) = rc_swarn c ++ rc_mwarn c) /\
     (forall cm, 0 < e -> rc_cmp c = Some cm ->
        exists marks, In (nh + i, txt_start e + 5, OSpan 1 (marks_text marks) None ALeft) (placed ops) /\
          marks_for wl marks (warn_msgs ws (sheet_col (csv_start e + 2)) (start + nh + i)) /\
          warn_msgs ws (sheet_col (csv_start e + 2)) (start + nh + i) = cm_warn cm)) /\
  (1 < length (rt_rows t) -> forall e s, nth_error (rt_sums t) e = Some (Some s) ->
     exists marks,
       In (nh + length (rt_rows t), txt_start (S e) - 1, OSpan 1 (marks_text marks) None ALeft) (placed ops) /\
       marks_for wl marks (warn_msgs ws (sheet_col (csv_start e)) (start + nh + length (rt_rows t))) /\
       warn_msgs ws (sheet_col (csv_start e)) (start + nh + length (rt_rows t)) = rs_warn s).
Proof. exact text_csv_agree_warnings. Qed.
Print Assumptions C16_text_csv_agree_warnings.

(** first-use numbering, exactly: the footnote list is the message sequence of
    the table's CSV warning stream, de-duplicated in order of first occurrence
    ([first_occ]; with a single row the text has no summary line, so only the
    data rows' part of the stream) *)
Theorem C16_text_footnotes_first_use : forall t start,
  snd (text_model t) =
  first_occ (map wmsg (if 1 <? length (rt_rows t) then snd (csv_model t start)
                       else rows_wlines (start + (rt_nf t + 1)) 0 (rt_rows t))).
Proof. exact text_footnotes_first_use. Qed.
Theorem C16_first_occ_spec : forall l, NoDup (first_occ l) /\ forall x, In x (first_occ l) <-> In x l.
Proof. exact first_occ_spec. Qed.
Print Assumptions C16_text_footnotes_first_use.

(** one data row on its own, from any footnote list so far *)
Theorem C16_text_csv_agree_warnings_data : forall srow wl label cells e c,
  sheet_ok (csv_start (length cells)) -> nth_error cells e = Some (Some c) ->
  let ws := snd (csv_data_row srow label cells) in
  let wl' := fst (text_data_ops wl label cells) in
  let tops := snd (text_data_ops wl label cells) in
  prefix wl wl' /\ (NoDup wl -> NoDup wl') /\
  (exists marks, In (txt_start e + 2, OSpan 1 (marks_text marks) None ALeft) (place 0 tops) /\
     marks_for wl' marks (warn_msgs ws (sheet_col (csv_start e)) srow) /\
     warn_msgs ws (sheet_col (csv_start e)) srow = rc_swarn c ++ rc_mwarn c) /\
  (forall cm, 0 < e -> rc_cmp c = Some cm ->
     exists marks, In (txt_start e + 5, OSpan 1 (marks_text marks) None ALeft) (place 0 tops) /\
       marks_for wl' marks (warn_msgs ws (sheet_col (csv_start e + 2)) srow) /\
       warn_msgs ws (sheet_col (csv_start e + 2)) srow = cm_warn cm).
Proof. exact text_csv_agree_warnings_data. Qed.
Print Assumptions C16_text_csv_agree_warnings_data.

Theorem C16_text_csv_agree_warnings_summary : forall srow wl label sums e s,
  sheet_ok (csv_start (length sums)) -> nth_error sums e = Some (Some s) ->
  let ws := snd (csv_summary_row srow label sums) in
  let wl' := fst (text_summary_ops wl label sums) in
  let tops := snd (text_summary_ops wl label sums) in
  prefix wl wl' /\ (NoDup wl -> NoDup wl') /\
  exists marks, In (txt_start (S e) - 1, OSpan 1 (marks_text marks) None ALeft) (place 0 tops) /\
    marks_for wl' marks (warn_msgs ws (sheet_col (csv_start e)) srow) /\
    warn_msgs ws (sheet_col (csv_start e)) srow = rs_warn s.
Proof. exact text_csv_agree_warnings_summary. Qed.
Print Assumptions C16_text_csv_agree_warnings_summary.

(** several tables in one CSV output (Tables.ToCSV): table j is rendered with
    startRow = [table_start 1 true tabs j] = 1 + (one row per blank separator,
    per table-key header line and per record of the tables before it) + its own
    separator and header lines; its record r is record start - 1 + r of the
    whole output (spreadsheet row start + r), and the whole warning stream
    restricted to a reference in the table's rows is the table's own stream *)
Theorem C16_csv_tables_cellrefs : forall tabs j hs t,
  nth_error tabs j = Some (hs, t) ->
  let start := table_start 1 true tabs j in
  1 <= start /\
  (forall r, r < nrecs t ->
     nth_error (fst (csv_tables_model tabs)) (start - 1 + r) = nth_error (fst (csv_model t start)) r) /\
  (forall ref srow, start <= srow < start + nrecs t ->
     warn_msgs (snd (csv_tables_model tabs)) ref srow = warn_msgs (snd (csv_model t start)) ref srow).
Proof. exact csv_tables_cellrefs. Qed.
Print Assumptions C16_csv_tables_cellrefs.

(** end to end: in the whole output, the warning lines with the reference of
    (data row i, logical column e) of table j carry exactly that cell's
    warnings, and that spreadsheet row is the record of that data row, holding
    the cell's centre in that column *)
Theorem C16_csv_tables_cell_warnings : forall tabs j hs t i label cells e c,
  nth_error tabs j = Some (hs, t) -> table_ok t ->
  nth_error (rt_rows t) i = Some (label, cells) -> nth_error cells e = Some (Some c) ->
  let srow := table_start 1 true tabs j + (rt_nf t + 1) + i in
  warn_msgs (snd (csv_tables_model tabs)) (sheet_col (csv_start e)) srow = rc_swarn c ++ rc_mwarn c /\
  exists rec, nth_error (fst (csv_tables_model tabs)) (srow - 1) = Some rec /\ field rec (csv_start e) = rc_csv c.
Proof. exact csv_tables_cell_warnings. Qed.
Print Assumptions C16_csv_tables_cell_warnings.

(** non-vacuity: a 2-column, 2-row table with warnings (w1 twice: one number);
    a second table after it starts on spreadsheet row 9: 1 header line, 5
    records, 1 blank line, 1 header line *)
Definition ex_c0 := mkRC (bs "10") (bs "10.00") (bs "1%") [bs "w1"] [] None.
Definition ex_c1 := mkRC (bs "12") (bs "12.00") (bs "2%") [] [bs "w2"] (Some (mkCmp (bs "+20.00%") (bs "p=0.008 n=5") [bs "w1"])).
Definition ex_t : rtable :=
  mkRT (bs "sec/op") (bs "geomean") 1 [[bs "old"]; [bs "new"]]
       [(bs "A", [Some ex_c0; Some ex_c1]); (bs "B", [Some ex_c0; None])]
       [Some (mkRS true (bs "10") (bs "10.00") false [] []);
        Some (mkRS true (bs "12") (bs "12.00") false [] [bs "w3"])].
Example C16_warnings_example :
  table_ok ex_t /\
  snd (text_model ex_t) = [bs "w1"; bs "w2"; bs "w3"] /\
  In (2, txt_start 1 + 5, OSpan 1 (marks_text [1]) None ALeft) (placed (fst (text_model ex_t))) /\
  warn_msgs (snd (csv_model ex_t 2)) (sheet_col (csv_start 1 + 2)) 4 = [bs "w1"] /\
  superscript 12 = [xc2; xb9; xc2; xb2] /\
  table_start 1 true [([bs "pkg: a"], ex_t); ([bs "pkg: b"], ex_t)] 0 = 2 /\
  table_start 1 true [([bs "pkg: a"], ex_t); ([bs "pkg: b"], ex_t)] 1 = 9 /\
  snd (csv_tables_model [([bs "pkg: a"], ex_t); ([bs "pkg: b"], ex_t)])
    = [(bs "B", 4, bs "w1"); (bs "D", 4, bs "w2"); (bs "F", 4, bs "w1"); (bs "B", 5, bs "w1"); (bs "D", 6, bs "w3");
       (bs "B", 11, bs "w1"); (bs "D", 11, bs "w2"); (bs "F", 11, bs "w1"); (bs "B", 12, bs "w1"); (bs "D", 13, bs "w3")].
Proof.
  split.
  - split; [discriminate|]. split; [repeat constructor; vm_compute; reflexivity|vm_compute; reflexivity].
  - repeat split; vm_compute; tauto.
Qed.

(** non-vacuity: a 2-column table whose second column has no geomean: the
    delta "?" is in CSV column 5 (= csv_start 1 + 2, under "vs base") *)
Example C16_text_csv_example :
  let s0 := mkRS true (bs "14.67") (bs "14.67") false [] [] in
  let s1 := mkRS false (bs "0") (bs "0.000") false (bs "-100.00%") [bs "summaries must be >0 to compute geomean"] in
  fst (csv_summary_row 7 (bs "geomean") [Some s0; Some s1])
    = [bs "geomean"; bs "14.67"; []; []; []; bs "?"] /\
  In (7, OSpan 1 (bs "?") None ALeft)%nat (place 0 (snd (text_summary_ops [] (bs "geomean") [Some s0; Some s1]))) /\
  csv_unit_row (bs "sec/op") 2 = [[]; bs "sec/op"; bs "CI"; bs "sec/op"; bs "CI"; bs "vs base"; bs "P"].
Proof. repeat split; vm_compute; tauto. Qed.

(** ToCSV's warning cell references BEFORE hooks/fix_c16_csv_cellref.diff: from CSV
    column 26 on (8 logical columns) the name is not the spreadsheet column
    (26 -> "BA" instead of "AA", 27 -> "BB" instead of "AB") *)
Theorem C16_csv_cellref_refuted :
  col_name_asis 26 = bs "BA" /\ sheet_col 26 = bs "AA" /\ col_name_asis 27 = bs "BB" /\ sheet_col 27 = bs "AB" /\
  (forall n, n < 26 -> col_name_asis n = sheet_col n).
Proof.
  repeat split; try (vm_compute; reflexivity).
  intros n Hn. do 26 (destruct n as [|n]; [vm_compute; reflexivity|]). lia.
Qed.

(** known finding C16_csv_summary_one_row: for a table with ONE row ToCSV writes
    the summary record (and its warnings), ToText omits the summary row. The
    real renderings of `benchstat z.txt` (z.txt = "BenchmarkA 1 0 ns/op" twice):
    the judge of the property rejects them, the judge relaxed by exactly this
    deviation accepts them; and the assembly models do the same (the CSV model
    writes the record "geomean", the text model has no such cell) *)
Definition one_row_text : bytes :=
  bs "  │    z.txt    │" ++ [x0a] ++ bs "  │   sec/op    │" ++ [x0a] ++ bs "A   0.000 ± ∞ ¹" ++ [x0a]
  ++ bs "¹ need >= 6 samples for confidence interval at level 0.95" ++ [x0a].
Definition one_row_recs : list (list bytes) :=
  [[[]; bs "z.txt"]; [[]; bs "sec/op"; bs "CI"]; [bs "A"; bs "0"; bs "∞"]; [bs "geomean"]].
Definition one_row_warns : bytes :=
  bs "B3: need >= 6 samples for confidence interval at level 0.95" ++ [x0a]
  ++ bs "B4: summaries must be >0 to compute geomean" ++ [x0a].
Definition one_row_abs : rtable :=
  mkRT (bs "sec/op") (bs "geomean") 1 [[bs "z.txt"]]
       [(bs "A", [Some (mkRC (bs "0") (bs "0.000") (bs "∞") []
                             [bs "need >= 6 samples for confidence interval at level 0.95"] None)])]
       [Some (mkRS false (bs "0") (bs "0.000") false [] [bs "summaries must be >0 to compute geomean"])].
Theorem C16_csv_summary_one_row_refuted :
  text_csv_ok 1 one_row_text one_row_recs one_row_warns = false /\
  text_csv_ok_gen true 1 one_row_text one_row_recs one_row_warns = true /\
  fst (csv_model one_row_abs 1) = one_row_recs /\
  map (fun w => snd w) (snd (csv_model one_row_abs 1))
    = [bs "need >= 6 samples for confidence interval at level 0.95"; bs "summaries must be >0 to compute geomean"] /\
  existsb (fun o => match o with OSpan _ v _ _ => beq v (bs "geomean") | _ => false end) (fst (text_model one_row_abs)) = false /\
  snd (text_model one_row_abs) = [bs "need >= 6 samples for confidence interval at level 0.95"].
Proof. repeat split; vm_compute; reflexivity. Qed.

Local Open Scope Z_scope.
(** ** witnesses *)
Definition bar2 : bytes := bs " │".
Definition witness_ops : list op :=
  [ORow; OSpan 1 (bs "x") None ALeft; OSpan 3 (bs "vs base") (Some (bs "  ")) ALeft; OSpan 1 [] (Some bar2) ALeft;
   ORow; OSpan 1 (bs "geomean") None ALeft; OSpan 1 (bs "?") None ALeft; OCol 4; OSpan 1 [] (Some bar2) ALeft;
   OShrink 1 true; OShrink 2 true; OShrink 3 true].
Definition witness_perm : list nat := [0; 2; 3; 4; 5; 1]%nat.

(** non-vacuity: the hypotheses hold for a concrete table — benchstat's
    "vs base" header over three shrink columns whose only content is "?" —
    and the repaired layout aligns the right border *)
Definition witness_tab : tab :=
  Eval vm_compute in match build witness_ops with Some t => t | None => tab0 end.
Definition witness_layout : layout :=
  Eval vm_compute in match format witness_tab witness_perm with OOut l => l | _ => mkLayout [] [] [] [] end.

Example C16_example :
  build witness_ops = Some witness_tab /\ ops_spans_pos witness_ops /\
  format witness_tab witness_perm = OOut witness_layout /\ cells_valid (t_cells witness_tab) /\
  l_offs witness_layout = [0; 7; 10; 13; 16; 18] /\
  l_lines witness_layout = [bs "x        vs base │"; bs "geomean  ?       │"].
Proof.
  split; [vm_compute; reflexivity|]. split.
  - intros n v m a H. unfold witness_ops in H. cbn [In] in H.
    repeat (destruct H as [H|H]; [inversion H; subst; lia|]). destruct H.
  - split; [vm_compute; reflexivity|]. split; [|split; vm_compute; reflexivity].
    unfold cells_valid, witness_tab, t_cells.
    repeat (apply Forall_cons; [split; vm_compute; reflexivity|]). apply Forall_nil.
Qed.

(** the code before the repair (golang/perf 055de2c): the span does not fit,
    9 runes are needed over columns 1..3 that stay 3 wide *)
Definition witness_ordered : list cell :=
  Eval vm_compute in match pick (t_cells witness_tab) witness_perm with Some l => l | None => [] end.
Definition witness_cell : cell := mkCell 0 1 3 (bs "vs base") (bs "  ") ALeft.
Theorem C16_allshrink_refuted :
  pick (t_cells witness_tab) witness_perm = Some witness_ordered /\
  In witness_cell (t_cells witness_tab) /\ cell_wf (t_cols witness_tab) witness_cell /\
  let lm := lmargins (t_cols witness_tab) (t_cells witness_tab) in
  sum_range (widths_asis lm (t_shrink witness_tab) (t_cols witness_tab) witness_ordered)
            (c_col witness_cell) (c_span witness_cell) < need lm witness_cell.
Proof.
  split; [vm_compute; reflexivity|].
  split; [unfold witness_tab, t_cells, witness_cell; cbn [In]; tauto|].
  split; [split; cbn; lia|]. vm_compute. reflexivity.
Qed.

(** texttab before hooks/fix_c16_blank_aligned_padding.diff padded an EMPTY
    centred or right-aligned text: with a visible margin as the last cell of a
    row the line ended in blanks ("a|   "); repaired, the line is "a|" *)
Definition trailing_ops : list op :=
  [ORow; OSpan 1 (bs "a") None ALeft; OSpan 1 [] (Some (bs "|")) ARight;
   ORow; OSpan 1 (bs "b") None ALeft; OSpan 1 (bs "xyz") None ALeft].
Definition trailing_tab : tab :=
  Eval vm_compute in match build trailing_ops with Some t => t | None => tab0 end.
Theorem C16_trailing_blank_empty_aligned_refuted :
  build trailing_ops = Some trailing_tab /\
  exists l, format trailing_tab [0; 1; 2; 3]%nat = OOut l /\
    emit_row_asis (l_offs l) (l_lm l) (row_cells (t_cells trailing_tab) 0) = bs "a|   " /\
    nth_error (l_lines l) 0 = Some (bs "a|").
Proof.
  split; [vm_compute; reflexivity|].
  exists (match format trailing_tab [0; 1; 2; 3]%nat with OOut l => l | _ => mkLayout [] [] [] [] end).
  repeat split; vm_compute; reflexivity.
Qed.
