(** C16 — text tables are laid out without loss (texttab.Format, repaired
    all-shrink span) and the column header tree partitions the keys.
    Statements only; proofs are in Proofs/TextTab*.v, Proofs/Runes.v, Proofs/KeyHeader.v. *)
From Coq Require Import Permutation.
From Perf Require Import Base.Bytes Model.Runes Model.TextTab Model.KeyHeader
     Proofs.Runes Proofs.TextTabWidths Proofs.TextTabEmit Proofs.TextTabFormat
     Proofs.TextTabBuild Proofs.TextTabTop Proofs.KeyHeader Model.Render Proofs.Render.
Local Open Scope Z_scope.

(** after the widest-first loop over a non-empty set of growable columns — in
    ANY processing order — those columns together are at least the need *)
Theorem C16_distribute_covers : forall order ws w,
  NoDup order -> (forall c, In c order -> (c < length ws)%nat) -> order <> [] ->
  w <= sumz (getz (distribute ws order w)) order.
Proof. exact distribute_covers. Qed.
Print Assumptions C16_distribute_covers.

(** widths never shrink while cells are processed (earlier cells stay satisfied) *)
Theorem C16_widths_monotone : forall lm sh l1 l2 ws i,
  getz (fold_left (width_step lm sh) l1 ws) i <= getz (fold_left (width_step lm sh) (l1 ++ l2) ws) i.
Proof. exact widths_monotone. Qed.
Print Assumptions C16_widths_monotone.

(** one cell: after its step it fits, all-shrink spans included *)
Theorem C16_width_step_satisfies : forall lm sh ws c,
  cell_wf (length ws) c -> need lm c <= sum_range (width_step lm sh ws c) (c_col c) (c_span c).
Proof. exact width_step_satisfies. Qed.
Print Assumptions C16_width_step_satisfies.

(** every cell fits its span in the final widths, in whatever order the cells
    were processed (so for every order sort.Slice may produce) *)
Theorem C16_widths_satisfy_any_order : forall lm sh ncols ordered c,
  (forall x, In x ordered -> cell_wf ncols x) -> In c ordered ->
  need lm c <= sum_range (widths lm sh ncols ordered) (c_col c) (c_span c).
Proof. exact widths_satisfy. Qed.
Print Assumptions C16_widths_satisfy_any_order.

(** ... and in the offsets Format computes: margin within the column's margin
    width, margin + text within offs[col+span] - offs[col] *)
Theorem C16_widths_satisfy_cells : forall t perm l,
  format t perm = OOut l -> spans_pos (t_cells t) ->
  forall c, In c (t_cells t) -> cell_fits (l_offs l) (l_lm l) c.
Proof. exact format_cells_fit. Qed.
Print Assumptions C16_widths_satisfy_cells.

(** tables built through the API with spans >= 1: rows in column order, no overlap *)
Theorem C16_build_wf : forall ops t,
  build ops = Some t -> ops_spans_pos ops -> spans_pos (t_cells t) /\ rows_disjoint (t_cells t).
Proof. exact build_wf. Qed.
Print Assumptions C16_build_wf.

(** every printed cell of every line sits at its column's offset: the line is
    A ++ margin field ++ text field ++ Q with A exactly offs[col] runes; the text
    starts at [text_start] >= offs[col] + lmargin[col] and ends <= offs[col+span]
    (no truncation: margin and text appear in full) *)
Theorem C16_cells_at_offsets : forall ops t perm l r pre c post,
  build ops = Some t -> ops_spans_pos ops -> format t perm = OOut l ->
  cells_valid (t_cells t) ->
  row_cells (t_cells t) r = pre ++ c :: post ->
  exists line A Q,
    nth_error (l_lines l) r = Some line /\
    line = A ++ (spaces (getz (l_lm l) (c_col c) - rune_count (c_margin c)) ++ c_margin c)
             ++ (spaces (text_start (l_offs l) (l_lm l) c - getz (l_offs l) (c_col c) - getz (l_lm l) (c_col c))
                 ++ c_val c)
             ++ Q /\
    rune_count A = getz (l_offs l) (c_col c) /\
    getz (l_offs l) (c_col c) + getz (l_lm l) (c_col c) <= text_start (l_offs l) (l_lm l) c /\
    cell_end (l_offs l) (l_lm l) c <= getz (l_offs l) (c_col c + c_span c).
Proof. exact layout_cells_at_offsets. Qed.
Print Assumptions C16_cells_at_offsets.

(** the same for arbitrary byte strings, in the widths of the pieces written
    (Format's own accounting: off += RuneCount of each piece) *)
Theorem C16_cells_at_offsets_pieces : forall ops t perm l r pre c post,
  build ops = Some t -> ops_spans_pos ops -> format t perm = OOut l ->
  row_cells (t_cells t) r = pre ++ c :: post ->
  exists line P Q,
    nth_error (l_lines l) r = Some line /\
    line = concat P ++ (spaces (getz (l_lm l) (c_col c) - rune_count (c_margin c)) ++ c_margin c)
             ++ (spaces (text_start (l_offs l) (l_lm l) c - getz (l_offs l) (c_col c) - getz (l_lm l) (c_col c))
                 ++ c_val c)
             ++ Q /\
    width_of P = getz (l_offs l) (c_col c).
Proof. exact layout_cells_at_offsets_pieces. Qed.
Print Assumptions C16_cells_at_offsets_pieces.

(** rune counting is additive on well-formed UTF-8 (what Format's running offset assumes) *)
Theorem C16_rune_count_additive : forall s t,
  valid_utf8 s = true -> rune_count (s ++ t) = rune_count s + rune_count t.
Proof. exact rune_count_app_valid. Qed.
Print Assumptions C16_rune_count_additive.

(** left-aligned text starts right after the column's margin; right-aligned text
    ends exactly where its span ends, so such cells end at one offset *)
Theorem C16_left_aligned_start : forall offs lm c,
  c_align c = ALeft -> text_start offs lm c = getz offs (c_col c) + getz lm (c_col c).
Proof. exact left_start. Qed.
Theorem C16_right_aligned_end : forall offs lm c,
  c_align c = ARight -> cell_end offs lm c = getz offs (c_col c + c_span c).
Proof. exact right_end. Qed.
Theorem C16_right_aligned_end_equal : forall offs lm c1 c2,
  c_align c1 = ARight -> c_align c2 = ARight ->
  (c_col c1 + c_span c1 = c_col c2 + c_span c2)%nat ->
  cell_end offs lm c1 = cell_end offs lm c2.
Proof. exact layout_right_aligned_end_equal. Qed.
Print Assumptions C16_right_aligned_end_equal.

(** no overlap: a later cell's column starts at or after the end of an earlier cell's text *)
Theorem C16_no_overlap_no_truncation : forall ops t perm l r pre a mid b post,
  build ops = Some t -> ops_spans_pos ops -> format t perm = OOut l ->
  row_cells (t_cells t) r = pre ++ a :: mid ++ b :: post ->
  cell_end (l_offs l) (l_lm l) a <= getz (l_offs l) (c_col b).
Proof. exact layout_no_overlap. Qed.
Print Assumptions C16_no_overlap_no_truncation.

(** no trailing blanks: nothing is written after the last printed cell's text
    (for an empty text: after its margin, provided it is left-aligned — see
    C16_trailing_blank_empty_aligned_refuted); a row without printed cells is
    an empty line *)
Theorem C16_no_trailing_blank : forall ops t perm l r pre c,
  build ops = Some t -> ops_spans_pos ops -> format t perm = OOut l ->
  row_cells (t_cells t) r = pre ++ [c] ->
  (c_val c <> [] \/ c_align c = ALeft) ->
  exists line X, nth_error (l_lines l) r = Some line /\ line = X ++ tail_text c.
Proof. exact layout_no_trailing_blank. Qed.
Print Assumptions C16_no_trailing_blank.

Theorem C16_blank_row_empty_line : forall t perm l r,
  format t perm = OOut l -> t_cells t <> [] -> (r <= last_row (t_cells t))%nat ->
  row_cells (t_cells t) r = [] -> nth_error (l_lines l) r = Some [].
Proof. exact layout_blank_row. Qed.
Print Assumptions C16_blank_row_empty_line.

(** header, one level: the nodes made for a parent are contiguous, disjoint,
    cover its keys, each labelled with the value all its keys share, and
    neighbouring nodes differ.
    PARTIAL w.r.t. DESIGN 7.16 header_partition: the full statement
      forall nf keys, Forall (fun k => length k = nf) keys ->
        header_ok nf keys (key_header nf keys) = true
    (all levels of the recursion, prefix sharing, children counts) is not proved;
    [header_ok] is evaluated on every observed NewKeyHeader result instead. *)
Theorem C16_header_partition_partial : forall level keys,
  let runs := group_runs level keys in
  concat (map snd runs) = keys /\ Forall (run_ok level) runs /\ adjacent_differ runs.
Proof. exact header_runs_partition. Qed.
Print Assumptions C16_header_partition_partial.

Local Open Scope nat_scope.
(** ** text and CSV renderings agree (placement; the strings are the real
    Table's formatted values). [csv_start e] / [txt_start e] are the first CSV /
    texttab column of logical column [e]; the delta sits in the first column
    after the centre group in both. [place 0 ops] lists the (column, call) of
    every Cell/Span call; by C16_place_is_build these are the cells' columns. *)

(** data rows: label, centre, range; delta and p/n for non-baseline columns *)
Theorem C16_text_csv_agree_data : forall srow wl label cells e c,
  nth_error cells e = Some (Some c) ->
  let crow := fst (csv_data_row srow label cells) in
  let tops := snd (text_data_ops wl label cells) in
  field crow 0 = label /\ In (0, OSpan 1 label None ALeft) (place 0 tops) /\
  field crow (csv_start e) = rc_csv c /\ In (txt_start e, OSpan 1 (rc_txt c) None ARight) (place 0 tops) /\
  field crow (csv_start e + 1) = rc_range c /\
  In (txt_start e + 1, OSpan 1 (rc_range c) (Some (bs " ± ")) ARight) (place 0 tops) /\
  (0 < e -> forall cm, rc_cmp c = Some cm ->
     field crow (csv_start e + csv_center) = cm_delta cm /\
     In (txt_start e + txt_center, OSpan 1 (cm_delta cm) None ARight) (place 0 tops) /\
     field crow (csv_start e + csv_center + 1) = cm_pn cm /\
     In (txt_start e + txt_center + 1, OSpan 1 (bs "(" ++ cm_pn cm ++ bs ")") None ALeft) (place 0 tops))%nat.
Proof. exact text_csv_agree_data. Qed.
Print Assumptions C16_text_csv_agree_data.

(** summary row, every HasSummary / HasRatio combination: the geomean under the
    centre column, its delta (or "?") under the first delta column — in both *)
Theorem C16_text_csv_agree_summary : forall srow wl label sums e s,
  nth_error sums e = Some (Some s) ->
  let crow := fst (csv_summary_row srow label sums) in
  let tops := snd (text_summary_ops wl label sums) in
  field crow 0 = label /\ In (0, OSpan 1 label None ALeft) (place 0 tops) /\
  (rs_has s = true ->
     field crow (csv_start e) = rs_csv s /\ In (txt_start e, OSpan 1 (rs_txt s) None ARight) (place 0 tops)) /\
  (0 < e ->
     field crow (csv_start e + csv_center) = ratio_text s /\
     In (txt_start e + txt_center, OSpan 1 (ratio_text s) None (if rs_hasratio s then ARight else ALeft))
        (place 0 tops))%nat.
Proof. exact text_csv_agree_summary. Qed.
Print Assumptions C16_text_csv_agree_summary.

(** unit row: the unit over the centre group, "vs base" over the first delta column *)
Theorem C16_text_csv_agree_unit : forall unit n redge e,
  (e < n)%nat ->
  let crow := csv_unit_row unit n in
  let tops := text_unit_ops unit n redge in
  field crow (csv_start e) = unit /\ In (txt_start e, OSpan txt_center unit (Some bar3) ACenter) (place 0 tops) /\
  (0 < e -> field crow (csv_start e + csv_center) = bs "vs base" /\
            In (txt_start e + txt_center, OSpan 3 (bs "vs base") (Some [sp; sp]) ALeft) (place 0 tops))%nat.
Proof. exact text_csv_agree_unit. Qed.
Print Assumptions C16_text_csv_agree_unit.

(** CSV column-key header rows: field [f] of column [e]'s key at csv_start e.
    PARTIAL on the text side: that the text header cell covering column [e] at
    level [f] carries the same value needs the all-levels KeyHeader theorem
    (see C16_header_partition_partial); it is checked on every observed table
    ([header_ok], [text_csv_ok]). *)
Theorem C16_csv_header_at : forall cols f e key,
  nth_error cols e = Some key -> field (csv_header_row cols f) (csv_start e) = kget f key.
Proof. exact csv_header_at. Qed.
Print Assumptions C16_csv_header_at.

(** the columns [place] computes are the columns of the cells texttab lays out *)
Theorem C16_place_is_build : forall ops t col o,
  build ops = Some t -> In (col, o) (place 0 ops) ->
  exists c, In c (t_cells t) /\ c_col c = col /\ (c_span c, c_val c, c_align c) = op_sig o.
Proof. exact place_is_build. Qed.
Print Assumptions C16_place_is_build.

(** non-vacuity: a 2-column table whose second column has no geomean: the
    delta "?" is in CSV column 5 (= csv_start 1 + 2, under "vs base") *)
Example C16_text_csv_example :
  let s0 := mkRS true (bs "14.67") (bs "14.67") false [] [] in
  let s1 := mkRS false (bs "0") (bs "0.000") false (bs "-100.00%") [bs "summaries must be >0 to compute geomean"] in
  fst (csv_summary_row 7 (bs "geomean") [Some s0; Some s1])
    = [bs "geomean"; bs "14.67"; []; []; []; bs "?"] /\
  In (7, OSpan 1 (bs "?") None ALeft)%nat (place 0 (snd (text_summary_ops [] (bs "geomean") [Some s0; Some s1]))) /\
  csv_unit_row (bs "sec/op") 2 = [[]; bs "sec/op"; bs "CI"; bs "sec/op"; bs "CI"; bs "vs base"; bs "P"].
Proof. repeat split; vm_compute; tauto. Qed.

(** ToCSV's warning cell references BEFORE hooks/fix_c16_csv_cellref.diff: from CSV
    column 26 on (8 logical columns) the name is not the spreadsheet column
    (26 -> "BA" instead of "AA", 27 -> "BB" instead of "AB") *)
Theorem C16_csv_cellref_refuted :
  col_name_asis 26 = bs "BA" /\ sheet_col 26 = bs "AA" /\ col_name_asis 27 = bs "BB" /\ sheet_col 27 = bs "AB" /\
  (forall n, n < 26 -> col_name_asis n = sheet_col n).
Proof.
  repeat split; try (vm_compute; reflexivity).
  intros n Hn. do 26 (destruct n as [|n]; [vm_compute; reflexivity|]). lia.
Qed.

Local Open Scope Z_scope.
(** ** witnesses *)
Definition bar2 : bytes := bs " │".
Definition witness_ops : list op :=
  [ORow; OSpan 1 (bs "x") None ALeft; OSpan 3 (bs "vs base") (Some (bs "  ")) ALeft; OSpan 1 [] (Some bar2) ALeft;
   ORow; OSpan 1 (bs "geomean") None ALeft; OSpan 1 (bs "?") None ALeft; OCol 4; OSpan 1 [] (Some bar2) ALeft;
   OShrink 1 true; OShrink 2 true; OShrink 3 true].
Definition witness_perm : list nat := [0; 2; 3; 4; 5; 1]%nat.

(** non-vacuity: the hypotheses hold for a concrete table — benchstat's
    "vs base" header over three shrink columns whose only content is "?" —
    and the repaired layout aligns the right border *)
Definition witness_tab : tab :=
  Eval vm_compute in match build witness_ops with Some t => t | None => tab0 end.
Definition witness_layout : layout :=
  Eval vm_compute in match format witness_tab witness_perm with OOut l => l | _ => mkLayout [] [] [] [] end.

Example C16_example :
  build witness_ops = Some witness_tab /\ ops_spans_pos witness_ops /\
  format witness_tab witness_perm = OOut witness_layout /\ cells_valid (t_cells witness_tab) /\
  l_offs witness_layout = [0; 7; 10; 13; 16; 18] /\
  l_lines witness_layout = [bs "x        vs base │"; bs "geomean  ?       │"].
Proof.
  split; [vm_compute; reflexivity|]. split.
  - intros n v m a H. unfold witness_ops in H. cbn [In] in H.
    repeat (destruct H as [H|H]; [inversion H; subst; lia|]). destruct H.
  - split; [vm_compute; reflexivity|]. split; [|split; vm_compute; reflexivity].
    unfold cells_valid, witness_tab, t_cells.
    repeat (apply Forall_cons; [split; vm_compute; reflexivity|]). apply Forall_nil.
Qed.

(** the code before the repair (golang/perf 055de2c): the span does not fit,
    9 runes are needed over columns 1..3 that stay 3 wide *)
Definition witness_ordered : list cell :=
  Eval vm_compute in match pick (t_cells witness_tab) witness_perm with Some l => l | None => [] end.
Definition witness_cell : cell := mkCell 0 1 3 (bs "vs base") (bs "  ") ALeft.
Theorem C16_allshrink_refuted :
  pick (t_cells witness_tab) witness_perm = Some witness_ordered /\
  In witness_cell (t_cells witness_tab) /\ cell_wf (t_cols witness_tab) witness_cell /\
  let lm := lmargins (t_cols witness_tab) (t_cells witness_tab) in
  sum_range (widths_asis lm (t_shrink witness_tab) (t_cols witness_tab) witness_ordered)
            (c_col witness_cell) (c_span witness_cell) < need lm witness_cell.
Proof.
  split; [vm_compute; reflexivity|].
  split; [unfold witness_tab, t_cells, witness_cell; cbn [In]; tauto|].
  split; [split; cbn; lia|]. vm_compute. reflexivity.
Qed.

(** texttab pads an EMPTY centred or right-aligned text: with a visible margin
    as the last cell of a row the line ends in blanks (not reachable through
    benchtab, whose rows end with a left-aligned " │" cell) *)
Definition trailing_ops : list op :=
  [ORow; OSpan 1 (bs "a") None ALeft; OSpan 1 [] (Some (bs "|")) ARight;
   ORow; OSpan 1 (bs "b") None ALeft; OSpan 1 (bs "xyz") None ALeft].
Definition trailing_tab : tab :=
  Eval vm_compute in match build trailing_ops with Some t => t | None => tab0 end.
Theorem C16_trailing_blank_empty_aligned_refuted :
  build trailing_ops = Some trailing_tab /\
  exists l, format trailing_tab [0; 1; 2; 3]%nat = OOut l /\ nth_error (l_lines l) 0 = Some (bs "a|   ").
Proof.
  split; [vm_compute; reflexivity|].
  exists (match format trailing_tab [0; 1; 2; 3]%nat with OOut l => l | _ => mkLayout [] [] [] [] end).
  split; vm_compute; reflexivity.
Qed.
