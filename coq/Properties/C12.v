(** C12 — distributions, t-tests and descriptive statistics (PARTIAL by design).
    Statements only; proofs are in Proofs/StatsQ.v and Proofs/TTest.v.
    Proved here: what is exact arithmetic or decision logic. The numerical
    analysis over Go's math library (Lgamma, Exp, Log, Pow, Erfc) is NOT a
    theorem: it is tied by oracle replay, certified reference points and
    sweeps (Corr/RunC12.v), labelled as tests in the evidence. *)
From Coq Require Import QArith ZArith List Bool.
From Perf Require Import Base.B64 Model.StatsQ Model.StatsF Model.Beta Model.TDist Model.TTest Model.Bisect.
From Perf Require Import Proofs.StatsQ Proofs.TTest Model.TTestQ Proofs.TTestQ.
Import ListNotations.

(** ** descriptive statistics over exact rationals *)

(** the incremental mean m += (x - m)/(i+1) computes sum/n *)
Theorem C12_mean_incremental_is_sum_div_n : forall xs : list Q,
  xs <> [] -> (mean_inc_q 0 0 xs == mean_q xs)%Q.
Proof. exact mean_incremental_is_sum_div_n. Qed.
Print Assumptions C12_mean_incremental_is_sum_div_n.

(** Welford's recurrence as coded computes the unbiased sample variance *)
Theorem C12_welford_is_variance : forall xs : list Q,
  xs <> [] -> (welford_q xs == variance_q xs)%Q.
Proof. exact welford_is_variance. Qed.
Print Assumptions C12_welford_is_variance.

(** the power-sum form used to evaluate the specification is the same number *)
Theorem C12_variance_power_sums : forall xs : list Q,
  xs <> [] -> (variance_q xs == variance_ps_q xs)%Q.
Proof. exact variance_q_power_sums. Qed.
Print Assumptions C12_variance_power_sums.

(** R8 percentiles are monotone in p and within [min, max] of the sample *)
Theorem C12_r8_monotone_bounded : forall xs : list Q, sorted_q xs -> xs <> [] ->
  (forall p q, p <= q -> percentile_q xs p <= percentile_q xs q)%Q /\
  (forall p, nth_q xs 0 <= percentile_q xs p <= nth_q xs (Z.of_nat (length xs) - 1))%Q.
Proof. exact r8_monotone_bounded. Qed.
Print Assumptions C12_r8_monotone_bounded.

(** ... for every sample through sorting: [sort_q] is a sorted permutation *)
Theorem C12_sort_sorted_perm : forall xs : list Q,
  sorted_q (sort_q xs) /\ Permutation.Permutation (sort_q xs) xs.
Proof. intros xs; split; [apply sort_q_sorted | apply sort_q_perm]. Qed.
Print Assumptions C12_sort_sorted_perm.

(** the R8 position formula *)
Theorem C12_r8_position : forall len p, (r8_pos_q len p == (inject_Z len + (1 # 3)) * p + (1 # 3))%Q.
Proof. exact r8_position. Qed.
Print Assumptions C12_r8_position.

(** Bounds returns sample values that bound every sample value *)
Theorem C12_bounds_are_min_max : forall xs mn mx, bounds_q xs = Some (mn, mx) ->
  In mn xs /\ In mx xs /\ Forall (fun x => mn <= x /\ x <= mx)%Q xs.
Proof. exact bounds_are_min_max. Qed.
Print Assumptions C12_bounds_are_min_max.

(** homogeneity, which justifies evaluating the specification on the sample
    scaled to integers in the correspondence run *)
Theorem C12_mean_variance_scale : forall c xs,
  (mean_q (map (Qmult c) xs) == c * mean_q xs)%Q /\
  (variance_ps_q (map (Qmult c) xs) == c * c * variance_ps_q xs)%Q.
Proof. intros c xs; split; [apply mean_q_scale | apply variance_ps_q_scale]. Qed.
Print Assumptions C12_mean_variance_scale.

(** ** t-tests: decisions, formulas, tails (binary64 skeleton, CDF as oracle) *)

(** undersized / zero-variance / mismatched inputs are reported as the
    documented errors, in the code's order, and nothing else is an error *)
Theorem C12_ttest_decisions : forall tcdf_o pow_o,
  (forall x1 x2 alt, is_err (two_sample_ttest tcdf_o x1 x2 alt) = pooled_decision x1 x2) /\
  (forall x1 x2 alt, is_err (welch_ttest tcdf_o pow_o x1 x2 alt) = welch_decision x1 x2) /\
  (forall x1 x2 mu0 alt, is_err (paired_ttest tcdf_o x1 x2 mu0 alt) = paired_decision x1 x2) /\
  (forall x mu0 alt, is_err (one_sample_ttest tcdf_o x mu0 alt) = one_sample_decision x).
Proof. exact ttest_decisions. Qed.
Print Assumptions C12_ttest_decisions.

(** Welch: statistic (m1-m2)/sqrt(v1/n1+v2/n2), Welch-Satterthwaite degrees of freedom *)
Theorem C12_welch_result : forall tcdf_o pow_o x1 x2 alt ps p1 p2,
  welch_decision x1 x2 = None ->
  let q1 := b64_div (ts_var x1) (ts_n x1) in
  let q2 := b64_div (ts_var x2) (ts_n x2) in
  pow_o (b64_add q1 q2) k_two = Some ps -> pow_o q1 k_two = Some p1 -> pow_o q2 k_two = Some p2 ->
  let dof := b64_div ps (b64_add (b64_div p1 (b64_sub (ts_n x1) b64_one))
                                 (b64_div p2 (b64_sub (ts_n x2) b64_one))) in
  let t := b64_div (b64_sub (ts_mean x1) (ts_mean x2)) (b64_sqrt (b64_add q1 q2)) in
  forall p, p_value tcdf_o t dof alt = Val p ->
  welch_ttest tcdf_o pow_o x1 x2 alt =
    TOk (mkTR (b64_to_int (ts_n x1)) (b64_to_int (ts_n x2)) t dof alt p).
Proof. exact welch_result. Qed.
Print Assumptions C12_welch_result.

(** pooled: dof = n1+n2-2, pooled variance *)
Theorem C12_pooled_result : forall tcdf_o x1 x2 alt,
  pooled_decision x1 x2 = None ->
  let n1 := ts_n x1 in let n2 := ts_n x2 in
  let dof := b64_sub (b64_add n1 n2) k_two in
  let v12 := b64_div (b64_add (b64_mul (b64_sub n1 b64_one) (ts_var x1))
                              (b64_mul (b64_sub n2 b64_one) (ts_var x2))) dof in
  let t := b64_div (b64_sub (ts_mean x1) (ts_mean x2))
                   (b64_sqrt (b64_mul v12 (b64_add (b64_div b64_one n1) (b64_div b64_one n2)))) in
  forall p, p_value tcdf_o t dof alt = Val p ->
  two_sample_ttest tcdf_o x1 x2 alt = TOk (mkTR (b64_to_int n1) (b64_to_int n2) t dof alt p).
Proof. exact pooled_result. Qed.
Print Assumptions C12_pooled_result.

Theorem C12_one_sample_result : forall tcdf_o x mu0 alt,
  one_sample_decision x = None ->
  let dof := b64_sub (ts_n x) b64_one in
  let t := b64_div (b64_mul (b64_sub (ts_mean x) mu0) (b64_sqrt (ts_n x))) (b64_sqrt (ts_var x)) in
  forall p, p_value tcdf_o t dof alt = Val p ->
  one_sample_ttest tcdf_o x mu0 alt = TOk (mkTR (b64_to_int (ts_n x)) (Some 0%Z) t dof alt p).
Proof. exact one_sample_result. Qed.
Print Assumptions C12_one_sample_result.

Theorem C12_paired_result : forall tcdf_o x1 x2 mu0 alt,
  paired_decision x1 x2 = None ->
  let n := Z.of_nat (length x1) in
  let d := diffs x1 x2 in
  let dof := b64_of_Z (n - 1) in
  let t := b64_div (b64_mul (b64_sub (mean_f d) mu0) (b64_sqrt (b64_of_Z n))) (stddev_f d) in
  forall p, p_value tcdf_o t dof alt = Val p ->
  paired_ttest tcdf_o x1 x2 mu0 alt = TOk (mkTR (Some n) (Some (Z.of_nat (length x2))) t dof alt p).
Proof. exact paired_result. Qed.
Print Assumptions C12_paired_result.

(** two-sided p = twice the upper tail of |t|; one-sided = CDF / complement *)
Theorem C12_two_sided_is_twice_upper_tail_of_abs : forall tcdf_o t dof,
  p_value tcdf_o t dof alt_differs =
  res_map (fun g => b64_mul k_two g) (p_value tcdf_o (b64_abs t) dof alt_greater).
Proof. exact two_sided_is_twice_upper_tail_of_abs. Qed.
Print Assumptions C12_two_sided_is_twice_upper_tail_of_abs.

Theorem C12_one_sided_tails : forall tcdf_o t dof,
  p_value tcdf_o t dof alt_less = tcdf_o dof t /\
  p_value tcdf_o t dof alt_greater = res_map (fun c => b64_sub b64_one c) (tcdf_o dof t).
Proof. exact one_sided_tails. Qed.
Print Assumptions C12_one_sided_tails.

(** ** distributions: structure (not accuracy) *)

(** F(-x) = 1 -64 F(x) for x > 0, exactly, whatever the incomplete beta does *)
Theorem C12_tcdf_reflection : forall betainc v x,
  b64_lt b64_zero x = true ->
  tcdf betainc v (b64_neg x) = res_map (fun c => b64_sub b64_one c) (tcdf betainc v x).
Proof. exact tcdf_reflection. Qed.
Print Assumptions C12_tcdf_reflection.


(** the positive branch of the t CDF has the two documented forms *)
Theorem C12_tcdf_pos_branches : forall betainc v x,
  (b64_lt (b64_mul x x) v = true ->
   tcdf_pos betainc v x =
   res_map (fun i => b64_add k_half (b64_mul k_half i))
           (betainc (b64_div (b64_mul x x) (b64_add v (b64_mul x x))) k_half (b64_div v k_two))) /\
  (b64_lt (b64_mul x x) v = false ->
   tcdf_pos betainc v x =
   res_map (fun i => b64_sub b64_one (b64_mul k_half i))
           (betainc (b64_div v (b64_add v (b64_mul x x))) (b64_div v k_two) k_half)).
Proof. exact tcdf_pos_branches. Qed.
Print Assumptions C12_tcdf_pos_branches.

(** ** textbook t-test formulas over exact rationals (Model/TTestQ.v) *)

(** the degrees of freedom in the order ttest.go computes them are the
    Welch-Satterthwaite value as usually printed *)
Theorem C12_welch_dof_forms : forall v1 n1 v2 n2 : Q,
  (~ n1 == 0 -> ~ n2 == 0 -> ~ n1 - 1 == 0 -> ~ n2 - 1 == 0 ->
   ~ v1 * v1 / (n1 * n1 * (n1 - 1)) + v2 * v2 / (n2 * n2 * (n2 - 1)) == 0 ->
   welch_dof_q v1 n1 v2 n2 == welch_dof_textbook_q v1 n1 v2 n2)%Q.
Proof. exact welch_dof_forms. Qed.
Print Assumptions C12_welch_dof_forms.

(** min(n1,n2) - 1 <= nu <= n1 + n2 - 2 *)
Theorem C12_welch_dof_bounds : forall v1 n1 v2 n2 : Q,
  (1 < n1 -> 1 < n2 -> 0 <= v1 -> 0 <= v2 -> 0 < v1 + v2 ->
   Qminmax.Qmin n1 n2 - 1 <= welch_dof_q v1 n1 v2 n2 /\ welch_dof_q v1 n1 v2 n2 <= n1 + n2 - 2)%Q.
Proof. exact welch_dof_bounds. Qed.
Print Assumptions C12_welch_dof_bounds.

(** pooled variance = pooled sum of squared deviations / (n1+n2-2) *)
Theorem C12_pooled_var_is_pooled_ssd : forall xs1 xs2 : list Q,
  (~ len_q xs1 - 1 == 0 -> ~ len_q xs2 - 1 == 0 ->
   pooled_var_q (variance_q xs1) (len_q xs1) (variance_q xs2) (len_q xs2)
   == (ssd_q (mean_q xs1) xs1 + ssd_q (mean_q xs2) xs2) / (len_q xs1 + len_q xs2 - 2))%Q.
Proof. exact pooled_var_is_pooled_ssd. Qed.
Print Assumptions C12_pooled_var_is_pooled_ssd.

(** paired test: the mean of the differences is the difference of the means *)
Theorem C12_paired_mean_is_mean_diff : forall xs ys : list Q, length xs = length ys ->
  (mean_q (diffs_q xs ys) == mean_q xs - mean_q ys)%Q.
Proof. exact paired_mean_is_mean_diff. Qed.
Print Assumptions C12_paired_mean_is_mean_diff.

(** betacf panics exactly when none of its 200 iterations converges *)
Theorem C12_betacf_fuel : forall x a b,
  let d0 := b64_div b64_one
              (raise_zero (b64_sub b64_one (b64_div (b64_mul (b64_add a b) x) (b64_add a b64_one)))) in
  (betacf x a b = Panicked <->
   forall j, (j < 200)%nat -> converged_at j 1 x a b b64_one d0 d0 = false) /\
  betacf x a b <> Miss.
Proof. exact betacf_fuel. Qed.
Print Assumptions C12_betacf_fuel.

(** bisectBool, any inputs (also out of range, NaN, invalid xtol) and any fuel:
    it panics iff f(low) = f(high), and any pair it returns brackets a flip of
    f and meets the loop's exit condition. Termination within the fuel and the
    ordering low <= x1 < x2 <= high are [C12_bisect_brackets] below (in range);
    out of range the ordering fails ([C12_bisect_overflow_escapes]). *)
Theorem C12_bisect_brackets_partial : forall g fuel low high xtol,
  (bisect_bool (total_f g) fuel low high xtol = BPanic <-> g low = g high) /\
  bisect_bool (total_f g) fuel low high xtol <> BMiss /\
  (forall x1 x2, bisect_bool (total_f g) fuel low high xtol = BRes x1 x2 ->
     g x1 = g low /\ g x2 = g high /\ g x1 <> g x2 /\ bisect_exit x1 x2 xtol).
Proof. exact bisect_brackets_partial. Qed.
Print Assumptions C12_bisect_brackets_partial.

(** ** non-vacuity: concrete instances of the hypotheses *)
Example C12_example_welch_dof :
  (Qeq_bool (welch_dof_q 4 10 1 3) (welch_dof_textbook_q 4 10 1 3) && Qle_bool 2 (welch_dof_q 4 10 1 3)
   && Qle_bool (welch_dof_q 4 10 1 3) 11 && Qeq_bool (welch_dof_q 4 10 1 3) (22 # 3))%bool = true.
Proof. vm_compute. reflexivity. Qed.

Example C12_example_Q :
  let xs := [3; 1; 2; 10]%Q in
  (Qeq_bool (mean_inc_q 0 0 xs) 4 && Qeq_bool (welford_q xs) (50 # 3)
   && Qeq_bool (percentile_q (sort_q xs) (1 # 2)) (5 # 2)
   && Qeq_bool (percentile_q (sort_q xs) 0) 1 && Qeq_bool (percentile_q (sort_q xs) 1) 10)%bool = true.
Proof. vm_compute. reflexivity. Qed.

Example C12_example_ttest :
  let cdf := fun (_ _ : b64) => Val k_half in
  let pw := fun (x _ : b64) => Some (b64_mul x x) in
  let s1 := tsample_of [b64_of_Z 1; b64_of_Z 2; b64_of_Z 3] in
  let s2 := tsample_of [b64_of_Z 2; b64_of_Z 4; b64_of_Z 9] in
  welch_decision s1 s2 = None /\
  welch_decision s1 (tsample_of [b64_of_Z 5]) = Some ErrSampleSize /\
  welch_decision (tsample_of [b64_one; b64_one]) (tsample_of [k_two; k_two]) = Some ErrZeroVariance /\
  paired_decision [b64_one] [] = Some ErrMismatchedSamples /\
  (exists r, welch_ttest cdf pw s1 s2 alt_differs = TOk r /\ tr_p r = b64_one) /\
  b64_lt b64_zero k_two = true /\
  betacf k_half k_two k_two <> Panicked /\ betacf S754_nan k_two k_two = Panicked.
Proof.
  vm_compute. repeat split; try discriminate. eexists; split; reflexivity.
Qed.

(** the binary64 incremental mean (Mean as coded) stays within [min, max] of the
    sample whenever no intermediate difference overflows (proof shared with
    C17: Proofs/LegacyMean.v, through Flocq) *)
From Perf Require Model.Legacy Proofs.LegacyMean.
From Coq Require Import List.
Theorem C12_mean_in_hull_b64 : forall xs : list B64.b64,
  xs <> nil ->
  Forall (fun x => SpecFloat.valid_binary 53 1024 x = true /\ B64.b64_is_finite x = true) xs ->
  (Z.of_nat (length xs) < 2 ^ 53)%Z ->
  Legacy.mean_no_overflow xs = true ->
  B64.b64_le (fst (StatsF.bounds_f xs)) (StatsF.mean_f xs) = true /\
  B64.b64_le (StatsF.mean_f xs) (snd (StatsF.bounds_f xs)) = true.
Proof. exact LegacyMean.min_le_mean_le_max_b64. Qed.
Print Assumptions C12_mean_in_hull_b64.

(** ** binary64 theorems through Flocq (real-number axioms of the standard library) *)
From Perf Require Proofs.BisectReal Proofs.BisectFull Proofs.TDistRange Proofs.PercentileB64
     Proofs.PercentileHull Proofs.VarianceB64 Proofs.BenchMath.
From Coq Require Sorting.Sorted.

(** bisectBool, total correctness in range: for every boolean function g on
    binary64 values and valid finite low < high below 2^1023 in magnitude with
    g low <> g high, any fuel >= bisect_steps_bound = 2296 (the model runs with
    bisect_fuel = 4096) is enough: the loop returns x1, x2 with
    low <= x1 < x2 <= high, g x1 = g low, g x2 = g high, and either
    x2 -64 x1 <= xtol or no binary64 value lies strictly between x1 and x2.
    (xtol is arbitrary: NaN or a negative xtol simply never satisfies the first
    exit test and the loop runs down to neighbouring values.) *)
Theorem C12_bisect_brackets : forall (g : b64 -> bool) fuel low high xtol,
  SpecFloat.valid_binary 53 1024 low = true -> SpecFloat.valid_binary 53 1024 high = true ->
  b64_lt low high = true ->
  BisectFull.bisect_in_range low = true -> BisectFull.bisect_in_range high = true ->
  g low <> g high ->
  (BisectFull.bisect_steps_bound <= fuel)%nat ->
  exists x1 x2,
    bisect_bool (total_f g) fuel low high xtol = BRes x1 x2 /\
    SpecFloat.valid_binary 53 1024 x1 = true /\ SpecFloat.valid_binary 53 1024 x2 = true /\
    b64_le low x1 = true /\ b64_lt x1 x2 = true /\ b64_le x2 high = true /\
    g x1 = g low /\ g x2 = g high /\
    (b64_le (b64_sub x2 x1) xtol = true \/ BisectFull.b64_adjacent x1 x2).
Proof. exact BisectFull.bisect_brackets. Qed.
Print Assumptions C12_bisect_brackets.

(** the explicit bound and the model's fuel *)
Theorem C12_bisect_fuel_sufficient :
  BisectFull.bisect_steps_bound = 2296%nat /\ (BisectFull.bisect_steps_bound <= bisect_fuel)%nat.
Proof. exact BisectFull.bisect_bound_and_fuel. Qed.
Print Assumptions C12_bisect_fuel_sufficient.

(** what happens when the midpoint rounds to an endpoint: in range the midpoint
    as coded, (high + low) / 2 with two roundings, is the correctly rounded true
    midpoint; it lies in [low, high], and it equals an endpoint exactly when low
    and high are neighbouring binary64 values (the loop then returns them) *)
Theorem C12_bisect_mid_collapse_iff_adjacent : forall low high,
  SpecFloat.valid_binary 53 1024 low = true -> SpecFloat.valid_binary 53 1024 high = true ->
  b64_lt low high = true ->
  BisectFull.bisect_in_range low = true -> BisectFull.bisect_in_range high = true ->
  let mid := b64_div (b64_add high low) k_two in
  (b64_eq mid high || b64_eq mid low = true <-> BisectFull.b64_adjacent low high)
  /\ b64_le low mid = true /\ b64_le mid high = true.
Proof. exact BisectFull.bisect_mid_collapse_iff_adjacent. Qed.
Print Assumptions C12_bisect_mid_collapse_iff_adjacent.

(** out of range (|low| or |high| >= 2^1023) high + low overflows: the returned
    pair is (2^1023, +Inf) for low = 2^1023, high = 1.5 * 2^1023 — not within
    [low, high]. A finding about bisectBool for astronomically large brackets. *)
Theorem C12_bisect_overflow_escapes :
  SpecFloat.valid_binary 53 1024 BisectFull.ov_low = true /\
  SpecFloat.valid_binary 53 1024 BisectFull.ov_high = true /\
  b64_lt BisectFull.ov_low BisectFull.ov_high = true /\
  BisectFull.ov_g BisectFull.ov_low <> BisectFull.ov_g BisectFull.ov_high /\
  bisect_bool (total_f BisectFull.ov_g) bisect_fuel BisectFull.ov_low BisectFull.ov_high k_xtol
    = BRes BisectFull.ov_low (S754_infinity false) /\
  b64_le (S754_infinity false) BisectFull.ov_high = false.
Proof. exact BisectFull.bisect_overflow_escapes. Qed.
Print Assumptions C12_bisect_overflow_escapes.

(** the generic InvCDF skeleton (dist.go) for a total CDF c (any function on
    binary64 values) and 0 < y < 1: the bracket expansion ends within its fuel
    (xdelta doubles to +Inf in at most 1024 steps, after which hiX = +Inf or
    loX = -Inf stops the loop; 1026 <= expand_fuel = 1200) and hands over ends
    that are valid and finite or the infinity InvCDF returns directly ... *)
From Perf Require Proofs.InvCDFTotal.
Theorem C12_invcdf_bracket_total : forall (c : b64 -> b64) (y : b64),
  exists (Lo Hi : BinarySingleNaN.binary_float 53 1024) loY hiY,
    InvCDFTotal.bracket_of c y
      = Val (BinarySingleNaN.B2SF Lo, loY, BinarySingleNaN.B2SF Hi, hiY)
    /\ (Lo = InvCDFTotal.Ninf \/ BinarySingleNaN.is_finite Lo = true)
    /\ (Hi = InvCDFTotal.Pinf \/ BinarySingleNaN.is_finite Hi = true).
Proof. exact InvCDFTotal.bracket_total. Qed.
Print Assumptions C12_invcdf_bracket_total.

(** ... and InvCDF as a whole then never runs out of fuel in either loop nor
    lacks an oracle answer, when a finite bracket is below 2^1023 in magnitude
    (it returns a value, or panics when the predicate CDF(x) < y does not flip
    over the bracket) *)
Theorem C12_invcdf_total : forall (c : b64 -> b64) bounds y,
  b64_lt b64_zero y = true -> b64_lt y b64_one = true ->
  (forall loX loY hiX hiY, InvCDFTotal.bracket_of c y = Val (loX, loY, hiX, hiY) ->
     b64_is_finite loX = true -> b64_is_finite hiX = true ->
     BisectFull.bisect_in_range loX = true /\ BisectFull.bisect_in_range hiX = true) ->
  inv_cdf (InvCDFTotal.tcdf_total c) bounds y <> IFuel /\
  inv_cdf (InvCDFTotal.tcdf_total c) bounds y <> IMiss.
Proof. exact InvCDFTotal.inv_cdf_total. Qed.
Print Assumptions C12_invcdf_total.

Example C12_example_invcdf :
  let c := fun x : b64 => if b64_lt x (b64_of_Z 3) then b64_of_ZE 1 (-2) else b64_of_ZE 3 (-2) in
  let y := k_half in
  b64_lt b64_zero y = true /\ b64_lt y b64_one = true /\
  InvCDFTotal.bracket_of c y = Val (b64_of_Z 1, b64_of_ZE 1 (-2), b64_of_Z 3, b64_of_ZE 3 (-2)) /\
  BisectFull.bisect_in_range (b64_of_Z 1) = true /\ BisectFull.bisect_in_range (b64_of_Z 3) = true /\
  inv_cdf (InvCDFTotal.tcdf_total c) (k_ninf, k_inf) y = IVal (b64_of_Z 3).
Proof. vm_compute. repeat split. Qed.

(** TDist.CDF as coded stays in [0,1] in binary64 whenever mathBetaInc returns
    binary64 values in [0,1]: any V (also V <= 0, NaN), any non-NaN x (also
    +-Inf); x > 0 gives [1/2, 1] (both forms of the branch), x < 0 gives
    [0, 1/2] (the reflection), x = +-0 gives 1/2. For a NaN x the code returns NaN. *)
Theorem C12_tcdf_in_unit_interval : forall betainc, TDistRange.unit_oracle betainc ->
  forall v x c, b64_is_nan x = false -> tcdf betainc v x = Val c ->
  SpecFloat.valid_binary 53 1024 c = true /\ b64_le b64_zero c = true /\ b64_le c b64_one = true.
Proof. exact TDistRange.tcdf_in_unit_interval. Qed.
Print Assumptions C12_tcdf_in_unit_interval.

Theorem C12_tcdf_range : forall betainc, TDistRange.unit_oracle betainc ->
  forall v x c, b64_is_nan x = false -> tcdf betainc v x = Val c ->
  (b64_eq x b64_zero = true -> c = k_half) /\
  (b64_gt x b64_zero = true -> TDistRange.in_b64_range k_half b64_one c) /\
  (b64_lt x b64_zero = true -> TDistRange.in_b64_range b64_zero k_half c) /\
  TDistRange.in_b64_range b64_zero b64_one c.
Proof. exact TDistRange.tcdf_range. Qed.
Print Assumptions C12_tcdf_range.

(** the R8 interpolation as coded, a + frac * (b - a) with each operation
    rounded, between neighbouring order statistics a <= b and 0 <= frac < 1,
    lies in [a, b] when b - a does not overflow. (frac < 1 is needed:
    PercentileB64.interp_frac_one_escapes.) *)
Theorem C12_percentile_between_neighbours_b64 : forall a b frac : b64,
  SpecFloat.valid_binary 53 1024 a = true -> SpecFloat.valid_binary 53 1024 b = true ->
  SpecFloat.valid_binary 53 1024 frac = true ->
  b64_is_finite a = true -> b64_is_finite b = true ->
  b64_le a b = true -> b64_le b64_zero frac = true -> b64_lt frac b64_one = true ->
  b64_is_finite (b64_sub b a) = true ->
  let r := b64_add a (b64_mul frac (b64_sub b a)) in
  SpecFloat.valid_binary 53 1024 r = true /\ b64_is_finite r = true /\
  b64_le a r = true /\ b64_le r b = true.
Proof. exact PercentileB64.percentile_between_neighbours_b64. Qed.
Print Assumptions C12_percentile_between_neighbours_b64.

(** Sample.Percentile as coded (R8 position, math.Modf, int(), interpolation;
    sorting a copy unless the sample says it is sorted) is within Sample.Bounds
    in binary64: min <= Percentile(p) <= max for every non-NaN p, for every
    non-empty sample of fewer than 2^53 valid finite values, when max - min
    does not overflow *)
Theorem C12_percentile_in_hull_b64 : forall (sorted : bool) (xs : list b64) (p : b64),
  xs <> [] -> Forall PercentileHull.vf xs ->
  (sorted = true -> Sorted.StronglySorted BenchMath.leP xs) ->
  (Z.of_nat (length xs) < 2 ^ 53)%Z ->
  SpecFloat.valid_binary 53 1024 p = true -> b64_is_nan p = false ->
  let mn := fst (sample_bounds_f sorted xs) in
  let mx := snd (sample_bounds_f sorted xs) in
  b64_is_finite (b64_sub mx mn) = true ->
  b64_le mn (percentile_f sorted xs p) = true /\ b64_le (percentile_f sorted xs p) mx = true.
Proof. exact PercentileHull.percentile_in_hull_b64. Qed.
Print Assumptions C12_percentile_in_hull_b64.

(** Sample.Variance (Welford as coded) in binary64 is never negative and never
    NaN (it may be +Inf) when no difference x - mean overflows; without that
    guard it can be -Inf or NaN (VarianceB64.variance_overflow_negative) *)
Theorem C12_variance_nonneg_b64 : forall xs : list b64,
  xs <> [] ->
  Forall (fun x => SpecFloat.valid_binary 53 1024 x = true /\ b64_is_finite x = true) xs ->
  (Z.of_nat (length xs) < 2 ^ 53)%Z ->
  Legacy.mean_no_overflow xs = true ->
  b64_le b64_zero (variance_f xs) = true.
Proof. exact VarianceB64.variance_nonneg_b64. Qed.
Print Assumptions C12_variance_nonneg_b64.

(** non-vacuity of the hypotheses above *)
Example C12_example_b64_ranges :
  let g := fun x : b64 => b64_lt x (b64_of_Z 3) in
  (* bisect: [1, 10], flip at 3 *)
  SpecFloat.valid_binary 53 1024 (b64_of_Z 1) = true /\ b64_lt (b64_of_Z 1) (b64_of_Z 10) = true /\
  BisectFull.bisect_in_range (b64_of_Z 1) = true /\ BisectFull.bisect_in_range (b64_of_Z 10) = true /\
  g (b64_of_Z 1) <> g (b64_of_Z 10) /\
  match bisect_bool (total_f g) bisect_fuel (b64_of_Z 1) (b64_of_Z 10) k_xtol with
  | BRes x1 x2 => b64_lt x1 (b64_of_Z 3) && b64_eq x2 (b64_of_Z 3)
  | _ => false
  end = true /\
  (* percentile: sorted sample, p = 0.3 *)
  (let xs := [b64_of_Z 1; b64_of_Z 2; b64_of_Z 10] in
   let p := b64_div (b64_of_Z 3) (b64_of_Z 10) in
   b64_is_finite (b64_sub (snd (sample_bounds_f true xs)) (fst (sample_bounds_f true xs))) = true /\
   b64_is_nan p = false /\ b64_lt (b64_of_Z 1) (percentile_f true xs p) = true /\
   b64_lt (percentile_f true xs p) (b64_of_Z 2) = true /\
   Legacy.mean_no_overflow xs = true /\ b64_lt b64_zero (variance_f xs) = true) /\
  (* t CDF with an oracle that always answers 1/4 *)
  (tcdf (fun _ _ _ => Val (b64_of_ZE 1 (-2))) (b64_of_Z 5) (b64_of_Z 1) = Val (b64_of_ZE 5 (-3)) /\
   tcdf (fun _ _ _ => Val (b64_of_ZE 1 (-2))) (b64_of_Z 5) (b64_of_Z (-3)) = Val (b64_of_ZE 1 (-3))).
Proof.
  vm_compute. repeat split; discriminate.
Qed.

Example C12_example_unit_oracle : TDistRange.unit_oracle (fun _ _ _ => Val (b64_of_ZE 1 (-2))).
Proof. intros x a b i E. injection E as <-. vm_compute. repeat split. Qed.

Example C12_example_sorted : Sorted.StronglySorted BenchMath.leP [b64_of_Z 1; b64_of_Z 2; b64_of_Z 10]
  /\ Forall PercentileHull.vf [b64_of_Z 1; b64_of_Z 2; b64_of_Z 10].
Proof.
  split.
  - repeat constructor.
  - repeat constructor.
Qed.

(** ** undersized inputs (repaired code, hooks/fix_c12_ttest_zero_dof.diff) *)
From Perf Require Import Model.TTestSpec Model.Quadrature Proofs.Quadrature.

(** Welch's variance estimate s1^2/n1 + s2^2/n2 vanishes exactly when both sample variances do
    (the declarative zero-variance condition of Model/TTestSpec.v) *)
Theorem C12_zero_var_welch_iff : forall v1 n1 v2 n2 : Q,
  (0 <= v1 -> 0 <= v2 -> 0 < n1 -> 0 < n2 ->
   (zero_var_welch v1 v2 = true <-> v1 / n1 + v2 / n2 == 0))%Q.
Proof. exact zero_var_welch_iff. Qed.
Print Assumptions C12_zero_var_welch_iff.

(** the auditor's witnesses: a summary of one observation (mean 3, variance 5) has no degrees of
    freedom - OneSampleTTest and TwoSampleTTest (1 + 1 observations) report ErrSampleSize, and the
    declarative specification demands an error; a pooled test whose only multi-observation group
    has variance 0 reports ErrZeroVariance. (Unrepaired code: P = NaN / T = +Inf with a nil error.) *)
Example C12_example_zero_dof_is_size_error :
  one_sample_decision (mkTS (b64_of_Z 1) (b64_of_Z 3) (b64_of_Z 5)) = Some ErrSampleSize /\
  pooled_decision (mkTS (b64_of_Z 1) (b64_of_Z 3) (b64_of_Z 5)) (mkTS (b64_of_Z 1) (b64_of_Z 4) (b64_of_Z 2))
    = Some ErrSampleSize /\
  pooled_decision (mkTS (b64_of_Z 1) (b64_of_Z 3) (b64_of_Z 5)) (mkTS (b64_of_Z 2) (b64_of_Z 4) (b64_of_Z 0))
    = Some ErrZeroVariance /\
  pooled_decision (mkTS (b64_of_Z 1) (b64_of_Z 3) (b64_of_Z 5)) (mkTS (b64_of_Z 2) (b64_of_Z 4) (b64_of_Z 2)) = None /\
  expect_of (undersized_one 1) (zero_var_one 5) = ExpErrIn [1%Z] /\
  expect_of (undersized_pooled 1 1) (zero_var_pooled 5 1 2 1) = ExpErrIn [1%Z; 2%Z] /\
  expect_of (undersized_pooled 1 2) (zero_var_pooled 5 1 0 2) = ExpErrIn [2%Z] /\
  expect_of (undersized_pooled 1 2) (zero_var_pooled 5 1 2 2) = ExpOk.
Proof. vm_compute. repeat split. Qed.

(** ** quadrature used to judge PDF against CDF: one Boole panel is exact on polynomials of degree <= 5 *)
Theorem C12_boole_panel_exact_deg5 : forall c0 c1 c2 c3 c4 c5 a h : Q,
  let p := poly5 c0 c1 c2 c3 c4 c5 in
  (2 * h / 45 * boole_panel (p a) (p (a + h)) (p (a + 2 * h)) (p (a + 3 * h)) (p (a + 4 * h))
   == poly5_int c0 c1 c2 c3 c4 c5 (a + 4 * h) - poly5_int c0 c1 c2 c3 c4 c5 a)%Q.
Proof. exact boole_panel_exact_deg5. Qed.
Print Assumptions C12_boole_panel_exact_deg5.
