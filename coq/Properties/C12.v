(** C12 — distributions, t-tests and descriptive statistics (PARTIAL by design).
    Statements only; proofs are in Proofs/StatsQ.v and Proofs/TTest.v.
    Proved here: what is exact arithmetic or decision logic. The numerical
    analysis over Go's math library (Lgamma, Exp, Log, Pow, Erfc) is NOT a
    theorem: it is tied by oracle replay, certified reference points and
    sweeps (Corr/RunC12.v), labelled as tests in the evidence. *)
From Coq Require Import QArith ZArith List Bool.
From Perf Require Import Base.B64 Model.StatsQ Model.StatsF Model.Beta Model.TDist Model.TTest Model.Bisect.
From Perf Require Import Proofs.StatsQ Proofs.TTest Model.TTestQ Proofs.TTestQ.
Import ListNotations.

(** ** descriptive statistics over exact rationals *)

(** the incremental mean m += (x - m)/(i+1) computes sum/n *)
Theorem C12_mean_incremental_is_sum_div_n : forall xs : list Q,
  xs <> [] -> (mean_inc_q 0 0 xs == mean_q xs)%Q.
Proof. exact mean_incremental_is_sum_div_n. Qed.
Print Assumptions C12_mean_incremental_is_sum_div_n.

(** Welford's recurrence as coded computes the unbiased sample variance *)
Theorem C12_welford_is_variance : forall xs : list Q,
  xs <> [] -> (welford_q xs == variance_q xs)%Q.
Proof. exact welford_is_variance. Qed.
Print Assumptions C12_welford_is_variance.

(** the power-sum form used to evaluate the specification is the same number *)
Theorem C12_variance_power_sums : forall xs : list Q,
  xs <> [] -> (variance_q xs == variance_ps_q xs)%Q.
Proof. exact variance_q_power_sums. Qed.
Print Assumptions C12_variance_power_sums.

(** R8 percentiles are monotone in p and within [min, max] of the sample *)
Theorem C12_r8_monotone_bounded : forall xs : list Q, sorted_q xs -> xs <> [] ->
  (forall p q, p <= q -> percentile_q xs p <= percentile_q xs q)%Q /\
  (forall p, nth_q xs 0 <= percentile_q xs p <= nth_q xs (Z.of_nat (length xs) - 1))%Q.
Proof. exact r8_monotone_bounded. Qed.
Print Assumptions C12_r8_monotone_bounded.

(** ... for every sample through sorting: [sort_q] is a sorted permutation *)
Theorem C12_sort_sorted_perm : forall xs : list Q,
  sorted_q (sort_q xs) /\ Permutation.Permutation (sort_q xs) xs.
Proof. intros xs; split; [apply sort_q_sorted | apply sort_q_perm]. Qed.
Print Assumptions C12_sort_sorted_perm.

(** the R8 position formula *)
Theorem C12_r8_position : forall len p, (r8_pos_q len p == (inject_Z len + (1 # 3)) * p + (1 # 3))%Q.
Proof. exact r8_position. Qed.
Print Assumptions C12_r8_position.

(** Bounds returns sample values that bound every sample value *)
Theorem C12_bounds_are_min_max : forall xs mn mx, bounds_q xs = Some (mn, mx) ->
  In mn xs /\ In mx xs /\ Forall (fun x => mn <= x /\ x <= mx)%Q xs.
Proof. exact bounds_are_min_max. Qed.
Print Assumptions C12_bounds_are_min_max.

(** homogeneity, which justifies evaluating the specification on the sample
    scaled to integers in the correspondence run *)
Theorem C12_mean_variance_scale : forall c xs,
  (mean_q (map (Qmult c) xs) == c * mean_q xs)%Q /\
  (variance_ps_q (map (Qmult c) xs) == c * c * variance_ps_q xs)%Q.
Proof. intros c xs; split; [apply mean_q_scale | apply variance_ps_q_scale]. Qed.
Print Assumptions C12_mean_variance_scale.

(** ** t-tests: decisions, formulas, tails (binary64 skeleton, CDF as oracle) *)

(** undersized / zero-variance / mismatched inputs are reported as the
    documented errors, in the code's order, and nothing else is an error *)
Theorem C12_ttest_decisions : forall tcdf_o pow_o,
  (forall x1 x2 alt, is_err (two_sample_ttest tcdf_o x1 x2 alt) = pooled_decision x1 x2) /\
  (forall x1 x2 alt, is_err (welch_ttest tcdf_o pow_o x1 x2 alt) = welch_decision x1 x2) /\
  (forall x1 x2 mu0 alt, is_err (paired_ttest tcdf_o x1 x2 mu0 alt) = paired_decision x1 x2) /\
  (forall x mu0 alt, is_err (one_sample_ttest tcdf_o x mu0 alt) = one_sample_decision x).
Proof. exact ttest_decisions. Qed.
Print Assumptions C12_ttest_decisions.

(** Welch: statistic (m1-m2)/sqrt(v1/n1+v2/n2), Welch-Satterthwaite degrees of freedom *)
Theorem C12_welch_result : forall tcdf_o pow_o x1 x2 alt ps p1 p2,
  welch_decision x1 x2 = None ->
  let q1 := b64_div (ts_var x1) (ts_n x1) in
  let q2 := b64_div (ts_var x2) (ts_n x2) in
  pow_o (b64_add q1 q2) k_two = Some ps -> pow_o q1 k_two = Some p1 -> pow_o q2 k_two = Some p2 ->
  let dof := b64_div ps (b64_add (b64_div p1 (b64_sub (ts_n x1) b64_one))
                                 (b64_div p2 (b64_sub (ts_n x2) b64_one))) in
  let t := b64_div (b64_sub (ts_mean x1) (ts_mean x2)) (b64_sqrt (b64_add q1 q2)) in
  forall p, p_value tcdf_o t dof alt = Val p ->
  welch_ttest tcdf_o pow_o x1 x2 alt =
    TOk (mkTR (b64_to_int (ts_n x1)) (b64_to_int (ts_n x2)) t dof alt p).
Proof. exact welch_result. Qed.
Print Assumptions C12_welch_result.

(** pooled: dof = n1+n2-2, pooled variance *)
Theorem C12_pooled_result : forall tcdf_o x1 x2 alt,
  pooled_decision x1 x2 = None ->
  let n1 := ts_n x1 in let n2 := ts_n x2 in
  let dof := b64_sub (b64_add n1 n2) k_two in
  let v12 := b64_div (b64_add (b64_mul (b64_sub n1 b64_one) (ts_var x1))
                              (b64_mul (b64_sub n2 b64_one) (ts_var x2))) dof in
  let t := b64_div (b64_sub (ts_mean x1) (ts_mean x2))
                   (b64_sqrt (b64_mul v12 (b64_add (b64_div b64_one n1) (b64_div b64_one n2)))) in
  forall p, p_value tcdf_o t dof alt = Val p ->
  two_sample_ttest tcdf_o x1 x2 alt = TOk (mkTR (b64_to_int n1) (b64_to_int n2) t dof alt p).
Proof. exact pooled_result. Qed.
Print Assumptions C12_pooled_result.

Theorem C12_one_sample_result : forall tcdf_o x mu0 alt,
  one_sample_decision x = None ->
  let dof := b64_sub (ts_n x) b64_one in
  let t := b64_div (b64_mul (b64_sub (ts_mean x) mu0) (b64_sqrt (ts_n x))) (b64_sqrt (ts_var x)) in
  forall p, p_value tcdf_o t dof alt = Val p ->
  one_sample_ttest tcdf_o x mu0 alt = TOk (mkTR (b64_to_int (ts_n x)) (Some 0%Z) t dof alt p).
Proof. exact one_sample_result. Qed.
Print Assumptions C12_one_sample_result.

Theorem C12_paired_result : forall tcdf_o x1 x2 mu0 alt,
  paired_decision x1 x2 = None ->
  let n := Z.of_nat (length x1) in
  let d := diffs x1 x2 in
  let dof := b64_of_Z (n - 1) in
  let t := b64_div (b64_mul (b64_sub (mean_f d) mu0) (b64_sqrt (b64_of_Z n))) (stddev_f d) in
  forall p, p_value tcdf_o t dof alt = Val p ->
  paired_ttest tcdf_o x1 x2 mu0 alt = TOk (mkTR (Some n) (Some (Z.of_nat (length x2))) t dof alt p).
Proof. exact paired_result. Qed.
Print Assumptions C12_paired_result.

(** two-sided p = twice the upper tail of |t|; one-sided = CDF / complement *)
Theorem C12_two_sided_is_twice_upper_tail_of_abs : forall tcdf_o t dof,
  p_value tcdf_o t dof alt_differs =
  res_map (fun g => b64_mul k_two g) (p_value tcdf_o (b64_abs t) dof alt_greater).
Proof. exact two_sided_is_twice_upper_tail_of_abs. Qed.
Print Assumptions C12_two_sided_is_twice_upper_tail_of_abs.

Theorem C12_one_sided_tails : forall tcdf_o t dof,
  p_value tcdf_o t dof alt_less = tcdf_o dof t /\
  p_value tcdf_o t dof alt_greater = res_map (fun c => b64_sub b64_one c) (tcdf_o dof t).
Proof. exact one_sided_tails. Qed.
Print Assumptions C12_one_sided_tails.

(** ** distributions: structure (not accuracy) *)

(** F(-x) = 1 -64 F(x) for x > 0, exactly, whatever the incomplete beta does *)
Theorem C12_tcdf_reflection : forall betainc v x,
  b64_lt b64_zero x = true ->
  tcdf betainc v (b64_neg x) = res_map (fun c => b64_sub b64_one c) (tcdf betainc v x).
Proof. exact tcdf_reflection. Qed.
Print Assumptions C12_tcdf_reflection.


(** the positive branch of the t CDF has the two documented forms *)
Theorem C12_tcdf_pos_branches : forall betainc v x,
  (b64_lt (b64_mul x x) v = true ->
   tcdf_pos betainc v x =
   res_map (fun i => b64_add k_half (b64_mul k_half i))
           (betainc (b64_div (b64_mul x x) (b64_add v (b64_mul x x))) k_half (b64_div v k_two))) /\
  (b64_lt (b64_mul x x) v = false ->
   tcdf_pos betainc v x =
   res_map (fun i => b64_sub b64_one (b64_mul k_half i))
           (betainc (b64_div v (b64_add v (b64_mul x x))) (b64_div v k_two) k_half)).
Proof. exact tcdf_pos_branches. Qed.
Print Assumptions C12_tcdf_pos_branches.

(** ** textbook t-test formulas over exact rationals (Model/TTestQ.v) *)

(** the degrees of freedom in the order ttest.go computes them are the
    Welch-Satterthwaite value as usually printed *)
Theorem C12_welch_dof_forms : forall v1 n1 v2 n2 : Q,
  (~ n1 == 0 -> ~ n2 == 0 -> ~ n1 - 1 == 0 -> ~ n2 - 1 == 0 ->
   ~ v1 * v1 / (n1 * n1 * (n1 - 1)) + v2 * v2 / (n2 * n2 * (n2 - 1)) == 0 ->
   welch_dof_q v1 n1 v2 n2 == welch_dof_textbook_q v1 n1 v2 n2)%Q.
Proof. exact welch_dof_forms. Qed.
Print Assumptions C12_welch_dof_forms.

(** min(n1,n2) - 1 <= nu <= n1 + n2 - 2 *)
Theorem C12_welch_dof_bounds : forall v1 n1 v2 n2 : Q,
  (1 < n1 -> 1 < n2 -> 0 <= v1 -> 0 <= v2 -> 0 < v1 + v2 ->
   Qminmax.Qmin n1 n2 - 1 <= welch_dof_q v1 n1 v2 n2 /\ welch_dof_q v1 n1 v2 n2 <= n1 + n2 - 2)%Q.
Proof. exact welch_dof_bounds. Qed.
Print Assumptions C12_welch_dof_bounds.

(** pooled variance = pooled sum of squared deviations / (n1+n2-2) *)
Theorem C12_pooled_var_is_pooled_ssd : forall xs1 xs2 : list Q,
  (~ len_q xs1 - 1 == 0 -> ~ len_q xs2 - 1 == 0 ->
   pooled_var_q (variance_q xs1) (len_q xs1) (variance_q xs2) (len_q xs2)
   == (ssd_q (mean_q xs1) xs1 + ssd_q (mean_q xs2) xs2) / (len_q xs1 + len_q xs2 - 2))%Q.
Proof. exact pooled_var_is_pooled_ssd. Qed.
Print Assumptions C12_pooled_var_is_pooled_ssd.

(** paired test: the mean of the differences is the difference of the means *)
Theorem C12_paired_mean_is_mean_diff : forall xs ys : list Q, length xs = length ys ->
  (mean_q (diffs_q xs ys) == mean_q xs - mean_q ys)%Q.
Proof. exact paired_mean_is_mean_diff. Qed.
Print Assumptions C12_paired_mean_is_mean_diff.

(** betacf panics exactly when none of its 200 iterations converges *)
Theorem C12_betacf_fuel : forall x a b,
  let d0 := b64_div b64_one
              (raise_zero (b64_sub b64_one (b64_div (b64_mul (b64_add a b) x) (b64_add a b64_one)))) in
  (betacf x a b = Panicked <->
   forall j, (j < 200)%nat -> converged_at j 1 x a b b64_one d0 d0 = false) /\
  betacf x a b <> Miss.
Proof. exact betacf_fuel. Qed.
Print Assumptions C12_betacf_fuel.

(** bisectBool: PARTIAL. Proved: it panics iff f(low) = f(high), and any pair
    it returns brackets a flip of f and meets the loop's exit condition.
    Not proved (tested: fuel 4096 never exhausted in the replay cases):
      forall f low high, low < high finite -> exists fuel <= 2200, the loop
      terminates, and low <= x1 < x2 <= high
    (needs: RN((a+b)/2) lies in [a,b] and the number of floats strictly between
    the ends decreases; Flocq). *)
Theorem C12_bisect_brackets_partial : forall g fuel low high xtol,
  (bisect_bool (total_f g) fuel low high xtol = BPanic <-> g low = g high) /\
  bisect_bool (total_f g) fuel low high xtol <> BMiss /\
  (forall x1 x2, bisect_bool (total_f g) fuel low high xtol = BRes x1 x2 ->
     g x1 = g low /\ g x2 = g high /\ g x1 <> g x2 /\ bisect_exit x1 x2 xtol).
Proof. exact bisect_brackets_partial. Qed.
Print Assumptions C12_bisect_brackets_partial.

(** ** non-vacuity: concrete instances of the hypotheses *)
Example C12_example_welch_dof :
  (Qeq_bool (welch_dof_q 4 10 1 3) (welch_dof_textbook_q 4 10 1 3) && Qle_bool 2 (welch_dof_q 4 10 1 3)
   && Qle_bool (welch_dof_q 4 10 1 3) 11 && Qeq_bool (welch_dof_q 4 10 1 3) (22 # 3))%bool = true.
Proof. vm_compute. reflexivity. Qed.

Example C12_example_Q :
  let xs := [3; 1; 2; 10]%Q in
  (Qeq_bool (mean_inc_q 0 0 xs) 4 && Qeq_bool (welford_q xs) (50 # 3)
   && Qeq_bool (percentile_q (sort_q xs) (1 # 2)) (5 # 2)
   && Qeq_bool (percentile_q (sort_q xs) 0) 1 && Qeq_bool (percentile_q (sort_q xs) 1) 10)%bool = true.
Proof. vm_compute. reflexivity. Qed.

Example C12_example_ttest :
  let cdf := fun (_ _ : b64) => Val k_half in
  let pw := fun (x _ : b64) => Some (b64_mul x x) in
  let s1 := tsample_of [b64_of_Z 1; b64_of_Z 2; b64_of_Z 3] in
  let s2 := tsample_of [b64_of_Z 2; b64_of_Z 4; b64_of_Z 9] in
  welch_decision s1 s2 = None /\
  welch_decision s1 (tsample_of [b64_of_Z 5]) = Some ErrSampleSize /\
  welch_decision (tsample_of [b64_one; b64_one]) (tsample_of [k_two; k_two]) = Some ErrZeroVariance /\
  paired_decision [b64_one] [] = Some ErrMismatchedSamples /\
  (exists r, welch_ttest cdf pw s1 s2 alt_differs = TOk r /\ tr_p r = b64_one) /\
  b64_lt b64_zero k_two = true /\
  betacf k_half k_two k_two <> Panicked /\ betacf S754_nan k_two k_two = Panicked.
Proof.
  vm_compute. repeat split; try discriminate. eexists; split; reflexivity.
Qed.

(** the binary64 incremental mean (Mean as coded) stays within [min, max] of the
    sample whenever no intermediate difference overflows (proof shared with
    C17: Proofs/LegacyMean.v, through Flocq) *)
From Perf Require Model.Legacy Proofs.LegacyMean.
From Coq Require Import List.
Theorem C12_mean_in_hull_b64 : forall xs : list B64.b64,
  xs <> nil ->
  Forall (fun x => SpecFloat.valid_binary 53 1024 x = true /\ B64.b64_is_finite x = true) xs ->
  (Z.of_nat (length xs) < 2 ^ 53)%Z ->
  Legacy.mean_no_overflow xs = true ->
  B64.b64_le (fst (StatsF.bounds_f xs)) (StatsF.mean_f xs) = true /\
  B64.b64_le (StatsF.mean_f xs) (snd (StatsF.bounds_f xs)) = true.
Proof. exact LegacyMean.min_le_mean_le_max_b64. Qed.
Print Assumptions C12_mean_in_hull_b64.
