(** C13 — Summaries and comparisons honour their statistical contracts.
    Statements only; proofs are in Proofs/BenchMath.v and Proofs/BenchMathRender.v.
    Models: Model/BenchMath.v (benchmath), Model/MoreMathU.v (go-moremath U-test,
    as it is), specifications: Model/BenchMathSpec.v. *)
From Coq Require Import Sorting.Permutation.
From Perf Require Import Base.Bytes Base.B64 Base.B64Order Base.FmtPct
     Model.StatsF Model.MoreMathU Model.BenchMath Model.BenchMathSpec
     Proofs.BenchMath Proofs.BenchMathRender Proofs.BenchMathCI Proofs.BenchMathMono.
Local Open Scope Z_scope.

(** For the assumptions that perform a test (nothing, normal), whatever the
    test returns (p-value, error), the comparison carries the threshold the
    FIRST sample was created with, and both sample sizes. *)
Theorem C13_compare_threshold_carried : forall uf wf a s1 s2 c,
  a <> AExact ->
  compare uf wf a s1 s2 = Some c ->
  c_alpha c = compare_alpha (s_thr s1)
  /\ c_n1 c = zlen (s_values s1) /\ c_n2 c = zlen (s_values s2).
Proof. exact compare_threshold_carried. Qed.
Print Assumptions C13_compare_threshold_carried.

(** the exact model does not test: p = 0, no threshold, both sizes *)
Theorem C13_compare_exact : forall uf wf s1 s2,
  compare uf wf AExact s1 s2 =
  Some (mkCmp f_zero (zlen (s_values s1)) (zlen (s_values s2)) f_zero []).
Proof. exact compare_exact_is_exact. Qed.
Print Assumptions C13_compare_exact.

(** "~" is rendered exactly when p exceeds the first sample's threshold
    (Go's [P > Alpha]); otherwise a difference is shown *)
Theorem C13_delta_shown_iff_p_not_above_threshold : forall uf wf a s1 s2 c old new,
  a <> AExact ->
  compare uf wf a s1 s2 = Some c ->
  (format_delta c old new = bs "~" <-> b64_gt (c_p c) (compare_alpha (s_thr s1)) = true).
Proof. exact compare_delta_rule. Qed.
Print Assumptions C13_delta_shown_iff_p_not_above_threshold.

(** for numbers (no NaN) "does not exceed" is [<=] *)
Theorem C13_not_above_is_le : forall p alpha,
  nonnan p -> nonnan alpha -> b64_gt p alpha = negb (b64_le p alpha).
Proof. exact b64_gt_not_le. Qed.
Print Assumptions C13_not_above_is_le.

(** FormatDelta over all float64 inputs: the four renderings and exactly when
    each occurs; the percentage is ((new/old) - 1) * 100 in binary64 printed
    with sign and two decimals *)
Theorem C13_format_delta_cases : forall c old new,
  (format_delta c old new = bs "~" <-> b64_gt (c_p c) (c_alpha c) = true)
  /\ (format_delta c old new = bs "0.00%" <->
      b64_gt (c_p c) (c_alpha c) = false /\ b64_eq old new = true)
  /\ (format_delta c old new = bs "?" <->
      b64_gt (c_p c) (c_alpha c) = false /\ b64_eq old new = false /\ b64_eq old f_zero = true)
  /\ (b64_gt (c_p c) (c_alpha c) = false -> b64_eq old new = false -> b64_eq old f_zero = false ->
      format_delta c old new
      = fmt_fixed true 2 (b64_mul (b64_sub (b64_div new old) b64_one) f_hundred) ++ pct_sign).
Proof. exact format_delta_cases. Qed.
Print Assumptions C13_format_delta_cases.

(** PctRangeString over all float64 inputs, degenerate ones included *)
Theorem C13_pct_range_cases : forall s,
  let c := sm_center s in
  let lo := sm_lo s in
  let hi := sm_hi s in
  (pct_range_string s = inf_symbol <-> b64_is_inf lo || b64_is_inf hi = true)
  /\ (pct_range_string s = bs "?" <->
      b64_is_inf lo || b64_is_inf hi = false
      /\ sign_ne (sign_f c) (sign_f lo) || sign_ne (sign_f c) (sign_f hi) = true)
  /\ (pct_class_of c lo hi = PZero -> pct_range_string s = bs "0%")
  /\ (pct_class_of c lo hi = PPct ->
      pct_range_string s
      = fmt_fixed false 0
          (b64_mul f_hundred (b64_max (b64_sub (b64_div hi c) b64_one) (b64_sub b64_one (b64_div lo c))))
        ++ pct_sign).
Proof. exact pct_range_cases. Qed.
Print Assumptions C13_pct_range_cases.

(** what the classes are: "?" = some value is NaN or the signs (-, 0, +) of the
    ends differ from the centre's; "0%" = centre and both ends are zeros; a
    percentage otherwise: finite non-zero ends of the centre's sign *)
Theorem C13_pct_quest_meaning : forall c lo hi,
  pct_class_of c lo hi = PQuest <->
  b64_is_inf lo = false /\ b64_is_inf hi = false
  /\ (sign_f c = SgnNaN \/ sign_f lo = SgnNaN \/ sign_f hi = SgnNaN
      \/ sign_f c <> sign_f lo \/ sign_f c <> sign_f hi).
Proof. exact pct_class_quest_meaning. Qed.
Print Assumptions C13_pct_quest_meaning.

Theorem C13_pct_zero_meaning : forall c lo hi,
  pct_class_of c lo hi = PZero ->
  b64_is_zero c = true /\ b64_is_zero lo = true /\ b64_is_zero hi = true.
Proof. exact pct_class_zero_all_zero. Qed.
Print Assumptions C13_pct_zero_meaning.

Theorem C13_pct_percent_meaning : forall c lo hi,
  pct_class_of c lo hi = PPct ->
  b64_is_finite lo = true /\ b64_is_finite hi = true
  /\ b64_is_zero c = false /\ b64_is_nan c = false
  /\ b64_signbit lo = b64_signbit c /\ b64_signbit hi = b64_signbit c
  /\ b64_is_zero lo = false /\ b64_is_zero hi = false.
Proof. exact pct_class_pct_same_sign. Qed.
Print Assumptions C13_pct_percent_meaning.

Theorem C13_sign_meaning : forall x,
  sign_f x = match x with
             | S754_nan => SgnNaN
             | S754_zero _ => SgnZero
             | S754_infinity s | S754_finite s _ _ => if s then SgnNeg else SgnPos
             end.
Proof. exact sign_f_spec. Qed.
Print Assumptions C13_sign_meaning.

(** exact model: the centre is a most frequent value of the measurements (in
    any order; equality is Go's [==]) *)
Theorem C13_exact_centre_is_mode : forall xs t sm,
  Forall nonnan xs ->
  summary_exact (new_sample xs t) = Some sm ->
  In (sm_center sm) xs /\ forall w, In w xs -> occurrences w xs <= occurrences (sm_center sm) xs.
Proof. exact exact_centre_is_mode. Qed.
Print Assumptions C13_exact_centre_is_mode.

(** ... with a warning exactly when two measurements differ *)
Theorem C13_exact_warning_iff_values_differ : forall xs t sm,
  Forall nonnan xs ->
  summary_exact (new_sample xs t) = Some sm ->
  (sm_warn sm = [] <-> forall x y, In x xs -> In y xs -> b64_eq x y = true)
  /\ (sm_warn sm <> [] -> sm_warn sm = [WRange]).
Proof. exact exact_warning_iff_values_differ. Qed.
Print Assumptions C13_exact_warning_iff_values_differ.

Theorem C13_exact_summary_total : forall xs t,
  xs <> [] -> exists sm, summary_exact (new_sample xs t) = Some sm.
Proof. exact summary_exact_total. Qed.
Print Assumptions C13_exact_summary_total.

(** NewSample's sort is a canonical form: any reordering of the measurements
    gives the same Sample, hence the same summaries and comparisons, for every
    assumption and whatever the tests compute. Hypothesis [ordinary]: no NaN
    and no negative zero (-0 == +0 but they are different values, and
    sort.Float64s does not fix their relative order). *)
Theorem C13_new_sample_perm_invariant : forall xs xs' t,
  Permutation xs xs' -> Forall ordinary xs -> new_sample xs t = new_sample xs' t.
Proof. exact new_sample_perm. Qed.
Print Assumptions C13_new_sample_perm_invariant.

Theorem C13_compare_perm_invariant : forall uf wf a t1 t2 xs xs' ys ys',
  Permutation xs xs' -> Permutation ys ys' ->
  Forall ordinary xs -> Forall ordinary ys ->
  compare uf wf a (new_sample xs t1) (new_sample ys t2)
  = compare uf wf a (new_sample xs' t1) (new_sample ys' t2).
Proof. exact compare_perm_invariant. Qed.
Print Assumptions C13_compare_perm_invariant.

(** the sorted values are the measurements, in ascending order *)
Theorem C13_new_sample_sorted_perm : forall xs t,
  Forall nonnan xs ->
  Permutation xs (s_values (new_sample xs t))
  /\ Sorted.StronglySorted (fun a b => b64_le a b = true) (s_values (new_sample xs t)).
Proof. intros xs t H. split; [apply sort_f_perm|now apply sort_f_sorted]. Qed.
Print Assumptions C13_new_sample_sorted_perm.

(** the small-sample table of the U-test warning is 2 / C(2n, n), n = 1..9,
    correctly rounded: the least p two maximally separated samples can reach *)
Theorem C13_utest_min_p_table :
  utest_min_p = map (fun n => b64_div (b64_of_Z 2) (b64_of_Z (binom (2 * n) n))) (zrange 1 9).
Proof. exact utest_min_p_is_two_over_binom. Qed.
Print Assumptions C13_utest_min_p_table.

(** bounded check (not the unbounded claim): the group-wise evaluation of the
    exact permutation p-value used by the correspondence run equals plain
    enumeration of all assignments, for all pairs of non-empty non-decreasing
    samples of at most 3 values from {1,2,3} *)
Theorem C13_perm_p_dp_agrees_small_bounded :
  forallb (fun x1 => forallb (fun x2 => rat_eq (perm_p x1 x2) (perm_p_dp x1 x2)
                                        && (snd (perm_p_dp x1 x2) =? snd (perm_p x1 x2)))
                             small_samples) small_samples = true.
Proof. exact perm_p_dp_agrees_small. Qed.
Print Assumptions C13_perm_p_dp_agrees_small_bounded.

(** Median interval of the assume-nothing model for n <= 30, QuantileCI's
    accumulation walk run in exact arithmetic (requested level cnum/cden): the
    band [l, r) of order statistics contains the median position, the
    accumulated level is exactly the binomial coverage
    sum_{k=l}^{r-1} C(n,k) / 2^n, and it is at least the requested level unless
    the band is everything (both ends infinite). The float64 walk of the code
    makes the same decisions while its sums are exact (n <= 20); that link is
    checked per case by the correspondence run, not proved. *)
Theorem C13_median_ci_coverage : forall n cnum cden l r acc,
  0 <= n <= 30 -> 0 < cden ->
  quantile_ci_exact n cnum cden = Some (l, r, acc) ->
  0 <= l /\ l <= n / 2 /\ n / 2 < r /\ r <= n + 1
  /\ acc = cden * fst (coverage n l r)
  /\ (rat_le (cnum, cden) (coverage n l r) = true \/ (l = 0 /\ r = n + 1)).
Proof. exact median_ci_coverage_exact. Qed.
Print Assumptions C13_median_ci_coverage.

(** the U-test sees its samples only through [<], [<=], [==]: any map of the
    pooled values preserving these (a strictly increasing rescaling that keeps
    distinct values distinct, e.g. multiplication by 2^k without overflow)
    leaves the whole outcome unchanged: errors, exact/approximate path, U, ties
    and the exact p *)
Theorem C13_compare_monotone_invariant : forall f x1 x2,
  (forall x y, In x (x1 ++ x2) -> In y (x1 ++ x2) ->
     b64_lt (f x) (f y) = b64_lt x y /\ b64_le (f x) (f y) = b64_le x y /\ b64_eq (f x) (f y) = b64_eq x y) ->
  utest (map f x1) (map f x2) = utest x1 x2.
Proof. exact utest_monotone_invariant. Qed.
Print Assumptions C13_compare_monotone_invariant.

(** the specification's exact permutation p-value lies in [0,1] *)
Theorem C13_perm_p_in_unit_interval : forall x1 x2,
  0 <= fst (perm_p x1 x2) <= snd (perm_p x1 x2).
Proof. exact perm_p_in_unit. Qed.
Print Assumptions C13_perm_p_in_unit_interval.

(** KNOWN FINDING C13_moremath_tied_exact_path (dependency go-moremath, outside
    /repo): "p in [0,1], symmetric, equal to the exact permutation p" is refuted
    for the U-test AssumeNothing.Compare calls: {2} vs {1,1,1} reports 3/2,
    swapped 1/2, the exact two-sided permutation p being 1/2. *)
Theorem C13_moremath_tied_exact_path_refuted :
  exists x1 x2,
    utest x1 x2 = UExactP 6 4 /\ utest x2 x1 = UExactP 2 4
    /\ perm_p x1 x2 = (2, 4) /\ perm_p x2 x1 = (2, 4).
Proof. exact moremath_tied_exact_path_refuted. Qed.
Print Assumptions C13_moremath_tied_exact_path_refuted.

(** non-vacuity: concrete instances of the hypotheses above *)
Example C13_example_exact :
  let xs := [fl 3; fl 1; fl 3; fl 2; fl 3; fl 1] in
  Forall nonnan xs /\ Forall ordinary xs
  /\ exists sm, summary_exact (new_sample xs (mkThr f_zero)) = Some sm
                /\ sm_center sm = fl 3 /\ sm_lo sm = fl 1 /\ sm_hi sm = fl 3 /\ sm_warn sm = [WRange].
Proof.
  cbn zeta. split; [|split].
  - repeat constructor; discriminate.
  - repeat constructor; discriminate.
  - eexists. vm_compute. repeat split.
Qed.

Example C13_example_render :
  format_delta (mkCmp (b64_of_bits 0x3F847AE147AE147B) 5 5 (b64_of_bits 0x3FA999999999999A) []) (fl 8) (fl 9)
  = bs "+12.50%"
  /\ format_delta (mkCmp (b64_of_bits 0x3FB999999999999A) 5 5 (b64_of_bits 0x3FA999999999999A) []) (fl 8) (fl 9)
     = bs "~"
  /\ pct_range_string (mkSummary (fl 8) (fl 8) (fl 9) f_zero []) = bs "12%"
  /\ pct_range_string (mkSummary (fl 8) (S754_infinity true) (fl 9) f_zero []) = inf_symbol
  /\ pct_range_string (mkSummary (fl 8) (fl (-1)) (fl 9) f_zero []) = bs "?"
  /\ comparison_string (mkCmp (b64_of_bits 0x3FB0000000000000) 5 6 f_zero []) = bs "p=0.062 n=5+6".
Proof. vm_compute. repeat split. Qed.

Example C13_example_compare :
  let uf := utest_outcome (b64_of_bits 0x3F9D41D41D41D41D) in
  let s1 := new_sample [fl 1; fl 2; fl 3; fl 4] (mkThr (b64_of_bits 0x3FA999999999999A)) in
  let s2 := new_sample [fl 14; fl 13; fl 12; fl 11] (mkThr f_zero) in
  compare uf uf ANothing s1 s2
  = Some (mkCmp (b64_of_bits 0x3F9D41D41D41D41D) 4 4 (b64_of_bits 0x3FA999999999999A) [])
  /\ utest [fl 1; fl 2; fl 3; fl 4] [fl 14; fl 13; fl 12; fl 11] = UExactP 2 70.
Proof. vm_compute. split; reflexivity. Qed.

Example C13_example_median_ci :
  quantile_ci_exact 7 95 100 = Some (1, 7, 100 * 126)      (* (x_(1), x_(7)): coverage 126/128 >= 0.95 *)
  /\ quantile_ci_exact 5 95 100 = Some (0, 5, 100 * 31)   (* 5 values cannot give 95% between sample values: (-inf, x_(5)) *)
  /\ need_samples (95, 100) = Some 6.
Proof. vm_compute. repeat split. Qed.
