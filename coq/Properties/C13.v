(** C13 — Summaries and comparisons honour their statistical contracts.
    Statements only; proofs are in Proofs/BenchMath*.v (BenchMathInterp: the
    median as an interpolation, BenchMathNormal: the mean interval,
    BenchMathUntied: the untied exact path of the U-test, structurally).
    Models: Model/BenchMath.v (benchmath), Model/MoreMathU.v (go-moremath U-test,
    as it is), Model/BenchMathCap.v (AssumeNothing.Compare with the repair
    hooks/fix_c13_cap_p_at_one.diff), specifications: Model/BenchMathSpec.v,
    Model/BenchMathJudge.v (tolerance judges of the evaluator, no theorems). *)
From Coq Require Import Sorting.Permutation.
From Perf Require Import Base.Bytes Base.B64 Base.B64Order Base.FmtPct
     Model.StatsF Model.MoreMathU Model.BenchMath Model.BenchMathSpec
     Proofs.BenchMath Proofs.BenchMathRender Proofs.BenchMathCI Proofs.BenchMathMono
     Proofs.BenchMathPerm Proofs.BenchMathSummary Proofs.BenchMathScale Proofs.B64Flocq
     Proofs.BenchMathInterp Proofs.BenchMathNormal Proofs.BenchMathUntied.
From Perf Require Import Model.BenchMathCap.
From Perf Require Proofs.BenchMathCap.
From Perf Require Base.FmtFixed.
From Perf Require Proofs.UDistUntied Proofs.BenchMathUntiedC11.
From Flocq Require Core BinarySingleNaN.
From Coq Require Reals Lra.
Notation SF2R := Flocq.IEEE754.BinarySingleNaN.SF2R.
Notation radix2 := Flocq.Core.Zaux.radix2.
Notation bpow := Flocq.Core.Raux.bpow.
Local Open Scope Z_scope.

(** For the assumptions that perform a test (nothing, normal), whatever the
    test returns (p-value, error), the comparison carries the threshold the
    FIRST sample was created with, and both sample sizes. *)
Theorem C13_compare_threshold_carried : forall uf wf a s1 s2 c,
  a <> AExact ->
  compare uf wf a s1 s2 = Some c ->
  c_alpha c = compare_alpha (s_thr s1)
  /\ c_n1 c = zlen (s_values s1) /\ c_n2 c = zlen (s_values s2).
Proof. exact compare_threshold_carried. Qed.
Print Assumptions C13_compare_threshold_carried.

(** the exact model does not test: p = 0, no threshold, both sizes *)
Theorem C13_compare_exact : forall uf wf s1 s2,
  compare uf wf AExact s1 s2 =
  Some (mkCmp f_zero (zlen (s_values s1)) (zlen (s_values s2)) f_zero []).
Proof. exact compare_exact_is_exact. Qed.
Print Assumptions C13_compare_exact.

(** "~" is rendered exactly when p exceeds the first sample's threshold
    (Go's [P > Alpha]); otherwise a difference is shown *)
Theorem C13_delta_shown_iff_p_not_above_threshold : forall uf wf a s1 s2 c old new,
  a <> AExact ->
  compare uf wf a s1 s2 = Some c ->
  (format_delta c old new = bs "~" <-> b64_gt (c_p c) (compare_alpha (s_thr s1)) = true).
Proof. exact compare_delta_rule. Qed.
Print Assumptions C13_delta_shown_iff_p_not_above_threshold.

(** for numbers (no NaN) "does not exceed" is [<=] *)
Theorem C13_not_above_is_le : forall p alpha,
  nonnan p -> nonnan alpha -> b64_gt p alpha = negb (b64_le p alpha).
Proof. exact b64_gt_not_le. Qed.
Print Assumptions C13_not_above_is_le.

(** FormatDelta over all float64 inputs: the four renderings and exactly when
    each occurs; the percentage is ((new/old) - 1) * 100 in binary64 printed
    with sign and two decimals *)
Theorem C13_format_delta_cases : forall c old new,
  (format_delta c old new = bs "~" <-> b64_gt (c_p c) (c_alpha c) = true)
  /\ (format_delta c old new = bs "0.00%" <->
      b64_gt (c_p c) (c_alpha c) = false /\ b64_eq old new = true)
  /\ (format_delta c old new = bs "?" <->
      b64_gt (c_p c) (c_alpha c) = false /\ b64_eq old new = false /\ b64_eq old f_zero = true)
  /\ (b64_gt (c_p c) (c_alpha c) = false -> b64_eq old new = false -> b64_eq old f_zero = false ->
      format_delta c old new
      = fmt_fixed true 2 (b64_mul (b64_sub (b64_div new old) b64_one) f_hundred) ++ pct_sign).
Proof. exact format_delta_cases. Qed.
Print Assumptions C13_format_delta_cases.

(** PctRangeString over all float64 inputs, degenerate ones included *)
Theorem C13_pct_range_cases : forall s,
  let c := sm_center s in
  let lo := sm_lo s in
  let hi := sm_hi s in
  (pct_range_string s = inf_symbol <-> b64_is_inf lo || b64_is_inf hi = true)
  /\ (pct_range_string s = bs "?" <->
      b64_is_inf lo || b64_is_inf hi = false
      /\ sign_ne (sign_f c) (sign_f lo) || sign_ne (sign_f c) (sign_f hi) = true)
  /\ (pct_class_of c lo hi = PZero -> pct_range_string s = bs "0%")
  /\ (pct_class_of c lo hi = PPct ->
      pct_range_string s
      = fmt_fixed false 0
          (b64_mul f_hundred (b64_max (b64_sub (b64_div hi c) b64_one) (b64_sub b64_one (b64_div lo c))))
        ++ pct_sign).
Proof. exact pct_range_cases. Qed.
Print Assumptions C13_pct_range_cases.

(** what the classes are: "?" = some value is NaN or the signs (-, 0, +) of the
    ends differ from the centre's; "0%" = centre and both ends are zeros; a
    percentage otherwise: finite non-zero ends of the centre's sign *)
Theorem C13_pct_quest_meaning : forall c lo hi,
  pct_class_of c lo hi = PQuest <->
  b64_is_inf lo = false /\ b64_is_inf hi = false
  /\ (sign_f c = SgnNaN \/ sign_f lo = SgnNaN \/ sign_f hi = SgnNaN
      \/ sign_f c <> sign_f lo \/ sign_f c <> sign_f hi).
Proof. exact pct_class_quest_meaning. Qed.
Print Assumptions C13_pct_quest_meaning.

Theorem C13_pct_zero_meaning : forall c lo hi,
  pct_class_of c lo hi = PZero ->
  b64_is_zero c = true /\ b64_is_zero lo = true /\ b64_is_zero hi = true.
Proof. exact pct_class_zero_all_zero. Qed.
Print Assumptions C13_pct_zero_meaning.

Theorem C13_pct_percent_meaning : forall c lo hi,
  pct_class_of c lo hi = PPct ->
  b64_is_finite lo = true /\ b64_is_finite hi = true
  /\ b64_is_zero c = false /\ b64_is_nan c = false
  /\ b64_signbit lo = b64_signbit c /\ b64_signbit hi = b64_signbit c
  /\ b64_is_zero lo = false /\ b64_is_zero hi = false.
Proof. exact pct_class_pct_same_sign. Qed.
Print Assumptions C13_pct_percent_meaning.

Theorem C13_sign_meaning : forall x,
  sign_f x = match x with
             | S754_nan => SgnNaN
             | S754_zero _ => SgnZero
             | S754_infinity s | S754_finite s _ _ => if s then SgnNeg else SgnPos
             end.
Proof. exact sign_f_spec. Qed.
Print Assumptions C13_sign_meaning.

(** exact model: the centre is a most frequent value of the measurements (in
    any order; equality is Go's [==]) *)
Theorem C13_exact_centre_is_mode : forall xs t sm,
  Forall nonnan xs ->
  summary_exact (new_sample xs t) = Some sm ->
  In (sm_center sm) xs /\ forall w, In w xs -> occurrences w xs <= occurrences (sm_center sm) xs.
Proof. exact exact_centre_is_mode. Qed.
Print Assumptions C13_exact_centre_is_mode.

(** ... with a warning exactly when two measurements differ *)
Theorem C13_exact_warning_iff_values_differ : forall xs t sm,
  Forall nonnan xs ->
  summary_exact (new_sample xs t) = Some sm ->
  (sm_warn sm = [] <-> forall x y, In x xs -> In y xs -> b64_eq x y = true)
  /\ (sm_warn sm <> [] -> sm_warn sm = [WRange]).
Proof. exact exact_warning_iff_values_differ. Qed.
Print Assumptions C13_exact_warning_iff_values_differ.

Theorem C13_exact_summary_total : forall xs t,
  xs <> [] -> exists sm, summary_exact (new_sample xs t) = Some sm.
Proof. exact summary_exact_total. Qed.
Print Assumptions C13_exact_summary_total.

(** NewSample's sort is a canonical form: any reordering of the measurements
    gives the same Sample, hence the same summaries and comparisons, for every
    assumption and whatever the tests compute. Hypothesis [ordinary]: no NaN
    and no negative zero (-0 == +0 but they are different values, and
    sort.Float64s does not fix their relative order). *)
Theorem C13_new_sample_perm_invariant : forall xs xs' t,
  Permutation xs xs' -> Forall ordinary xs -> new_sample xs t = new_sample xs' t.
Proof. exact new_sample_perm. Qed.
Print Assumptions C13_new_sample_perm_invariant.

Theorem C13_compare_perm_invariant : forall uf wf a t1 t2 xs xs' ys ys',
  Permutation xs xs' -> Permutation ys ys' ->
  Forall ordinary xs -> Forall ordinary ys ->
  compare uf wf a (new_sample xs t1) (new_sample ys t2)
  = compare uf wf a (new_sample xs' t1) (new_sample ys' t2).
Proof. exact compare_perm_invariant. Qed.
Print Assumptions C13_compare_perm_invariant.

(** the sorted values are the measurements, in ascending order *)
Theorem C13_new_sample_sorted_perm : forall xs t,
  Forall nonnan xs ->
  Permutation xs (s_values (new_sample xs t))
  /\ Sorted.StronglySorted (fun a b => b64_le a b = true) (s_values (new_sample xs t)).
Proof. intros xs t H. split; [apply sort_f_perm|now apply sort_f_sorted]. Qed.
Print Assumptions C13_new_sample_sorted_perm.

(** the small-sample table of the U-test warning is 2 / C(2n, n), n = 1..9,
    correctly rounded: the least p two maximally separated samples can reach *)
Theorem C13_utest_min_p_table :
  utest_min_p = map (fun n => b64_div (b64_of_Z 2) (b64_of_Z (binom (2 * n) n))) (zrange 1 9).
Proof. exact utest_min_p_is_two_over_binom. Qed.
Print Assumptions C13_utest_min_p_table.

(** bounded check (not the unbounded claim): the group-wise evaluation of the
    exact permutation p-value used by the correspondence run equals plain
    enumeration of all assignments, for all pairs of non-empty non-decreasing
    samples of at most 3 values from {1,2,3} *)
Theorem C13_perm_p_dp_agrees_small_bounded :
  forallb (fun x1 => forallb (fun x2 => rat_eq (perm_p x1 x2) (perm_p_dp x1 x2)
                                        && (snd (perm_p_dp x1 x2) =? snd (perm_p x1 x2)))
                             small_samples) small_samples = true.
Proof. exact perm_p_dp_agrees_small. Qed.
Print Assumptions C13_perm_p_dp_agrees_small_bounded.

(** Median interval of the assume-nothing model for n <= 30, QuantileCI's
    accumulation walk run in exact arithmetic (requested level cnum/cden): the
    band [l, r) of order statistics contains the median position, the
    accumulated level is exactly the binomial coverage
    sum_{k=l}^{r-1} C(n,k) / 2^n, and it is at least the requested level unless
    the band is everything (both ends infinite). The float64 walk of the code
    makes the same decisions while its sums are exact (n <= 20); that link is
    checked per case by the correspondence run, not proved. *)
Theorem C13_median_ci_coverage : forall n cnum cden l r acc,
  0 <= n <= 30 -> 0 < cden ->
  quantile_ci_exact n cnum cden = Some (l, r, acc) ->
  0 <= l /\ l <= n / 2 /\ n / 2 < r /\ r <= n + 1
  /\ acc = cden * fst (coverage n l r)
  /\ (rat_le (cnum, cden) (coverage n l r) = true \/ (l = 0 /\ r = n + 1)).
Proof. exact median_ci_coverage_exact. Qed.
Print Assumptions C13_median_ci_coverage.

(** the U-test sees its samples only through [<], [<=], [==]: any map of the
    pooled values preserving these (a strictly increasing rescaling that keeps
    distinct values distinct, e.g. multiplication by 2^k without overflow)
    leaves the whole outcome unchanged: errors, exact/approximate path, U, ties
    and the exact p *)
Theorem C13_compare_monotone_invariant : forall f x1 x2,
  (forall x y, In x (x1 ++ x2) -> In y (x1 ++ x2) ->
     b64_lt (f x) (f y) = b64_lt x y /\ b64_le (f x) (f y) = b64_le x y /\ b64_eq (f x) (f y) = b64_eq x y) ->
  utest (map f x1) (map f x2) = utest x1 x2.
Proof. exact utest_monotone_invariant. Qed.
Print Assumptions C13_compare_monotone_invariant.

(** the specification's exact permutation p-value lies in [0,1] *)
Theorem C13_perm_p_in_unit_interval : forall x1 x2,
  0 <= fst (perm_p x1 x2) <= snd (perm_p x1 x2).
Proof. exact perm_p_in_unit. Qed.
Print Assumptions C13_perm_p_in_unit_interval.

(** the specification's exact permutation p-value is symmetric in the two
    samples (complement bijection; U(x2,x1) = n1*n2 - U(x1,x2)) *)
Theorem C13_compare_symmetric_spec : forall x1 x2,
  Forall ordinary (x1 ++ x2) -> perm_p x2 x1 = perm_p x1 x2.
Proof. exact perm_p_symmetric. Qed.
Print Assumptions C13_compare_symmetric_spec.

(** ... and, like the U-test, it sees the samples only through comparisons *)
Theorem C13_perm_p_monotone_invariant : forall f x1 x2,
  (forall x y, In x (x1 ++ x2) -> In y (x1 ++ x2) ->
     b64_lt (f x) (f y) = b64_lt x y /\ b64_le (f x) (f y) = b64_le x y /\ b64_eq (f x) (f y) = b64_eq x y) ->
  perm_p (map f x1) (map f x2) = perm_p x1 x2.
Proof. exact perm_p_monotone_invariant. Qed.
Print Assumptions C13_perm_p_monotone_invariant.

(** small untied samples: the U-test's exact path returns exactly the
    permutation p-value. Every pair of untied ascending samples with
    N = n1 + n2 <= 10 values is the image of a split of the ranks 1..N under an
    order-preserving map f; the 2036 rank patterns are evaluated and the two
    invariance theorems carry the result to every such pair. *)
Theorem C13_p_is_exact_permutation_p_small_untied : forall N c r f,
  2 <= N <= 10 -> In (c, r) (rank_patterns N) ->
  (forall x y, In x (c ++ r) -> In y (c ++ r) ->
     b64_lt (f x) (f y) = b64_lt x y /\ b64_le (f x) (f y) = b64_le x y /\ b64_eq (f x) (f y) = b64_eq x y) ->
  utest_is_perm_p (map f c) (map f r) = true.
Proof. exact p_is_exact_permutation_p_small_untied. Qed.
Print Assumptions C13_p_is_exact_permutation_p_small_untied.

(** rescaling both samples by 2^k (c = 2^k) without overflow or underflow
    leaves the U-test outcome unchanged (corollary of monotone invariance; the
    multiplication is exact) *)
Theorem C13_compare_scale_pow2_invariant : forall k c x1 x2,
  valid c = true -> SF2R radix2 c = bpow radix2 k ->
  (forall x, In x (x1 ++ x2) -> scale_ok_sf k x) ->
  utest (map (fun x => b64_mul x c) x1) (map (fun x => b64_mul x c) x2) = utest x1 x2.
Proof. exact utest_scale_pow2. Qed.
Print Assumptions C13_compare_scale_pow2_invariant.

(** assume-nothing summary (the float64 model): each end of the interval is a
    value of the sample or infinite. [approx_band]: the normal-approximation
    branch of QuantileCI (n > 30, an oracle) returns a band around the median
    position; checked on every recorded oracle value by the correspondence run. *)
Theorem C13_median_ci_ends_are_sample_values_or_inf : forall choose_o approx_o,
  (forall n ci, approx_o n = Some ci -> 0 <= q_lo ci <= n / 2 /\ n / 2 + 1 <= q_hi ci <= n + 1) ->
  forall s conf sm,
  s_values s <> [] ->
  summary_nothing choose_o approx_o s conf = Some sm ->
  (sm_lo sm = f_inf true \/ In (sm_lo sm) (s_values s))
  /\ (sm_hi sm = f_inf false \/ In (sm_hi sm) (s_values s)).
Proof. exact summary_nothing_ends. Qed.
Print Assumptions C13_median_ci_ends_are_sample_values_or_inf.

(** a warning exactly when an end is infinite, carrying medianSamples' count *)
Theorem C13_median_ci_warning_iff_infinite : forall choose_o approx_o s conf sm,
  summary_nothing choose_o approx_o s conf = Some sm ->
  (sm_warn sm = [] <-> b64_is_inf (sm_lo sm) || b64_is_inf (sm_hi sm) = false)
  /\ (b64_is_inf (sm_lo sm) || b64_is_inf (sm_hi sm) = true ->
      exists ge m, sm_warn sm = [WNeedCI ge m] /\ median_samples choose_o approx_o conf = Some (ge, m)).
Proof. exact summary_nothing_warning_iff_infinite. Qed.
Print Assumptions C13_median_ci_warning_iff_infinite.

(** the ends bracket the middle of the sample: lo <= x_(ceil(n/2)) and
    x_(floor(n/2)+1) <= hi, for any measurements without NaN (no validity, size
    or overflow hypothesis). The centre itself: C13_median_ci_brackets below. *)
Theorem C13_median_ci_brackets_middle : forall choose_o approx_o,
  (forall n ci, approx_o n = Some ci -> 0 <= q_lo ci <= n / 2 /\ n / 2 + 1 <= q_hi ci <= n + 1) ->
  forall vs t conf sm,
  vs <> [] -> Forall nonnan vs ->
  summary_nothing choose_o approx_o (new_sample vs t) conf = Some sm ->
  let xs := sort_f vs in
  let n := zlen xs in
  b64_le (sm_lo sm) (nth_f xs ((n - 1) / 2)) = true
  /\ b64_le (nth_f xs (n / 2)) (sm_hi sm) = true.
Proof. exact summary_nothing_brackets_middle. Qed.
Print Assumptions C13_median_ci_brackets_middle.

(** C13's printer and the shared FmtFixed print the same scaled integer *)
Theorem C13_fmt_scaled_is_fmtfixed : forall prec m e,
  scaled_abs (Z.of_nat prec) m e = FmtFixed.fx_mag m e prec.
Proof. exact scaled_abs_is_fx_mag. Qed.
Print Assumptions C13_fmt_scaled_is_fmtfixed.

(** KNOWN FINDING C13_normal_compare_overflow_panic (dependency go-moremath):
    "a comparison reports both sizes and a p-value in [0,1]" is refuted for the
    normal model on finite samples whose (variance/n)^2 overflows: the degrees
    of freedom are NaN and the call panics inside betainc *)
Theorem C13_normal_compare_overflow_panic_refuted :
  exists x1 x2 t,
    Forall (fun x => b64_is_finite x = true) (x1 ++ x2)
    /\ b64_is_nan (w_dof (welch_stats x1 x2)) = true
    /\ forall uf p_o, compare uf (welch_outcome p_o) ANormal (new_sample x1 t) (new_sample x2 t) = None.
Proof. exact normal_compare_overflow_panic_refuted. Qed.
Print Assumptions C13_normal_compare_overflow_panic_refuted.

(** outside that domain the normal comparison always returns *)
Theorem C13_compare_normal_total : forall uf p_o s1 s2,
  tcdf_panics (w_dof (welch_stats (s_values s1) (s_values s2)))
              (w_t (welch_stats (s_values s1) (s_values s2))) = false ->
  exists c, compare uf (welch_outcome p_o) ANormal s1 s2 = Some c.
Proof. exact compare_normal_total. Qed.
Print Assumptions C13_compare_normal_total.

(** KNOWN FINDING C13_moremath_tied_exact_path (dependency go-moremath, outside
    /repo): "p in [0,1], symmetric, equal to the exact permutation p" is refuted
    for the U-test AssumeNothing.Compare calls: {2} vs {1,1,1} reports 3/2,
    swapped 1/2, the exact two-sided permutation p being 1/2. *)
Theorem C13_moremath_tied_exact_path_refuted :
  exists x1 x2,
    utest x1 x2 = UExactP 6 4 /\ utest x2 x1 = UExactP 2 4
    /\ perm_p x1 x2 = (2, 4) /\ perm_p x2 x1 = (2, 4).
Proof. exact moremath_tied_exact_path_refuted. Qed.
Print Assumptions C13_moremath_tied_exact_path_refuted.

(** non-vacuity: concrete instances of the hypotheses above *)
Example C13_example_exact :
  let xs := [fl 3; fl 1; fl 3; fl 2; fl 3; fl 1] in
  Forall nonnan xs /\ Forall ordinary xs
  /\ exists sm, summary_exact (new_sample xs (mkThr f_zero)) = Some sm
                /\ sm_center sm = fl 3 /\ sm_lo sm = fl 1 /\ sm_hi sm = fl 3 /\ sm_warn sm = [WRange].
Proof.
  cbn zeta. split; [|split].
  - repeat constructor; discriminate.
  - repeat constructor; discriminate.
  - eexists. vm_compute. repeat split.
Qed.

Example C13_example_render :
  format_delta (mkCmp (b64_of_bits 0x3F847AE147AE147B) 5 5 (b64_of_bits 0x3FA999999999999A) []) (fl 8) (fl 9)
  = bs "+12.50%"
  /\ format_delta (mkCmp (b64_of_bits 0x3FB999999999999A) 5 5 (b64_of_bits 0x3FA999999999999A) []) (fl 8) (fl 9)
     = bs "~"
  /\ pct_range_string (mkSummary (fl 8) (fl 8) (fl 9) f_zero []) = bs "12%"
  /\ pct_range_string (mkSummary (fl 8) (S754_infinity true) (fl 9) f_zero []) = inf_symbol
  /\ pct_range_string (mkSummary (fl 8) (fl (-1)) (fl 9) f_zero []) = bs "?"
  /\ comparison_string (mkCmp (b64_of_bits 0x3FB0000000000000) 5 6 f_zero []) = bs "p=0.062 n=5+6".
Proof. vm_compute. repeat split. Qed.

Example C13_example_compare :
  let uf := utest_outcome (b64_of_bits 0x3F9D41D41D41D41D) in
  let s1 := new_sample [fl 1; fl 2; fl 3; fl 4] (mkThr (b64_of_bits 0x3FA999999999999A)) in
  let s2 := new_sample [fl 14; fl 13; fl 12; fl 11] (mkThr f_zero) in
  compare uf uf ANothing s1 s2
  = Some (mkCmp (b64_of_bits 0x3F9D41D41D41D41D) 4 4 (b64_of_bits 0x3FA999999999999A) [])
  /\ utest [fl 1; fl 2; fl 3; fl 4] [fl 14; fl 13; fl 12; fl 11] = UExactP 2 70.
Proof. vm_compute. split; reflexivity. Qed.

Example C13_example_median_ci :
  quantile_ci_exact 7 95 100 = Some (1, 7, 100 * 126)      (* (x_(1), x_(7)): coverage 126/128 >= 0.95 *)
  /\ quantile_ci_exact 5 95 100 = Some (0, 5, 100 * 31)   (* 5 values cannot give 95% between sample values: (-inf, x_(5)) *)
  /\ need_samples (95, 100) = Some 6.
Proof. vm_compute. repeat split. Qed.

(** the hypotheses of the new theorems are satisfiable *)
Example C13_example_approx_band :
  let approx_o := fun n => if 31 <=? n then Some (mkQci (n / 2 - 3) (n / 2 + 4) f_half) else None in
  forall n ci, approx_o n = Some ci -> 0 <= q_lo ci <= n / 2 /\ n / 2 + 1 <= q_hi ci <= n + 1.
Proof.
  intros approx_o n ci. subst approx_o. cbv beta.
  destruct (Z.leb_spec 31 n) as [H|H]; [|intros E; discriminate E].
  intros [= <-]. cbn [q_lo q_hi]. Z.div_mod_to_equations; lia.
Qed.

Example C13_example_scale :
  valid (b64_of_Z 8) = true /\ SF2R radix2 (b64_of_Z 8) = bpow radix2 3
  /\ scale_ok_sf 3 (fl 5) /\ scale_ok_sf 3 (b64_of_ZE 3 (-1000))
  /\ In ([fl 1; fl 3], [fl 2; fl 4; fl 5]) (rank_patterns 5)
  /\ Forall ordinary ([fl 1; fl 3] ++ [fl 2; fl 4; fl 5]).
Proof.
  split; [reflexivity|]. split.
  - cbn. unfold Flocq.Core.Defs.F2R. cbn. Lra.lra.
  - repeat split; try reflexivity; try (cbn; lia).
    + vm_compute. tauto.
    + repeat constructor; discriminate.
Qed.

(** * The centre lies inside the interval; P lies in [0,1]; the untied exact
    path is the permutation test (block added with Proofs/BenchMathInterp.v,
    BenchMathNormal.v, BenchMathUntied.v, BenchMathUntiedC11.v) *)

(** Sample.Quantile(0.5) on a sorted sample of n < 2^50 valid finite values
    (binary64 R8: position 1/3 + 1/2*(n + 1/3), math.Modf, a + frac*(b - a)) lies
    between the order statistics x_(max(1, n/2)) and x_(n/2 + 1) (1-based), with
    Go's [<=]. The guard [median_no_overflow] is exact: the difference b - a of
    the two order statistics the code interpolates between is finite (nothing
    is required when the position selects a single value). The proof shows
    that the computed integer part of the position is n/2, or (n odd) (n+1)/2
    with fraction exactly 0, and that rounding keeps a + frac*(b-a) in [a, b]
    for frac <= 1 - 2^-52 (Flocq; classical reals). *)
Theorem C13_median_between_middle_order_statistics : forall xs,
  xs <> [] -> Forall fin_valid xs -> Sorted.StronglySorted (fun a b => b64_le a b = true) xs ->
  zlen xs < 2 ^ 50 ->
  median_no_overflow xs = true ->
  let n := zlen xs in
  let m := quantile_f true xs f_half in
  b64_le (nth_f xs (Z.max 0 (n / 2 - 1))) m = true /\ b64_le m (nth_f xs (n / 2)) = true.
Proof. exact median_between. Qed.
Print Assumptions C13_median_between_middle_order_statistics.

(** assume-nothing summary: the interval ends bracket the centre,
    lo <= median <= hi (full statement of DESIGN 7.13 [median_ci_brackets]);
    [approx_band] as above for the n > 30 oracle *)
Theorem C13_median_ci_brackets : forall choose_o approx_o,
  (forall n ci, approx_o n = Some ci -> 0 <= q_lo ci <= n / 2 /\ n / 2 + 1 <= q_hi ci <= n + 1) ->
  forall vs t conf sm,
  vs <> [] -> Forall fin_valid vs -> zlen vs < 2 ^ 50 ->
  median_no_overflow (sort_f vs) = true ->
  summary_nothing choose_o approx_o (new_sample vs t) conf = Some sm ->
  sm_center sm = quantile_f true (sort_f vs) f_half
  /\ b64_le (sm_lo sm) (sm_center sm) = true /\ b64_le (sm_center sm) (sm_hi sm) = true.
Proof. exact summary_nothing_brackets. Qed.
Print Assumptions C13_median_ci_brackets.

(** a simple sufficient condition for the guard: max - min does not overflow *)
Theorem C13_median_no_overflow_of_range : forall xs,
  xs <> [] -> Forall fin_valid xs -> Sorted.StronglySorted (fun a b => b64_le a b = true) xs ->
  b64_is_finite (b64_sub (nth_f xs (zlen xs - 1)) (nth_f xs 0)) = true ->
  median_no_overflow xs = true.
Proof. exact median_no_overflow_of_range. Qed.
Print Assumptions C13_median_no_overflow_of_range.

(** the guard cannot be dropped: for {-2^1023, 2^1023} the difference
    overflows and the reported median is +Inf, above the largest value *)
Example C13_median_overflow_witness :
  let xs := [b64_of_ZE (-1) 1023; b64_of_ZE 1 1023] in
  Forall fin_valid xs /\ median_no_overflow xs = false
  /\ quantile_f true xs f_half = S754_infinity false
  /\ b64_le (quantile_f true xs f_half) (nth_f xs 1) = false.
Proof. cbn zeta. split; [repeat constructor|]. vm_compute. repeat split. Qed.

(** normal model: the centre is the incremental binary64 mean (StatsF.mean_f),
    the level is the requested one, no warning, and the ends are mean -/+ w for
    the half-width w of stats.MeanCI *)
Theorem C13_normal_summary_centre_is_mean : forall tinv_o s conf sm,
  summary_normal tinv_o s conf = Some sm ->
  sm_center sm = mean_f (s_values s) /\ sm_conf sm = conf /\ sm_warn sm = []
  /\ exists w, normal_halfwidth tinv_o (s_values s) conf = Some w
               /\ sm_lo sm = b64_sub (mean_f (s_values s)) w /\ sm_hi sm = b64_add (mean_f (s_values s)) w.
Proof. exact normal_summary_centre_is_mean. Qed.
Print Assumptions C13_normal_summary_centre_is_mean.

(** ... and lo <= mean <= hi. Oracle hypothesis: the t quantile at
    alpha = (1 - conf)/2 is a valid binary64 <= 0 (the multiplier -tq is >= 0).
    Guard [normal_no_overflow], exactly: no difference formed by the
    incremental mean overflows, and the half-width (-tq) * sd / sqrt(n) is not
    NaN (it may be +Inf: the interval is then the whole line). *)
Theorem C13_normal_interval_contains_mean : forall tinv_o,
  (forall a tq, tinv_o a = Some tq -> valid tq = true /\ b64_le tq f_zero = true) ->
  forall vs t conf sm,
  vs <> [] -> Forall fin_valid vs -> zlen vs < 2 ^ 53 ->
  normal_no_overflow tinv_o (sort_f vs) conf = true ->
  summary_normal tinv_o (new_sample vs t) conf = Some sm ->
  sm_center sm = mean_f (sort_f vs)
  /\ b64_is_finite (sm_center sm) = true
  /\ b64_le (sm_lo sm) (sm_center sm) = true /\ b64_le (sm_center sm) (sm_hi sm) = true.
Proof. exact normal_interval_contains_mean. Qed.
Print Assumptions C13_normal_interval_contains_mean.

(** A comparison reports a p-value in [0,1] for EVERY input outside the two
    known-finding domains, which are boolean predicates on the inputs:
      [tied_exact_domain x1 x2]  = the U-test sees ties and both sizes are <= 25
                                   (C13_moremath_tied_exact_path),
      [welch_panic_domain x1 x2] = Welch's test passes its error checks and
                                   TDist.CDF is reached with NaN V/(V+t^2)
                                   (C13_normal_compare_overflow_panic).
    Outside them the model's comparison exists (no panic), every exact-path
    result num/den of the U-test is a rational in [0,1] (untied branch:
    2*CDF(min(U1,U2)) <= 1 by the symmetry of the Mann-Whitney counts, whatever
    U is), and the float P is 0 (exact model), 1 (test error) or the oracle
    value, hence in [0,1] under the oracle range hypothesis [in01]. *)
Theorem C13_p_in_unit_interval_model : forall a s1 s2 p_u p_w,
  tied_exact_domain (s_values s1) (s_values s2) = false ->
  welch_panic_domain (s_values s1) (s_values s2) = false ->
  exists c, compare (utest_outcome p_u) (welch_outcome p_w) a s1 s2 = Some c
    /\ (a = ANothing -> forall num den,
          utest (s_values s1) (s_values s2) = UExactP num den -> 0 <= num <= den /\ 0 < den)
    /\ (in01 p_u -> in01 p_w -> in01 (c_p c)).
Proof. exact p_in_unit_interval_model. Qed.
Print Assumptions C13_p_in_unit_interval_model.

(** the U-test alone, outside the tied exact path: no panic, exact results in [0,1] *)
Theorem C13_utest_outside_tied_domain : forall x1 x2,
  tied_exact_domain x1 x2 = false ->
  match utest x1 x2 with
  | UPanic => False
  | UExactP num den => 0 <= num <= den /\ 0 < den
  | _ => True
  end.
Proof. exact utest_outside_tied. Qed.
Print Assumptions C13_utest_outside_tied_domain.

(** ALL untied samples within the exact limit (n1, n2 <= 50, any N = n1 + n2
    <= 100; no enumeration): the U-test's exact path returns exactly the exact
    permutation p-value of the specification. Structural proof: the rank-sum U
    of the model is the pair count; the model's table is the Mann-Whitney count
    [ecount]; the number of splits of N distinct values with a given U is
    [ecount] too (dual recurrence on the sorted pool); the two-sided rule
    2*CDF(min(U1,U2)) agrees with min(1, 2*min(P(U<=u), P(U>=u))) by the
    reflection symmetry of the counts. *)
Theorem C13_p_is_exact_permutation_p_untied : forall x1 x2,
  x1 <> [] -> x2 <> [] -> zlen x1 <= 50 -> zlen x2 <= 50 ->
  Forall nonnan (x1 ++ x2) -> untied (x1 ++ x2) ->
  utest_is_perm_p x1 x2 = true.
Proof. exact utest_untied_is_perm_p. Qed.
Print Assumptions C13_p_is_exact_permutation_p_untied.

(** the pieces: U1, tie vector and tie flag of untied samples *)
Theorem C13_u_statistic_untied : forall x1 x2,
  Forall nonnan (x1 ++ x2) -> untied (x1 ++ x2) ->
  u_statistic x1 x2
  = mkUstat (zlen x1) (zlen x2) (two_u x1 x2) (repeat 1 (length x1 + length x2)) false.
Proof. exact u_statistic_untied. Qed.
Print Assumptions C13_u_statistic_untied.

(** the model's untied table (the recurrence go-moremath runs on probabilities),
    cut at [lim] entries, holds the Mann-Whitney counts, for all n, m, lim *)
Theorem C13_untied_table_is_mann_whitney_count : forall lim n m,
  (1 <= lim)%nat -> 0 <= n -> 0 <= m ->
  (length (mw_counts lim n m) <= lim)%nat
  /\ forall u, (u < lim)%nat -> nth u (mw_counts lim n m) 0 = ecount (Z.to_nat n) (Z.to_nat m) (Z.of_nat u).
Proof. exact mw_counts_are_ecount. Qed.
Print Assumptions C13_untied_table_is_mann_whitney_count.

(** the counts: both recurrences, both symmetries, support and total *)
Theorem C13_mann_whitney_count_laws : forall n m u,
  ecount (S n) (S m) u = ecount n (S m) (u - Z.of_nat (S m)) + ecount (S n) m u
  /\ ecount (S n) (S m) u = ecount n (S m) u + ecount (S n) m (u - Z.of_nat (S n))
  /\ ecount n m u = ecount m n u
  /\ ecount n m (Z.of_nat n * Z.of_nat m - u) = ecount n m u
  /\ 0 <= ecount n m u
  /\ (u < 0 \/ Z.of_nat n * Z.of_nat m < u -> ecount n m u = 0)
  /\ fsum (ecount n m) (S (n * m)) = Perf.Model.UDistSpec.binom (n + m) n.
Proof. exact ecount_laws. Qed.
Print Assumptions C13_mann_whitney_count_laws.

(** splitting distinct pooled values: the number of ways to form the first
    sample with a given 2U, weighted by any predicate, is the weighted count *)
Theorem C13_splits_count : forall l,
  Sorted.StronglySorted (fun a b => b64_lt a b = true) l ->
  forall n P K, (n <= length l)%nat -> (n * (length l - n) < K)%nat ->
  count_if P (split_us n l) = wsum P n (length l - n) K.
Proof. exact splits_count. Qed.
Print Assumptions C13_splits_count.

(** the same counts as the C11 specification (choices of n out of n+m untied
    pooled values with U = u over count vectors; C11_mann_whitney_recurrence) *)
Theorem C13_untied_count_is_c11_count : forall n m u,
  ecount n m u = Perf.Proofs.UDistUntied.cuntied (Z.of_nat n) (Z.of_nat m) u.
Proof. exact Perf.Proofs.BenchMathUntiedC11.ecount_is_cuntied. Qed.
Print Assumptions C13_untied_count_is_c11_count.

(** non-vacuity of the new hypotheses *)
Example C13_example_median_guard :
  let vs := [fl 3; fl 1; fl 2; fl 10] in
  vs <> [] /\ Forall fin_valid vs /\ zlen vs < 2 ^ 50 /\ median_no_overflow (sort_f vs) = true
  /\ quantile_f true (sort_f vs) f_half = b64_of_ZE 5 (-1).
Proof.
  cbn zeta. split; [discriminate|]. split; [repeat constructor|]. split; [reflexivity|].
  vm_compute. split; reflexivity.
Qed.

Example C13_example_normal_guard :
  let tinv_o := fun _ : b64 => Some (fl (-2)) in
  let vs := [fl 4; fl 1; fl 2] in
  (forall a tq, tinv_o a = Some tq -> valid tq = true /\ b64_le tq f_zero = true)
  /\ Forall fin_valid vs
  /\ normal_no_overflow tinv_o (sort_f vs) (b64_of_bits 0x3FEE666666666666) = true
  /\ exists sm, summary_normal tinv_o (new_sample vs (mkThr f_zero)) (b64_of_bits 0x3FEE666666666666) = Some sm
                /\ b64_lt (sm_lo sm) (sm_center sm) = true /\ b64_lt (sm_center sm) (sm_hi sm) = true.
Proof.
  cbn zeta. split; [intros a tq [= <-]; split; reflexivity|]. split; [repeat constructor|].
  split; [vm_compute; reflexivity|]. eexists. split; [reflexivity|]. vm_compute. split; reflexivity.
Qed.

Example C13_example_domains :
  tied_exact_domain [fl 1; fl 2] [fl 3; fl 4] = false
  /\ welch_panic_domain [fl 1; fl 2] [fl 3; fl 4] = false
  /\ tied_exact_domain [fl 2] [fl 1; fl 1; fl 1] = true
  /\ welch_panic_domain overflow_x1 overflow_x2 = true
  /\ in01 (b64_of_bits 0x3FB999999999999A).
Proof. vm_compute. repeat split. Qed.

(** 13 untied values (beyond the enumerated N <= 10) *)
Example C13_example_untied :
  let x1 := map fl [1; 3; 5; 7; 9; 11] in
  let x2 := map fl [2; 4; 6; 8; 10; 12; 14] in
  Forall nonnan (x1 ++ x2) /\ untied (x1 ++ x2) /\ zlen x1 <= 50 /\ zlen x2 <= 50
  /\ utest x1 x2 = UExactP 764 1716 /\ perm_p x1 x2 = (764, 1716).
Proof.
  cbn zeta. cbn [map app]. split; [repeat constructor; discriminate|]. split; [repeat constructor|].
  vm_compute. repeat split; try reflexivity; discriminate.
Qed.

(** REPAIR hooks/fix_c13_cap_p_at_one.diff (P = math.Min(res.P, 1) in
    AssumeNothing.Compare).  go-moremath's untied exact path returns 1 + 2^-52 for
    an exact p of 1 ({2,3,5} vs {1,4,6}), so unrepaired benchmath reports a p-value
    outside [0,1].  With the repair the reported p is in [0,1] for EVERY float >= 0
    the U-test returns, on every path: the upper-end oracle hypothesis of
    C13_p_in_unit_interval_model is no longer needed for this assumption.  (The
    theorems above that quantify over the test functions [uf], [wf] - threshold and
    sizes carried, '~' iff P > Alpha, reordering invariance - hold for the repaired
    function as instances: it is [compare] over the capped U-test.) *)
Theorem C13_repaired_compare_p_in_unit : forall uf wf s1 s2 c,
  compare_capped uf wf ANothing s1 s2 = Some c ->
  (forall p, uf (s_values s1) (s_values s2) = TOk p -> b64_le f_zero p = true) ->
  in01 (c_p c).
Proof. exact Proofs.BenchMathCap.compare_capped_nothing_in01. Qed.
Print Assumptions C13_repaired_compare_p_in_unit.

(** the repair touches the assume-nothing comparison only *)
Theorem C13_repaired_compare_other_unchanged : forall uf wf a s1 s2,
  a <> ANothing -> compare_capped uf wf a s1 s2 = compare uf wf a s1 s2.
Proof. exact Proofs.BenchMathCap.compare_capped_other. Qed.
Print Assumptions C13_repaired_compare_other_unchanged.

(** the audit's witness: the float go-moremath returns is above 1, the repaired
    comparison reports exactly 1 *)
Example C13_example_cap_witness :
  min_one (b64_of_bits 0x3FF0000000000001) = b64_one
  /\ b64_le (b64_of_bits 0x3FF0000000000001) b64_one = false.
Proof. exact Proofs.BenchMathCap.min_one_witness. Qed.

(** non-vacuity of C13_repaired_compare_p_in_unit: a U-test result above 1 *)
Example C13_example_repaired_compare :
  let uf := fun _ _ : list b64 => TOk (b64_of_bits 0x3FF8000000000000) in     (* 1.5 *)
  let t := mkThr (b64_of_bits 0x3FA999999999999A) in
  exists c, compare_capped uf uf ANothing (new_sample [fl 2] t) (new_sample [fl 1; fl 1; fl 1] t) = Some c
            /\ c_p c = b64_one.
Proof. eexists. split; vm_compute; reflexivity. Qed.
