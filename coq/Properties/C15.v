(** C15 — benchstat output depends only on its inputs, under every schedule
    (the part that is logic; data-race freedom and real interleavings are runtime).
    Statements only; proofs are in Proofs/BenchTab.v. *)
From Perf Require Import Base.Bytes Base.B64 Model.BenchTab Proofs.BenchTab Model.Sched Proofs.Sched.
From Coq Require Import Sorting.Permutation.

(** every state Builder.Add can reach has distinct table keys and, per table,
    distinct (row, col) cell keys: the hypotheses below are met by construction *)
Theorem C15_build_wf : forall ms, tabs_wf (build ms).
Proof. exact build_wf. Qed.
Print Assumptions C15_build_wf.

(** whatever order the Go runtime enumerates the map of tables and the maps of
    cells in, ToTables produces the same tables, rows, columns, cells, baselines
    and summaries (sort orders being injective on keys - C09) *)
Theorem C15_tables_indep_of_map_order :
  forall rank_t rank_r rank_c centre geomean,
  (forall a b, rank_r a = rank_r b -> a = b) ->
  (forall a b, rank_c a = rank_c b -> a = b) ->
  (forall a b, rank_t a = rank_t b -> a = b) ->
  forall ts mid ts',
  tabs_wf ts -> Permutation ts mid -> Forall2 tab_equiv mid ts' ->
  to_tables rank_t rank_r rank_c centre geomean ts = to_tables rank_t rank_r rank_c centre geomean ts'.
Proof. exact tables_indep_of_map_order. Qed.
Print Assumptions C15_tables_indep_of_map_order.

(** sorting any arrangement of the same distinct keys gives the same sequence *)
Theorem C15_sort_arrangement_independent : forall rank l l',
  (forall a b, In a l -> In b l -> rank a = rank b -> a = b) ->
  NoDup l -> Permutation l l' -> sort_by rank l = sort_by rank l'.
Proof. exact sort_by_perm_invariant. Qed.
Print Assumptions C15_sort_arrangement_independent.

(** permuting benchmark lines within the input can change the order of rows
    (first observation) but never the content of any cell *)
Theorem C15_line_perm_cell_invariant : forall ms ms' t r c,
  Permutation ms ms' ->
  Permutation (lookup_vals (build ms) t r c) (lookup_vals (build ms') t r c).
Proof. exact line_perm_cell_invariant. Qed.
Print Assumptions C15_line_perm_cell_invariant.

(** the parallel phase: tasks that read frozen data and write only their own
    slot leave the same slots behind under every schedule *)
Theorem C15_tasks_commute : forall (A frozen : Type) (task : frozen -> nat -> A) fz order order',
  Permutation order order' -> forall j, run A frozen task fz order j = run A frozen task fz order' j.
Proof. exact tasks_commute. Qed.
Print Assumptions C15_tasks_commute.
