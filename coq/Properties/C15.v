(** C15 — benchstat output depends only on its inputs, under every schedule
    (the part that is logic; data-race freedom and real interleavings are runtime).
    Statements only; proofs are in Proofs/BenchTab.v. *)
From Perf Require Import Base.Bytes Base.B64 Model.BenchTab Proofs.BenchTab Proofs.BenchTabWarn Model.Sched Proofs.Sched.
From Perf Require Import Base.B64Order Model.StatsF Model.SampleSort Proofs.BenchMath Proofs.SampleSort.
From Perf Require Import Model.ArrangeSpec Proofs.ArrangeSpec.
From Coq Require Import Sorting.Permutation Sorting.Sorted.

(** every state Builder.Add can reach has distinct table keys and, per table,
    distinct (row, col) cell keys: the hypotheses below are met by construction *)
Theorem C15_build_wf : forall ms, tabs_wf (build ms).
Proof. exact build_wf. Qed.
Print Assumptions C15_build_wf.

(** whatever order the Go runtime enumerates the map of tables and the maps of
    cells in, ToTables produces the same tables, rows, columns, cells, baselines
    and summaries (sort orders being injective on keys - C09) *)
Theorem C15_tables_indep_of_map_order :
  forall rank_t rank_r rank_c centre geomean,
  (forall a b, rank_r a = rank_r b -> a = b) ->
  (forall a b, rank_c a = rank_c b -> a = b) ->
  (forall a b, rank_t a = rank_t b -> a = b) ->
  forall ts mid ts',
  tabs_wf ts -> Permutation ts mid -> Forall2 tab_equiv mid ts' ->
  to_tables rank_t rank_r rank_c centre geomean ts = to_tables rank_t rank_r rank_c centre geomean ts'.
Proof. exact tables_indep_of_map_order. Qed.
Print Assumptions C15_tables_indep_of_map_order.

(** sorting any arrangement of the same distinct keys gives the same sequence *)
Theorem C15_sort_arrangement_independent : forall rank l l',
  (forall a b, In a l -> In b l -> rank a = rank b -> a = b) ->
  NoDup l -> Permutation l l' -> sort_by rank l = sort_by rank l'.
Proof. exact sort_by_perm_invariant. Qed.
Print Assumptions C15_sort_arrangement_independent.

(** permuting benchmark lines within the input can change the order of rows
    (first observation) but never the content of any cell *)
Theorem C15_line_perm_cell_invariant : forall ms ms' t r c,
  Permutation ms ms' ->
  Permutation (lookup_vals (build ms) t r c) (lookup_vals (build ms') t r c).
Proof. exact line_perm_cell_invariant. Qed.
Print Assumptions C15_line_perm_cell_invariant.

(** the parallel phase: tasks that read frozen data and write only their own
    slot leave the same slots behind under every schedule *)
Theorem C15_tasks_commute : forall (A frozen : Type) (task : frozen -> nat -> A) fz order order',
  Permutation order order' -> forall j, run A frozen task fz order j = run A frozen task fz order' j.
Proof. exact tasks_commute. Qed.
Print Assumptions C15_tasks_commute.

(** every cell carries its OWN over-aggregation warning: field i is named in
    the warning of cell (t, r, c) iff two measurements falling into that very
    cell differ in residue field i - no other cell (in particular not the
    baseline cell of the row) and no order of summarising cells enters *)
Theorem C15_cell_warning_own_measurements : forall (vals : N -> list bytes) nf ms t r c i,
  In i (nonsingular vals nf (lookup_res (build ms) t r c)) <->
  (i < nf)%nat /\
  exists m1 m2, In m1 ms /\ In m2 ms /\ m_is t r c m1 = true /\ m_is t r c m2 = true /\
                fval vals (m_res m1) i <> fval vals (m_res m2) i.
Proof. exact cell_vary_own. Qed.
Print Assumptions C15_cell_warning_own_measurements.

(** the residue set of a cell is that of its own measurements in first-seen
    order (what Corr/RunC15.v evaluates as the specification) *)
Theorem C15_cell_residues_are_own : forall ms t r c,
  lookup_res (build ms) t r c = dedup_first (map m_res (filter (m_is t r c) ms)).
Proof. exact lookup_res_spec. Qed.
Print Assumptions C15_cell_residues_are_own.

(** runs that agree on the measurements of one cell agree on its warning *)
Theorem C15_cell_warning_local : forall (vals : N -> list bytes) nf ms ms' t r c,
  filter (m_is t r c) ms = filter (m_is t r c) ms' ->
  nonsingular vals nf (lookup_res (build ms) t r c) = nonsingular vals nf (lookup_res (build ms') t r c).
Proof. exact cell_vary_local. Qed.
Print Assumptions C15_cell_warning_local.

(** ** samples with NaN, +Inf, -Inf (benchmath.NewSample = sort.Float64s; Model/SampleSort.v) *)

(** NaN sorts first: the sample is the NaNs of the cell followed by its numbers
    (-Inf and +Inf included) in ascending order *)
Theorem C15_sample_nan_first : forall vals,
  sort_go vals = repeat S754_nan (length (filter nanb vals)) ++ sort_f (filter numb vals)
  /\ StronglySorted leP (sort_f (filter numb vals))
  /\ Permutation vals (sort_go vals).
Proof. intros vals. split; [apply sort_go_nan_first|split; [apply sort_go_sorted|apply sort_go_perm]]. Qed.
Print Assumptions C15_sample_nan_first.

(** the sample of a cell does not depend on the order in which its measurements
    arrive - NaN first, in the middle or last (no -0 among them: -0 == +0 under <) *)
Theorem C15_sample_perm_invariant : forall vals vals',
  Permutation vals vals' -> Forall (fun x => x <> S754_zero true) vals -> sort_go vals = sort_go vals'.
Proof. exact sort_go_canonical. Qed.
Print Assumptions C15_sample_perm_invariant.

(** with line_perm_cell_invariant: permuting the lines of the input leaves the sorted
    sample of every cell unchanged, NaN and Inf measurements included *)
Theorem C15_line_perm_sample_invariant : forall ms ms' t r c,
  Permutation ms ms' ->
  Forall (fun x => x <> S754_zero true) (lookup_vals (build ms) t r c) ->
  sort_go (lookup_vals (build ms) t r c) = sort_go (lookup_vals (build ms') t r c).
Proof.
  intros ms ms' t r c Hp Hz. apply sort_go_canonical; [|exact Hz]. now apply line_perm_cell_invariant.
Qed.
Print Assumptions C15_line_perm_sample_invariant.

(** on NaN-free measurements this is the sort of Model/StatsF.v (C13's NewSample) *)
Theorem C15_sample_sort_extends_sort_f : forall vals, Forall nonnan vals -> sort_go vals = sort_f vals.
Proof. exact sort_go_nonnan. Qed.
Print Assumptions C15_sample_sort_extends_sort_f.

(** the predicate Corr/RunC15.v judges a cell with (NaN run, then ascending NaN-free
    values; same multiset as the measurements) holds of the model and determines the sample *)
Theorem C15_judged_sample_is_sort : forall vals s,
  Forall (fun x => x <> S754_zero true) vals ->
  (is_sample_of vals s = true <-> s = sort_go vals).
Proof.
  intros vals s Hz. split; [now apply is_sample_unique|intros ->; apply sort_go_is_sample].
Qed.
Print Assumptions C15_judged_sample_is_sort.

Example C15_nan_first_example :
  let nan := S754_nan in let pinf := S754_infinity false in let ninf := S754_infinity true in
  let one := b64_one in let two := b64_of_Z 2 in
  sort_go [two; nan; pinf; one; ninf; nan] = [nan; nan; ninf; one; two; pinf] /\
  sort_go [nan; nan; ninf; pinf; two; one] = [nan; nan; ninf; one; two; pinf] /\
  is_sample_of [two; nan; pinf; one; ninf; nan] [nan; nan; ninf; one; two; pinf] = true /\
  is_sample_of [two; nan; one] [one; nan; two] = false /\
  Forall (fun x => x <> S754_zero true) [two; nan; pinf; one; ninf; nan].
Proof.
  vm_compute. repeat split; try reflexivity.
  repeat constructor; discriminate.
Qed.

(** a row whose baseline cell AND another cell merge sub-benchmarks: both carry the warning *)
Example C15_both_cells_warn :
  let vals := fun k : N => match k with 0%N => [bs "json"] | 1%N => [bs "gob"] | 2%N => [bs "json"] | _ => [bs "xml"] end in
  let ms := [mkMeas 0 0 0 0 b64_one; mkMeas 0 0 0 1 b64_one; mkMeas 0 0 1 2 b64_one; mkMeas 0 0 1 3 b64_one] in
  nonsingular vals 1 (lookup_res (build ms) 0 0 0) = [0%nat] /\
  nonsingular vals 1 (lookup_res (build ms) 0 0 1) = [0%nat].
Proof. vm_compute. split; reflexivity. Qed.

(** * arrangement, and which cell a cell is compared with (Model/ArrangeSpec.v) *)
(** the sequence of inputs and the requested orders DETERMINE the arrangement:
    the judge's predicate [arranged] (exactly these keys; of any two the earlier
    one precedes the later one by first observation in the stream / alpha / the
    fixed list) accepts at most one output sequence *)
Theorem C15_arrangement_determined : forall fs ks members o1 o2,
  num_free fs ->
  arranged fs ks members o1 = true -> arranged fs ks members o2 = true -> o1 = o2.
Proof. exact arranged_unique. Qed.
Print Assumptions C15_arrangement_determined.

(** with an explicit order on every field of the column key (-col /v@alpha,
    /v@(a b)) the first column of every table is the same for every
    permutation of the measurements ... *)
Theorem C15_explicit_col_order_first_col_perm_invariant : forall fc s s' t,
  num_free fc -> forallb is_explicit fc = true -> Permutation s s' ->
  first_col fc s t = first_col fc s' t.
Proof. exact first_col_perm. Qed.
Print Assumptions C15_explicit_col_order_first_col_perm_invariant.

(** ... and so is the cell every cell is compared with *)
Theorem C15_explicit_col_order_baseline_perm_invariant : forall fc s s' t r c,
  num_free fc -> forallb is_explicit fc = true -> Permutation s s' ->
  base_col fc s t r c = base_col fc s' t r c.
Proof. exact base_col_perm. Qed.
Print Assumptions C15_explicit_col_order_baseline_perm_invariant.

(** REFUTED for the default (first-observation) order of the column key: a
    permutation of the lines changes the cell a cell is compared with, hence
    the content (delta, p-value, presence of a comparison) of cells.  Known
    finding C15_perm_changes_baseline; witness = the auditor's in1.txt/in2.txt
    (benchstat -col /v), columns a|b against b|a *)
Theorem C15_line_perm_cell_content_refuted :
  exists s s' t r c, Permutation s s' /\ base_col [FFirst] s t r c <> base_col [FFirst] s' t r c.
Proof. exact line_perm_baseline_refuted. Qed.
Print Assumptions C15_line_perm_cell_content_refuted.

(** the hypotheses are satisfiable: the witness streams under -col /v@alpha *)
Example C15_explicit_order_example :
  num_free [FAlpha] /\ forallb is_explicit [FAlpha] = true /\ Permutation w_in1 w_in2 /\
  base_col [FAlpha] w_in1 (wk "ns/op") (wk "X") (wk "b") = Some (wk "a") /\
  base_col [FAlpha] w_in2 (wk "ns/op") (wk "X") (wk "b") = Some (wk "a") /\
  base_col [FFirst] w_in1 (wk "ns/op") (wk "X") (wk "b") = Some (wk "a") /\
  base_col [FFirst] w_in2 (wk "ns/op") (wk "X") (wk "b") = None /\
  arranged [FFirst] (map e_c w_in2) (map e_c w_in2) [wk "b"; wk "a"] = true /\
  arranged [FFirst] (map e_c w_in2) (map e_c w_in2) [wk "a"; wk "b"] = false /\
  model_arrange [FFirst] (map e_c w_in2) (map e_c w_in2) = [wk "b"; wk "a"].
Proof.
  split; [intros tbl [H|[]]; discriminate|]. split; [reflexivity|]. split; [exact w_perm|].
  vm_compute. repeat split; reflexivity.
Qed.
