(** C20 — Uploads are all-or-nothing under faults and upload IDs are never
    reused. Statements only; proofs are in Proofs/Upload.v and Proofs/Ids.v.

    The theorems quantify over EVERY fault oracle (which of NewUpload, the n-th
    file-store operation, a mid-upload flush at the 990-argument boundary while
    part i is read, the flush at Commit, commit fails) and every request (any sequence
    of file / commit / other parts, a file cut anywhere, any way the part
    sequence ends), for any reader [parse_file], coalescing [coalesce], row
    rejection [rejects] and ID allocator [alloc] that only returns IDs not yet
    in the table (proved of the allocator of Model/Ids.v below).
    Runtime, not modelled (checked by fault enumeration on the implementation):
    that database/sql transactions give the atomicity the model assumes
    (rollback discards, commit publishes), HTTP / multipart framing, real
    thread interleavings. A failing Close of a file-store writer: the model
    follows the REPAIRED server (hooks/fix_c20_close_error_leaves_file.diff: on a
    Close error indexFile calls CloseWithError, as on every other error path);
    nothing is assumed of fs.Writer beyond its documented CloseWithError
    ("cancels the writing of the file, removing any partially written data").
    The server as it is leaves the file in the store (storage/fs/local: Close is
    os.File.Close) - the fault enumeration reports that as a violation. *)
From Perf Require Import Base.Bytes Model.Words Model.Query Model.StoreFmt Model.Upload Model.UploadSpec Model.Ids
     Model.IdsHist Proofs.Upload Proofs.UploadSpec Proofs.UploadOps Proofs.Ids Proofs.IdsHist.

Section C20.
Variables result rec : Type.
Variable parse_file : labels -> bytes -> list result.
Variable coalesce : list result -> list rec.
Variable rejects : list rec -> bool.
Variable alloc : list bytes -> option bytes.
Hypothesis alloc_fresh : forall t i, alloc t = Some i -> ~ In i t.

Notation run := (run_upload result rec parse_file coalesce rejects alloc).

(** for every fault oracle: an error leaves the queryable records as they
    were; a success adds exactly the records of all files of the request *)
Theorem C20_upload_all_or_nothing : forall o st rq,
  let '(st', out) := run o st rq in
  match out with
  | UErr => us_recs st' = us_recs st
  | UOk id _ =>
      us_recs st' = us_recs st
        ++ [(id, coalesce (exp_results result parse_file id (rq_user rq) (rq_time rq) (rq_items rq) 0))]
  end.
Proof. exact (upload_all_or_nothing result rec parse_file coalesce rejects alloc alloc_fresh). Qed.

(** success in full: new ID, all parts complete and non-empty, records of every
    file, every file stored once with the server's header *)
Theorem C20_upload_success_stores_everything : forall o st rq st' id fids,
  run o st rq = (st', UOk id fids) ->
  ~ In id (us_ids st)
  /\ us_ids st' = us_ids st ++ [id]
  /\ files_sound result parse_file id (rq_user rq) (rq_time rq) (rq_items rq) 0
  /\ us_recs st' = us_recs st
       ++ [(id, coalesce (exp_results result parse_file id (rq_user rq) (rq_time rq) (rq_items rq) 0))]
  /\ us_fs st' = us_fs st ++ exp_files id (rq_user rq) (rq_time rq) (rq_items rq) 0.
Proof. exact (upload_success_stores_everything result rec parse_file coalesce rejects alloc alloc_fresh). Qed.

(** every single fault makes the upload fail (contrapositive form): a success
    met no failing NewUpload / flush / commit / refused row / file-store
    operation, no refused mid-upload flush at the 990-argument boundary while
    any of its file parts was read ([o_midflush], asked once per file part
    index), no cut, empty or unexpected part, and no broken part sequence.
    Every component of the fault oracle occurs in the conclusion. *)
Theorem C20_upload_success_means_no_fault : forall o st rq st' id fids,
  run o st rq = (st', UOk id fids) ->
  rq_end rq <> EndBroken
  /\ files_sound result parse_file id (rq_user rq) (rq_time rq) (rq_items rq) 0
  /\ o_new_upload o = false /\ o_flush o = false /\ o_commit o = false
  /\ rejects (coalesce (exp_results result parse_file id (rq_user rq) (rq_time rq) (rq_items rq) 0)) = false
  /\ (forall n, n < ops_used result rec parse_file alloc o st rq -> o_fs o n = false)
  /\ (forall i, In i (file_indices (rq_items rq) 0) -> o_midflush o i = false).
Proof. exact (upload_success_means_no_fault result rec parse_file coalesce rejects alloc alloc_fresh). Qed.

(** the direct form for the mid-upload flush: if the flush forced by the
    990-argument limit is refused while file part [i] is read, the upload fails
    (and by C20_upload_all_or_nothing no record of it becomes queryable) *)
Theorem C20_midflush_fault_fails_upload : forall o st rq i,
  In i (file_indices (rq_items rq) 0) -> o_midflush o i = true ->
  snd (run o st rq) = UErr.
Proof. exact (midflush_fault_fails_upload result rec parse_file coalesce rejects alloc alloc_fresh). Qed.

(** a part sequence that breaks off with an error is always refused *)
Theorem C20_broken_request_rejected : forall o st rq,
  rq_end rq = EndBroken -> snd (run o st rq) = UErr.
Proof. exact (broken_request_rejected result rec parse_file coalesce rejects alloc). Qed.

(** "the file being written when the failure happened is removed". The
    FAILING PART of a request under a fault oracle is defined declaratively
    (Proofs/UploadSpec.v, [lead]): the first part of which some file-store
    operation (create, a header or body write, close) fails, or during which a
    forced flush is refused, or which is cut, has no benchmark line or is an
    unexpected field. A failed upload leaves the store as it was, or - an upload
    [id] was begun - adds exactly the files (path, header ++ body: [spec_files])
    of the parts BEFORE the failing part [k]; every added path has a part index
    below [k], so the file of the failing part (also a completely written one
    whose Close failed) and of any later part is not in the store; and if the
    part loop failed, [k] is a part of the request. *)
Theorem C20_failed_file_removed : forall o st rq st',
  run o st rq = (st', UErr) ->
  us_fs st' = us_fs st
  \/ exists id,
       let k := lead result parse_file o id (rq_user rq) (rq_time rq) (rq_items rq) 0 0 in
       us_fs st' = us_fs st ++ spec_files id (rq_user rq) (rq_time rq) (firstn k (rq_items rq)) 0
       /\ (forall p c, In (p, c) (spec_files id (rq_user rq) (rq_time rq) (firstn k (rq_items rq)) 0) ->
             exists j, (j < N.of_nat k)%N /\ p = file_path id j)
       /\ (loop_failed result rec parse_file alloc o st rq = true -> k < length (rq_items rq)).
Proof. exact (failed_upload_leaves_parts_before_failing result rec parse_file coalesce rejects alloc alloc_fresh). Qed.

(** a successful upload adds exactly the declared files (the judge's [spec_files]) *)
Theorem C20_success_stores_declared_files : forall o st rq st' id fids,
  run o st rq = (st', UOk id fids) ->
  us_fs st' = us_fs st ++ spec_files id (rq_user rq) (rq_time rq) (rq_items rq) 0.
Proof. exact (success_stores_spec_files result rec parse_file coalesce rejects alloc alloc_fresh). Qed.

(** whatever happens to an upload, IDs, records and files of earlier uploads stay *)
Theorem C20_earlier_uploads_untouched : forall o st rq,
  let st' := fst (run o st rq) in
  (exists i, us_ids st' = us_ids st ++ i)
  /\ (exists r, us_recs st' = us_recs st ++ r)
  /\ (exists f, us_fs st' = us_fs st ++ f).
Proof. exact (earlier_uploads_untouched result rec parse_file coalesce rejects alloc alloc_fresh). Qed.

(** ... over whole histories of requests and fault oracles *)
Theorem C20_history_preserves_earlier : forall st h,
  let st' := run_history result rec parse_file coalesce rejects alloc st h in
  (exists i, us_ids st' = us_ids st ++ i)
  /\ (exists r, us_recs st' = us_recs st ++ r)
  /\ (exists f, us_fs st' = us_fs st ++ f).
Proof. exact (history_preserves_earlier result rec parse_file coalesce rejects alloc alloc_fresh). Qed.

(** allocated IDs stay allocated; a successful upload's ID was not in the table *)
Theorem C20_ids_never_reused_upload : forall o st rq,
  let '(st', out) := run o st rq in
  (forall i, In i (us_ids st) -> In i (us_ids st'))
  /\ match out with UOk id _ => ~ In id (us_ids st) /\ In id (us_ids st') | UErr => True end.
Proof. exact (ids_never_reused_upload result rec parse_file coalesce rejects alloc alloc_fresh). Qed.

(** /uploads hides uploads without records; a failed upload changes no listing *)
Theorem C20_listing_hides_recordless_uploads : forall (st : ustate rec) id n,
  In (id, n) (listing rec st) ->
  n <> 0 /\ exists recs, In (id, recs) (us_recs st) /\ n = length recs.
Proof. exact (listing_hides_recordless_uploads rec). Qed.

Theorem C20_failed_upload_not_listed : forall o st rq st',
  run o st rq = (st', UErr) -> listing rec st' = listing rec st.
Proof. exact (failed_upload_not_listed result rec parse_file coalesce rejects alloc). Qed.

(** the operation count the judge uses to decide whether an injected
    file-store fault is reached ([spec_ops], computed from the request alone)
    IS the number of file-store operations the model performs, for every fault
    oracle under which the upload succeeds - so "n < ops_used" in
    C20_upload_success_means_no_fault may be read "n < spec_ops" *)
Theorem C20_success_ops_are_spec_ops : forall o st rq st' id fids,
  run o st rq = (st', UOk id fids) ->
  ops_used result rec parse_file alloc o st rq
  = spec_ops id (rq_user rq) (rq_time rq) (rq_items rq) 0.
Proof. exact (success_ops_used_is_spec_ops result rec parse_file coalesce rejects alloc). Qed.

(** ... hence: a fault at ANY operation index below the declared count makes
    the upload fail, stated over the request alone *)
Theorem C20_fs_fault_below_spec_ops_fails : forall o st rq st' id fids n,
  run o st rq = (st', UOk id fids) ->
  n < spec_ops id (rq_user rq) (rq_time rq) (rq_items rq) 0 -> o_fs o n = false.
Proof.
  intros o st rq st' id fids n H Hn.
  rewrite <- (success_ops_used_is_spec_ops result rec parse_file coalesce rejects alloc _ _ _ _ _ _ H) in Hn.
  exact (proj1 (proj2 (proj2 (proj2 (proj2 (proj2 (proj2
    (upload_success_means_no_fault result rec parse_file coalesce rejects alloc alloc_fresh _ _ _ _ _ _ H))))))) n Hn).
Qed.

End C20.

Print Assumptions C20_upload_all_or_nothing.
Print Assumptions C20_upload_success_stores_everything.
Print Assumptions C20_upload_success_means_no_fault.
Print Assumptions C20_midflush_fault_fails_upload.
Print Assumptions C20_broken_request_rejected.
Print Assumptions C20_failed_file_removed.
Print Assumptions C20_success_stores_declared_files.
Print Assumptions C20_earlier_uploads_untouched.
Print Assumptions C20_history_preserves_earlier.
Print Assumptions C20_ids_never_reused_upload.
Print Assumptions C20_listing_hides_recordless_uploads.
Print Assumptions C20_failed_upload_not_listed.
Print Assumptions C20_success_ops_are_spec_ops.
Print Assumptions C20_fs_fault_below_spec_ops_fails.

(** recorded finding (code as it is): the clause "a request body cut off at any
    point leaves no record" fails when the cleanly framed body stops inside the
    header of a later part — the part loop sees the end of the form and commits *)
Theorem C20_cut_in_later_header_refuted :
  exists st' fids,
    run_upload_sf (Some (bs "20260930.1")) (mkOracle false (fun _ => false) (fun _ => false) false false)
                  (mkUs [] [] []) witness_cut_request = (st', UOk (bs "20260930.1") fids)
    /\ length (us_recs st') = 1.
Proof. exact cut_in_later_header_committed. Qed.
Print Assumptions C20_cut_in_later_header_refuted.

(** the ID allocator of Model/Ids.v satisfies the hypothesis used above *)
Theorem C20_alloc_fresh : forall day t u t',
  Ids.alloc day t = Some (u, t') -> ~ In u t /\ t' = t ++ [u].
Proof. exact alloc_fresh. Qed.
Print Assumptions C20_alloc_fresh.

(** over any sequence of allocations at any clock readings (also a clock that
    steps back): rows are only added, the successful IDs are exactly the added
    rows, no ID occurs twice *)
Theorem C20_ids_never_reused : forall days t,
  let '(res, t') := alloc_seq days t in
  t' = t ++ successes res /\ (NoDup t -> NoDup t').
Proof. exact ids_never_reused. Qed.
Print Assumptions C20_ids_never_reused.

(** under a clock that does not go back, allocation never fails, and IDs
    increase in creation order (Day, Seq order) and lie above all older IDs *)
Theorem C20_ids_increase : forall days t,
  nondecreasing days ->
  (match days with d :: _ => days_le d t | [] => True end) ->
  let '(res, t') := alloc_seq days t in
  Forall (fun r => r <> None) res
  /\ increasing (successes res)
  /\ Forall (fun u => forall v, In v t -> uid_lt v u) (successes res).
Proof. exact ids_increase. Qed.
Print Assumptions C20_ids_increase.

(** k concurrent allocators on one table, moved by ANY schedule with ANY clock
    readings (read and insert are separate steps; only primary-key uniqueness is
    assumed of the database): the IDs obtained are pairwise distinct, new, and
    the table never holds an ID twice *)
Theorem C20_concurrent_ids_distinct : forall t0 k sched,
  NoDup t0 ->
  let s := run_schedule sched (mkC t0 (repeat AStart k)) in
  NoDup (done_ids s) /\ NoDup (c_table s)
  /\ (forall u, In u (done_ids s) -> In u (c_table s) /\ ~ In u t0)
  /\ (forall u, In u t0 -> In u (c_table s)).
Proof. exact concurrent_ids_distinct. Qed.
Print Assumptions C20_concurrent_ids_distinct.

(** an ID reads digits '.' digits *)
Theorem C20_id_form : forall u,
  exists d s, id_text u = d ++ [x2e] ++ s
    /\ d <> [] /\ s <> [] /\ forallb is_digit d = true /\ forallb is_digit s = true.
Proof. exact id_form. Qed.
Print Assumptions C20_id_form.

(** histories of uploads on one database (Model/IdsHist.v): NewUpload at ANY
    clock readings - also on an earlier day than the newest upload, a day that
    already has upload .1 - mixed with uploads whose explicit ID appears out of
    order, each committed or aborted: the IDs NewUpload hands out are pairwise
    different and were not in the table before *)
Theorem C20_history_new_ids_fresh : forall ops s,
  NoDup (h_table s) ->
  NoDup (new_ids s ops) /\ (forall u, In u (new_ids s ops) -> ~ In u (h_table s)).
Proof. exact history_new_ids_fresh. Qed.
Print Assumptions C20_history_new_ids_fresh.

(** ... and whatever happens later (failed, aborted, committed uploads), the
    listing keeps showing every committed upload with all its records *)
Theorem C20_history_keeps_committed : forall ops s r,
  In r (hlisting s) -> In r (hlisting (hfinal s ops)).
Proof. exact history_keeps_committed. Qed.
Print Assumptions C20_history_keeps_committed.

Theorem C20_history_listing_one_per_id : forall ops,
  NoDup (map fst (h_recs (hfinal h0 ops))).
Proof. exact history_listing_one_per_id. Qed.
Print Assumptions C20_history_listing_one_per_id.

(** the clock steps back over midnight onto a day that has upload .1: the call
    fails, the ID is not handed out again, the committed upload stays listed *)
Example C20_example_history :
  let ops := [HNew 20261001 2 true; HNew 20260930 1 true; HNew 20261001 1 false; HNew 20260930 3 true]%N in
  map snd (hrun h0 ops) = [Some (20261001, 1); Some (20260930, 1); Some (20261001, 2); None]%N
  /\ hlisting (hfinal h0 ops) = [((20261001, 1), 2); ((20260930, 1), 1)]%N.
Proof. split; reflexivity. Qed.

Example C20_example_concurrent :
  (* two allocators read before either inserts: the second insert is refused *)
  let s := run_schedule [(0%nat, 20260930%N); (1%nat, 20260930%N); (0%nat, 20260930%N); (1%nat, 20260930%N)]
                        (mkC [(20260930, 4)]%N (repeat AStart 2)) in
  c_threads s = [ADone (20260930, 5)%N; AFailed] /\ c_table s = [(20260930, 4); (20260930, 5)]%N.
Proof. split; reflexivity. Qed.

(** non-vacuity *)
Example C20_example_alloc :
  alloc_seq [20260930; 20260930; 20261001; 20260930]%N [] =
  ([Some (20260930, 1); Some (20260930, 2); Some (20261001, 1); None]%N,
   [(20260930, 1); (20260930, 2); (20261001, 1)]%N).
Proof. reflexivity. Qed.

Example C20_example_fault :
  let rq := mkReq [IFile (bs "a.txt") (bs "BenchmarkA 1 2 ns/op" ++ [c_lf]) 1 false; ICommit] EndClosed [] (bs "t") in
  (* no fault: stored *)
  (exists st' f, run_upload_sf (Some (bs "20260930.1")) (mkOracle false (fun _ => false) (fun _ => false) false false) (mkUs [] [] []) rq
                 = (st', UOk (bs "20260930.1") f) /\ length (us_recs st') = 1 /\ length (us_fs st') = 1)
  (* the separator write (5th file-store operation) fails: nothing stored, file gone *)
  /\ (exists st', run_upload_sf (Some (bs "20260930.1")) (mkOracle false (fun n => Nat.eqb n 5) (fun _ => false) false false) (mkUs [] [] []) rq
                 = (st', UErr) /\ us_recs st' = [] /\ us_fs st' = []).
Proof. split; [eexists; eexists | eexists]; repeat split; vm_compute; reflexivity. Qed.

(** non-vacuity of the mid-flush component: the second file part has index 2
    (the "commit" field in between counts); refusing the boundary flush there
    fails the whole upload, the first file stays stored, no record is kept *)
Example C20_example_midflush :
  let body := bs "BenchmarkA 1 2 ns/op" ++ [c_lf] in
  let rq := mkReq [IFile (bs "a.txt") body 1 false; ICommit; IFile (bs "b.txt") body 1 false] EndClosed [] (bs "t") in
  file_indices (rq_items rq) 0 = [0; 2]%N
  /\ (exists st', run_upload_sf (Some (bs "20260930.1"))
                   (mkOracle false (fun _ => false) (fun i => (i =? 2)%N) false false) (mkUs [] [] []) rq
                 = (st', UErr) /\ us_recs st' = [] /\ length (us_fs st') = 1).
Proof. split; [reflexivity|]. eexists; repeat split; vm_compute; reflexivity. Qed.

(** non-vacuity of the failing part: two files, the Close of the SECOND one
    (file-store operation 15: 8 operations for part 0, then create, 5 header
    writes, 1 body write) fails; one operation further nothing fails: the failing part is part 1, the upload fails,
    the first file stays, the completely written second file is gone *)
Example C20_example_close_fault :
  let body := bs "BenchmarkA 1 2 ns/op" ++ [c_lf] in
  let rq := mkReq [IFile (bs "a.txt") body 1 false; IFile (bs "b.txt") body 1 false; ICommit] EndClosed [] (bs "t") in
  let o := mkOracle false (fun n => Nat.eqb n 15) (fun _ => false) false false in
  lead StoreFmt.result read_with o (bs "20260930.1") [] (bs "t") (rq_items rq) 0 0 = 1
  /\ lead StoreFmt.result read_with (mkOracle false (fun n => Nat.eqb n 16) (fun _ => false) false false)
          (bs "20260930.1") [] (bs "t") (rq_items rq) 0 0 = 3
  /\ (exists st', run_upload_sf (Some (bs "20260930.1")) o (mkUs [] [] []) rq = (st', UErr)
                  /\ us_recs st' = [] /\ map fst (us_fs st') = [bs "uploads/20260930.1/0.txt"]).
Proof. split; [vm_compute; reflexivity|]. split; [vm_compute; reflexivity|]. eexists; repeat split; vm_compute; reflexivity. Qed.
