(** C05 — Benchmark names decompose consistently and key extraction follows suit.
    Statements only; proofs are in Proofs/Name.v and Proofs/Extract.v. *)
From Perf Require Import Base.Bytes Model.Name Model.Extract Proofs.Name Proofs.Extract.

(** base ++ parts reproduces the full name byte for byte *)
Theorem C05_parts_concat : forall n, fst (parts n) ++ concat (snd (parts n)) = n.
Proof. exact parts_concat. Qed.
Print Assumptions C05_parts_concat.

(** the parts are '/'-introduced segments plus an optional trailing "-N" *)
Theorem C05_parts_shape : forall n,
  exists ps g, snd (parts n) = ps ++ opt_list g /\ well_shaped (fst (parts n)) ps g.
Proof. exact parts_shape. Qed.
Print Assumptions C05_parts_shape.

(** ... and exactly those: the decomposition of that shape is unique *)
Theorem C05_parts_unique : forall b ps g,
  well_shaped b ps g ->
  (g = None -> ~ exists q g', b ++ concat ps = q ++ g' /\ is_gmp_part g') ->
  parts (b ++ concat ps ++ concat (opt_list g)) = (b, ps ++ opt_list g).
Proof. exact parts_unique. Qed.
Print Assumptions C05_parts_unique.

(** a trailing "-N" is always split off *)
Theorem C05_gomaxprocs_split : forall p g, is_gmp_part g -> split_gmp (p ++ g) = (p, Some g).
Proof. exact split_gmp_complete. Qed.
Print Assumptions C05_gomaxprocs_split.

(** Base() on its own is the same base *)
Theorem C05_base_eq_parts_base : forall n, base n = fst (parts n).
Proof. exact base_eq_parts_base. Qed.
Print Assumptions C05_base_eq_parts_base.

Theorem C05_key_name : forall n c, extract key_name n c = fst (parts n).
Proof. exact extract_dotname. Qed.
Print Assumptions C05_key_name.

Theorem C05_key_fullname : forall n c, extract key_fullname n c = n.
Proof. exact extract_dotfullname. Qed.
Print Assumptions C05_key_fullname.

Theorem C05_key_subname_found : forall k n c l1 v l2,
  is_subname_key k = true -> k <> key_gomaxprocs ->
  snd (parts n) = l1 ++ ((k ++ [c_eq]) ++ v) :: l2 ->
  Forall (no_prefix (k ++ [c_eq])) l1 ->
  extract k n c = v.
Proof. exact extract_subname_found. Qed.
Print Assumptions C05_key_subname_found.

Theorem C05_key_subname_absent : forall k n c,
  is_subname_key k = true -> k <> key_gomaxprocs ->
  Forall (no_prefix (k ++ [c_eq])) (snd (parts n)) ->
  extract k n c = [].
Proof. exact extract_subname_absent. Qed.
Print Assumptions C05_key_subname_absent.

Theorem C05_key_gomaxprocs_suffix : forall q ds c,
  ds <> [] -> all_digits ds -> extract key_gomaxprocs (q ++ c_dash :: ds) c = ds.
Proof. exact extract_gomaxprocs_suffix. Qed.
Print Assumptions C05_key_gomaxprocs_suffix.

Theorem C05_key_gomaxprocs_explicit : forall n c,
  (~ exists q g, n = q ++ g /\ is_gmp_part g) ->
  extract key_gomaxprocs n c =
    match find_prefixed (snd (parts n)) (key_gomaxprocs ++ [c_eq]) with
    | Some v => v | None => []
    end.
Proof. exact extract_gomaxprocs_explicit. Qed.
Print Assumptions C05_key_gomaxprocs_explicit.

Theorem C05_key_config_present : forall k n c l1 x l2,
  plain_key k -> c = l1 ++ x :: l2 -> c_key x = k ->
  Forall (fun y => c_key y <> k) l1 ->
  extract k n c = c_val x.
Proof. exact extract_config_present. Qed.
Print Assumptions C05_key_config_present.

Theorem C05_key_config_absent : forall k n c,
  plain_key k -> Forall (fun y => c_key y <> k) c -> extract k n c = [].
Proof. exact extract_config_absent. Qed.
Print Assumptions C05_key_config_absent.

(** the "nothing to exclude in this name" fast path of the excluded full name
    returns what deleting the excluded parts would *)
Theorem C05_full_excluded_fastpath : forall n delete exc_name exc_gmp,
  extract_full_excluded n delete exc_name exc_gmp = slow_full_excluded n delete exc_name exc_gmp.
Proof. exact full_excluded_fastpath. Qed.
Print Assumptions C05_full_excluded_fastpath.

(** non-vacuity: a concrete name with sub-name keys and GOMAXPROCS *)
Example C05_example :
  parts (bs "Fib/n=10/x-8") = (bs "Fib", [bs "/n=10"; bs "/x"; bs "-8"]) /\
  extract (bs "/n") (bs "Fib/n=10/x-8") [] = bs "10" /\
  extract key_gomaxprocs (bs "Fib/n=10/x-8") [] = bs "8" /\
  well_shaped (bs "Fib") [bs "/n=10"; bs "/x"] (Some (bs "-8")).
Proof.
  repeat split; try reflexivity.
  - cbn; intuition discriminate.
  - repeat constructor; eexists; split; try reflexivity; cbn; intuition discriminate.
  - exists (bs "8"). repeat split; try reflexivity. discriminate.
Qed.
