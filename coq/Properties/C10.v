(** C10 — Scaled numbers keep at least three significant digits, correctly
    rounded.  Statements only; proofs are in Proofs/FmtFixed.v (exact integer
    arithmetic), Proofs/B64Flocq.v (binary64 quotient, Flocq), Proofs/Scale.v,
    Proofs/ScaleMore.v, Proofs/ScaleError.v and Proofs/ScaleClass.v.

    Reading of the model: [common_scale], [format], [class_of] (Model/Scale.v)
    follow benchunit/scale.go and parse.go; [fmt_fixed x p] (Base/FmtFixed.v)
    is strconv.AppendFloat(x,'f',p,64); [fx_signed x p] is the integer whose
    decimal digits it prints (mantissa * 10^p, signed); [b64_div] is Go's
    float64 division.  Specification predicates are in Model/ScaleSpec.v. *)
From Coq Require Import ZArith List Reals.
From Flocq Require Import Core BinarySingleNaN.
From Perf Require Import Base.Bytes Base.B64 Base.FmtFixed Model.Scale Model.ScaleSpec
     Proofs.FmtFixed Proofs.B64Flocq Proofs.Scale Proofs.ScaleMore Proofs.ScaleError Proofs.ScaleRefuted Proofs.ScaleClass
     Model.RowScale Proofs.RowScale Model.ScaleHist Proofs.ScaleHist.
From Perf Require Model.Units.
Import ListNotations.
Local Open Scope Z_scope.

(** ** the decimal printer *)

(** the integer printed is the round-half-even of x * 10^p ... *)
Theorem C10_fixed_is_half_even : forall m e p,
  is_rne (fx_mag m e p) (Zpos m * 2 ^ Z.max e 0 * 10 ^ Z.of_nat p) (2 ^ Z.max (- e) 0) = true.
Proof. exact fx_mag_is_rne. Qed.
Print Assumptions C10_fixed_is_half_even.

(** ... which determines it uniquely ... *)
Theorem C10_half_even_unique : forall a d n1 n2,
  0 < d -> is_rne n1 a d = true -> is_rne n2 a d = true -> n1 = n2.
Proof. exact is_rne_unique. Qed.
Print Assumptions C10_half_even_unique.

(** ... and is within half a unit of the last printed digit of the binary value:
    | N / 10^p - m * 2^e | <= 1/2 * 10^-p, multiplied through by 10^p * 2^max(-e,0) *)
Theorem C10_fixed_half_unit : forall m e p,
  2 * Z.abs (fx_mag m e p * 2 ^ Z.max (- e) 0 - Zpos m * 2 ^ Z.max e 0 * 10 ^ Z.of_nat p) <= 2 ^ Z.max (- e) 0.
Proof. exact fx_value_bound. Qed.
Print Assumptions C10_fixed_half_unit.

(** the printed decimal is monotone in the binary value (zeros, finite numbers of either sign) *)
Theorem C10_fixed_monotone : forall x y p n1 n2,
  sf_le x y -> fx_signed x p = Some n1 -> fx_signed y p = Some n2 -> n1 <= n2.
Proof. exact fx_signed_monotone. Qed.
Print Assumptions C10_fixed_monotone.

(** ** Format with a fixed scale is monotone in the value *)
Theorem C10_format_monotone : forall (f v1 v2 : b64) (p : nat) n1 n2,
  valid_binary 53 1024 v1 = true -> valid_binary 53 1024 v2 = true -> valid_binary 53 1024 f = true ->
  sf_finite v1 = true -> sf_finite v2 = true -> is_pos_finite f = true ->
  b64_le v1 v2 = true ->
  fx_signed (b64_div v1 f) p = Some n1 -> fx_signed (b64_div v2 f) p = Some n2 ->
  n1 <= n2.
Proof. exact format_monotone. Qed.
Print Assumptions C10_format_monotone.

(** ** the threshold tables *)

(** the code's recipe (ParseFloat of "99.995e12" ..., hex literals, math.Pow)
    evaluates to these bit patterns; the harness re-reads the implementation's
    values through CommonScale on every run and compares (RunC10, kind 0) *)
Theorem C10_tables_agree :
  map factor_bits si_factors_recipe = si_bits /\
  map factor_bits iec_factors_recipe = iec_bits /\
  map bits_of_b64 sigfigs_recipe = sigfigs_bits /\
  si_factors = si_factors_recipe /\ iec_factors = iec_factors_recipe /\ sigfigs = sigfigs_recipe.
Proof. exact tables_agree. Qed.
Print Assumptions C10_tables_agree.

(** finite sweep (41 intervals, both ends): every threshold t, at the scale
    chosen from t upwards, prints 1.000 / 10.00 / 100.0, and the binary64 just
    below the next threshold prints 9.999 / 99.99 / 999.9 (1023.9 below a
    binary prefix) at the same scale; all constants are valid positive floats *)
Theorem C10_boundary_table_ok :
  table_ok Decimal si_factors = true /\ table_ok Binary iec_factors = true.
Proof. exact boundary_table_ok. Qed.
Print Assumptions C10_boundary_table_ok.

(** ** four significant digits whenever a prefix is in range:
    for every valid positive binary64 v with .99995e-9 <= v < 999.95e12
    (binary: .99995 <= v < .99995 * 2^50) the scale has 1..3 decimals and the
    printed mantissa * 10^prec is in [1000, 9999] (binary, one decimal: <= 10239,
    i.e. mantissa < 1024); [four_sig] demands both, i.e. the mantissa is in
    [1, 1000) resp. [1, 1024) ([C10_four_sig_mantissa_range]) *)
Theorem C10_four_sig_digits : forall cls v,
  cls <> BadClass ->
  valid_binary 53 1024 v = true -> is_pos_finite v = true -> in_range4 cls v = true ->
  exists s n, common_scale [v] cls = Some s
    /\ fx_signed (b64_div v (s_factor s)) (Z.to_nat (s_prec s)) = Some n
    /\ four_sig cls (s_prec s) n = true
    /\ 1 <= s_prec s <= 3.
Proof. exact four_sig_digits_p. Qed.
Print Assumptions C10_four_sig_digits.

Theorem C10_four_sig_mantissa_range : forall cls p n,
  four_sig cls p n = true ->
  10 ^ p <= n /\ n < (match cls with Binary => 1024 | _ => 1000 end) * 10 ^ p.
Proof. exact four_sig_mantissa_range. Qed.
Print Assumptions C10_four_sig_mantissa_range.

(** the same for either sign, on the text that Scale/Format returns *)
Theorem C10_four_sig_digits_text : forall cls (v : spec_float) shortest,
  cls <> BadClass ->
  valid_binary 53 1024 v = true -> is_pos_finite (b64_abs v) = true -> in_range4 cls (b64_abs v) = true ->
  exists s n, common_scale (@cons spec_float v nil) cls = Some s
    /\ format shortest s v = fmt_sign (b64_signbit v) ++ fmt_mag n (Z.to_nat (s_prec s)) ++ s_prefix s
    /\ four_sig cls (s_prec s) n = true
    /\ 1 <= s_prec s <= 3.
Proof. exact four_sig_digits_text_p. Qed.
Print Assumptions C10_four_sig_digits_text.

(** ** prefix boundaries coincide with how the mantissa rounds: the mantissa
    text is a non-zero digit, then four characters (binary: possibly
    1000.0 .. 1023.9); never "1000.0", never "0.9999" *)
Theorem C10_boundary_coincides : forall cls (v : spec_float) shortest,
  cls <> BadClass ->
  valid_binary 53 1024 v = true -> is_pos_finite (b64_abs v) = true -> in_range4 cls (b64_abs v) = true ->
  exists s mant, common_scale (@cons spec_float v nil) cls = Some s
    /\ format shortest s v = fmt_sign (b64_signbit v) ++ mant ++ s_prefix s
    /\ mant_text_ok cls mant = true.
Proof. exact boundary_coincides. Qed.
Print Assumptions C10_boundary_coincides.

Theorem C10_never_1000_0 : forall t, mant_text_ok Decimal t = true -> t <> bs "1000.0".
Proof. exact mant_text_not_1000_0. Qed.
Print Assumptions C10_never_1000_0.

Theorem C10_never_leading_zero : forall cls t, mant_text_ok cls t = true -> has_prefix t (bs "0") = false.
Proof. exact mant_text_no_leading_zero. Qed.
Print Assumptions C10_never_leading_zero.

(** ** below the smallest prefix: 3 .. 10 decimals; the printed integer has
    three or four digits for every binary64 v with 1e-17 <= v < .99995e-9
    (binary: 1e-8 <= v < .99995), four while fewer than 10 decimals are used *)
Theorem C10_three_sig_digits_below : forall cls (v : spec_float),
  cls <> BadClass ->
  valid_binary 53 1024 v = true -> is_pos_finite v = true -> in_range3 cls v = true ->
  exists s n, common_scale (@cons spec_float v nil) cls = Some s
    /\ 3 <= s_prec s <= 10
    /\ fx_signed (b64_div v (s_factor s)) (Z.to_nat (s_prec s)) = Some n
    /\ three_sig n = true
    /\ (s_prec s < 10 -> 1000 <= n).
Proof. exact three_sig_digits_below. Qed.
Print Assumptions C10_three_sig_digits_below.

(** ** half a unit of the last printed digit.  What holds of the code is the
    bound with the rounding of the binary64 quotient explicit and against the
    binary64 factor f (n = printed mantissa * 10^p):
      | n / 10^p - |v| / f |  <=  1/2 * 10^-p + 2^-53 * |v| / f + 2^-1075
    The clause of the property - half a unit against the prefix's exact factor,
    no further term - is REFUTED: [C10_half_unit_refuted],
    [C10_half_unit_shared_refuted] below (known finding
    C10_quotient_rounded_before_printing). *)
Theorem C10_half_unit_error : forall (v f : b64) (p : nat) s n,
  valid_binary 53 1024 v = true -> valid_binary 53 1024 f = true ->
  sf_finite v = true -> is_pos_finite f = true ->
  fx_of (b64_div v f) p = FxFin s n ->
  (Rabs (IZR n / IZR (10 ^ Z.of_nat p) - Rabs (SF2R radix2 v) / SF2R radix2 f)
   <= / 2 * / IZR (10 ^ Z.of_nat p)
      + bpow radix2 (-53) * (Rabs (SF2R radix2 v) / SF2R radix2 f) + bpow radix2 (-1075))%R.
Proof. exact half_unit_error. Qed.
Print Assumptions C10_half_unit_error.

(** refuted at full strength: 0.10105 prints as "101.0m" although 101.1m is the
    mantissa within half a unit; a value sharing the scale of a much smaller one
    prints the digits of the rounded quotient.  In both the excess stays within
    the allowance [quotient_slack] of [known_ok]; for binary prefixes and no
    prefix that allowance is nothing. *)
Theorem C10_half_unit_refuted :
  let v := b64_of_dec false 10105 (-5) in
  sf_finite v = true /\
  scale (fun _ => []) v Decimal = Some (bs "101.0m") /\
  exact_factor Decimal (bs "m") = Some (1, 1000) /\
  half_unit_of 0 1 v 1010 1 1 1000 = false /\
  half_unit_of 0 1 v 1011 1 1 1000 = true /\
  (let '(sn, sd) := quotient_slack 1 1000 in half_unit_of sn sd v 1010 1 1 1000) = true.
Proof. exact half_unit_refuted. Qed.
Print Assumptions C10_half_unit_refuted.

Theorem C10_half_unit_shared_refuted :
  let lo := b64_of_dec false 4940706476680601 (-12) in
  let v := b64_of_dec false 7335123946664616 2 in
  exists s, sf_finite v = true /\
  common_scale [lo; v] Decimal = Some s /\
  s_prec s = 3 /\ s_prefix s = bs "k" /\
  exact_factor Decimal (bs "k") = Some (1000, 1) /\
  format (fun _ => []) s v = bs "733512394666461.625k" /\
  half_unit_of 0 1 v 733512394666461625 3 1000 1 = false /\
  half_unit_of 0 1 v 733512394666461568 3 1000 1 = true /\
  (let '(sn, sd) := quotient_slack 1000 1 in half_unit_of sn sd v 733512394666461625 3 1000 1) = true.
Proof. exact half_unit_shared_refuted. Qed.
Print Assumptions C10_half_unit_shared_refuted.

Theorem C10_quotient_slack_binary :
  Forall (fun '(_, (fn, fd)) => quotient_slack fn fd = (0, 1)) iec_exact /\
  quotient_slack 1 1 = (0, 1).
Proof. exact quotient_slack_binary. Qed.
Print Assumptions C10_quotient_slack_binary.

(** ** a shared scale is that of the least non-zero magnitude *)
Theorem C10_min_nonzero_spec : forall vals,
  Forall (fun v => b64_is_nan v = false) vals ->
  let mn := min_nonzero vals in
  (mn = b64_zero /\ Forall (fun v => b64_eq (b64_abs v) b64_zero = true) vals) \/
  (b64_eq mn b64_zero = false /\ In mn (map b64_abs vals) /\
   Forall (fun v => b64_eq (b64_abs v) b64_zero = false -> b64_le mn (b64_abs v) = true) vals).
Proof. exact min_nonzero_spec. Qed.
Print Assumptions C10_min_nonzero_spec.

Theorem C10_common_scale_min : forall vals cls,
  Forall (fun v => b64_is_nan v = false) vals ->
  common_scale vals cls = common_scale (@cons spec_float (min_nonzero vals) nil) cls.
Proof. exact common_scale_min_thm. Qed.
Print Assumptions C10_common_scale_min.

(** ** ClassOf.  The property: Binary exactly when bytes appear in the
    numerator - [spec_class], one pass over the text with every spelling of
    bytes ([spec_bytes_tok]: B with or without an SI/IEC prefix, byte(s),
    Byte(s)).  The code knows three spellings: ClassOf is Binary iff a numerator
    token is B, MB or bytes, which is the same pass with those three
    ([narrow_class]).  Hence: sound (Binary only if bytes are in the numerator),
    exact on units that spell bytes in no other way, and REFUTED at full strength
    on "KiB/s" (known finding C10_classof_byte_spellings). *)
Theorem C10_class_binary_iff : forall u,
  class_of u = Binary <->
  exists t, In (t, false) (unit_tokens (S (length u)) u false)
            /\ (t = bs "B" \/ t = bs "MB" \/ t = bs "bytes").
Proof. exact class_binary_iff. Qed.
Print Assumptions C10_class_binary_iff.

Theorem C10_class_of_narrow : forall u, class_of u = narrow_class u.
Proof. exact class_of_narrow. Qed.
Print Assumptions C10_class_of_narrow.

Theorem C10_spec_class_binary_iff : forall u,
  spec_class u = Binary <->
  exists t, In (t, false) (unit_tokens (S (length u)) u false) /\ spec_bytes_tok t = true.
Proof. exact spec_class_binary_iff. Qed.
Print Assumptions C10_spec_class_binary_iff.

Theorem C10_class_of_sound : forall u, class_of u = Binary -> spec_class u = Binary.
Proof. exact class_of_sound. Qed.
Print Assumptions C10_class_of_sound.

Theorem C10_class_of_complete_on : forall u,
  (forall t, In (t, false) (unit_tokens (S (length u)) u false) -> spec_bytes_tok t = true -> is_bytes_tok t = true) ->
  class_of u = spec_class u.
Proof. exact class_of_complete_on. Qed.
Print Assumptions C10_class_of_complete_on.

Theorem C10_class_of_refuted : exists u, spec_class u = Binary /\ class_of u = Decimal.
Proof. exact class_of_refuted. Qed.
Print Assumptions C10_class_of_refuted.

(** ** NoOpScaler: if the library's shortest formatting of v reads back to v
    (hypothesis on strconv, checked on every generated case together with
    minimality), so does NoOpScaler.Format(v): dividing by 1 is exact and no
    prefix is appended *)
Theorem C10_noop_shortest_roundtrip : forall (shortest : b64 -> bytes) (read_back : bytes -> option b64) v,
  valid_binary 53 1024 v = true -> sf_finite v = true ->
  read_back (shortest v) = Some v ->
  read_back (format shortest noop_scaler v) = Some v.
Proof. exact noop_shortest_roundtrip. Qed.
Print Assumptions C10_noop_shortest_roundtrip.

(** ** the shared scale as cmd/benchstat's table renderer applies it
    ([row_scaler], Model/RowScale.v = benchtab.Table.RowScaler): the scale of a
    row is that of the least non-zero |centre| among the cells the row has; it
    does not change when any cells change sign (a row whose least magnitude is
    negative, an all-negative row and their mirror images share one scale);
    missing cells contribute nothing *)
Theorem C10_row_scaler_is_min : forall cells cls,
  Forall (fun v => b64_is_nan v = false) (row_values cells) ->
  row_scaler cells cls = common_scale (@cons spec_float (min_nonzero (row_values cells)) nil) cls.
Proof. exact row_scaler_is_min. Qed.
Print Assumptions C10_row_scaler_is_min.

Theorem C10_row_scaler_sign_blind : forall flip cells cls,
  row_scaler (flip_signs flip cells) cls = row_scaler cells cls.
Proof. exact row_scaler_sign_blind. Qed.
Print Assumptions C10_row_scaler_sign_blind.

Theorem C10_row_scaler_missing : forall cells cls, row_scaler (None :: cells) cls = row_scaler cells cls.
Proof. exact row_scaler_missing. Qed.
Print Assumptions C10_row_scaler_missing.

(** rows of the kinds the harness generates: old=-3.25 new=5120 keeps three
    decimals and no prefix; -2048 B next to 8 MiB is scaled in Ki; -250e-9 sec
    in every cell prints as -250.0n; a missing cell and a zero do not matter *)
Example C10_row_examples :
  row_texts (fun _ => []) [Some (b64_of_dec true 325 (-2)); Some (b64_of_Z 5120)] Decimal
    = Some [Some (bs "-3.250"); Some (bs "5120.000")] /\
  row_texts (fun _ => []) [Some (b64_of_Z (-2048)); None; Some (b64_of_Z 8388608)] Binary
    = Some [Some (bs "-2.000Ki"); None; Some (bs "8192.000Ki")] /\
  row_texts (fun _ => []) [Some (b64_of_dec true 250 (-9)); Some (b64_of_dec true 250 (-9))] Decimal
    = Some [Some (bs "-250.0n"); Some (bs "-250.0n")] /\
  row_texts (fun _ => []) [Some b64_zero; Some (b64_of_dec true 15 (-4)); Some (b64_of_Z 3)] Decimal
    = Some [Some (bs "0.000m"); Some (bs "-1.500m"); Some (bs "3000.000m")] /\
  flip_signs [true; false] [Some (b64_of_dec false 325 (-2)); Some (b64_of_Z 5120)]
    = [Some (b64_of_dec true 325 (-2)); Some (b64_of_Z 5120)].
Proof. vm_compute. repeat split; reflexivity. Qed.

(** ** non-vacuity: concrete instances of every hypothesis used above *)
Example C10_examples :
  (* a value with a prefix in range, its scale and text *)
  (let v := b64_of_dec false 123456789 0 in
   valid_binary 53 1024 v = true /\ is_pos_finite v = true /\ in_range4 Decimal v = true /\
   scale (fun _ => []) v Decimal = Some (bs "123.5M")) /\
  (* 999.95 prints as 1.000k, the binary64 just below as 999.9 *)
  scale (fun _ => []) (b64_of_dec false 99995 (-2)) Decimal = Some (bs "1.000k") /\
  scale (fun _ => []) (pred_pos (b64_of_dec false 99995 (-2))) Decimal = Some (bs "999.9") /\
  (* binary: 1023 KiB stays in Ki *)
  scale (fun _ => []) (b64_of_Z (1023 * 1024)) Binary = Some (bs "1023.0Ki") /\
  (* below the smallest prefix *)
  (let v := b64_of_dec false 5 (-13) in
   in_range3 Decimal v = true /\ scale (fun _ => []) v Decimal = Some (bs "0.0005000n")) /\
  (* a shared scale *)
  common_scale [b64_of_Z 5000; b64_zero; b64_of_dec true 25 (-1)] Decimal = Some (mkScaler 3 b64_one []) /\
  (* classes *)
  class_of (bs "MB/s") = Binary /\ class_of (bs "ns/B") = Decimal /\ class_of (bs "sec/B*B") = Binary /\
  spec_class (bs "MB/s") = Binary /\ spec_class (bs "ns/B") = Decimal /\ spec_class (bs "GiB/s") = Binary /\
  spec_class (bs "byte/op") = Binary /\ spec_class (bs "op/KB") = Decimal /\ spec_class (bs "b/s") = Decimal /\
  (* a unit as [C10_class_of_complete_on] assumes *)
  forallb (fun '(t, d) => d || negb (spec_bytes_tok t) || is_bytes_tok t)
          (unit_tokens 9 (bs "MB/s*B-x") false) = true /\
  (* shortest formatting hypothesis: "1.5" reads back to 1.5 *)
  (let v := b64_of_dec false 15 (-1) in
   shortest_ok false 15 1 v = true /\ valid_binary 53 1024 v = true /\ sf_finite v = true) /\
  (* a finite quotient as [C10_half_unit_error] assumes *)
  fx_of (b64_div (b64_of_Z 12125) (b64_of_Z 1000)) 2 = FxFin false 1212.
Proof. vm_compute. repeat split; reflexivity. Qed.

(** ** refuted at full strength for shared scales (known finding
    C10_shared_scale_quotient_overflow): 1e305 scaled together with 1e-9 gets
    the factor of "n"; the binary64 quotient 1e305 / 1e-9 overflows and the
    finite value prints as "+Infn", which is not within half a unit of it.
    [C10_half_unit_error] therefore carries the hypothesis that the quotient is
    finite; the harness generates such multisets and tags them. *)
Theorem C10_shared_scale_overflow_refuted :
  exists vals v s, In v vals /\ valid_binary 53 1024 v = true /\ sf_finite v = true /\
    common_scale vals Decimal = Some s /\
    format (fun _ => []) s v = bs "+Infn".
Proof.
  exists [b64_of_dec false 1 (-9); b64_of_dec false 1 305], (b64_of_dec false 1 305).
  eexists. vm_compute. repeat split; try reflexivity. right; left; reflexivity.
Qed.
Print Assumptions C10_shared_scale_overflow_refuted.

(** ** histories of calls (case kind 5).  Model/ScaleHist.v follows package
    benchunit call by call with its mutable state explicit - tidyCache; the
    threshold tables are written by their initialisers only, so they are the
    constants of Model/Scale.v in every state.  [run c h] = the answers of the
    calls [h] made one after the other from state [c]; [alone k] = the answer of
    [k] when it is the only call the process ever makes. *)

(** in a process that starts with an empty cache every call of every history
    answers as if it were alone *)
Theorem C10_history_independent : forall h, run [] h = map alone h.
Proof. exact run_alone. Qed.
Print Assumptions C10_history_independent.

(** the same from every state the package can be in (every cache entry is the
    slow path's result for its key - the invariant [step] preserves) *)
Theorem C10_history_independent_from : forall c h, cache_inv c -> run c h = map alone h.
Proof. intros c h H. exact (run_alone_inv h c H). Qed.
Print Assumptions C10_history_independent_from.

Theorem C10_cache_invariant : forall c k, cache_inv c -> cache_inv (fst (step c k)).
Proof. intros c k H. exact (proj2 (step_spec c k H)). Qed.
Print Assumptions C10_cache_invariant.

(** ClassOf is a function of the unit alone: after any history (Tidy of the same
    string included) it answers [class_of u], which is [narrow_class u] *)
Theorem C10_class_of_after_any_history : forall h u,
  run [] (h ++ [CClassOf u]) = map alone h ++ [AClass (narrow_class u)].
Proof.
  intros h u. rewrite (run_app_last h (CClassOf u) [] cache_inv_nil). cbn [alone].
  rewrite class_of_narrow. reflexivity.
Qed.
Print Assumptions C10_class_of_after_any_history.

(** CommonScale (hence Format, Scale) answers [common_scale vals cls] after any
    history: every theorem above about [common_scale] holds for the first call
    of a process as for any later one, in whatever order the classes are used *)
Theorem C10_common_scale_after_any_history : forall h vals cls,
  run [] (h ++ [CCommon vals cls]) = map alone h ++ [ACommon (common_scale vals cls)].
Proof. intros h vals cls. exact (run_app_last h (CCommon vals cls) [] cache_inv_nil). Qed.
Print Assumptions C10_common_scale_after_any_history.

(** non-trivial instances: Tidy then ClassOf of "B/ns" (the slow path stores an
    entry; ClassOf still says Binary); a Binary value below 1 as the first call,
    four decimals; a state with an entry, as [C10_history_independent_from] assumes *)
Example C10_history_examples :
  run [] [CTidy (b64_of_Z 7) (bs "B/ns"); CClassOf (bs "B/ns"); CTidy (b64_of_Z 7) (bs "B/ns"); CClassOf (bs "MB/txns")]
    = [ATidy (b64_of_Z 7) (bs "B/ns"); AClass Binary; ATidy (b64_of_Z 7) (bs "B/ns"); AClass Binary] /\
  fst (step [] (CTidy (b64_of_Z 7) (bs "B/ns"))) = [(bs "B/ns", (bs "B/ns", b64_one))] /\
  run [] [CCommon [b64_of_dec false 5 (-1)] Binary; CCommon [b64_of_Z 5] Decimal]
    = [ACommon (Some (mkScaler 4 b64_one [])); ACommon (Some (mkScaler 3 b64_one []))] /\
  scale (fun _ => []) (b64_of_dec false 5 (-1)) Binary = Some (bs "0.5000").
Proof. vm_compute. repeat split; reflexivity. Qed.

Example C10_cache_inv_example : cache_inv [(bs "B/ns", (bs "B/ns", b64_one))].
Proof.
  intros u e [H|[]]. injection H as <- <-. vm_compute. reflexivity.
Qed.
