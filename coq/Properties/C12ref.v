(** C12 (continued) - Interval-certified reference points of Student's t CDF:
    for nu in {1,2,3,4,5,10} and the closed-form density f_nu (see Proofs/TRef.v),
    int_0^x f_nu lies within 1e-11 of the constant that Model/TRefTable.v holds and
    that the correspondence run compares the implementation against (1e-10).
    These are facts about the mathematical function, i.e. the oracle of a test;
    they use the standard library's real-number axioms. *)
From Coq Require Import Reals.
From Coquelicot Require Import Coquelicot.
From Perf Require Import Proofs.TRef.
Open Scope R_scope.

Theorem C12_tref_0 : Rabs (RInt (fun t => / (PI * (1 + t*t))) 0 1 - 250000000000000 / 1000000000000000) <= 1 / 100000000000.
Proof. exact tref_0. Qed.
Print Assumptions C12_tref_0.

Theorem C12_tref_1 : Rabs (RInt (fun t => / (PI * (1 + t*t))) 0 6.5 - 451410209652471 / 1000000000000000) <= 1 / 100000000000.
Proof. exact tref_1. Qed.
Print Assumptions C12_tref_1.

Theorem C12_tref_2 : Rabs (RInt (fun t => / (2 * sqrt 2 * ((1 + t*t/2) * sqrt (1 + t*t/2)))) 0 0.5 - 166666666666667 / 1000000000000000) <= 1 / 100000000000.
Proof. exact tref_2. Qed.
Print Assumptions C12_tref_2.

Theorem C12_tref_3 : Rabs (RInt (fun t => / (2 * sqrt 2 * ((1 + t*t/2) * sqrt (1 + t*t/2)))) 0 3 - 452267016866645 / 1000000000000000) <= 1 / 100000000000.
Proof. exact tref_3. Qed.
Print Assumptions C12_tref_3.

Theorem C12_tref_4 : Rabs (RInt (fun t => 2 / (PI * sqrt 3 * ((1 + t*t/3) * (1 + t*t/3)))) 0 1 - 304498890522115 / 1000000000000000) <= 1 / 100000000000.
Proof. exact tref_4. Qed.
Print Assumptions C12_tref_4.

Theorem C12_tref_5 : Rabs (RInt (fun t => 2 / (PI * sqrt 3 * ((1 + t*t/3) * (1 + t*t/3)))) 0 4.5 - 489754793827773 / 1000000000000000) <= 1 / 100000000000.
Proof. exact tref_5. Qed.
Print Assumptions C12_tref_5.

Theorem C12_tref_6 : Rabs (RInt (fun t => 3 / (8 * ((1 + t*t/4) * (1 + t*t/4) * sqrt (1 + t*t/4)))) 0 1.5 - 396000000000000 / 1000000000000000) <= 1 / 100000000000.
Proof. exact tref_6. Qed.
Print Assumptions C12_tref_6.

Theorem C12_tref_7 : Rabs (RInt (fun t => 8 / (3 * PI * sqrt 5 * ((1 + t*t/5) * (1 + t*t/5) * (1 + t*t/5)))) 0 2 - 449030260585071 / 1000000000000000) <= 1 / 100000000000.
Proof. exact tref_7. Qed.
Print Assumptions C12_tref_7.

Theorem C12_tref_8 : Rabs (RInt (fun t => 945 / (768 * sqrt 10 * ((1 + t*t/10) * (1 + t*t/10) * (1 + t*t/10) * (1 + t*t/10) * (1 + t*t/10) * sqrt (1 + t*t/10)))) 0 0.75 - 264734002309229 / 1000000000000000) <= 1 / 100000000000.
Proof. exact tref_8. Qed.
Print Assumptions C12_tref_8.

Theorem C12_tref_9 : Rabs (RInt (fun t => 945 / (768 * sqrt 10 * ((1 + t*t/10) * (1 + t*t/10) * (1 + t*t/10) * (1 + t*t/10) * (1 + t*t/10) * sqrt (1 + t*t/10)))) 0 3.25 - 495639753639294 / 1000000000000000) <= 1 / 100000000000.
Proof. exact tref_9. Qed.
Print Assumptions C12_tref_9.

