(** C18 — comparison series depend only on the result set; bootstrap summaries
    are sane; date normalisation.  Statements only; proofs are in
    Proofs/{Series,SeriesPerm,SeriesWitness,Bootstrap,Dates,DatesOrder}.v. *)
From Coq Require Import Permutation.
From Perf Require Import Base.Bytes Base.B64 Model.Dates Model.Bootstrap Model.Series
     Proofs.Dates Proofs.DatesOrder Proofs.Bootstrap Proofs.Series Proofs.SeriesPerm Proofs.SeriesWitness.
Local Open Scope Z_scope.

(** * dates *)
Theorem C18_normalize_same_instant : forall s1 s2 i,
  denotes s1 = Some i -> denotes s2 = Some i ->
  normalize_date s1 = Some (format_instant i) /\ normalize_date s2 = Some (format_instant i).
Proof. exact normalize_same_instant. Qed.
Print Assumptions C18_normalize_same_instant.

Theorem C18_normalize_defined_iff : forall s, normalize_date s <> None <-> denotes s <> None.
Proof. exact normalize_defined_iff. Qed.
Print Assumptions C18_normalize_defined_iff.

(** lexicographic (bytewise) order of normalised strings = chronological order,
    for instants whose UTC year has four digits (0000-01-01T00:00:00Z up to
    9999-12-31T23:59:59.999999999Z) *)
Theorem C18_normalized_sorts_chronologically : forall i1 i2,
  instant_inrange i1 -> instant_inrange i2 ->
  bcmp (format_instant i1) (format_instant i2) = instant_cmp i1 i2.
Proof. exact normalized_sorts_chronologically. Qed.
Print Assumptions C18_normalized_sorts_chronologically.

Theorem C18_normalize_sorts : forall s1 s2 i1 i2 n1 n2,
  denotes s1 = Some i1 -> denotes s2 = Some i2 -> instant_inrange i1 -> instant_inrange i2 ->
  normalize_date s1 = Some n1 -> normalize_date s2 = Some n2 ->
  bcmp n1 n2 = instant_cmp i1 i2.
Proof. exact normalize_sorts. Qed.
Print Assumptions C18_normalize_sorts.

(** distinct instants have distinct normalised strings *)
Theorem C18_normalize_injective : forall i1 i2,
  instant_inrange i1 -> instant_inrange i2 -> format_instant i1 = format_instant i2 -> i1 = i2.
Proof. exact normalize_injective. Qed.
Print Assumptions C18_normalize_injective.

(** * series: one (unit, table), all orders of visiting the maps *)

(** DUPE_REPLACE: among the visits of one cell the one with the latest date wins *)
Theorem C18_replace_latest_wins : forall l, l <> [] ->
  exists w, In w l /\ fold_left (cstep false) l None = Some (new_comp w) /\
            forall c, In c l -> bltb (k_date w) (k_date c) = false.
Proof. exact replace_latest_wins. Qed.
Print Assumptions C18_replace_latest_wins.

(** DUPE_COMBINE: samples of all visits of the cell are concatenated, latest date kept *)
Theorem C18_combine_concat : forall c l,
  fold_left (cstep true) (c :: l) None =
  Some (mkC (concat (map k_num (c :: l))) (concat (map k_den (c :: l)))
            (fold_left later (map k_date l) (k_date c))).
Proof. exact combine_concat. Qed.
Print Assumptions C18_combine_concat.

(** the cell of the table fold is the cell fold over the visits of that cell *)
Theorem C18_fold_cells : forall combine C st b s,
  s_cells (fold_left (step combine) C st) [b; s] =
  fold_left (cstep combine) (filter (at_sk b s) C) (s_cells st [b; s]).
Proof. exact fold_cells. Qed.
Print Assumptions C18_fold_cells.

(** map-order independence: any two orders of visiting (trial, test) pairs of a
    table give the same series (up to sample order in denominator-less cells),
    when a series point has one hash pair and the visits of a cell have
    different dates *)
Theorem C18_series_enum_invariant : forall combine u t bl bl' C C',
  Permutation C C' -> (forall x, In x bl <-> In x bl') ->
  pair_fun C -> (forall b s, dates_inj (filter (at_sk b s) C)) ->
  canon_series (table_out combine u t bl C) = canon_series (table_out combine u t bl' C').
Proof. exact table_enum_invariant. Qed.
Print Assumptions C18_series_enum_invariant.

(** add-order independence of the Builder: same trials, same cells up to value
    order, same baseline hash, when the denominators of a trial carry one hash *)
Theorem C18_builder_perm_invariant : forall rs rs',
  Permutation rs rs' ->
  (forall r r', In r rs -> In r' rs -> is_den r = true -> is_den r' = true ->
                tkey r = tkey r' -> r_dh r = r_dh r') ->
  forall k,
    b_trial (adds rs) k = b_trial (adds rs') k /\
    Permutation (b_den (adds rs) k) (b_den (adds rs') k) /\
    Permutation (b_num (adds rs) k) (b_num (adds rs') k) /\
    b_bh (adds rs) k = b_bh (adds rs') k.
Proof. exact builder_perm_invariant. Qed.
Print Assumptions C18_builder_perm_invariant.

(** the comparison series of a well-formed result set depend on neither the
    order in which results were added nor the order in which the Go maps are
    enumerated (sample order inside denominator-less cells, which the code
    leaves unsorted, is not part of the observable: [canon]) *)
Theorem C18_series_perm_invariant : forall combine rs rs' en en',
  WFset rs -> Permutation rs rs' ->
  valid_enum (adds rs) en -> valid_enum (adds rs') en' ->
  canon (all_comparison_series combine (adds rs) en) =
  canon (all_comparison_series combine (adds rs') en').
Proof. exact series_perm_invariant. Qed.
Print Assumptions C18_series_perm_invariant.

(** valid enumerations exist: the one in order of first insertion, which is the
    one the correspondence run evaluates the model with *)
Theorem C18_first_enum_valid : forall rs, valid_enum (adds rs) (first_enum rs).
Proof. exact first_enum_valid. Qed.
Print Assumptions C18_first_enum_valid.

(** hashToOrder of a result set whose numerator hashes have one series stamp each *)
Theorem C18_hash_to_order : forall rs h, hash_stamp rs ->
  b_h2o (adds rs) [h] = option_map r_ser (find (numh h) rs).
Proof. exact h2o_of. Qed.
Print Assumptions C18_hash_to_order.

(** each clause of WFset is necessary: a permuted order changes the outcome *)
Theorem C18_order_dependent_without_hash_stamp_refuted :
  Permutation wit_a (rev wit_a) /\ out false wit_a <> out false (rev wit_a).
Proof. exact order_dependent_a. Qed.
Theorem C18_order_dependent_without_pair_refuted :
  Permutation wit_b (rev wit_b) /\ out false wit_b <> out false (rev wit_b).
Proof. exact order_dependent_b. Qed.
Theorem C18_order_dependent_without_den_hash_refuted :
  Permutation wit_c (rev wit_c) /\ out false wit_c <> out false (rev wit_c).
Proof. exact order_dependent_c. Qed.
Theorem C18_order_dependent_without_dates_refuted :
  Permutation wit_d (rev wit_d) /\ out false wit_d <> out false (rev wit_d).
Proof. exact order_dependent_d. Qed.
Print Assumptions C18_order_dependent_without_dates_refuted.

(** the unrepaired COMBINE branch dereferences nil on a denominator-less trial
    (repaired by hooks/fix_c18_combine_nil.diff, which the model follows) *)
Theorem C18_combine_nil_refuted : acs_panics true (adds wit_nil) (first_enum wit_nil) = true.
Proof. exact combine_nil_panics_asis. Qed.
Print Assumptions C18_combine_nil_refuted.

(** * bootstrap *)
Theorem C18_bootstrap_ordered : forall nu de conf n stream sorted s0,
  ratio_asis nu de conf n stream = Some (sorted, Some s0) -> summary_no_nan s0 ->
  exists s, ratio nu de conf n stream = Some (sorted, Some s) /\
            s_center s = s_center s0 /\
            b64_le (s_low s) (s_center s) = true /\ b64_le (s_center s) (s_high s) = true.
Proof. exact bootstrap_ordered. Qed.
Print Assumptions C18_bootstrap_ordered.

Theorem C18_bootstrap_reproducible : forall nu de nu' de',
  nu = nu' -> de = de' -> bootstrap_seed nu de = bootstrap_seed nu' de'.
Proof. exact bootstrap_reproducible. Qed.

(** the code as it stood: low > centre (repaired by hooks/fix_c18_percentile.diff) *)
Theorem C18_ordered_refuted :
  exists conf sorted s, summarize_asis conf sorted = Some s /\ b64_le (s_low s) (s_center s) = false.
Proof. exact ordered_refuted_asis. Qed.
Print Assumptions C18_ordered_refuted.

(** known finding: percentile's interpolation leaves the hull by one ulp *)
Theorem C18_percentile_refuted :
  exists a p r, percentile a p = Some r /\ Forall (fun x => x = hd S754_nan a) a /\
                b64_same r (hd S754_nan a) = false.
Proof. exact percentile_in_hull_refuted. Qed.
Print Assumptions C18_percentile_refuted.

(** non-vacuity of the hypotheses *)
Example C18_wfset_example :
  WFset [mk e1 s1 RDen "h" "d" 1; mk e1 s1 RNum "h" "d" 2].
Proof.
  split.
  - intros r r' [<-|[<-|[]]] [<-|[<-|[]]] H1 H2 _; try discriminate H1; try discriminate H2; reflexivity.
  - intros r r' [<-|[<-|[]]] [<-|[<-|[]]] H1 H2 _; try discriminate H1; try discriminate H2; reflexivity.
  - intros r r' s [<-|[<-|[]]] [<-|[<-|[]]] H1 H2 _ _ _ _; try discriminate H1; try discriminate H2;
      split; reflexivity.
  - intros r r' s d [<-|[<-|[]]] [<-|[<-|[]]] H1 H2 _ _ _ _ _ _ _; try discriminate H1; try discriminate H2;
      reflexivity.
Qed.
