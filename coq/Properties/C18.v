(** C18 — comparison series depend only on the result set; bootstrap summaries
    are sane; date normalisation.  Statements only; proofs are in
    Proofs/{Series,SeriesPerm,SeriesWitness,SeriesSpec,SeriesSpelling,SeriesFindings,Bootstrap,BootstrapHull,
    PercentileReal,BootstrapPercentile,Dates,DatesOrder,DatesRange,SeriesHist}.v. *)
From Coq Require Import Permutation Reals.
From Flocq Require Import Core BinarySingleNaN.
From Perf Require Import Base.Bytes Base.B64 Base.Usort Model.Dates Model.Bootstrap Model.BootstrapSpec Model.Series Model.SeriesSpec Model.SeriesFindings
     Model.SeriesHist Proofs.SeriesHist
     Proofs.Dates Proofs.DatesOrder Proofs.DatesRange Proofs.Bootstrap Proofs.Series Proofs.SeriesPerm Proofs.SeriesWitness
     Proofs.SeriesSpec Proofs.SeriesSpelling Proofs.SeriesFindings Proofs.B64Flocq Proofs.LegacyMean Proofs.PercentileReal Proofs.BootstrapHull Proofs.BootstrapPercentile.
Local Open Scope Z_scope.

(** * dates
    [normalize_date] models NormalizeDateString WITH the repair
    hooks/fix_c18_date_year_range.diff (a text whose instant has a UTC year
    outside 0..9999 is rejected); [normalize_date_asis] is the code as it stands *)

(** both accepted formats denoting one instant have one outcome: the same
    string, for an instant of a four-digit UTC year; rejected both, otherwise *)
Theorem C18_normalize_same_instant : forall s1 s2 i,
  denotes s1 = Some i -> denotes s2 = Some i ->
  normalize_date s1 = normalize_date s2 /\
  (year_inrange_b i = true -> normalize_date s1 = Some (format_instant i)).
Proof. exact normalize_same_instant. Qed.
Print Assumptions C18_normalize_same_instant.

Theorem C18_normalize_defined_iff : forall s,
  normalize_date s <> None <-> exists i, denotes s = Some i /\ year_inrange_b i = true.
Proof. exact normalize_defined_iff. Qed.
Print Assumptions C18_normalize_defined_iff.

(** lexicographic (bytewise) order of normalised strings = chronological order,
    for instants whose UTC year has four digits (0000-01-01T00:00:00Z up to
    9999-12-31T23:59:59.999999999Z) *)
Theorem C18_normalized_sorts_chronologically : forall i1 i2,
  instant_inrange i1 -> instant_inrange i2 ->
  bcmp (format_instant i1) (format_instant i2) = instant_cmp i1 i2.
Proof. exact normalized_sorts_chronologically. Qed.
Print Assumptions C18_normalized_sorts_chronologically.

(** ... hence for ALL accepted texts, in either format, without a range
    hypothesis: the normalised strings of two accepted texts compare as their
    instants do *)
Theorem C18_normalize_sorts : forall s1 s2 i1 i2 n1 n2,
  denotes s1 = Some i1 -> denotes s2 = Some i2 ->
  normalize_date s1 = Some n1 -> normalize_date s2 = Some n2 ->
  bcmp n1 n2 = instant_cmp i1 i2.
Proof. exact normalize_sorts_all. Qed.
Print Assumptions C18_normalize_sorts.

(** an accepted text denotes an instant of a four-digit UTC year with a
    nanosecond field in 0..999999999 *)
Theorem C18_normalize_accepted_inrange : forall s n,
  normalize_date s = Some n ->
  exists i, denotes s = Some i /\ instant_inrange i /\ n = format_instant i.
Proof. exact normalize_some_inrange. Qed.
Print Assumptions C18_normalize_accepted_inrange.

(** distinct instants have distinct normalised strings *)
Theorem C18_normalize_injective : forall i1 i2,
  instant_inrange i1 -> instant_inrange i2 -> format_instant i1 = format_instant i2 -> i1 = i2.
Proof. exact normalize_injective. Qed.
Print Assumptions C18_normalize_injective.

Theorem C18_normalize_injective_texts : forall s1 s2 i1 i2 n,
  denotes s1 = Some i1 -> denotes s2 = Some i2 ->
  normalize_date s1 = Some n -> normalize_date s2 = Some n -> i1 = i2.
Proof. exact normalize_injective_all. Qed.
Print Assumptions C18_normalize_injective_texts.

(** the code as it stands violates "normalised strings sort chronologically":
    9999-12-31T23:00:00-05:00 (accepted: four-digit year) normalises to
    10000-01-01T04:00:00+00:00, which sorts BEFORE the string of the earlier
    instant 9999-12-31T23:00:00Z; the repaired code rejects the text *)
Theorem C18_asis_year_10000_sorts_wrongly_refuted :
  let a := bs "9999-12-31T23:00:00-05:00" in
  let b := bs "9999-12-31T23:00:00Z" in
  normalize_date_asis a = Some (bs "10000-01-01T04:00:00+00:00") /\
  normalize_date_asis b = Some (bs "9999-12-31T23:00:00+00:00") /\
  (exists ia ib, denotes a = Some ia /\ denotes b = Some ib /\ instant_cmp ia ib = Gt) /\
  bcmp (bs "10000-01-01T04:00:00+00:00") (bs "9999-12-31T23:00:00+00:00") = Lt /\
  normalize_date a = None.
Proof. exact asis_year_10000. Qed.
Print Assumptions C18_asis_year_10000_sorts_wrongly_refuted.

(** * series: one (unit, table), all orders of visiting the maps *)

(** DUPE_REPLACE: among the visits of one cell the one with the latest date wins *)
Theorem C18_replace_latest_wins : forall l, l <> [] ->
  exists w, In w l /\ fold_left (cstep false) l None = Some (new_comp w) /\
            forall c, In c l -> bltb (k_date w) (k_date c) = false.
Proof. exact replace_latest_wins. Qed.
Print Assumptions C18_replace_latest_wins.

(** DUPE_COMBINE: samples of all visits of the cell are concatenated, latest date kept *)
Theorem C18_combine_concat : forall c l,
  fold_left (cstep true) (c :: l) None =
  Some (mkC (concat (map k_num (c :: l))) (concat (map k_den (c :: l)))
            (fold_left later (map k_date l) (k_date c))).
Proof. exact combine_concat. Qed.
Print Assumptions C18_combine_concat.

(** the cell of the table fold is the cell fold over the visits of that cell *)
Theorem C18_fold_cells : forall combine C st b s,
  s_cells (fold_left (step combine) C st) [b; s] =
  fold_left (cstep combine) (filter (at_sk b s) C) (s_cells st [b; s]).
Proof. exact fold_cells. Qed.
Print Assumptions C18_fold_cells.

(** map-order independence: any two orders of visiting (trial, test) pairs of a
    table give the same series (up to sample order in denominator-less cells),
    when a series point has one hash pair and the visits of a cell have
    different dates *)
Theorem C18_series_enum_invariant : forall combine u t bl bl' C C',
  Permutation C C' -> (forall x, In x bl <-> In x bl') ->
  pair_fun C -> (forall b s, dates_inj (filter (at_sk b s) C)) ->
  canon_series (table_out combine u t bl C) = canon_series (table_out combine u t bl' C').
Proof. exact table_enum_invariant. Qed.
Print Assumptions C18_series_enum_invariant.

(** add-order independence of the Builder: same trials, same cells up to value
    order, same baseline hash, when the denominators of a trial carry one hash *)
Theorem C18_builder_perm_invariant : forall rs rs',
  Permutation rs rs' ->
  (forall r r', In r rs -> In r' rs -> is_den r = true -> is_den r' = true ->
                tkey r = tkey r' -> r_dh r = r_dh r') ->
  forall k,
    b_trial (adds rs) k = b_trial (adds rs') k /\
    Permutation (b_den (adds rs) k) (b_den (adds rs') k) /\
    Permutation (b_num (adds rs) k) (b_num (adds rs') k) /\
    b_bh (adds rs) k = b_bh (adds rs') k.
Proof. exact builder_perm_invariant. Qed.
Print Assumptions C18_builder_perm_invariant.

(** the comparison series of a well-formed result set depend on neither the
    order in which results were added nor the order in which the Go maps are
    enumerated (sample order inside denominator-less cells, which the code
    leaves unsorted, is not part of the observable: [canon]) *)
Theorem C18_series_perm_invariant : forall combine rs rs' en en',
  WFset rs -> Permutation rs rs' ->
  valid_enum (adds rs) en -> valid_enum (adds rs') en' ->
  canon (all_comparison_series combine (adds rs) en) =
  canon (all_comparison_series combine (adds rs') en').
Proof. exact series_perm_invariant. Qed.
Print Assumptions C18_series_perm_invariant.

(** ** the declarative specification (Model/SeriesSpec.v: everything is said
    by filtering the result set) is met by the model for ALL well-formed
    result sets, both policies and every valid enumeration of the Go maps; the
    harness tests the real code against the same [spec_series] *)
Theorem C18_series_meets_spec : forall combine rs en,
  WFset rs -> valid_enum (adds rs) en ->
  canon (all_comparison_series combine (adds rs) en) = spec_series combine rs.
Proof. exact series_meets_spec. Qed.
Print Assumptions C18_series_meets_spec.

(** ** the final pass: both samples of every cell that has a denominator are
    returned SORTED - under DUPE_COMBINE a point measured by several experiments
    whose values interleave carries the sorted multiset, not the concatenation
    of the per-experiment samples (the model's raw output, no [canon]) *)
Theorem C18_final_samples_sorted : forall combine b e l ser c,
  all_comparison_series combine b e = Some l -> In ser l -> In c (se_cells ser) -> oc_den c <> [] ->
  vsort (oc_num c) = oc_num c /\ vsort (oc_den c) = oc_den c.
Proof. exact final_samples_sorted. Qed.
Print Assumptions C18_final_samples_sorted.

(** ** summaries are reproducible across add orders: the bootstrap seed of
    every cell (a function of the sample values IN ORDER; [cell_seed], for a
    cell with a denominator the seed of the samples as returned:
    [C18_cell_seed_raw]) is the same for every add order and map enumeration;
    with the seed, the math/rand stream and hence the whole summary
    ([ratio] is a function of samples, confidence, N and stream) *)
Theorem C18_cell_seed_raw : forall combine b e l ser c,
  all_comparison_series combine b e = Some l -> In ser l -> In c (se_cells ser) -> oc_den c <> [] ->
  cell_seed c = bootstrap_seed (oc_num c) (oc_den c).
Proof. exact cell_seed_raw. Qed.

Theorem C18_seeds_perm_invariant : forall combine rs rs' en en' l l',
  WFset rs -> Permutation rs rs' ->
  valid_enum (adds rs) en -> valid_enum (adds rs') en' ->
  all_comparison_series combine (adds rs) en = Some l ->
  all_comparison_series combine (adds rs') en' = Some l' ->
  seeds l = seeds l'.
Proof. exact seeds_perm_invariant. Qed.
Print Assumptions C18_seeds_perm_invariant.

(** ** spellings of one instant: result sets that differ only in how series
    stamps are spelled (same normalised string: [sp_eqv]) have the same series,
    for every enumeration of the maps - in particular the series string of a
    hash does not depend on which spelling was added first *)
Theorem C18_series_spelling_invariant : forall combine rs rs' e,
  Forall2 sp_eqv rs rs' ->
  all_comparison_series combine (adds rs) e = all_comparison_series combine (adds rs') e.
Proof. exact series_spelling_invariant. Qed.
Print Assumptions C18_series_spelling_invariant.

(** the specification is met, and the series are add-order independent, under
    the weaker well-formedness [WFset_norm]: a numerator hash has one series
    INSTANT (WFset asks for one stamp TEXT); the correspondence run gates on
    its executable form [wf_a_norm && wf_b && wf_c && wf_d] *)
Theorem C18_series_meets_spec_spellings : forall combine rs en,
  WFset_norm rs -> valid_enum (adds rs) en ->
  canon (all_comparison_series combine (adds rs) en) = spec_series combine rs.
Proof. exact series_meets_spec_norm. Qed.
Print Assumptions C18_series_meets_spec_spellings.

Theorem C18_series_perm_invariant_spellings : forall combine rs rs' en en',
  WFset_norm rs -> Permutation rs rs' ->
  valid_enum (adds rs) en -> valid_enum (adds rs') en' ->
  canon (all_comparison_series combine (adds rs) en) =
  canon (all_comparison_series combine (adds rs') en').
Proof. exact series_perm_invariant_norm. Qed.
Print Assumptions C18_series_perm_invariant_spellings.

Theorem C18_wfset_norm_b_sound : forall rs,
  wf_a_norm rs && wf_b rs && wf_c rs && wf_d rs = true -> WFset_norm rs.
Proof. exact wfset_norm_b_sound. Qed.

Theorem C18_wfset_is_norm : forall rs, WFset rs -> WFset_norm rs.
Proof. exact WFset_is_norm. Qed.

(** non-vacuity: one hash whose two numerators spell its series instant
    differently (compact layout, +00:00 with a zero fraction) is in WFset_norm
    but not in WFset, and gives ONE series point in either add order *)
Example C18_spellings_example :
  let rs := [mk e1 s1 RDen "h" "d" 1; mk e1 s1 RNum "h" "d" 2;
             mk e1 (bs "2021-12-01T00:00:00.000+00:00") RNum "h" "d" 3] in
  WFset_norm rs /\ ~ WFset rs /\
  canon (all_comparison_series true (adds rs) (first_enum rs)) = spec_series true rs /\
  canon (all_comparison_series true (adds (rev rs)) (first_enum (rev rs))) = spec_series true rs /\
  option_map (map se_series) (spec_series true rs) = Some [[bs "2021-12-01T00:00:00+00:00"]].
Proof.
  cbv zeta. split; [apply wfset_norm_b_sound; vm_compute; reflexivity|].
  split; [|repeat split; vm_compute; reflexivity].
  intros [H _ _ _].
  specialize (H (mk e1 s1 RNum "h" "d" 2) (mk e1 (bs "2021-12-01T00:00:00.000+00:00") RNum "h" "d" 3)).
  cbn in H. specialize (H (or_intror (or_introl eq_refl)) (or_intror (or_intror (or_introl eq_refl))) eq_refl eq_refl eq_refl).
  vm_compute in H. discriminate H.
Qed.

(** the i-th series is that of the i-th (unit, table) pair in sorted order *)
Theorem C18_series_units : forall combine rs en l,
  WFset rs -> valid_enum (adds rs) en ->
  canon (all_comparison_series combine (adds rs) en) = Some l ->
  map se_unit l = map (fun ut => ustring (fst ut) (snd ut))
                      (usort cmp2 (map (fun r => (r_unit r, r_table r)) rs)).
Proof. exact series_units. Qed.

(** sample membership: the numerator samples of a series point are EXACTLY
    (with multiplicities) the measurements whose role is numerator and whose
    unit, table, benchmark and normalised series stamp match - under REPLACE
    also the normalised experiment date (the latest) -; the denominator
    samples are exactly the denominator measurements of the same unit, table
    and benchmark whose experiment is the experiment of a matching numerator
    ([num_matches], [den_matches]: Model/SeriesSpec.v).  The table is
    identified by its position because the label [ustring u t] is not
    injective (a unit may contain a space). *)
Theorem C18_sample_membership : forall combine rs en l i ser u t cell,
  WFset rs -> valid_enum (adds rs) en ->
  canon (all_comparison_series combine (adds rs) en) = Some l ->
  nth_error l i = Some ser ->
  nth_error (usort cmp2 (map (fun r => (r_unit r, r_table r)) rs)) i = Some (u, t) ->
  In cell (se_cells ser) ->
  Permutation (oc_num cell) (map r_val (filter (num_matches combine u t cell) rs)) /\
  Permutation (oc_den cell) (map r_val (filter (den_matches combine u t cell rs) rs)).
Proof. exact sample_membership. Qed.
Print Assumptions C18_sample_membership.

Theorem C18_sample_membership_in : forall combine rs en l ser,
  WFset rs -> valid_enum (adds rs) en ->
  canon (all_comparison_series combine (adds rs) en) = Some l ->
  In ser l ->
  exists u t, In (u, t) (map (fun r => (r_unit r, r_table r)) rs) /\ se_unit ser = ustring u t /\
    forall cell, In cell (se_cells ser) ->
      Permutation (oc_num cell) (map r_val (filter (num_matches combine u t cell) rs)) /\
      Permutation (oc_den cell) (map r_val (filter (den_matches combine u t cell rs) rs)).
Proof. exact sample_membership_in. Qed.

(** the executable well-formedness test of the harness is sound for WFset *)
Theorem C18_wfset_b_sound : forall rs, wf_a rs && wf_b rs && wf_c rs && wf_d rs = true -> WFset rs.
Proof. exact wfset_b_sound. Qed.

(** non-vacuity: an 11-result set (2 tables, 3 benchmarks, 2 experiments, 2
    series points) is well-formed and its series are computed *)
Example C18_series_spec_example :
  WFset Ex.rs /\ spec_series false Ex.rs = Some ex_replace /\ spec_series true Ex.rs = Some ex_combine.
Proof. split; [exact ex_wf|exact ex_spec]. Qed.

(** valid enumerations exist: the one in order of first insertion, which is the
    one the correspondence run evaluates the model with *)
Theorem C18_first_enum_valid : forall rs, valid_enum (adds rs) (first_enum rs).
Proof. exact first_enum_valid. Qed.
Print Assumptions C18_first_enum_valid.

(** hashToOrder of a result set whose numerator hashes have one series stamp each *)
Theorem C18_hash_to_order : forall rs h, hash_stamp rs ->
  b_h2o (adds rs) [h] = option_map r_ser (find (numh h) rs).
Proof. exact h2o_of. Qed.
Print Assumptions C18_hash_to_order.

(** each clause of WFset is necessary: a permuted order changes the outcome *)
Theorem C18_order_dependent_without_hash_stamp_refuted :
  Permutation wit_a (rev wit_a) /\ out false wit_a <> out false (rev wit_a).
Proof. exact order_dependent_a. Qed.
Theorem C18_order_dependent_without_pair_refuted :
  Permutation wit_b (rev wit_b) /\ out false wit_b <> out false (rev wit_b).
Proof. exact order_dependent_b. Qed.
Theorem C18_order_dependent_without_den_hash_refuted :
  Permutation wit_c (rev wit_c) /\ out false wit_c <> out false (rev wit_c).
Proof. exact order_dependent_c. Qed.
Theorem C18_order_dependent_without_dates_refuted :
  Permutation wit_d (rev wit_d) /\ out false wit_d <> out false (rev wit_d).
Proof. exact order_dependent_d. Qed.
Print Assumptions C18_order_dependent_without_dates_refuted.

(** these four are the refuting witnesses of the known findings
    C18_series_hash_two_stamps (a), C18_series_point_two_hash_pairs (b),
    C18_series_trial_two_baseline_hashes (c) and
    C18_series_same_instant_two_experiments (d): the property quantifies over
    ALL result sets, so each is a deviation of the code, recorded in
    known_findings.json; the judge compares every set with [spec_series] and
    the relaxed judge leaves out exactly the places [excuses]
    (Model/SeriesFindings.v) names *)

(** finding (b), DUPE_COMBINE, independent of any order: two numerator hashes
    of one trial at one series point - the single baseline measurement is
    counted twice *)
Theorem C18_combine_counts_baseline_twice_refuted :
  option_map (map (fun s => map oc_den (se_cells s))) (out true wit_b2) = Some [[[10; 10]]] /\
  option_map (map (fun s => map oc_den (se_cells s))) (spec_series true wit_b2) = Some [[[10]]] /\
  option_map (map (fun s => map oc_num (se_cells s))) (out true wit_b2) = Some [[[1; 2]]].
Proof. exact combine_counts_baseline_twice. Qed.
Print Assumptions C18_combine_counts_baseline_twice_refuted.

(** what the relaxed judge leaves out on the witnesses (per table: series
    points entirely / hash pairs / denominator hashes / cells), nothing on a
    well-formed set, and nothing in a well-formed table next to an ill-formed one *)
Theorem C18_excuses_on_witnesses :
  excuses true false wit_a = [mkEx [n1; n2] [] [] []] /\
  excuses true false wit_b2 = [mkEx [] [n1; n1] [] [(bs "A", n1); (bs "A", n1)]] /\
  excuses true false wit_c = [mkEx [] [] [n1] []] /\
  excuses true false wit_d = [mkEx [] [] [] [(bs "A", n1); (bs "A", n1)]] /\
  excuses true true wit_d = [ex_none] /\
  excuses false false wit_a = [ex_none].
Proof. exact excuses_on_witnesses. Qed.

Theorem C18_excuses_none_on_example :
  wf_a_norm Ex.rs && wf_b Ex.rs && wf_c Ex.rs && wf_d Ex.rs = true /\
  forallb ex_empty (excuses true false Ex.rs) = true /\ forallb ex_empty (excuses true true Ex.rs) = true /\
  exA_err Ex.rs (bad_hashes Ex.rs) = false.
Proof. exact excuses_none_on_example. Qed.

Theorem C18_excuses_per_table :
  excuses true false wit_two_tables = [mkEx [] [] [n1] []; ex_none].
Proof. exact excuses_per_table. Qed.
Print Assumptions C18_excuses_per_table.

(** the unrepaired COMBINE branch dereferences nil on a denominator-less trial
    (repaired by hooks/fix_c18_combine_nil.diff, which the model follows) *)
Theorem C18_combine_nil_refuted : acs_panics true (adds wit_nil) (first_enum wit_nil) = true.
Proof. exact combine_nil_panics_asis. Qed.
Print Assumptions C18_combine_nil_refuted.

(** * bootstrap *)
Theorem C18_bootstrap_ordered : forall nu de conf n stream sorted s0,
  ratio_asis nu de conf n stream = Some (sorted, Some s0) -> summary_no_nan s0 ->
  exists s, ratio nu de conf n stream = Some (sorted, Some s) /\
            s_center s = s_center s0 /\
            b64_le (s_low s) (s_center s) = true /\ b64_le (s_center s) (s_high s) = true.
Proof. exact bootstrap_ordered. Qed.
Print Assumptions C18_bootstrap_ordered.

Theorem C18_bootstrap_reproducible : forall nu de nu' de',
  nu = nu' -> de = de' -> bootstrap_seed nu de = bootstrap_seed nu' de'.
Proof. exact bootstrap_reproducible. Qed.

(** ** the hull of attainable ratios (positive samples)
    [hull_lo nu de] = min num / max den, [hull_hi nu de] = max num / min den in
    binary64; [pos_sample]: canonical, finite, > 0 (subnormals included);
    [intn_stream]: every replayed index is one r.Intn(len) can return;
    [hull_guard] (Model/BootstrapSpec.v) is the exact no-overflow guard:
    (a) for a sample of even size the sum of two copies of its maximum is
    finite (the resampled median forms a + b before halving), (b) the upper
    hull bound max num / min den is finite, (c) for even N the sum of two
    copies of it is finite (median of the ratios).  There is NO underflow
    condition: the lower bound may be subnormal or zero. *)
Theorem C18_bootstrap_centre_in_hull : forall nu de conf n stream sorted s,
  nu <> [] -> de <> [] -> n <> O ->
  forallb pos_sample nu = true -> forallb pos_sample de = true ->
  intn_stream n (length nu) (length de) stream = true ->
  hull_guard nu de n = true ->
  ratio nu de conf n stream = Some (sorted, Some s) ->
  b64_le (hull_lo nu de) (s_center s) = true /\ b64_le (s_center s) (hull_hi nu de) = true.
Proof. exact bootstrap_centre_in_hull. Qed.
Print Assumptions C18_bootstrap_centre_in_hull.

(** every one of the N bootstrap ratios lies in the hull *)
Theorem C18_bootstrap_ratios_in_hull : forall nu de conf n stream sorted o,
  nu <> [] -> de <> [] -> n <> O ->
  forallb pos_sample nu = true -> forallb pos_sample de = true ->
  intn_stream n (length nu) (length de) stream = true ->
  hull_guard nu de n = true ->
  ratio nu de conf n stream = Some (sorted, o) ->
  length sorted = n /\
  Forall (fun r => b64_le (hull_lo nu de) r = true /\ b64_le r (hull_hi nu de) = true) sorted.
Proof. exact bootstrap_ratios_in_hull. Qed.

(** the guard is necessary: nu = {MaxFloat64, MaxFloat64}, de = {1}, N = 1: the
    resampled median (M + M) / 2 is +Inf, outside the finite hull.  All
    measurements are positive and finite, so this is a deviation from the
    property: the refuting witness of known finding C18_median_sum_overflow *)
Theorem C18_centre_in_hull_needs_guard :
  let nu := [f_max; f_max] in let de := [b64_one] in
  forallb pos_sample nu = true /\ forallb pos_sample de = true /\
  intn_stream 1 2 1 [0; 1; 0] = true /\ hull_guard nu de 1 = false /\
  exists sorted s, ratio nu de (b64_div b64_one b64_two) 1 [0; 1; 0] = Some (sorted, Some s) /\
                   b64_le (s_center s) (hull_hi nu de) = false.
Proof. exact centre_in_hull_needs_guard. Qed.

(** ** the known finding quantified: what percentile's interpolation
    RN(RN(r * RN(1-x)) + RN(a[i+1] * x)) can do.  [val] is the real value of a
    finite float64, [ulp64] Flocq's unit in the last place of binary64
    (ulp64 0 = 2^-1074).  On any non-empty vector (fewer than 2^53 entries) of
    values within [m, M], 0 <= m, a finite result v of percentile satisfies
    m - 2 ulp(m) < v <= M + ulp(M); the only other result is +Inf (overflow of
    the final addition, possible only for M = MaxFloat64). *)
Theorem C18_percentile_bounds : forall (m M : Rdefinitions.R) a (P : Bf) v,
  a <> [] -> Z.of_nat (length a) < 2 ^ 53 -> Forall (inR m M) a -> F64 m -> F64 M -> (0 <= m)%R ->
  percentile a (B2SF P) = Some v ->
  exists V : Bf, v = B2SF V /\
    (is_finite V = true -> (m - 2 * ulp64 m < B2R V <= M + ulp64 M)%R) /\
    (is_finite V = false -> B2SF V = S754_infinity false).
Proof. exact percentile_bounds. Qed.
Print Assumptions C18_percentile_bounds.

(** low and high of the repaired summary of ANY vector of non-negative finite
    ratios: at most one ulp above the largest ratio, less than two ulps below
    the smallest, and ordered around the centre.  Guards: [even_guard] (median
    of an even number of ratios) and finiteness of the returned high (can fail
    only when the largest ratio is MaxFloat64; an overflowing low is +Inf and
    is clamped to the centre, so low needs no guard). *)
Theorem C18_summary_low_high_near_range : forall conf sorted s,
  valid conf = true -> sorted <> [] -> Z.of_nat (length sorted) < 2 ^ 53 ->
  forallb nonneg_finite sorted = true ->
  even_guard (length sorted) (fmax sorted) = true ->
  summarize conf sorted = Some s ->
  b64_is_finite (s_high s) = true ->
  let rmin := val (fmin sorted) in let rmax := val (fmax sorted) in
  (rmin - 2 * ulp64 rmin < val (s_low s) <= rmax + ulp64 rmax)%R /\
  (rmin - 2 * ulp64 rmin < val (s_high s) <= rmax + ulp64 rmax)%R /\
  b64_le (s_low s) (s_center s) = true /\ b64_le (s_center s) (s_high s) = true.
Proof. exact summary_low_high_near_range. Qed.

(** positive samples: low and high lie in the hull widened by that rounding
    error, and low <= centre <= high *)
Theorem C18_bootstrap_low_high_in_hull_up_to_one_ulp : forall nu de conf n stream sorted s,
  nu <> [] -> de <> [] -> n <> O -> Z.of_nat n < 2 ^ 53 ->
  forallb pos_sample nu = true -> forallb pos_sample de = true ->
  valid conf = true ->
  intn_stream n (length nu) (length de) stream = true ->
  hull_guard nu de n = true ->
  ratio nu de conf n stream = Some (sorted, Some s) ->
  b64_is_finite (s_high s) = true ->
  let lo := val (hull_lo nu de) in let hi := val (hull_hi nu de) in
  (lo - 2 * ulp64 lo < val (s_low s) <= hi + ulp64 hi)%R /\
  (lo - 2 * ulp64 lo < val (s_high s) <= hi + ulp64 hi)%R /\
  b64_le (s_low s) (s_center s) = true /\ b64_le (s_center s) (s_high s) = true.
Proof. exact bootstrap_low_high_in_hull_up_to_one_ulp. Qed.
Print Assumptions C18_bootstrap_low_high_in_hull_up_to_one_ulp.

(** ... and, more sharply, in the range [rmin, rmax] of the bootstrap ratios
    themselves (which is inside the hull) widened by the same error *)
Theorem C18_bootstrap_low_high_near_ratio_range : forall nu de conf n stream sorted s,
  nu <> [] -> de <> [] -> n <> O -> Z.of_nat n < 2 ^ 53 ->
  forallb pos_sample nu = true -> forallb pos_sample de = true ->
  valid conf = true ->
  intn_stream n (length nu) (length de) stream = true ->
  hull_guard nu de n = true ->
  ratio nu de conf n stream = Some (sorted, Some s) ->
  b64_is_finite (s_high s) = true ->
  let rmin := val (fmin sorted) in let rmax := val (fmax sorted) in
  (val (hull_lo nu de) <= rmin)%R /\ (rmax <= val (hull_hi nu de))%R /\
  (rmin - 2 * ulp64 rmin < val (s_low s) <= rmax + ulp64 rmax)%R /\
  (rmin - 2 * ulp64 rmin < val (s_high s) <= rmax + ulp64 rmax)%R.
Proof. exact bootstrap_low_high_near_ratio_range. Qed.

(** the rounding analysis behind it (pure real numbers, binary64 format) *)
Theorem C18_interp_upper : forall M r s x : Rdefinitions.R,
  F64 M -> (0 <= r <= M)%R -> (0 <= s <= M)%R -> (0 <= x <= 1)%R ->
  (RN (RN (r * RN (1 - x)) + RN (s * x)) <= M + ulp64 M)%R.
Proof. exact interp_upper. Qed.
Theorem C18_interp_lower : forall m r s x : Rdefinitions.R,
  F64 m -> (0 <= m)%R -> (m <= r)%R -> (m <= s)%R -> (0 <= x <= 1)%R ->
  (m - 2 * ulp64 m < RN (RN (r * RN (1 - x)) + RN (s * x)))%R.
Proof. exact interp_lower. Qed.

(** non-vacuity: nu = {1,2,3}, de = {3,4,5}, confidence 0.95, N = 4 *)
Example C18_hull_example :
  let f z := b64_of_Z z in
  let nu := [f 1; f 2; f 3] in let de := [f 3; f 4; f 5] in
  let conf := b64_div (f 95) (f 100) in
  let stream := [0; 1; 2; 2; 1; 0; 1; 1; 2; 0; 0; 1; 2; 2; 2; 1; 1; 0; 0; 0; 1; 2; 1; 0] in
  forallb pos_sample nu = true /\ forallb pos_sample de = true /\ valid conf = true /\
  intn_stream 4 3 3 stream = true /\ hull_guard nu de 4 = true /\
  exists sorted s, ratio nu de conf 4 stream = Some (sorted, Some s) /\ summary_finite s = true /\
                   forallb nonneg_finite sorted = true /\ even_guard (length sorted) (fmax sorted) = true.
Proof.
  cbv zeta. repeat (split; [vm_compute; reflexivity|]).
  eexists. eexists. split; [vm_compute; reflexivity|]. repeat split; vm_compute; reflexivity.
Qed.

(** the code as it stood: low > centre (repaired by hooks/fix_c18_percentile.diff) *)
Theorem C18_ordered_refuted :
  exists conf sorted s, summarize_asis conf sorted = Some s /\ b64_le (s_low s) (s_center s) = false.
Proof. exact ordered_refuted_asis. Qed.
Print Assumptions C18_ordered_refuted.

(** known finding: percentile's interpolation leaves the hull by one ulp *)
Theorem C18_percentile_refuted :
  exists a p r, percentile a p = Some r /\ Forall (fun x => x = hd S754_nan a) a /\
                b64_same r (hd S754_nan a) = false.
Proof. exact percentile_in_hull_refuted. Qed.
Print Assumptions C18_percentile_refuted.

(** non-vacuity of the hypotheses *)
Example C18_wfset_example :
  WFset [mk e1 s1 RDen "h" "d" 1; mk e1 s1 RNum "h" "d" 2].
Proof.
  split.
  - intros r r' [<-|[<-|[]]] [<-|[<-|[]]] H1 H2 _; try discriminate H1; try discriminate H2; reflexivity.
  - intros r r' [<-|[<-|[]]] [<-|[<-|[]]] H1 H2 _; try discriminate H1; try discriminate H2; reflexivity.
  - intros r r' s [<-|[<-|[]]] [<-|[<-|[]]] H1 H2 _ _ _ _; try discriminate H1; try discriminate H2;
      split; reflexivity.
  - intros r r' s d [<-|[<-|[]]] [<-|[<-|[]]] H1 H2 _ _ _ _ _ _ _; try discriminate H1; try discriminate H2;
      reflexivity.
Qed.

(** * one builder used incrementally (Model/SeriesHist.v)

    AllComparisonSeries leaves the builder unchanged up to the order of the
    values inside its cells (it sorts slices it shares with the builder);
    [cells_reordered] over-approximates that side effect. *)

(** Builder.Add respects it: adding the same result to two builders whose cells
    hold the same values in some order gives two such builders *)
Theorem C18_add_respects_cell_order : forall b b' r,
  cells_reordered b b' -> cells_reordered (add b r) (add b' r).
Proof. exact add_reordered. Qed.
Print Assumptions C18_add_respects_cell_order.

(** a build does not see the order of the values inside the builder's cells *)
Theorem C18_build_ignores_cell_order : forall combine b b' e,
  cells_reordered b b' ->
  canon (all_comparison_series combine b e) = canon (all_comparison_series combine b' e).
Proof. exact build_reordered. Qed.
Print Assumptions C18_build_ignores_cell_order.

(** every build of ANY history of Add / AllComparisonSeries on one builder
    returns what a fresh builder over the results added so far returns *)
Theorem C18_history_as_fresh : forall b ops outs, hrun b ops outs ->
  forall acc, cells_reordered (adds acc) b -> map canon outs = map canon (fresh_outs acc ops).
Proof. exact hist_as_fresh. Qed.
Print Assumptions C18_history_as_fresh.

(** Add rs1, build, Add rs2 (into cells already handed out), build again: the
    second result is that of a fresh builder over rs1 ++ rs2 - hence, for a
    well-formed set, the declarative series of rs1 ++ rs2 (C18_series_meets_spec) *)
Theorem C18_second_build_as_fresh : forall rs1 rs2 c1 e1 c2 e2 o1 o2,
  hrun b_empty (map HAdd rs1 ++ HBuild c1 e1 :: map HAdd rs2 ++ [HBuild c2 e2]) [o1; o2] ->
  canon o1 = canon (all_comparison_series c1 (adds rs1) e1) /\
  canon o2 = canon (all_comparison_series c2 (adds (rs1 ++ rs2)) e2).
Proof. exact second_build_as_fresh. Qed.
Print Assumptions C18_second_build_as_fresh.

Theorem C18_second_build_meets_spec : forall rs1 rs2 c1 e1 c2 e2 o1 o2,
  hrun b_empty (map HAdd rs1 ++ HBuild c1 e1 :: map HAdd rs2 ++ [HBuild c2 e2]) [o1; o2] ->
  WFset (rs1 ++ rs2) -> valid_enum (adds (rs1 ++ rs2)) e2 ->
  canon o2 = spec_series c2 (rs1 ++ rs2).
Proof. exact second_build_meets_spec. Qed.
Print Assumptions C18_second_build_meets_spec.

(** non-vacuity: such a history exists (the in-place sort modelled as the identity reordering) *)
Example C18_history_example :
  let rs1 := [mk e1 s1 RDen "h" "d" 3; mk e1 s1 RNum "h" "d" 2] in
  let rs2 := [mk e1 s1 RNum "h" "d" 1] in
  exists o1 o2,
    hrun b_empty (map HAdd rs1 ++ HBuild false (first_enum rs1) :: map HAdd rs2 ++ [HBuild true (first_enum (rs1 ++ rs2))]) [o1; o2].
Proof.
  cbn [map app]. eexists _, _.
  apply hr_add, hr_add. eapply hr_build; [apply cr_refl|].
  apply hr_add. eapply hr_build; [apply cr_refl|]. apply hr_nil.
Qed.
