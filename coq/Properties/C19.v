(** C19 — Stored results come back exactly, and queries mean what they say.
    Statements only; proofs are in Proofs/Words.v and Proofs/Query.v.
    Trusted, not modelled: SQLite's evaluation of the generated SQL (joins,
    BINARY collation = bytewise comparison of TEXT); the per-part WHERE clauses
    are modelled by [Query.sql_value_cond] / [Query.part_selects] and tied to
    the implementation by the correspondence run only. *)
From Perf Require Import Base.Bytes Model.Words Model.Query Proofs.Words Proofs.Query.

(** several terms on one key, merged left to right as parseQuery does, mean
    their conjunction — on every non-empty label value (None = io.EOF = never) *)
Theorem C19_merge_is_conjunction : forall p ps (v : bytes),
  v <> [] -> holds_opt (merge_all (p :: ps)) v = forallb (fun q => holds q v) (p :: ps).
Proof. exact merge_is_conjunction. Qed.
Print Assumptions C19_merge_is_conjunction.

Theorem C19_merge_two_is_conjunction : forall p p2 (v : bytes),
  v <> [] -> holds_opt (merge p p2) v = holds p v && holds p2 v.
Proof. exact merge_two_conj. Qed.
Print Assumptions C19_merge_two_is_conjunction.

(** the hypothesis v <> "" is needed: key>"" is simplified to "the label exists" *)
Theorem C19_merge_conjunction_empty_value_refuted :
  exists p p2, holds_opt (merge p p2) [] <> (holds p [] && holds p2 []).
Proof. exact merge_conj_needs_nonempty. Qed.
Print Assumptions C19_merge_conjunction_empty_value_refuted.

(** io.EOF is only reported for a conjunction no value satisfies *)
Theorem C19_eof_implies_unsat : forall p ps,
  merge_all (p :: ps) = None ->
  forall v, v <> [] -> forallb (fun q => holds q v) (p :: ps) = false.
Proof. exact eof_implies_unsat. Qed.
Print Assumptions C19_eof_implies_unsat.

(** ... and a conjunction is unsatisfiable exactly when EOF is reported or the
    merged part has a degenerate shape: k:"", k<"", k<"\x00", an empty range or
    the one-point gap lo < x < lo++"\x00" (bytewise strings are not dense) *)
Theorem C19_eof_iff_unsat : forall p ps,
  (forall v, v <> [] -> forallb (fun q => holds q v) (p :: ps) = false)
  <-> (merge_all (p :: ps) = None
       \/ exists m, merge_all (p :: ps) = Some m /\ unsat_shape m = true).
Proof. exact eof_iff_unsat. Qed.
Print Assumptions C19_eof_iff_unsat.

Theorem C19_unsat_shape_exact : forall p,
  unsat_shape p = true <-> (forall v, v <> [] -> holds p v = false).
Proof. exact unsat_shape_spec. Qed.
Print Assumptions C19_unsat_shape_exact.

(** a word quoted by the front end's query builder splits back into that word *)
Theorem C19_splitwords_quote : forall w, w <> [] -> split_words (quote_word w) = [w].
Proof. exact splitwords_quote. Qed.
Print Assumptions C19_splitwords_quote.

(** ... also in front of the rest of a query *)
Theorem C19_splitwords_quote_then : forall w q,
  w <> [] -> split_words (quote_word w ++ w_space :: q) = w :: split_words q.
Proof. exact splitwords_quote_then. Qed.
Print Assumptions C19_splitwords_quote_then.

(** a whole query built from quoted words splits back into exactly those words *)
Theorem C19_splitwords_built_query : forall ws,
  Forall (fun w => w <> []) ws -> split_words (join_sp (map quote_word ws)) = ws.
Proof. exact splitwords_built_query. Qed.
Print Assumptions C19_splitwords_built_query.

(** addToQuery as written (with its "|" separator) *)
Theorem C19_splitwords_add_to_query : forall query add,
  add <> [] ->
  split_words (add_to_query query add) =
  add :: (if existsb (Byte.eqb w_bar) query then [] else [[w_bar]]) ++ split_words query.
Proof. exact splitwords_add_to_query. Qed.
Print Assumptions C19_splitwords_add_to_query.

Theorem C19_splitwords_no_empty_word : forall q, Forall (fun w => w <> []) (split_words q).
Proof. exact splitwords_no_empty_word. Qed.
Print Assumptions C19_splitwords_no_empty_word.

(** non-vacuity: concrete instances *)
Example C19_example_merge :
  let k := bs "k" in
  merge_all [mkPart k OpGt (bs "a") []; mkPart k OpLt (bs "c") []; mkPart k OpEq (bs "b") []]
    = Some (mkPart k OpEq (bs "b") [])
  /\ merge_all [mkPart k OpEq (bs "a") []; mkPart k OpEq (bs "b") []] = None
  /\ (exists m, merge_all [mkPart k OpGt (bs "a") []; mkPart k OpLt (bs "a" ++ [c_nul]) []] = Some m
                /\ unsat_shape m = true)
  /\ holds (mkPart k OpLtGt (bs "c") (bs "a")) (bs "b") = true.
Proof. repeat split; try reflexivity. eexists; split; reflexivity. Qed.

Example C19_example_quote :
  quote_word (bs "k:a ""b"" \c") = bs """k:a \""b\"" \\c"""
  /\ split_words (bs """k:a \""b\"" \\c"" | x:y") = [bs "k:a ""b"" \c"; bs "|"; bs "x:y"]
  /\ bs "k:a ""b"" \c" <> [].
Proof. repeat split; try reflexivity. discriminate. Qed.
