(** C19 — Stored results come back exactly, and queries mean what they say.
    Statements only; proofs are in Proofs/Words.v and Proofs/Query.v.
    Trusted, not modelled: SQLite's evaluation of the generated SQL (joins,
    BINARY collation = bytewise comparison of TEXT); the per-part WHERE clauses
    are modelled by [Query.sql_value_cond] / [Query.part_selects] and tied to
    the implementation by the correspondence run only. *)
From Perf Require Import Base.Bytes Model.Words Model.Query Model.StoreFmt Proofs.Words Proofs.Query
     Proofs.StoreFmt Proofs.QueryDb.

(** several terms on one key, merged left to right as parseQuery does, mean
    their conjunction — on every non-empty label value (None = io.EOF = never) *)
Theorem C19_merge_is_conjunction : forall p ps (v : bytes),
  v <> [] -> holds_opt (merge_all (p :: ps)) v = forallb (fun q => holds q v) (p :: ps).
Proof. exact merge_is_conjunction. Qed.
Print Assumptions C19_merge_is_conjunction.

Theorem C19_merge_two_is_conjunction : forall p p2 (v : bytes),
  v <> [] -> holds_opt (merge p p2) v = holds p v && holds p2 v.
Proof. exact merge_two_conj. Qed.
Print Assumptions C19_merge_two_is_conjunction.

(** the hypothesis v <> "" is needed: key>"" is simplified to "the label exists" *)
Theorem C19_merge_conjunction_empty_value_refuted :
  exists p p2, holds_opt (merge p p2) [] <> (holds p [] && holds p2 []).
Proof. exact merge_conj_needs_nonempty. Qed.
Print Assumptions C19_merge_conjunction_empty_value_refuted.

(** io.EOF is only reported for a conjunction no value satisfies *)
Theorem C19_eof_implies_unsat : forall p ps,
  merge_all (p :: ps) = None ->
  forall v, v <> [] -> forallb (fun q => holds q v) (p :: ps) = false.
Proof. exact eof_implies_unsat. Qed.
Print Assumptions C19_eof_implies_unsat.

(** ... and a conjunction is unsatisfiable exactly when EOF is reported or the
    merged part has a degenerate shape: k:"", k<"", k<"\x00", an empty range or
    the one-point gap lo < x < lo++"\x00" (bytewise strings are not dense) *)
Theorem C19_eof_iff_unsat : forall p ps,
  (forall v, v <> [] -> forallb (fun q => holds q v) (p :: ps) = false)
  <-> (merge_all (p :: ps) = None
       \/ exists m, merge_all (p :: ps) = Some m /\ unsat_shape m = true).
Proof. exact eof_iff_unsat. Qed.
Print Assumptions C19_eof_iff_unsat.

Theorem C19_unsat_shape_exact : forall p,
  unsat_shape p = true <-> (forall v, v <> [] -> holds p v = false).
Proof. exact unsat_shape_spec. Qed.
Print Assumptions C19_unsat_shape_exact.

(** a word quoted by the front end's query builder splits back into that word *)
Theorem C19_splitwords_quote : forall w, w <> [] -> split_words (quote_word w) = [w].
Proof. exact splitwords_quote. Qed.
Print Assumptions C19_splitwords_quote.

(** ... also in front of the rest of a query *)
Theorem C19_splitwords_quote_then : forall w q,
  w <> [] -> split_words (quote_word w ++ w_space :: q) = w :: split_words q.
Proof. exact splitwords_quote_then. Qed.
Print Assumptions C19_splitwords_quote_then.

(** a whole query built from quoted words splits back into exactly those words *)
Theorem C19_splitwords_built_query : forall ws,
  Forall (fun w => w <> []) ws -> split_words (join_sp (map quote_word ws)) = ws.
Proof. exact splitwords_built_query. Qed.
Print Assumptions C19_splitwords_built_query.

(** addToQuery as written (with its "|" separator) *)
Theorem C19_splitwords_add_to_query : forall query add,
  add <> [] ->
  split_words (add_to_query query add) =
  add :: (if existsb (Byte.eqb w_bar) query then [] else [[w_bar]]) ++ split_words query.
Proof. exact splitwords_add_to_query. Qed.
Print Assumptions C19_splitwords_add_to_query.

Theorem C19_splitwords_no_empty_word : forall q, Forall (fun w => w <> []) (split_words q).
Proof. exact splitwords_no_empty_word. Qed.
Print Assumptions C19_splitwords_no_empty_word.

(** ** printer / reader round trip (stretch) *)

(** Printer, then Reader, on ANY sequence of well-formed results gives the same
    results: labels as maps, name labels, content lines verbatim, each once, in
    order. [wf_result]: labels sorted with distinct keys, every key one the key
    scanner accepts ([key_ok]), every value non-empty without leading blank, no
    LF and — the exclusion the known finding C19_trailing_cr_lost forces — no
    value or line ending in CR; the line is a benchmark line with a non-empty
    name whose name labels the result carries. *)
Theorem C19_printer_reader_roundtrip : forall rs,
  Forall wf_result rs -> Forall2 res_same (read_plain (print_all [] rs)) rs.
Proof. exact printer_reader_roundtrip. Qed.
Print Assumptions C19_printer_reader_roundtrip.

(** the Content blob of a coalesced record (first result printed afresh, then
    the bare lines InsertRecord appends) is what one printer writes for the group *)
Theorem C19_coalesced_content : forall r rs,
  ksorted (r_labels r) -> (forall k v, In (k, v) (r_labels r) -> v <> []) ->
  Forall (fun x => r_labels x = r_labels r) rs ->
  print_all [] (r :: rs) = print_one [] r ++ concat (map (fun x => r_content x ++ [c_lf]) rs).
Proof. exact coalesced_content. Qed.
Print Assumptions C19_coalesced_content.

(** composition: stored records -> db.Query (fresh reader per record) -> the
    /search handler's single printer -> the client's reader: the client gets
    the stored results, each once, in order, labels and lines intact *)
Theorem C19_stored_to_client : forall groups : list (list result),
  Forall (Forall wf_result) groups ->
  let served := flat_map (fun g => read_plain (print_all [] g)) groups in
  Forall2 res_same (read_plain (print_all [] served)) (concat groups).
Proof. exact stored_to_client. Qed.
Print Assumptions C19_stored_to_client.

(** ** queries over the stored state (stretch) *)

(** parseQuery hands SQL one part per key, keys sorted *)
Theorem C19_parse_query_sorted_keys : forall q ps,
  parse_query q = QOk ps -> keys_sorted ps /\ NoDup (keys_of ps).
Proof. exact parse_query_sorted_keys. Qed.
Print Assumptions C19_parse_query_sorted_keys.

(** the merged parts select a record iff EVERY term of the query text holds of
    its labels (any number of terms, any keys, redundant or not) *)
Theorem C19_query_means_terms : forall q ps,
  parse_query q = QOk ps ->
  exists ts, query_terms q = Some ts
    /\ forall r, wf_qrec r -> query_selects ps r = terms_hold ts (q_labels r).
Proof. exact query_means_terms. Qed.
Print Assumptions C19_query_means_terms.

(** a query returns exactly the results of the stored records satisfying every
    term, each record once. [query_selects] is the assumed meaning of the
    generated SQL (SQLite trusted). *)
Theorem C19_query_returns_exactly : forall d q ps,
  wf_db d -> parse_query q = QOk ps ->
  exists ts, query_terms q = Some ts
    /\ db_query d q = inl (flat_map (fun ir => rec_results (snd ir))
                                    (filter (rec_satisfies ts) (db_records d))).
Proof. exact query_returns_exactly. Qed.
Print Assumptions C19_query_returns_exactly.

(** a contradictory query (io.EOF): empty result, empty listing (not an error),
    and indeed no label map satisfies its terms *)
Theorem C19_listing_contradiction_is_empty : forall d q,
  parse_query q = QEof ->
  db_query d q = inl [] /\ list_uploads d q 0 = inl []
  /\ forall ts, query_terms q = Some ts -> forall L, wf_map L -> terms_hold ts L = false.
Proof. exact query_contradiction_is_empty. Qed.
Print Assumptions C19_listing_contradiction_is_empty.

(** the listing counts, per upload, the stored (coalesced) records satisfying
    every term; uploads without one are hidden; newest first; limited *)
Theorem C19_listing_counts_matching_records : forall d q ps limit,
  wf_db d -> parse_query q = QOk ps ->
  exists ts, query_terms q = Some ts
    /\ list_uploads d q limit
       = inl (take_limit limit (filter (fun ic => negb (snd ic =? 0)%N) (map (upload_count ts) (rev d)))).
Proof. exact listing_counts_matching_records. Qed.
Print Assumptions C19_listing_counts_matching_records.

Theorem C19_listing_newest_first_limited : forall d ps limit,
  let l := list_uploads_parts d ps limit in
  (exists r, filter (fun ic => negb (snd ic =? 0)%N) (map (part_count ps) (rev d)) = l ++ r)
  /\ ((0 < limit)%Z -> (Z.of_nat (length l) <= limit)%Z)
  /\ Forall (fun ic => snd ic <> 0%N) l.
Proof. exact listing_newest_first_limited. Qed.
Print Assumptions C19_listing_newest_first_limited.

(** non-vacuity of the well-formedness hypotheses *)
Example C19_example_wf :
  let r := mkResult [(bs "goos", bs "linux")] (name_labels (bs "Foo-8")) 0 (bs "BenchmarkFoo-8 1 2 ns/op") in
  wf_result r
  /\ read_plain (print_all [] [r; r]) = [mkResult (r_labels r) (r_namelabels r) 2 (r_content r);
                                         mkResult (r_labels r) (r_namelabels r) 3 (r_content r)]
  /\ wf_qrec (mkQrec (bs "20260930.1") [(bs "goos", bs "linux"); (bs "upload", bs "20260930.1")]).
Proof.
  cbv zeta. split; [|split].
  - split; [|split; [|split]].
    + split; [split; [intros k v [] | exact I]|].
      intros k v [H|[]]. inversion H; subst. split.
      * split; [cbn; intuition discriminate|]. intros rest. destruct rest; reflexivity.
      * split; [discriminate|]. split; [intros c r0 [= <- _]; reflexivity|].
        split; [cbn; intuition discriminate|].
        intros p E. apply (f_equal (@rev byte)) in E. rewrite rev_app_distr in E. cbn in E. discriminate E.
    + split; [cbn; intuition discriminate|].
      intros p E. apply (f_equal (@rev byte)) in E. rewrite rev_app_distr in E. cbn in E. discriminate E.
    + reflexivity.
    + exists (bs "Foo-8"). repeat split. discriminate.
  - reflexivity.
  - split; [|reflexivity]. intros k v H. apply lookup_Some_In in H.
    destruct H as [H|[H|[]]]; inversion H; subst; intros E; vm_compute in E; discriminate E.
Qed.

(** non-vacuity: concrete instances *)
Example C19_example_merge :
  let k := bs "k" in
  merge_all [mkPart k OpGt (bs "a") []; mkPart k OpLt (bs "c") []; mkPart k OpEq (bs "b") []]
    = Some (mkPart k OpEq (bs "b") [])
  /\ merge_all [mkPart k OpEq (bs "a") []; mkPart k OpEq (bs "b") []] = None
  /\ (exists m, merge_all [mkPart k OpGt (bs "a") []; mkPart k OpLt (bs "a" ++ [c_nul]) []] = Some m
                /\ unsat_shape m = true)
  /\ holds (mkPart k OpLtGt (bs "c") (bs "a")) (bs "b") = true.
Proof. repeat split; try reflexivity. eexists; split; reflexivity. Qed.

Example C19_example_quote :
  quote_word (bs "k:a ""b"" \c") = bs """k:a \""b\"" \\c"""
  /\ split_words (bs """k:a \""b\"" \\c"" | x:y") = [bs "k:a ""b"" \c"; bs "|"; bs "x:y"]
  /\ bs "k:a ""b"" \c" <> [].
Proof. repeat split; try reflexivity. discriminate. Qed.
