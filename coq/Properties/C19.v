(** C19 — Stored results come back exactly, and queries mean what they say.
    Statements only; proofs are in Proofs/Words.v, Query.v, QueryDb.v,
    StoreFmt.v, ReaderKeys.v, ReaderWf.v, SqlLists.v, Sql.v, SqlDb.v,
    RecordRuns.v, LabelSpec.v, C19Findings.v.
    The generated SQL is modelled relationally (Model/Sql.v: the sub-selects of
    part.sql, INNER JOIN ... USING, LEFT JOIN Records, GROUP BY/COUNT, ORDER BY,
    LIMIT, the INSERTs under the PRIMARY/FOREIGN KEYs, TEXT compared bytewise =
    BINARY collation) and proved to mean [Query.query_selects]; what remains
    trusted is that SQLite implements these relational operators. *)
From Coq Require Import Permutation Sorted.
From Perf Require Import Base.Bytes Model.Words Model.Query Model.StoreFmt Model.Sql Model.RecordRuns Proofs.Words
     Proofs.Query Proofs.StoreFmt Proofs.QueryDb Proofs.ReaderKeys Proofs.ReaderWf Proofs.SqlLists Proofs.Sql
     Proofs.SqlDb Proofs.RecordRuns Model.LabelSpec Proofs.LabelSpec Proofs.C19Findings.

(** several terms on one key, merged left to right as parseQuery does, mean
    their conjunction — on every non-empty label value (None = io.EOF = never) *)
Theorem C19_merge_is_conjunction : forall p ps (v : bytes),
  v <> [] -> holds_opt (merge_all (p :: ps)) v = forallb (fun q => holds q v) (p :: ps).
Proof. exact merge_is_conjunction. Qed.
Print Assumptions C19_merge_is_conjunction.

Theorem C19_merge_two_is_conjunction : forall p p2 (v : bytes),
  v <> [] -> holds_opt (merge p p2) v = holds p v && holds p2 v.
Proof. exact merge_two_conj. Qed.
Print Assumptions C19_merge_two_is_conjunction.

(** the hypothesis v <> "" is needed: key>"" is simplified to "the label exists" *)
Theorem C19_merge_conjunction_empty_value_refuted :
  exists p p2, holds_opt (merge p p2) [] <> (holds p [] && holds p2 []).
Proof. exact merge_conj_needs_nonempty. Qed.
Print Assumptions C19_merge_conjunction_empty_value_refuted.

(** io.EOF is only reported for a conjunction no value satisfies *)
Theorem C19_eof_implies_unsat : forall p ps,
  merge_all (p :: ps) = None ->
  forall v, v <> [] -> forallb (fun q => holds q v) (p :: ps) = false.
Proof. exact eof_implies_unsat. Qed.
Print Assumptions C19_eof_implies_unsat.

(** ... and a conjunction is unsatisfiable exactly when EOF is reported or the
    merged part has a degenerate shape: k:"", k<"", k<"\x00", an empty range or
    the one-point gap lo < x < lo++"\x00" (bytewise strings are not dense) *)
Theorem C19_eof_iff_unsat : forall p ps,
  (forall v, v <> [] -> forallb (fun q => holds q v) (p :: ps) = false)
  <-> (merge_all (p :: ps) = None
       \/ exists m, merge_all (p :: ps) = Some m /\ unsat_shape m = true).
Proof. exact eof_iff_unsat. Qed.
Print Assumptions C19_eof_iff_unsat.

Theorem C19_unsat_shape_exact : forall p,
  unsat_shape p = true <-> (forall v, v <> [] -> holds p v = false).
Proof. exact unsat_shape_spec. Qed.
Print Assumptions C19_unsat_shape_exact.

(** a word quoted by the front end's query builder splits back into that word *)
Theorem C19_splitwords_quote : forall w, w <> [] -> split_words (quote_word w) = [w].
Proof. exact splitwords_quote. Qed.
Print Assumptions C19_splitwords_quote.

(** ... also in front of the rest of a query *)
Theorem C19_splitwords_quote_then : forall w q,
  w <> [] -> split_words (quote_word w ++ w_space :: q) = w :: split_words q.
Proof. exact splitwords_quote_then. Qed.
Print Assumptions C19_splitwords_quote_then.

(** a whole query built from quoted words splits back into exactly those words *)
Theorem C19_splitwords_built_query : forall ws,
  Forall (fun w => w <> []) ws -> split_words (join_sp (map quote_word ws)) = ws.
Proof. exact splitwords_built_query. Qed.
Print Assumptions C19_splitwords_built_query.

(** addToQuery as written (with its "|" separator) *)
Theorem C19_splitwords_add_to_query : forall query add,
  add <> [] ->
  split_words (add_to_query query add) =
  add :: (if existsb (Byte.eqb w_bar) query then [] else [[w_bar]]) ++ split_words query.
Proof. exact splitwords_add_to_query. Qed.
Print Assumptions C19_splitwords_add_to_query.

Theorem C19_splitwords_no_empty_word : forall q, Forall (fun w => w <> []) (split_words q).
Proof. exact splitwords_no_empty_word. Qed.
Print Assumptions C19_splitwords_no_empty_word.

(** ** printer / reader round trip (stretch) *)

(** Printer, then Reader, on ANY sequence of well-formed results gives the same
    results: labels as maps, name labels, content lines verbatim, each once, in
    order. [wf_result]: labels sorted with distinct keys, every key one the key
    scanner accepts ([key_ok]), every value non-empty without leading blank, no
    LF and — the exclusion the known finding C19_trailing_cr_lost forces — no
    value or line ending in CR; the line is a benchmark line with a non-empty
    name whose name labels the result carries. *)
Theorem C19_printer_reader_roundtrip : forall rs,
  Forall wf_result rs -> Forall2 res_same (read_plain (print_all [] rs)) rs.
Proof. exact printer_reader_roundtrip. Qed.
Print Assumptions C19_printer_reader_roundtrip.

(** the Content blob of a coalesced record (first result printed afresh, then
    the bare lines InsertRecord appends) is what one printer writes for the group *)
Theorem C19_coalesced_content : forall r rs,
  ksorted (r_labels r) -> (forall k v, In (k, v) (r_labels r) -> v <> []) ->
  Forall (fun x => r_labels x = r_labels r) rs ->
  print_all [] (r :: rs) = print_one [] r ++ concat (map (fun x => r_content x ++ [c_lf]) rs).
Proof. exact coalesced_content. Qed.
Print Assumptions C19_coalesced_content.

(** composition: stored records -> db.Query (fresh reader per record) -> the
    /search handler's single printer -> the client's reader: the client gets
    the stored results, each once, in order, labels and lines intact *)
Theorem C19_stored_to_client : forall groups : list (list result),
  Forall (Forall wf_result) groups ->
  let served := flat_map (fun g => read_plain (print_all [] g)) groups in
  Forall2 res_same (read_plain (print_all [] served)) (concat groups).
Proof. exact stored_to_client. Qed.
Print Assumptions C19_stored_to_client.

(** *** what the Reader itself produces is accepted again *)

(** every key parseKeyValueLine returns is a key its scanner stops at in front
    of ANY continuation ([key_ok]) — for all byte strings, valid UTF-8 or not:
    the byte after the key is ':' , never a continuation byte, so no rune
    straddles the end of the key *)
Theorem C19_parse_kv_line_key_ok : forall line k v,
  parse_kv_line line = Some (k, v) -> key_ok k.
Proof. exact parse_kv_line_key_ok. Qed.
Print Assumptions C19_parse_kv_line_key_ok.

(** every label key of every result the Reader returns for ANY text is accepted
    by the key scanner: the hypothesis [key_ok] of the round trip holds of
    everything read back from a stored record or a /search response *)
Theorem C19_reader_keys_accepted : forall text r k v,
  In r (read_plain text) -> In (k, v) (r_labels r) -> key_ok k.
Proof. exact reader_keys_accepted. Qed.
Print Assumptions C19_reader_keys_accepted.

(** with AddLabels(meta) (indexing an upload): a key is one of the server's or accepted *)
Theorem C19_reader_keys_accepted_with : forall meta text r k v,
  In r (read_with meta text) -> In (k, v) (r_labels r) ->
  (exists v', In (k, v') meta) \/ key_ok k.
Proof. exact reader_keys_accepted_with. Qed.
Print Assumptions C19_reader_keys_accepted_with.

(** all of [wf_result] holds of what the Reader returns, except in the two
    recorded cases: a value or line ending in CR (C19_trailing_cr_lost) and an
    empty benchmark name (C19_empty_name_label_value) *)
Theorem C19_reader_results_wf : forall text r,
  In r (read_plain text) -> no_trailing_cr r -> named r -> wf_result r.
Proof. exact reader_results_wf. Qed.
Print Assumptions C19_reader_results_wf.

(** read any text, print, read again: the same results *)
Theorem C19_reread_roundtrip : forall text,
  let rs := read_plain text in
  Forall no_trailing_cr rs -> Forall named rs ->
  Forall2 res_same (read_plain (print_all [] rs)) rs.
Proof. exact reread_roundtrip. Qed.
Print Assumptions C19_reread_roundtrip.

(** ** queries over the stored state (stretch) *)

(** parseQuery hands SQL one part per key, keys sorted *)
Theorem C19_parse_query_sorted_keys : forall q ps,
  parse_query q = QOk ps -> keys_sorted ps /\ NoDup (keys_of ps).
Proof. exact parse_query_sorted_keys. Qed.
Print Assumptions C19_parse_query_sorted_keys.

(** the merged parts select a record iff EVERY term of the query text holds of
    its labels (any number of terms, any keys, redundant or not) *)
Theorem C19_query_means_terms : forall q ps,
  parse_query q = QOk ps ->
  exists ts, query_terms q = Some ts
    /\ forall r, wf_qrec r -> query_selects ps r = terms_hold ts (q_labels r).
Proof. exact query_means_terms. Qed.
Print Assumptions C19_query_means_terms.

(** a query returns exactly the results of the stored records satisfying every
    term, each record once. [query_selects] is the assumed meaning of the
    generated SQL (SQLite trusted). *)
Theorem C19_query_returns_exactly : forall d q ps,
  wf_db d -> parse_query q = QOk ps ->
  exists ts, query_terms q = Some ts
    /\ db_query d q = inl (flat_map (fun ir => rec_results (snd ir))
                                    (filter (rec_satisfies ts) (db_records d))).
Proof. exact query_returns_exactly. Qed.
Print Assumptions C19_query_returns_exactly.

(** a contradictory query (io.EOF): empty result, empty listing (not an error),
    and indeed no label map satisfies its terms *)
Theorem C19_listing_contradiction_is_empty : forall d q,
  parse_query q = QEof ->
  db_query d q = inl [] /\ list_uploads d q 0 = inl []
  /\ forall ts, query_terms q = Some ts -> forall L, wf_map L -> terms_hold ts L = false.
Proof. exact query_contradiction_is_empty. Qed.
Print Assumptions C19_listing_contradiction_is_empty.

(** the listing counts, per upload, the stored (coalesced) records satisfying
    every term; uploads without one are hidden; newest first; limited *)
Theorem C19_listing_counts_matching_records : forall d q ps limit,
  wf_db d -> parse_query q = QOk ps ->
  exists ts, query_terms q = Some ts
    /\ list_uploads d q limit
       = inl (take_limit limit (filter (fun ic => negb (snd ic =? 0)%N) (map (upload_count ts) (rev d)))).
Proof. exact listing_counts_matching_records. Qed.
Print Assumptions C19_listing_counts_matching_records.

Theorem C19_listing_newest_first_limited : forall d ps limit,
  let l := list_uploads_parts d ps limit in
  (exists r, filter (fun ic => negb (snd ic =? 0)%N) (map (part_count ps) (rev d)) = l ++ r)
  /\ ((0 < limit)%Z -> (Z.of_nat (length l) <= limit)%Z)
  /\ Forall (fun ic => snd ic <> 0%N) l.
Proof. exact listing_newest_first_limited. Qed.
Print Assumptions C19_listing_newest_first_limited.

(** ** the generated SQL, evaluated relationally *)

(** over ANY tables satisfying the constraints createTmpl declares (the three
    PRIMARY KEYs, the two FOREIGN KEYs): the statement DB.Query sends returns
    the Content of exactly the Records rows [query_selects] selects — each once,
    never NULL. A row's labels are read off RecordLabels ([labels_of]). *)
Theorem C19_sql_query_is_query_selects : forall T, constraints T -> forall ps subs,
  parts_sql ps = Some subs ->
  Permutation (sql_query T subs)
              (map (fun r => Some (rr_content r)) (filter (row_selected T ps) (t_records T))).
Proof. exact sql_query_is_query_selects. Qed.
Print Assumptions C19_sql_query_is_query_selects.

(** ... and the statement DB.ListUploads sends returns, per Uploads row, the
    number of its selected records, rows with none dropped, ordered by (Day,
    Seq, UploadID) descending whatever the sorting algorithm, then limited *)
Theorem C19_sql_list_is_counts : forall T, constraints T -> forall ps subs limit,
  parts_sql ps = Some subs ->
  sql_list_uploads T subs limit
  = map (fun w => (lw_id w, lw_count w)) (sql_limit limit (sort_desc row_cmp (spec_rows T ps))).
Proof. exact sql_list_is_counts. Qed.
Print Assumptions C19_sql_list_is_counts.

(** the storage invariant — upload IDs distinct, one label row per (record,
    label name) — is kept by the insert model, given a new upload ID (C20) *)
Theorem C19_storage_invariant_maintained : forall d u,
  wf_store d -> ~ In (u_id u) (map s_id d) -> wf_store (fst (apply_upload d u)).
Proof. exact apply_upload_keeps_wf_store. Qed.
Print Assumptions C19_storage_invariant_maintained.

Theorem C19_process_upload_keys_distinct : forall u recs,
  process_upload u = inl recs -> Forall rec_keys_distinct recs.
Proof. exact process_upload_keys_distinct. Qed.
Print Assumptions C19_process_upload_keys_distinct.

(** it makes the tables of the stored state satisfy the declared constraints *)
Theorem C19_tables_constraints : forall d ms,
  wf_store d -> length ms = length d -> constraints (tables_of d ms).
Proof. exact tables_constraints. Qed.
Print Assumptions C19_tables_constraints.

(** the INSERTs (checked against the constraints) of an accepted upload succeed
    and yield the tables of the extended state; a record carrying one label
    name twice is refused by PRIMARY KEY (UploadID, RecordID, Name) — the
    model's FLabelCollision; whatever is inserted, the constraints keep holding *)
Theorem C19_store_upload_tables_of : forall d ms id day seq recs,
  wf_store d -> length ms = length d -> ~ In id (map s_id d) -> Forall rec_keys_distinct recs ->
  store_upload (tables_of d ms) id day seq recs
  = Some (tables_of (d ++ [mkStored id recs]) (ms ++ [(day, seq)])).
Proof. exact store_upload_tables_of. Qed.
Print Assumptions C19_store_upload_tables_of.

Theorem C19_store_upload_refuses_collision : forall T id day seq recs,
  ~ Forall rec_keys_distinct recs -> store_upload T id day seq recs = None.
Proof. exact store_upload_refuses_collision. Qed.
Print Assumptions C19_store_upload_refuses_collision.

Theorem C19_process_upload_collision : forall u,
  process_upload u = inr FLabelCollision ->
  exists recs, ~ Forall rec_keys_distinct recs
    /\ exists st, index_files u 0 (u_files u) ins0 = inl st /\ recs = rev (i_recs st).
Proof. exact process_upload_collision. Qed.
Print Assumptions C19_process_upload_collision.

Theorem C19_store_upload_constraints : forall T id day seq recs T',
  constraints T -> store_upload T id day seq recs = Some T' -> constraints T'.
Proof. exact store_upload_constraints. Qed.
Print Assumptions C19_store_upload_constraints.

Theorem C19_store_history_tables_of : forall d ms,
  wf_store d -> length ms = length d ->
  store_history (mkT [] [] []) (combine d ms) = Some (tables_of d ms).
Proof. exact store_history_tables_of. Qed.
Print Assumptions C19_store_history_tables_of.

(** THE THEOREM asked for: the SQL of DB.Query — per key a sub-select over
    RecordLabels filtered by the part's bytewise comparison (over Records for
    the key "upload"), INNER JOINed on (UploadID, RecordID), LEFT JOINed with
    Records — evaluated relationally over the tables the inserts built returns
    exactly the stored records [query_selects] selects, each once *)
Theorem C19_sql_semantics_is_query_selects : forall d ms ps subs,
  wf_store d -> length ms = length d -> parts_sql ps = Some subs ->
  Permutation (sql_query (tables_of d ms) subs)
    (map (fun ir => Some (rc_content (snd ir)))
         (filter (fun ir => query_selects ps (qrec_of (fst ir) (snd ir))) (db_records d))).
Proof. exact sql_semantics_is_query_selects. Qed.
Print Assumptions C19_sql_semantics_is_query_selects.

(** the listing SQL (GROUP BY/COUNT, LEFT JOIN Uploads, ORDER BY ... DESC,
    LIMIT, and its optimised empty-query form) is [list_uploads_parts], given
    that creation order is increasing (Day, Seq) (C20_ids_increase) *)
Theorem C19_sql_listing_is_list_uploads : forall d ms ps subs limit,
  wf_store d -> length ms = length d -> ups_increasing (t_uploads (tables_of d ms)) ->
  parts_sql ps = Some subs ->
  sql_list_uploads (tables_of d ms) subs limit = list_uploads_parts d ps limit.
Proof. exact sql_listing_is_list_uploads. Qed.
Print Assumptions C19_sql_listing_is_list_uploads.

(** end to end, no assumed meaning of SQL left: query text -> parseQuery ->
    part.sql -> relational evaluation -> Reader per row = the results of exactly
    the stored records satisfying every term of the text, each once *)
Theorem C19_sql_query_returns_exactly : forall d ms q ps,
  wf_db d -> wf_store d -> length ms = length d -> parse_query q = QOk ps ->
  exists subs ts, parts_sql ps = Some subs /\ query_terms q = Some ts
    /\ Permutation (flat_map read_content (sql_query (tables_of d ms) subs))
         (flat_map (fun ir => rec_results (snd ir)) (filter (rec_satisfies ts) (db_records d))).
Proof. exact sql_query_returns_exactly. Qed.
Print Assumptions C19_sql_query_returns_exactly.

Theorem C19_sql_listing_counts_matching_records : forall d ms q ps limit,
  wf_db d -> wf_store d -> length ms = length d -> ups_increasing (t_uploads (tables_of d ms)) ->
  parse_query q = QOk ps ->
  exists subs ts, parts_sql ps = Some subs /\ query_terms q = Some ts
    /\ sql_list_uploads (tables_of d ms) subs limit
       = take_limit limit (filter (fun ic => negb (snd ic =? 0)%N) (map (upload_count ts) (rev d))).
Proof. exact sql_listing_counts_matching_records. Qed.
Print Assumptions C19_sql_listing_counts_matching_records.

(** ** which records an upload is stored as: the rule, and where the code leaves it *)

(** the rule (Model/RecordRuns.v): [spec_runs] cuts the results of an upload
    into runs — it loses and reorders nothing, every run is non-empty and all
    its members carry the label map and name-label map of its first, and two
    consecutive runs carry different ones (so no run can be extended) *)
Theorem C19_spec_runs_partition : forall rs,
  concat (spec_runs rs) = rs /\ Forall is_run (spec_runs rs) /\ maximal (spec_runs rs).
Proof. intros rs. exact (conj (spec_runs_concat rs) (conj (spec_runs_are_runs rs) (spec_runs_maximal rs))). Qed.
Print Assumptions C19_spec_runs_partition.

(** ... and that determines it: any such partition is [spec_runs] *)
Theorem C19_spec_runs_unique : forall gs,
  Forall is_run gs -> maximal gs -> spec_runs (concat gs) = gs.
Proof. exact runs_unique. Qed.
Print Assumptions C19_spec_runs_unique.

(** Labels.Equal — as REPAIRED by hooks/fix_c19_labels_equal.diff (a key missing
    on the other side is a difference) — is equality of the label maps *)
Theorem C19_go_same_labels_is_identical : forall a b,
  plain a -> plain b -> same_labels a b = identical a b.
Proof. exact same_labels_identical. Qed.
Print Assumptions C19_go_same_labels_is_identical.

(** ... for all results with sorted keys, also with empty label values *)
Theorem C19_go_same_labels_is_identical_sorted : forall a b,
  sorted_keys a -> sorted_keys b -> same_labels a b = identical a b.
Proof. exact same_labels_identical_sorted. Qed.
Print Assumptions C19_go_same_labels_is_identical_sorted.

(** before the repair a missing key read as "": {a:"", name:X} "equalled"
    {b:y, name:X} (one way round only), so BenchmarkX/a= followed by
    BenchmarkX/b=y became ONE record indexed under the first one's labels *)
Theorem C19_labels_equal_unrepaired_refuted :
  exists l b, labels_equal_go_unrepaired l b = true /\ labels_equal_go_unrepaired b l = false /\ l <> b
              /\ labels_equal_go l b = false.
Proof. exact labels_equal_unrepaired_refuted. Qed.
Print Assumptions C19_labels_equal_unrepaired_refuted.

(** insertLabel's counter in closed form: queuing k labels with [pend]
    arguments pending forces a flush iff the last label finds >= 990 pending *)
Theorem C19_flush_forced_closed_form : forall k pend,
  fst (queue_labels k pend) = flush_forced k pend.
Proof. exact queue_labels_forced. Qed.
Print Assumptions C19_flush_forced_closed_form.

(** the code (InsertRecord / insertLabel / flush as modelled) stores exactly
    the rule's records — one per maximal run, indexed under the run's labels,
    content = first result printed afresh + the lines of the others — WHENEVER
    no forced flush falls on the first result of a run that has a follower
    ([no_split]: the runs walked with the counter of pending arguments, from 0;
    only the first result of a run queues labels) *)
Theorem C19_records_follow_rule : forall rs,
  Forall plain rs -> no_split (spec_runs rs) 0 = true -> model_records rs = spec_records rs.
Proof. exact model_records_are_spec_records. Qed.
Print Assumptions C19_records_follow_rule.

(** the condition is EXACT: the code stores the rule's records iff no forced
    flush falls on the first result of a run that has a follower; otherwise it
    stores more records than the rule (never fewer) *)
Theorem C19_records_follow_rule_iff : forall rs,
  Forall plain rs -> (model_records rs = spec_records rs <-> no_split (spec_runs rs) 0 = true).
Proof. exact model_records_spec_iff. Qed.
Print Assumptions C19_records_follow_rule_iff.

Theorem C19_records_never_fewer_than_rule : forall rs,
  Forall plain rs -> length (spec_records rs) <= length (model_records rs).
Proof. exact model_records_count. Qed.
Print Assumptions C19_records_never_fewer_than_rule.

(** ... through processUpload (all files of the upload, one counter) *)
Theorem C19_upload_records_follow_rule : forall u recs,
  process_upload u = inl recs ->
  Forall plain (upload_results u 0 (u_files u)) ->
  no_split (spec_runs (upload_results u 0 (u_files u))) 0 = true ->
  recs = spec_upload_records u.
Proof. exact process_upload_records_are_spec. Qed.
Print Assumptions C19_upload_records_follow_rule.

(** the condition is needed — recorded finding C19_record_split_at_flush: user
    "user" uploads a.txt with 41 different benchmarks and then one benchmark
    run twice; the flush forced at 990 pending arguments falls on the first of
    the two, which are stored as two records: the listing reports 43 records
    (rule: 42), and 2 for name:Run (rule: 1) *)
Theorem C19_records_follow_rule_refuted :
  let u := split_witness 41 in
  let rs := upload_results u 0 (u_files u) in
  Forall plain rs
  /\ no_split (spec_runs rs) 0 = false
  /\ length (spec_upload_records u) = 42%nat
  /\ (exists recs, process_upload u = inl recs /\ length recs = 43%nat /\ recs <> spec_upload_records u)
  /\ list_uploads (fst (apply_upload [] u)) [] 0 = inl [(u_id u, 43%N)]
  /\ list_uploads (fst (apply_upload [] u)) (bs "name:Run") 0 = inl [(u_id u, 2%N)]
  /\ length (filter (fun rc => beq (lget (bs "name") (rc_namelabels rc)) (bs "Run")) (spec_upload_records u)) = 1%nat.
Proof. exact records_follow_rule_refuted. Qed.
Print Assumptions C19_records_follow_rule_refuted.

(** non-vacuity of [plain] / [no_split]: with 40 benchmarks in front the same
    pair is one record, and the theorem above applies *)
Example C19_example_records_follow_rule :
  let u := split_witness 40 in
  let rs := upload_results u 0 (u_files u) in
  Forall plain rs /\ no_split (spec_runs rs) 0 = true
  /\ process_upload u = inl (spec_upload_records u) /\ length (spec_upload_records u) = 41%nat
  /\ list_uploads (fst (apply_upload [] u)) (bs "name:Run") 0 = inl [(u_id u, 1%N)].
Proof. exact records_follow_rule_instance. Qed.

(** ** which labels a stored result carries (Model/LabelSpec.v), stated without
    the Reader's loop: key by key the server label (upload, upload-part,
    upload-time, upload-file, by — a file cannot override them), else the LAST
    "key: value" line in front of the benchmark line unless its value is empty;
    name-derived labels: the last definition of the key among gomaxprocs / name
    / the k=v or sub<i> parts. The model of the Reader with the server's
    AddLabels returns exactly these results, for every file and upload. *)
Theorem C19_read_with_is_spec : forall u i f,
  read_with (file_meta u i f) (f_body f) = spec_file_results u i f.
Proof. exact read_with_is_spec. Qed.
Print Assumptions C19_read_with_is_spec.

Theorem C19_upload_results_are_spec : forall u fs i,
  upload_results u i fs = spec_upload_results u i fs.
Proof. exact upload_results_are_spec. Qed.
Print Assumptions C19_upload_results_are_spec.

Theorem C19_result_labels_declarative : forall u i f rbefore rest n r,
  In r (spec_results_from (server_label u i f) rbefore rest n) ->
  exists before name, bench_name (r_content r) = Some name
    /\ (forall k, lookup k (r_labels r) = result_label (server_label u i f) before k)
    /\ (r_namelabels r = [] \/ forall k, lookup k (r_namelabels r) = name_label name k).
Proof. exact result_labels_declarative. Qed.
Print Assumptions C19_result_labels_declarative.

Theorem C19_name_labels_last_definition : forall name k,
  lookup k (name_labels name) = name_label name k.
Proof. exact name_labels_lookup. Qed.
Print Assumptions C19_name_labels_last_definition.

Theorem C19_server_labels : forall u i f k,
  lookup k (lset_all (file_meta u i f) []) = server_label u i f k.
Proof. exact server_labels_lookup. Qed.
Print Assumptions C19_server_labels.

(** ** recorded findings, on the model (vm_compute) *)

(** C19_empty_equality_refused: a: is refused as a whole, also next to name:X,
    although exactly one stored result has a = "" *)
Theorem C19_empty_equality_refuted :
  db_query (stored eq_witness) (bs "a:") = inr EMissingValue
  /\ db_query (stored eq_witness) (bs "a: name:X") = inr EMissingValue
  /\ list_uploads (stored eq_witness) (bs "a:") 0 = inr EMissingValue
  /\ (exists r, demanded eq_witness (bs "a:") = Some [r] /\ demanded eq_witness (bs "a: name:X") = Some [r]
                /\ lookup (bs "a") (r_namelabels r) = Some [])
  /\ (exists r, db_query (stored eq_witness) (bs "name:X") = inl [r]).
Proof. exact empty_equality_refused. Qed.
Print Assumptions C19_empty_equality_refuted.

(** C19_empty_name_label_value: a> returns and counts the result whose a is
    empty next to the one with a = 1; the property demands only the latter *)
Theorem C19_empty_value_gt_refuted :
  demanded eq_witness (bs "a>") = Some (match demanded eq_witness (bs "a:1") with Some l => l | None => [] end)
  /\ (exists r1 r2, db_query (stored eq_witness) (bs "a>") = inl [r1; r2])
  /\ (exists r2, demanded eq_witness (bs "a>") = Some [r2])
  /\ list_uploads (stored eq_witness) (bs "a>") 0 = inl [(bs "19700101.1", 2%N)].
Proof. exact empty_value_gt_matches. Qed.
Print Assumptions C19_empty_value_gt_refuted.

(** C19_trailing_cr_lost *)
Theorem C19_trailing_cr_refuted :
  exists r r',
    demanded cr_witness (bs "k>v") = Some [r] /\ db_query (stored cr_witness) (bs "k>v") = inl [r']
    /\ db_query (stored cr_witness) (bs "k:v") = inl []
    /\ lookup (bs "k") (r_labels r) = Some (bs "v" ++ [c_cr]) /\ lookup (bs "k") (r_labels r') = Some (bs "v")
    /\ r_content r = bs "BenchmarkX 1 ns/op" ++ [c_cr] /\ r_content r' = bs "BenchmarkX 1 ns/op".
Proof. exact trailing_cr_lost. Qed.
Print Assumptions C19_trailing_cr_refuted.

(** non-vacuity of the hypotheses of the SQL theorems: two uploads through the
    insert model; invariant, constraints, increasing (Day, Seq); a query with an
    ordinary key, a range and the key "upload", evaluated relationally *)
Example C19_example_sql :
  let body1 := bs "goos: linux" ++ [c_lf] ++ bs "BenchmarkFoo-8 1 2 ns/op" ++ [c_lf] in
  let body2 := bs "goos: plan9" ++ [c_lf] ++ bs "BenchmarkFoo-8 1 3 ns/op" ++ [c_lf]
               ++ bs "BenchmarkBar/x=1-4 1 3 ns/op" ++ [c_lf] in
  let u1 := mkUploadIn (bs "20260930.1") (bs "t1") [] [mkUfile (bs "a.txt") body1] in
  let u2 := mkUploadIn (bs "20260930.2") (bs "t2") [] [mkUfile (bs "b.txt") body2] in
  let d := fst (apply_upload (fst (apply_upload [] u1)) u2) in
  let ms := [(bs "20260930", 1%N); (bs "20260930", 2%N)] in
  wf_store d /\ length ms = length d /\ length (db_records d) = 3%nat
  /\ constraints (tables_of d ms) /\ ups_increasing (t_uploads (tables_of d ms))
  /\ (exists ps subs, parse_query (bs "name:Foo goos>a upload<20260930.2") = QOk ps
        /\ parts_sql ps = Some subs /\ length subs = 3%nat
        /\ map (fun c => match c with Some b => length (read_plain b) | None => 0%nat end)
               (sql_query (tables_of d ms) subs) = [1%nat]
        /\ sql_list_uploads (tables_of d ms) subs 0 = [(bs "20260930.1", 1%N)])
  /\ sql_list_uploads (tables_of d ms) [] 1 = [(bs "20260930.2", 2%N)]
  (* a file label that is also a name label: refused by the RecordLabels primary key *)
  /\ (let u3 := mkUploadIn (bs "20260930.3") (bs "t3") []
                  [mkUfile (bs "c.txt") (bs "name: x" ++ [c_lf] ++ bs "BenchmarkFoo 1 2 ns/op" ++ [c_lf])] in
      process_upload u3 = inr FLabelCollision).
Proof.
  cbv zeta.
  assert (W : wf_store (fst (apply_upload (fst (apply_upload []
             (mkUploadIn (bs "20260930.1") (bs "t1") [] [mkUfile (bs "a.txt")
                (bs "goos: linux" ++ [c_lf] ++ bs "BenchmarkFoo-8 1 2 ns/op" ++ [c_lf])])))
             (mkUploadIn (bs "20260930.2") (bs "t2") [] [mkUfile (bs "b.txt")
                (bs "goos: plan9" ++ [c_lf] ++ bs "BenchmarkFoo-8 1 3 ns/op" ++ [c_lf]
                 ++ bs "BenchmarkBar/x=1-4 1 3 ns/op" ++ [c_lf])])))).
  { apply apply_upload_keeps_wf_store; [apply apply_upload_keeps_wf_store; [exact wf_store_nil | intros []]|].
    vm_compute. intros [H|[]]. discriminate H. }
  split; [exact W|]. split; [reflexivity|]. split; [reflexivity|].
  split; [apply tables_constraints; [exact W | reflexivity]|].
  split; [vm_compute; repeat constructor|].
  split; [eexists; eexists; split; [vm_compute; reflexivity|]; split; [vm_compute; reflexivity|];
          repeat split; vm_compute; reflexivity|].
  split; vm_compute; reflexivity.
Qed.

(** non-vacuity of the reader theorems: a text with a non-UTF-8 key byte
    sequence, header and body labels; nothing ends in CR, names are non-empty *)
Example C19_example_reader :
  let text := bs "goos: linux" ++ [c_lf] ++ [x6b; xc3; x3a; x20; x76; c_lf]   (* "k\xC3: v" *)
              ++ bs "BenchmarkFoo-8 1 2 ns/op" ++ [c_lf] in
  length (read_plain text) = 1%nat
  /\ Forall no_trailing_cr (read_plain text) /\ Forall named (read_plain text)
  /\ (exists r, In r (read_plain text) /\ In ([x6b; xc3], [x76]) (r_labels r)).
Proof.
  cbv zeta. split; [reflexivity|].
  match goal with |- context [read_plain ?t] => remember (read_plain t) as rs eqn:Ers end.
  vm_compute in Ers. subst rs. split; [|split].
  - constructor; [|constructor]. split; cbn [r_content r_labels].
    + intros p E. apply (f_equal (@rev byte)) in E. rewrite rev_app_distr in E. cbn in E. discriminate E.
    + intros k v [H|[H|[]]]; inversion H; subst; intros p E; apply (f_equal (@rev byte)) in E;
        rewrite rev_app_distr in E; cbn in E; discriminate E.
  - constructor; [|constructor]. intros name H. vm_compute in H. inversion H. discriminate.
  - eexists. split; [left; reflexivity|]. right. left. reflexivity.
Qed.

(** non-vacuity of the well-formedness hypotheses *)
Example C19_example_wf :
  let r := mkResult [(bs "goos", bs "linux")] (name_labels (bs "Foo-8")) 0 (bs "BenchmarkFoo-8 1 2 ns/op") in
  wf_result r
  /\ read_plain (print_all [] [r; r]) = [mkResult (r_labels r) (r_namelabels r) 2 (r_content r);
                                         mkResult (r_labels r) (r_namelabels r) 3 (r_content r)]
  /\ wf_qrec (mkQrec (bs "20260930.1") [(bs "goos", bs "linux"); (bs "upload", bs "20260930.1")]).
Proof.
  cbv zeta. split; [|split].
  - split; [|split; [|split]].
    + split; [split; [intros k v [] | exact I]|].
      intros k v [H|[]]. inversion H; subst. split.
      * split; [cbn; intuition discriminate|]. intros rest. destruct rest; reflexivity.
      * split; [discriminate|]. split; [intros c r0 [= <- _]; reflexivity|].
        split; [cbn; intuition discriminate|].
        intros p E. apply (f_equal (@rev byte)) in E. rewrite rev_app_distr in E. cbn in E. discriminate E.
    + split; [cbn; intuition discriminate|].
      intros p E. apply (f_equal (@rev byte)) in E. rewrite rev_app_distr in E. cbn in E. discriminate E.
    + reflexivity.
    + exists (bs "Foo-8"). repeat split. discriminate.
  - reflexivity.
  - split; [|reflexivity]. intros k v H. apply lookup_Some_In in H.
    destruct H as [H|[H|[]]]; inversion H; subst; intros E; vm_compute in E; discriminate E.
Qed.

(** non-vacuity: concrete instances *)
Example C19_example_merge :
  let k := bs "k" in
  merge_all [mkPart k OpGt (bs "a") []; mkPart k OpLt (bs "c") []; mkPart k OpEq (bs "b") []]
    = Some (mkPart k OpEq (bs "b") [])
  /\ merge_all [mkPart k OpEq (bs "a") []; mkPart k OpEq (bs "b") []] = None
  /\ (exists m, merge_all [mkPart k OpGt (bs "a") []; mkPart k OpLt (bs "a" ++ [c_nul]) []] = Some m
                /\ unsat_shape m = true)
  /\ holds (mkPart k OpLtGt (bs "c") (bs "a")) (bs "b") = true.
Proof. repeat split; try reflexivity. eexists; split; reflexivity. Qed.

Example C19_example_quote :
  quote_word (bs "k:a ""b"" \c") = bs """k:a \""b\"" \\c"""
  /\ split_words (bs """k:a \""b\"" \\c"" | x:y") = [bs "k:a ""b"" \c"; bs "|"; bs "x:y"]
  /\ bs "k:a ""b"" \c" <> [].
Proof. repeat split; try reflexivity. discriminate. Qed.
