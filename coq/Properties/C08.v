(** C08 — Keys identify projected tuples; projections plus residue lose nothing.
    Statements only; proofs are in Proofs/Key.v, Proofs/Projection.v,
    Proofs/Exclusion.v. The model (Model/Projection.v, Model/Key.v) is driven by
    arbitrary streams [ops] of API calls on one ProjectionParser: Parse /
    ParseWithUnit (already-parsed fields, failing calls included), Residue,
    Project, ProjectValues, in any interleaving. A Key is the position of its
    keyNode in the projection's list of interned rows (Go: pointer identity). *)
From Perf Require Import Base.Bytes Model.Name Model.Extract Model.Key Model.Projection
  Proofs.Key Proofs.Projection Proofs.Exclusion Proofs.KeyGet.

(** intern_inv (1): after any stream of calls, in every projection the interned
    rows are pairwise distinct, carry no trailing empty string, and are no longer
    than the current field index space *)
Theorem C08_intern_inv : forall ops w xs,
  run_ops new_world ops = (w, xs) ->
  forall p, In p (w_projs w) ->
    NoDup (p_keys p) /\
    forall r, In r (p_keys p) -> trimmed r /\ (r <> [] -> last r [] <> []) /\ length r <= nfields p.
Proof. exact intern_inv. Qed.
Print Assumptions C08_intern_inv.

(** intern_inv (2): interned rows never change: whatever calls follow, the node at
    position k of projection pi keeps its values (and the index space only grows) *)
Theorem C08_intern_stable : forall ops w w' xs pi p k,
  WInv w -> run_ops w ops = (w', xs) ->
  nth_error (w_projs w) pi = Some p -> k < length (p_keys p) ->
  exists p', nth_error (w_projs w') pi = Some p' /\ key_vals p' k = key_vals p k /\
             length (p_keys p) <= length (p_keys p') /\ nfields p <= nfields p'.
Proof. exact intern_stable. Qed.
Print Assumptions C08_intern_stable.

(** every state reached from the empty world satisfies [WInv] (so C08_intern_stable
    applies between any two points of a stream), and every Key handed out is a valid
    position in the final state *)
Theorem C08_keys_in_range : forall ops,
  let '(w', xs) := run_ops new_world ops in
  WInv w' /\ length xs = length ops /\
  forall i o x, nth_error ops i = Some o -> nth_error xs i = Some x ->
    match o, x with
    | OpProject pi _, OutKeys ks | OpProjectValues pi _, OutKeys ks =>
        exists p', nth_error (w_projs w') pi = Some p' /\ Forall (fun k => k < length (p_keys p')) ks
    | _, _ => True
    end.
Proof.
  intros ops. pose proof (run_ops_spec ops new_world WInv_new) as H.
  destruct (run_ops new_world ops) as [w' xs]. tauto.
Qed.
Print Assumptions C08_keys_in_range.

(** key_eq_iff_values: for Keys k1, k2 returned at any two points of any stream
    by projection pi (both are then positions in the final state, by
    C08_keys_in_range, denoting the same values as when they were returned, by
    C08_intern_stable): they are == iff they read the same at every field index
    of the FINAL field set; a missing value reads as "" *)
Theorem C08_key_eq_iff_values : forall ops w xs pi p k1 k2,
  run_ops new_world ops = (w, xs) -> nth_error (w_projs w) pi = Some p ->
  k1 < length (p_keys p) -> k2 < length (p_keys p) ->
  (k1 = k2 <-> forall idx, idx < nfields p -> key_get p k1 idx = key_get p k2 idx).
Proof.
  intros ops w xs pi p k1 k2 H Hp H1 H2. apply key_eq_iff_gets; auto.
  pose proof (run_ops_spec ops new_world WInv_new) as S. rewrite H in S.
  destruct S as [W _]. unfold WInv in W. rewrite Forall_forall in W.
  apply W. eapply nth_error_In; eauto.
Qed.
Print Assumptions C08_key_eq_iff_values.

(** key_get_extracted: after ANY stream of calls (on results whose configuration
    keys are distinct, as benchfmt maintains), the Key that Project returns for a
    result r holds, in EVERY field of the projection as it is after the call:
    - a field made for a specific key [key] (it is named [key]): [Extract.extract
      key] of r — whose meaning is given by the C05 theorems (.name, /k,
      /gomaxprocs, plain configuration keys, file or internal);
    - .fullname: the full name with the parts of the excluded name keys deleted,
      [Extract.extractor_fullname E], E being the exclude list of the parser's
      full-name extractor: the one it was built from at its first use, or — while
      it is not built — all specific name keys of all Parse calls so far
      ([ext_of]; C08_ext_after_parsing);
    - a sub-field of a .config group (named by its configuration key): the value of
      that FILE configuration key in r, "" if r has none;
    - .unit: "" (Project leaves it empty; ProjectValues fills it).
    [fi_src] is the ghost tag saying which closure owns the field. *)
Theorem C08_key_get_extracted : forall ops w xs pi p r,
  Forall op_wf ops -> run_ops new_world ops = (w, xs) -> nth_error (w_projs w) pi = Some p ->
  NoDup (map c_key (r_cfg r)) ->
  let '(pp', p', k) := project (w_pp w) p r in
  forall idx f, nth_error (p_fields p') idx = Some f ->
    match fi_src f with
    | SKey key => fi_name f = key /\ key_get p' k idx = extract key (r_name r) (r_cfg r)
    | SFull => key_get p' k idx = extractor_fullname (ext_of (w_pp w)) (r_name r)
    | SCfg => key_get p' k idx = cfg_file_val (r_cfg r) (fi_name f)
    | SUnit => key_get p' k idx = []
    end.
Proof. exact key_get_extracted_reachable. Qed.
Print Assumptions C08_key_get_extracted.

Theorem C08_ext_after_parsing : forall calls,
  ext_of (parser_after calls) = pp_full (parser_after calls).
Proof. intros calls. unfold ext_of. now rewrite parser_after_fullext. Qed.
Print Assumptions C08_ext_after_parsing.

(** the Key reads exactly what populateRow left in the row buffer *)
Theorem C08_key_get_row : forall pp p r,
  KInv p ->
  let '(pp1, p1) := populate pp p r in
  let '(pp', p', k) := project pp p r in
  pp' = pp1 /\ forall idx, key_get p' k idx = nth idx (p_row p1) [].
Proof. exact key_get_row. Qed.
Print Assumptions C08_key_get_row.

Theorem C08_project_values_length : forall pp p r,
  let '(_, _, ks) := project_values pp p r in length ks = length (r_units r).
Proof. exact project_values_length. Qed.
Print Assumptions C08_project_values_length.

(** exclusion_order_independent (1): two sequences of Parse / ParseWithUnit calls
    consisting of the same calls — permuted, repeated, failing ones included —
    leave the parser excluding the same specific keys from .config and from
    .fullname, with the same group flags *)
Theorem C08_exclusion_order_independent : forall calls1 calls2,
  (forall c, In c calls1 <-> In c calls2) ->
  pp_equiv (parser_after calls1) (parser_after calls2).
Proof. exact exclusion_order_independent. Qed.
Print Assumptions C08_exclusion_order_independent.

(** (2) the projection a call returns does not depend on the parser's history *)
Theorem C08_parse_proj_indep : forall pp1 pp2 c, snd (do_call pp1 c) = snd (do_call pp2 c).
Proof. exact parse_proj_indep. Qed.
Print Assumptions C08_parse_proj_indep.

(** (3) the full-name extractor depends on the excluded keys only as a set *)
Theorem C08_fullname_extractor_set : forall a b n,
  seteq a b -> extractor_fullname a n = extractor_fullname b n.
Proof. exact extractor_fullname_seteq. Qed.
Print Assumptions C08_fullname_extractor_set.

(** (4) hence any stream of Residue / Project / ProjectValues calls over the same
    projections yields the same Keys, the same projections (group contents
    included) from parsers that exclude the same keys *)
Theorem C08_stream_order_independent : forall ops a b projs,
  Forall no_parse ops -> pp_equiv a b ->
  let '(wa, xa) := run_ops (mkW a projs) ops in
  let '(wb, xb) := run_ops (mkW b projs) ops in
  pp_equiv (w_pp wa) (w_pp wb) /\ w_projs wa = w_projs wb /\ xa = xb.
Proof. exact stream_equiv. Qed.
Print Assumptions C08_stream_order_independent.

(** non-vacuity: a concrete run. ".config" and "goos,/a" parsed in both orders;
    goos is excluded from .config in both; the Keys of a growing stream. *)
Definition ex_goos : pspec := mkPS (bs "goos") (bs "first") [].
Definition ex_a : pspec := mkPS (bs "/a") (bs "alpha") [].
Definition ex_cfg : pspec := mkPS key_config (bs "first") [].
Definition ex_r1 : result := mkR (bs "Fib/a=1-8") [mkCfg (bs "goos") (bs "linux") true] [bs "sec/op"].
Definition ex_r2 : result :=
  mkR (bs "Fib/a=1-8") [mkCfg (bs "goos") (bs "linux") true; mkCfg (bs "pkg") (bs "p") true] [bs "sec/op"].
Definition ex_ops (first_cfg : bool) : list op :=
  (if first_cfg then [OpParse false [ex_cfg]; OpParse false [ex_goos; ex_a]]
   else [OpParse false [ex_goos; ex_a]; OpParse false [ex_cfg]])
  ++ [OpProject (if first_cfg then 0 else 1) ex_r1; OpProject (if first_cfg then 0 else 1) ex_r2;
      OpProject (if first_cfg then 0 else 1) ex_r1;
      OpProject (if first_cfg then 1 else 0) ex_r1; OpProject (if first_cfg then 1 else 0) ex_r2].

Example C08_example :
  skipn 2 (snd (run_ops new_world (ex_ops true))) =
    [OutKeys [0]; OutKeys [1]; OutKeys [0]; OutKeys [0]; OutKeys [0]] /\
  skipn 2 (snd (run_ops new_world (ex_ops false))) = skipn 2 (snd (run_ops new_world (ex_ops true))) /\
  (exists p, nth_error (w_projs (fst (run_ops new_world (ex_ops true)))) 0 = Some p /\
             map (field_name p) (flat p) = [bs "pkg"] /\ p_keys p = [[]; [bs "p"]]) /\
  (exists p, nth_error (w_projs (fst (run_ops new_world (ex_ops true)))) 1 = Some p /\
             p_keys p = [[bs "linux"; bs "1"]]) /\
  pp_equiv (parser_after [(false, [ex_cfg]); (false, [ex_goos; ex_a])])
           (parser_after [(false, [ex_goos; ex_a]); (false, [ex_cfg]); (false, [ex_goos; ex_a])]).
Proof.
  split; [vm_compute; reflexivity|]. split; [vm_compute; reflexivity|].
  split; [eexists; split; [vm_compute; reflexivity|split; vm_compute; reflexivity]|].
  split; [eexists; split; [vm_compute; reflexivity|vm_compute; reflexivity]|].
  apply exclusion_order_independent. intros c. cbn. tauto.
Qed.
