(** C08 — Keys identify projected tuples; projections plus residue lose nothing.
    Statements only; proofs are in Proofs/Key.v, Proofs/Projection.v,
    Proofs/Exclusion.v, Proofs/KeyGet.v, Proofs/Lossless.v, Proofs/LosslessNames.v,
    Proofs/LosslessExec.v, Proofs/LosslessUnits.v, Proofs/LosslessUnitsExec.v,
    Proofs/ProjectionTx.v.

    Two drivers. [run_ops] (Model/Projection.v) is the code AS IT IS: a Parse
    call that returns an error has already recorded the keys of the fields before
    the offending one in the parser, which loses information
    (C08_failed_parse_loses: a defect, repaired by
    hooks/fix_c08_failed_parse_rollback.diff). [run_ops_tx] (Model/ProjectionTx.v)
    is the REPAIRED code: a failing Parse call restores the parser. The theorems
    of the section "the repaired Parse" at the end state the property for
    [run_ops_tx] over ALL streams of Parse calls, failing ones included; the
    correspondence run compares the real code with [run_ops_tx].

    The model (Model/Projection.v, Model/Key.v) is driven by
    arbitrary streams [ops] of API calls on one ProjectionParser: Parse /
    ParseWithUnit (already-parsed fields, failing calls included), Residue,
    Project, ProjectValues, in any interleaving. A Key is the position of its
    keyNode in the projection's list of interned rows (Go: pointer identity). *)
From Perf Require Import Base.Bytes Model.Name Model.Extract Model.Key Model.Projection Model.ProjectionTx
  Proofs.Key Proofs.Projection Proofs.Exclusion Proofs.KeyGet Proofs.Lossless Proofs.LosslessNames
  Proofs.LosslessExec Proofs.LosslessUnits Proofs.LosslessUnitsExec Proofs.ProjectionTx.

(** intern_inv (1): after any stream of calls, in every projection the interned
    rows are pairwise distinct, carry no trailing empty string, and are no longer
    than the current field index space *)
Theorem C08_intern_inv : forall ops w xs,
  run_ops new_world ops = (w, xs) ->
  forall p, In p (w_projs w) ->
    NoDup (p_keys p) /\
    forall r, In r (p_keys p) -> trimmed r /\ (r <> [] -> last r [] <> []) /\ length r <= nfields p.
Proof. exact intern_inv. Qed.
Print Assumptions C08_intern_inv.

(** intern_inv (2): interned rows never change: whatever calls follow, the node at
    position k of projection pi keeps its values (and the index space only grows) *)
Theorem C08_intern_stable : forall ops w w' xs pi p k,
  WInv w -> run_ops w ops = (w', xs) ->
  nth_error (w_projs w) pi = Some p -> k < length (p_keys p) ->
  exists p', nth_error (w_projs w') pi = Some p' /\ key_vals p' k = key_vals p k /\
             length (p_keys p) <= length (p_keys p') /\ nfields p <= nfields p'.
Proof. exact intern_stable. Qed.
Print Assumptions C08_intern_stable.

(** every state reached from the empty world satisfies [WInv] (so C08_intern_stable
    applies between any two points of a stream), and every Key handed out is a valid
    position in the final state *)
Theorem C08_keys_in_range : forall ops,
  let '(w', xs) := run_ops new_world ops in
  WInv w' /\ length xs = length ops /\
  forall i o x, nth_error ops i = Some o -> nth_error xs i = Some x ->
    match o, x with
    | OpProject pi _, OutKeys ks | OpProjectValues pi _, OutKeys ks =>
        exists p', nth_error (w_projs w') pi = Some p' /\ Forall (fun k => k < length (p_keys p')) ks
    | _, _ => True
    end.
Proof.
  intros ops. pose proof (run_ops_spec ops new_world WInv_new) as H.
  destruct (run_ops new_world ops) as [w' xs]. tauto.
Qed.
Print Assumptions C08_keys_in_range.

(** key_eq_iff_values: for Keys k1, k2 returned at any two points of any stream
    by projection pi (both are then positions in the final state, by
    C08_keys_in_range, denoting the same values as when they were returned, by
    C08_intern_stable): they are == iff they read the same at every field index
    of the FINAL field set; a missing value reads as "" *)
Theorem C08_key_eq_iff_values : forall ops w xs pi p k1 k2,
  run_ops new_world ops = (w, xs) -> nth_error (w_projs w) pi = Some p ->
  k1 < length (p_keys p) -> k2 < length (p_keys p) ->
  (k1 = k2 <-> forall idx, idx < nfields p -> key_get p k1 idx = key_get p k2 idx).
Proof.
  intros ops w xs pi p k1 k2 H Hp H1 H2. apply key_eq_iff_gets; auto.
  pose proof (run_ops_spec ops new_world WInv_new) as S. rewrite H in S.
  destruct S as [W _]. unfold WInv in W. rewrite Forall_forall in W.
  apply W. eapply nth_error_In; eauto.
Qed.
Print Assumptions C08_key_eq_iff_values.

(** key_get_extracted: after ANY stream of calls (on results whose configuration
    keys are distinct, as benchfmt maintains), the Key that Project returns for a
    result r holds, in EVERY field of the projection as it is after the call:
    - a field made for a specific key [key] (it is named [key]): [Extract.extract
      key] of r — whose meaning is given by the C05 theorems (.name, /k,
      /gomaxprocs, plain configuration keys, file or internal);
    - .fullname: the full name with the parts of the excluded name keys deleted,
      [Extract.extractor_fullname E], E being the exclude list of the parser's
      full-name extractor: the one it was built from at its first use, or — while
      it is not built — all specific name keys of all Parse calls so far
      ([ext_of]; C08_ext_after_parsing);
    - a sub-field of a .config group (named by its configuration key): the value of
      that FILE configuration key in r, "" if r has none;
    - .unit: "" (Project leaves it empty; ProjectValues fills it).
    [fi_src] is the ghost tag saying which closure owns the field. *)
Theorem C08_key_get_extracted : forall ops w xs pi p r,
  Forall op_wf ops -> run_ops new_world ops = (w, xs) -> nth_error (w_projs w) pi = Some p ->
  NoDup (map c_key (r_cfg r)) ->
  let '(pp', p', k) := project (w_pp w) p r in
  forall idx f, nth_error (p_fields p') idx = Some f ->
    match fi_src f with
    | SKey key => fi_name f = key /\ key_get p' k idx = extract key (r_name r) (r_cfg r)
    | SFull => key_get p' k idx = extractor_fullname (ext_of (w_pp w)) (r_name r)
    | SCfg => key_get p' k idx = cfg_file_val (r_cfg r) (fi_name f)
    | SUnit => key_get p' k idx = []
    end.
Proof. exact key_get_extracted_reachable. Qed.
Print Assumptions C08_key_get_extracted.

Theorem C08_ext_after_parsing : forall calls,
  ext_of (parser_after calls) = pp_full (parser_after calls).
Proof. intros calls. unfold ext_of. now rewrite parser_after_fullext. Qed.
Print Assumptions C08_ext_after_parsing.

(** the Key reads exactly what populateRow left in the row buffer *)
Theorem C08_key_get_row : forall pp p r,
  KInv p ->
  let '(pp1, p1) := populate pp p r in
  let '(pp', p', k) := project pp p r in
  pp' = pp1 /\ forall idx, key_get p' k idx = nth idx (p_row p1) [].
Proof. exact key_get_row. Qed.
Print Assumptions C08_key_get_row.

Theorem C08_project_values_length : forall pp p r,
  let '(_, _, ks) := project_values pp p r in length ks = length (r_units r).
Proof. exact project_values_length. Qed.
Print Assumptions C08_project_values_length.

(** exclusion_order_independent (1): two sequences of Parse / ParseWithUnit calls
    consisting of the same calls — permuted, repeated, failing ones included —
    leave the parser excluding the same specific keys from .config and from
    .fullname, with the same group flags *)
Theorem C08_exclusion_order_independent : forall calls1 calls2,
  (forall c, In c calls1 <-> In c calls2) ->
  pp_equiv (parser_after calls1) (parser_after calls2).
Proof. exact exclusion_order_independent. Qed.
Print Assumptions C08_exclusion_order_independent.

(** (2) the projection a call returns does not depend on the parser's history *)
Theorem C08_parse_proj_indep : forall pp1 pp2 c, snd (do_call pp1 c) = snd (do_call pp2 c).
Proof. exact parse_proj_indep. Qed.
Print Assumptions C08_parse_proj_indep.

(** (3) the full-name extractor depends on the excluded keys only as a set *)
Theorem C08_fullname_extractor_set : forall a b n,
  seteq a b -> extractor_fullname a n = extractor_fullname b n.
Proof. exact extractor_fullname_seteq. Qed.
Print Assumptions C08_fullname_extractor_set.

(** (4) hence any stream of Residue / Project / ProjectValues calls over the same
    projections yields the same Keys, the same projections (group contents
    included) from parsers that exclude the same keys *)
Theorem C08_stream_order_independent : forall ops a b projs,
  Forall no_parse ops -> pp_equiv a b ->
  let '(wa, xa) := run_ops (mkW a projs) ops in
  let '(wb, xb) := run_ops (mkW b projs) ops in
  pp_equiv (w_pp wa) (w_pp wb) /\ w_projs wa = w_projs wb /\ xa = xb.
Proof. exact stream_equiv. Qed.
Print Assumptions C08_stream_order_independent.

(** non-vacuity: a concrete run. ".config" and "goos,/a" parsed in both orders;
    goos is excluded from .config in both; the Keys of a growing stream. *)
Definition ex_goos : pspec := mkPS (bs "goos") (bs "first") [].
Definition ex_a : pspec := mkPS (bs "/a") (bs "alpha") [].
Definition ex_cfg : pspec := mkPS key_config (bs "first") [].
Definition ex_r1 : result := mkR (bs "Fib/a=1-8") [mkCfg (bs "goos") (bs "linux") true] [bs "sec/op"].
Definition ex_r2 : result :=
  mkR (bs "Fib/a=1-8") [mkCfg (bs "goos") (bs "linux") true; mkCfg (bs "pkg") (bs "p") true] [bs "sec/op"].
Definition ex_ops (first_cfg : bool) : list op :=
  (if first_cfg then [OpParse false [ex_cfg]; OpParse false [ex_goos; ex_a]]
   else [OpParse false [ex_goos; ex_a]; OpParse false [ex_cfg]])
  ++ [OpProject (if first_cfg then 0 else 1) ex_r1; OpProject (if first_cfg then 0 else 1) ex_r2;
      OpProject (if first_cfg then 0 else 1) ex_r1;
      OpProject (if first_cfg then 1 else 0) ex_r1; OpProject (if first_cfg then 1 else 0) ex_r2].

Example C08_example :
  skipn 2 (snd (run_ops new_world (ex_ops true))) =
    [OutKeys [0]; OutKeys [1]; OutKeys [0]; OutKeys [0]; OutKeys [0]] /\
  skipn 2 (snd (run_ops new_world (ex_ops false))) = skipn 2 (snd (run_ops new_world (ex_ops true))) /\
  (exists p, nth_error (w_projs (fst (run_ops new_world (ex_ops true)))) 0 = Some p /\
             map (field_name p) (flat p) = [bs "pkg"] /\ p_keys p = [[]; [bs "p"]]) /\
  (exists p, nth_error (w_projs (fst (run_ops new_world (ex_ops true)))) 1 = Some p /\
             p_keys p = [[bs "linux"; bs "1"]]) /\
  pp_equiv (parser_after [(false, [ex_cfg]); (false, [ex_goos; ex_a])])
           (parser_after [(false, [ex_goos; ex_a]); (false, [ex_cfg]); (false, [ex_goos; ex_a])]).
Proof.
  split; [vm_compute; reflexivity|]. split; [vm_compute; reflexivity|].
  split; [eexists; split; [vm_compute; reflexivity|split; vm_compute; reflexivity]|].
  split; [eexists; split; [vm_compute; reflexivity|vm_compute; reflexivity]|].
  apply exclusion_order_independent. intros c. cbn. tauto.
Qed.

(** ** projections plus residue lose nothing (DESIGN 7.8, precise form)

    Setting. [calls] are the Parse / ParseWithUnit calls made on one parser, every
    one returning a projection ([call_ok]: after a Parse that returned an error
    the parser has recorded keys nobody projects — C08_failed_parse_loses); then
    Residue; then ANY stream [rest] of Project / ProjectValues / further Residue
    calls on results whose configuration keys are distinct ([op_wf], as benchfmt
    maintains). The projections are numbered 0 .. length calls - 1 in call order,
    the residue is number [length calls]. Results [a] and [b] are projected by
    every one of them at arbitrary positions [ia pi], [ib pi] of the stream — any
    number of other results, with new configuration keys, may come before,
    between and after — and [ka pi], [kb pi] are the Keys returned (positions of
    the interned keyNodes: [=] is Go's [==] on Keys of one projection).

    Statement. The Keys agree in every projection and in the residue IF AND ONLY
    IF ([same_info], with C = the parser's configKeys and E = its fullnameKeys,
    the exclude list of the full-name extractor, C08_ext_after_parsing):
      (i)   every individually projected configuration key k in C looks up the
            same value — [extract_config]: the value of the entry with that key,
            FILE OR INTERNAL, "" when there is none (C05 config_lookup_spec);
      (ii)  the FILE configurations restricted to the keys not in C are equal as
            maps — [cfg_file_val]: the value of the file entry, "" when the key
            has no file entry (the way Key.Get reads a missing value);
      (iii) every individually projected name key k in E (.name, /k,
            /gomaxprocs) extracts the same value ([extract], C05 namepart_spec,
            gomaxprocs_spec);
      (iv)  the names with those parts deleted are equal
            ([extractor_fullname E]; C08_fullname_clause_spec says what that is).
    No hypothesis on the names is needed for this equivalence; where the
    property's "(for names whose sub-name keys are distinct)" comes in is stated
    in C08_deleted_parts_are_read below. *)
Theorem C08_projections_plus_residue_lossless :
  forall calls rest a b (ia ib ka kb : nat -> nat),
  Forall call_ok calls -> Forall no_parse rest -> Forall op_wf rest ->
  let pa := parser_after calls in
  let w0 := fst (run_ops new_world (parse_ops calls ++ [OpResidue])) in
  let xs := snd (run_ops w0 rest) in
  (forall pi, pi <= length calls ->
     nth_error rest (ia pi) = Some (OpProject pi a) /\ nth_error xs (ia pi) = Some (OutKeys [ka pi]) /\
     nth_error rest (ib pi) = Some (OpProject pi b) /\ nth_error xs (ib pi) = Some (OutKeys [kb pi])) ->
  ((forall pi, pi <= length calls -> ka pi = kb pi) <-> same_info (pp_cfg pa) (pp_full pa) a b).
Proof. exact projections_plus_residue_lossless. Qed.
Print Assumptions C08_projections_plus_residue_lossless.

(** the four clauses, spelled out (this is the definition of [same_info]) *)
Theorem C08_same_info_clauses : forall C E a b,
  same_info C E a b <->
  (forall k, In k C -> extract_config (r_cfg a) k = extract_config (r_cfg b) k) /\
  (forall k, ~ In k C -> cfg_file_val (r_cfg a) k = cfg_file_val (r_cfg b) k) /\
  (forall k, In k E -> extract k (r_name a) (r_cfg a) = extract k (r_name b) (r_cfg b)) /\
  extractor_fullname E (r_name a) = extractor_fullname E (r_name b).
Proof. intros C E a b. reflexivity. Qed.
Print Assumptions C08_same_info_clauses.

(** the "group contents" lemma behind it: the Key handed out for [r] anywhere in
    the stream, read in the FINAL state (field set grown by all later results):
    every field holds what its extractor yields on [r]; every file key of [r]
    that is not individually projected has a sub-field in every .config group,
    holding that key's value; no sub-field is named by an individually projected
    key *)
Theorem C08_group_contents : forall calls rest i pi r k,
  Forall call_ok calls -> Forall no_parse rest -> Forall op_wf rest ->
  let pa := parser_after calls in
  let w0 := fst (run_ops new_world (parse_ops calls ++ [OpResidue])) in
  nth_error rest i = Some (OpProject pi r) ->
  nth_error (snd (run_ops w0 rest)) i = Some (OutKeys [k]) ->
  exists pF, nth_error (w_projs (fst (run_ops w0 rest))) pi = Some pF /\ k < length (p_keys pF) /\
    (forall idx f, nth_error (p_fields pF) idx = Some f -> key_get pF k idx = want (pp_full pa) r f) /\
    (forall g o c, In (PConfig g o) (p_items pF) ->
       In c (r_cfg r) -> c_file c = true -> ~ In (c_key c) (pp_cfg pa) ->
       exists j, In j (group_subs pF g) /\ field_name pF j = c_key c /\ key_get pF k j = c_val c) /\
    (forall g j, In j (group_subs pF g) -> ~ In (field_name pF j) (pp_cfg pa)).
Proof. exact group_contents. Qed.
Print Assumptions C08_group_contents.

(** How the precise form maps onto the prose ("the same file configuration, the
    same value for every individually projected name key, the same remaining
    name"). Clauses (iii) and (iv) ARE the last two. For the configuration: when
    no individually projected key is internal in one result and file-or-absent in
    the other, (i) and (ii) together say: the file configurations are equal as
    maps, and the individually projected keys that are internal in both have
    equal values. *)
Theorem C08_lossless_same_kind :
  forall calls rest a b (ia ib ka kb : nat -> nat),
  Forall call_ok calls -> Forall no_parse rest -> Forall op_wf rest ->
  let pa := parser_after calls in
  let w0 := fst (run_ops new_world (parse_ops calls ++ [OpResidue])) in
  let xs := snd (run_ops w0 rest) in
  (forall pi, pi <= length calls ->
     nth_error rest (ia pi) = Some (OpProject pi a) /\ nth_error xs (ia pi) = Some (OutKeys [ka pi]) /\
     nth_error rest (ib pi) = Some (OpProject pi b) /\ nth_error xs (ib pi) = Some (OutKeys [kb pi])) ->
  (forall k, In k (pp_cfg pa) -> internal_in (r_cfg a) k = internal_in (r_cfg b) k) ->
  ((forall pi, pi <= length calls -> ka pi = kb pi) <->
   file_cfg_equal a b /\
   (forall k, In k (pp_cfg pa) -> internal_in (r_cfg a) k = true ->
      extract_config (r_cfg a) k = extract_config (r_cfg b) k) /\
   (forall k, In k (pp_full pa) -> extract k (r_name a) (r_cfg a) = extract k (r_name b) (r_cfg b)) /\
   extractor_fullname (pp_full pa) (r_name a) = extractor_fullname (pp_full pa) (r_name b)).
Proof. exact lossless_same_kind. Qed.
Print Assumptions C08_lossless_same_kind.

(** ... and when no individually projected key is internal in either result, the
    prose verbatim *)
Theorem C08_lossless_file_only :
  forall calls rest a b (ia ib ka kb : nat -> nat),
  Forall call_ok calls -> Forall no_parse rest -> Forall op_wf rest ->
  let pa := parser_after calls in
  let w0 := fst (run_ops new_world (parse_ops calls ++ [OpResidue])) in
  let xs := snd (run_ops w0 rest) in
  (forall pi, pi <= length calls ->
     nth_error rest (ia pi) = Some (OpProject pi a) /\ nth_error xs (ia pi) = Some (OutKeys [ka pi]) /\
     nth_error rest (ib pi) = Some (OpProject pi b) /\ nth_error xs (ib pi) = Some (OutKeys [kb pi])) ->
  (forall k, In k (pp_cfg pa) -> internal_in (r_cfg a) k = false /\ internal_in (r_cfg b) k = false) ->
  ((forall pi, pi <= length calls -> ka pi = kb pi) <->
   file_cfg_equal a b /\
   (forall k, In k (pp_full pa) -> extract k (r_name a) (r_cfg a) = extract k (r_name b) (r_cfg b)) /\
   extractor_fullname (pp_full pa) (r_name a) = extractor_fullname (pp_full pa) (r_name b)).
Proof. exact lossless_file_only. Qed.
Print Assumptions C08_lossless_file_only.

(** clause (iv), declaratively: ".name" in E replaces the base name by "*"; every
    part owned by a key of E ("/k=..." for /k in E; the trailing "-N" and
    "/gomaxprocs=..." for /gomaxprocs in E) is deleted; nothing else changes *)
Theorem C08_fullname_clause_spec : forall E n,
  extractor_fullname E n =
  (if existsb (beq key_name) E then [c_star] else fst (parts n))
    ++ concat (filter (fun p => negb (existsb (fun k => owns k p) E)) (snd (parts n))).
Proof. exact extractor_fullname_spec. Qed.
Print Assumptions C08_fullname_clause_spec.

(** "(for names whose sub-name keys are distinct)": when no key of E owns two
    parts of the name, every part that (iv) deletes is the very part whose value
    (iii) compares — "/k=" followed by the value of /k, or "-" followed by the
    value of /gomaxprocs — so no part of the name goes uncompared. Without the
    hypothesis a second "/k=..." part is deleted but read by nobody
    (C08_duplicate_subkey_unseen). *)
Theorem C08_deleted_parts_are_read : forall E n c p,
  DistinctSubKeys E n -> In p (snd (parts n)) ->
  existsb (fun k => owns k p) E = true ->
  exists k, In k E /\ owns k p = true /\
    p = (if starts_dash p then [c_dash] else k ++ [c_eq]) ++ extract k n c.
Proof. exact deleted_parts_are_read. Qed.
Print Assumptions C08_deleted_parts_are_read.

(** The executable check that the correspondence evaluator applies to the Keys
    the REAL code returned (Corr/RunC08.v: [lossless_ok] compares Key agreement of
    every pair of results of a stream with [RunC08.same_info]) decides exactly
    the right-hand side of the theorem: the exclusion lists it computes from the
    expressions are the parser's ([calls_of ex]: one Parse/ParseWithUnit call per
    expression), and its boolean tests are the four clauses. The extra conjunct
    concerns expressions parsed by ParseWithUnit and projected by ProjectValues:
    the checker then also compares the units — the theorem for that is
    C08_projections_plus_residue_lossless_units below, and
    C08_lossless_check_decides_units says this check decides its right-hand side. *)
Theorem C08_lossless_check_decides : forall ex a b,
  Forall call_ok (calls_of ex) ->
  let pa := parser_after (calls_of ex) in
  (Perf.Corr.RunC08.same_info ex a b = true <->
   same_info (pp_cfg pa) (pp_full pa) a b /\
   (existsb Perf.Corr.RunC08.e_unit ex = true -> r_units a = r_units b)).
Proof. exact same_info_exec. Qed.
Print Assumptions C08_lossless_check_decides.

(** *** non-vacuity and the witnesses for the remarks above *)
Ltac solve_wf :=
  repeat constructor; cbn; intuition discriminate.

Definition lx_calls : list call := [(false, [ex_goos; ex_a]); (true, [ex_cfg])].
Definition lx_a : result :=
  mkR (bs "Fib/a=1/b=2-8") [mkCfg (bs "goos") (bs "linux") true; mkCfg (bs "pkg") (bs "p") true] [bs "sec/op"].
Definition lx_b : result :=
  mkR (bs "Fib/b=2/a=1-8") [mkCfg (bs "pkg") (bs "p") true; mkCfg (bs "goos") (bs "linux") true]
      [bs "sec/op"; bs "B/op"].
Definition lx_c : result :=
  mkR (bs "Fib/a=1/b=3-8") [mkCfg (bs "goos") (bs "linux") true; mkCfg (bs "cpu") (bs "x") true] [bs "sec/op"].
Definition lx_rest : list op :=
  [OpProject 0 lx_a; OpProject 1 lx_a; OpProject 2 lx_a; OpProjectValues 1 lx_c; OpProject 2 lx_c; OpResidue;
   OpProject 0 lx_b; OpProject 1 lx_b; OpProject 2 lx_b; OpProject 0 lx_c; OpProject 1 lx_c].
Definition lx_w0 : world := fst (run_ops new_world (parse_ops lx_calls ++ [OpResidue])).

(** "goos,/a", ".config" with .unit, residue (= .fullname minus /a). lx_a and lx_b
    (different part order in the name, different order of the configuration,
    different units) get equal Keys everywhere although a third result with a new
    key comes in between; lx_c differs from lx_a in the .config projection and in
    the residue. Both instances satisfy every hypothesis of the theorem, which
    therefore decides [same_info] for them. *)
Example C08_lossless_example :
  let C := pp_cfg (parser_after lx_calls) in
  let E := pp_full (parser_after lx_calls) in
  let xs := snd (run_ops lx_w0 lx_rest) in
  Forall call_ok lx_calls /\ Forall no_parse lx_rest /\ Forall op_wf lx_rest /\
  C = [bs "goos"] /\ E = [bs "/a"] /\
  (forall pi, pi <= length lx_calls ->
     nth_error lx_rest pi = Some (OpProject pi lx_a) /\ nth_error xs pi = Some (OutKeys [0]) /\
     nth_error lx_rest (6 + pi) = Some (OpProject pi lx_b) /\ nth_error xs (6 + pi) = Some (OutKeys [0])) /\
  same_info C E lx_a lx_b /\ r_name lx_a <> r_name lx_b /\
  (forall pi, pi <= length lx_calls ->
     nth_error lx_rest pi = Some (OpProject pi lx_a) /\ nth_error xs pi = Some (OutKeys [0]) /\
     nth_error lx_rest (nth pi [9; 10; 4] 0) = Some (OpProject pi lx_c) /\
     nth_error xs (nth pi [9; 10; 4] 0) = Some (OutKeys [nth pi [0; 2; 1] 0])) /\
  ~ same_info C E lx_a lx_c.
Proof.
  cbv zeta.
  assert (H1 : Forall call_ok lx_calls) by (repeat constructor).
  assert (H2 : Forall no_parse lx_rest) by (repeat constructor).
  assert (H3 : Forall op_wf lx_rest) by solve_wf.
  assert (H4 : forall pi, pi <= length lx_calls ->
     nth_error lx_rest pi = Some (OpProject pi lx_a) /\
     nth_error (snd (run_ops lx_w0 lx_rest)) pi = Some (OutKeys [0]) /\
     nth_error lx_rest (6 + pi) = Some (OpProject pi lx_b) /\
     nth_error (snd (run_ops lx_w0 lx_rest)) (6 + pi) = Some (OutKeys [0])).
  { intros [|[|[|pi]]] Hpi; [| | |cbn in Hpi; lia]; repeat split; vm_compute; reflexivity. }
  assert (H5 : forall pi, pi <= length lx_calls ->
     nth_error lx_rest pi = Some (OpProject pi lx_a) /\
     nth_error (snd (run_ops lx_w0 lx_rest)) pi = Some (OutKeys [0]) /\
     nth_error lx_rest (nth pi [9; 10; 4] 0) = Some (OpProject pi lx_c) /\
     nth_error (snd (run_ops lx_w0 lx_rest)) (nth pi [9; 10; 4] 0) = Some (OutKeys [nth pi [0; 2; 1] 0])).
  { intros [|[|[|pi]]] Hpi; [| | |cbn in Hpi; lia]; repeat split; vm_compute; reflexivity. }
  split; [exact H1|]. split; [exact H2|]. split; [exact H3|].
  split; [vm_compute; reflexivity|]. split; [vm_compute; reflexivity|].
  split; [exact H4|]. split.
  - apply (projections_plus_residue_lossless lx_calls lx_rest lx_a lx_b (fun pi => pi) (fun pi => 6 + pi)
             (fun _ => 0) (fun _ => 0) H1 H2 H3 H4). reflexivity.
  - split; [discriminate|]. split; [exact H5|]. intros Hs.
    pose proof (proj2 (projections_plus_residue_lossless lx_calls lx_rest lx_a lx_c (fun pi => pi)
             (fun pi => nth pi [9; 10; 4] 0) (fun _ => 0) (fun pi => nth pi [0; 2; 1] 0) H1 H2 H3 H5) Hs) as Hk.
    specialize (Hk 1 (le_S _ _ (le_n 1))). discriminate Hk.
Qed.

(** an individually projected key that is a FILE key in one result and INTERNAL in
    the other: "goos" and the residue give equal Keys (clause (i) compares the
    looked-up values, clause (ii) does not see goos), yet the file configurations
    differ — the hypothesis of C08_lossless_same_kind is needed for the prose *)
Definition kw_a : result := mkR (bs "F") [mkCfg (bs "goos") (bs "linux") true] [].
Definition kw_b : result := mkR (bs "F") [mkCfg (bs "goos") (bs "linux") false] [].
Example C08_kind_mismatch_witness :
  let calls := [(false, [ex_goos])] in
  let w0 := fst (run_ops new_world (parse_ops calls ++ [OpResidue])) in
  snd (run_ops w0 [OpProject 0 kw_a; OpProject 1 kw_a; OpProject 0 kw_b; OpProject 1 kw_b])
    = [OutKeys [0]; OutKeys [0]; OutKeys [0]; OutKeys [0]] /\
  ~ file_cfg_equal kw_a kw_b /\
  internal_in (r_cfg kw_a) (bs "goos") <> internal_in (r_cfg kw_b) (bs "goos").
Proof.
  cbv zeta. split; [vm_compute; reflexivity|]. split; [|vm_compute; discriminate].
  intros H. specialize (H (bs "goos")). vm_compute in H. discriminate H.
Qed.

(** a name with the sub-name key /a twice: "/a" reads the first, the residue
    deletes both, so the two names get equal Keys everywhere although they differ
    in a part — which no Key reads *)
Definition dw_a : result := mkR (bs "Fib/a=1/a=2") [] [].
Definition dw_b : result := mkR (bs "Fib/a=1/a=3") [] [].
Example C08_duplicate_subkey_unseen :
  let calls := [(false, [ex_a])] in
  let w0 := fst (run_ops new_world (parse_ops calls ++ [OpResidue])) in
  snd (run_ops w0 [OpProject 0 dw_a; OpProject 1 dw_a; OpProject 0 dw_b; OpProject 1 dw_b])
    = [OutKeys [0]; OutKeys [0]; OutKeys [0]; OutKeys [0]] /\
  r_name dw_a <> r_name dw_b /\
  ~ DistinctSubKeys (pp_full (parser_after calls)) (r_name dw_a) /\
  DistinctSubKeys (pp_full (parser_after lx_calls)) (r_name lx_a).
Proof.
  cbv zeta. split; [vm_compute; reflexivity|]. split; [discriminate|]. split.
  - intros H. specialize (H (bs "/a") (or_introl eq_refl)). vm_compute in H. lia.
  - intros k [<-|[]]. vm_compute. lia.
Qed.

(** DEFECT of the code as it is (refutes the property on a history with a failing
    Parse): a Parse call that returned an error has already recorded "goos" in
    the parser: the residue leaves it out and no projection carries it, so
    results differing in goos get equal Keys. For [run_ops], [call_ok] is needed;
    the repaired Parse ([run_ops_tx]) does not need it
    (C08_projections_plus_residue_lossless_any_calls, C08_failed_parse_judged). *)
Definition fw_a : result := mkR (bs "F") [mkCfg (bs "goos") (bs "linux") true] [].
Definition fw_b : result := mkR (bs "F") [mkCfg (bs "goos") (bs "darwin") true] [].
Example C08_failed_parse_loses :
  let calls := [(false, [ex_goos; mkPS key_unit (bs "first") []])] in
  let '(w0, xs0) := run_ops new_world (parse_ops calls ++ [OpResidue]) in
  xs0 = [OutParse false; OutNone] /\ ~ Forall call_ok calls /\
  snd (run_ops w0 [OpProject 0 fw_a; OpProject 0 fw_b]) = [OutKeys [0]; OutKeys [0]] /\
  ~ file_cfg_equal fw_a fw_b.
Proof.
  cbv zeta. vm_compute run_ops. split; [reflexivity|]. split.
  - intros H. inversion H as [|? ? Hc _]; subst. vm_compute in Hc. discriminate Hc.
  - split; [reflexivity|]. intros H. specialize (H (bs "goos")). vm_compute in H. discriminate H.
Qed.

(** the theorem is about streams in which all Parse calls come first. That is the
    contract: the property quantifies over "sets of projection expressions parsed
    in every order, and all streams of results" and names the mechanism
    ("closures reading parser state after all parsing"); benchproc's package
    documentation has the projections produced before the results are
    projected, and projection.go states it where the exclusions are read ("this
    closure doesn't get called until we've parsed all projections", "we delay
    constructing the extractor until we process the first Result"). "Irrespective
    of the order in which they were parsed" is the order of the Parse calls among
    themselves (C08_exclusion_order_independent). Outside that contract:
    a Project before a later Parse leaves a sub-field for a key
    that the later Parse excludes; that stale sub-field then compares FILE values
    where clause (i) compares looked-up values: the Keys of ".config" differ
    although [same_info] holds. *)
Definition pw_r0 : result := mkR (bs "F") [mkCfg (bs "goos") (bs "x") true] [].
Example C08_parse_after_project_witness :
  let ops := [OpParse false [ex_cfg]; OpProject 0 pw_r0; OpParse false [ex_goos]; OpResidue;
              OpProject 0 kw_a; OpProject 0 kw_b; OpProject 1 kw_a; OpProject 1 kw_b;
              OpProject 2 kw_a; OpProject 2 kw_b] in
  let '(w, xs) := run_ops new_world ops in
  skipn 4 xs = [OutKeys [1]; OutKeys [2]; OutKeys [0]; OutKeys [0]; OutKeys [0]; OutKeys [0]] /\
  pp_cfg (w_pp w) = [bs "goos"] /\ pp_full (w_pp w) = [] /\
  same_info [bs "goos"] [] kw_a kw_b.
Proof.
  cbv zeta. vm_compute run_ops. split; [reflexivity|]. split; [reflexivity|]. split; [reflexivity|].
  split; [|split; [|split]].
  - intros k [<-|[]]. reflexivity.
  - intros k Hk. unfold cfg_file_val, kw_a, kw_b. cbn [r_cfg cfg_lookup c_key].
    destruct (beq_spec (bs "goos") k) as [<-|_]; [|reflexivity]. exfalso. apply Hk. now left.
  - intros k [].
  - reflexivity.
Qed.

(** ** the .unit dimension: ParseWithUnit projections projected by ProjectValues

    Setting as for C08_projections_plus_residue_lossless, except that every
    projection returned by ParseWithUnit is projected by ProjectValues — one Key
    per measurement of the result, carrying that measurement's unit in the .unit
    field — and the others and the residue by Project ([proj_op calls pi r];
    [with_unit calls pi]: call number pi was ParseWithUnit). [ka pi], [kb pi] are
    the LISTS of Keys returned for [a] and [b] by projection [pi] (one Key for
    Project), at arbitrary positions of any stream [rest] after parsing.
    Hypothesis on the results: when some projection carries .unit, [a] or [b] has
    at least one measurement. The Reader never delivers a result without one
    (benchfmt/reader.go: "missing measurements"); a result without measurements
    gets no Key at all from ProjectValues, so nothing can be read off the
    ParseWithUnit projections for it (C08_lossless_units_needs_values).

    Statement. The Key lists agree in every projection and in the residue IF AND
    ONLY IF clauses (i)-(iv) hold ([same_info]) AND — when some projection
    carries .unit — the unit lists of the two results ([r_units]: the units of
    their Values, in order) are equal. *)
Theorem C08_projections_plus_residue_lossless_units :
  forall calls rest a b (ia ib : nat -> nat) (ka kb : nat -> list nat),
  Forall call_ok calls -> Forall no_parse rest -> Forall op_wf rest ->
  let w0 := fst (run_ops new_world (parse_ops calls ++ [OpResidue])) in
  let xs := snd (run_ops w0 rest) in
  (forall pi, pi <= length calls ->
     nth_error rest (ia pi) = Some (proj_op calls pi a) /\ nth_error xs (ia pi) = Some (OutKeys (ka pi)) /\
     nth_error rest (ib pi) = Some (proj_op calls pi b) /\ nth_error xs (ib pi) = Some (OutKeys (kb pi))) ->
  (existsb fst calls = true -> r_units a <> [] \/ r_units b <> []) ->
  ((forall pi, pi <= length calls -> ka pi = kb pi) <-> same_info_units calls a b).
Proof. exact projections_plus_residue_lossless_units. Qed.
Print Assumptions C08_projections_plus_residue_lossless_units.

(** the right-hand side and the operation used per projection, spelled out *)
Theorem C08_same_info_units_clauses : forall calls a b,
  same_info_units calls a b <->
  same_info (pp_cfg (parser_after calls)) (pp_full (parser_after calls)) a b /\
  (existsb fst calls = true -> r_units a = r_units b).
Proof. intros calls a b. reflexivity. Qed.
Print Assumptions C08_same_info_units_clauses.

Theorem C08_proj_op_spec : forall calls pi r,
  proj_op calls pi r =
  match nth_error calls pi with
  | Some (true, _) => OpProjectValues pi r
  | _ => OpProject pi r
  end.
Proof. intros calls pi r. unfold proj_op, with_unit. destruct (nth_error calls pi) as [[[|] fs]|]; reflexivity. Qed.
Print Assumptions C08_proj_op_spec.

(** the same with the Keys of each result as one list of Key lists (entry [pi]
    from projection [pi], the last from the residue): the shape in which the
    correspondence evaluator compares the Keys the real code returned *)
Theorem C08_lossless_units_lists :
  forall calls rest a b (ia ib : nat -> nat) (Ka Kb : list (list nat)),
  Forall call_ok calls -> Forall no_parse rest -> Forall op_wf rest ->
  let w0 := fst (run_ops new_world (parse_ops calls ++ [OpResidue])) in
  let xs := snd (run_ops w0 rest) in
  length Ka = S (length calls) -> length Kb = S (length calls) ->
  (forall pi, pi <= length calls ->
     nth_error rest (ia pi) = Some (proj_op calls pi a) /\
     nth_error xs (ia pi) = Some (OutKeys (nth pi Ka [])) /\
     nth_error rest (ib pi) = Some (proj_op calls pi b) /\
     nth_error xs (ib pi) = Some (OutKeys (nth pi Kb []))) ->
  (existsb fst calls = true -> r_units a <> [] \/ r_units b <> []) ->
  (Ka = Kb <-> same_info_units calls a b).
Proof. exact lossless_units_lists. Qed.
Print Assumptions C08_lossless_units_lists.

(** what the Keys of ProjectValues hold (the counterpart of C08_group_contents):
    the Keys handed out for [r] anywhere in the stream after parsing by a
    projection that ParseWithUnit returned, read in the FINAL state. One Key per
    measurement, in order; [key_get] of its .unit field — the projection's unit
    field [p_unit], a field named ".unit" — is that measurement's unit; every
    other field holds what its extractor yields on [r] ([want], as for Project) *)
Theorem C08_unit_key_contents : forall calls rest i pi r ks,
  Forall call_ok calls -> Forall no_parse rest -> Forall op_wf rest ->
  let pa := parser_after calls in
  let w0 := fst (run_ops new_world (parse_ops calls ++ [OpResidue])) in
  with_unit calls pi = true ->
  nth_error rest i = Some (OpProjectValues pi r) ->
  nth_error (snd (run_ops w0 rest)) i = Some (OutKeys ks) ->
  exists pF u, nth_error (w_projs (fst (run_ops w0 rest))) pi = Some pF /\
    p_unit pF = Some u /\ field_name pF u = key_unit /\
    Forall2 (fun k un => k < length (p_keys pF) /\ key_get pF k u = un /\
               forall idx f, nth_error (p_fields pF) idx = Some f -> idx <> u ->
                 key_get pF k idx = want (pp_full pa) r f)
            ks (r_units r).
Proof. exact unit_key_contents. Qed.
Print Assumptions C08_unit_key_contents.

(** ... and after ANY stream of calls (Parse calls interleaved, failing ones
    included; the counterpart of C08_key_get_extracted): ProjectValues through a
    projection with a unit field [u] returns one Key per measurement, in order;
    the i-th Key holds the i-th unit in field [u] and, in every other field, the
    value C08_key_get_extracted describes ([want]: by the field's tag) *)
Theorem C08_unit_get_reachable : forall ops w xs pi p r u,
  Forall op_wf ops -> run_ops new_world ops = (w, xs) -> nth_error (w_projs w) pi = Some p ->
  NoDup (map c_key (r_cfg r)) -> p_unit p = Some u ->
  let '(pp', p', ks) := project_values (w_pp w) p r in
  p_unit p' = Some u /\
  Forall2 (fun k un => k < length (p_keys p') /\ key_get p' k u = un /\
             forall idx f, nth_error (p_fields p') idx = Some f -> idx <> u ->
               key_get p' k idx = want (ext_of (w_pp w)) r f)
          ks (r_units r).
Proof. exact unit_get_reachable. Qed.
Print Assumptions C08_unit_get_reachable.

(** The executable check (Corr/RunC08.v), unit part included: [RunC08.same_info]
    decides [same_info_units], the right-hand side of the theorem above;
    [lossless_ok] requires, for every ordered pair of the list it is given, that
    the observed Key lists are equal iff [same_info_units]; and [judged] hands it
    only results with a measurement when some expression carries .unit, i.e.
    pairs that satisfy the theorem's hypothesis. *)
Theorem C08_lossless_check_decides_units : forall ex a b,
  Forall call_ok (calls_of ex) ->
  (Perf.Corr.RunC08.same_info ex a b = true <-> same_info_units (calls_of ex) a b).
Proof. exact same_info_exec_units. Qed.
Print Assumptions C08_lossless_check_decides_units.

Theorem C08_lossless_ok_decides : forall ex rs,
  Forall call_ok (calls_of ex) ->
  (Perf.Corr.RunC08.lossless_ok ex rs = true <->
   ForallOrdPairs (fun x y => snd x = snd y <-> same_info_units (calls_of ex) (fst x) (fst y)) rs).
Proof. exact lossless_ok_decides. Qed.
Print Assumptions C08_lossless_ok_decides.

Theorem C08_judged_has_values : forall ex rs x,
  In x (Perf.Corr.RunC08.judged ex rs) ->
  In x rs /\ (existsb fst (calls_of ex) = true -> r_units (fst x) <> []).
Proof. exact judged_has_values. Qed.
Print Assumptions C08_judged_has_values.

(** non-vacuity: "goos,/a" by Parse, ".config" by ParseWithUnit, residue. lu_a and
    lu_b (different part order in the name, different order of the configuration,
    the same two units) get equal Key lists everywhere — two Keys from the
    ParseWithUnit projection — although a result with a new configuration key
    comes in between; lu_c is lu_a with another second unit: clauses (i)-(iv)
    hold, the Key lists of the ParseWithUnit projection differ in the second Key.
    Both instances satisfy every hypothesis of the theorem. *)
Definition lu_a : result :=
  mkR (bs "Fib/a=1/b=2-8") [mkCfg (bs "goos") (bs "linux") true; mkCfg (bs "pkg") (bs "p") true]
      [bs "sec/op"; bs "B/op"].
Definition lu_b : result :=
  mkR (bs "Fib/b=2/a=1-8") [mkCfg (bs "pkg") (bs "p") true; mkCfg (bs "goos") (bs "linux") true]
      [bs "sec/op"; bs "B/op"].
Definition lu_c : result :=
  mkR (bs "Fib/a=1/b=2-8") [mkCfg (bs "goos") (bs "linux") true; mkCfg (bs "pkg") (bs "p") true]
      [bs "sec/op"; bs "allocs/op"].
Definition lu_rest : list op :=
  [OpProject 0 lu_a; OpProjectValues 1 lu_a; OpProject 2 lu_a; OpProjectValues 1 lx_c; OpResidue;
   OpProject 0 lu_b; OpProjectValues 1 lu_b; OpProject 2 lu_b;
   OpProject 0 lu_c; OpProjectValues 1 lu_c; OpProject 2 lu_c].

Example C08_lossless_units_example :
  let C := pp_cfg (parser_after lx_calls) in
  let E := pp_full (parser_after lx_calls) in
  let xs := snd (run_ops lx_w0 lu_rest) in
  Forall call_ok lx_calls /\ Forall no_parse lu_rest /\ Forall op_wf lu_rest /\
  existsb fst lx_calls = true /\ r_units lu_a <> [] /\
  (forall pi, pi <= length lx_calls ->
     nth_error lu_rest pi = Some (proj_op lx_calls pi lu_a) /\
     nth_error xs pi = Some (OutKeys (nth pi [[0]; [0; 1]; [0]] [])) /\
     nth_error lu_rest (5 + pi) = Some (proj_op lx_calls pi lu_b) /\
     nth_error xs (5 + pi) = Some (OutKeys (nth pi [[0]; [0; 1]; [0]] []))) /\
  same_info_units lx_calls lu_a lu_b /\
  (forall pi, pi <= length lx_calls ->
     nth_error lu_rest pi = Some (proj_op lx_calls pi lu_a) /\
     nth_error xs pi = Some (OutKeys (nth pi [[0]; [0; 1]; [0]] [])) /\
     nth_error lu_rest (8 + pi) = Some (proj_op lx_calls pi lu_c) /\
     nth_error xs (8 + pi) = Some (OutKeys (nth pi [[0]; [0; 3]; [0]] []))) /\
  same_info C E lu_a lu_c /\ ~ same_info_units lx_calls lu_a lu_c.
Proof.
  cbv zeta.
  assert (H1 : Forall call_ok lx_calls) by (repeat constructor).
  assert (H2 : Forall no_parse lu_rest) by (repeat constructor).
  assert (H3 : Forall op_wf lu_rest) by solve_wf.
  assert (Hv : existsb fst lx_calls = true -> r_units lu_a <> [] \/ r_units lu_b <> []).
  { intros _. left. discriminate. }
  assert (Hv' : existsb fst lx_calls = true -> r_units lu_a <> [] \/ r_units lu_c <> []).
  { intros _. left. discriminate. }
  assert (H4 : forall pi, pi <= length lx_calls ->
     nth_error lu_rest pi = Some (proj_op lx_calls pi lu_a) /\
     nth_error (snd (run_ops lx_w0 lu_rest)) pi = Some (OutKeys (nth pi [[0]; [0; 1]; [0]] [])) /\
     nth_error lu_rest (5 + pi) = Some (proj_op lx_calls pi lu_b) /\
     nth_error (snd (run_ops lx_w0 lu_rest)) (5 + pi) = Some (OutKeys (nth pi [[0]; [0; 1]; [0]] []))).
  { intros [|[|[|pi]]] Hpi; [| | |cbn in Hpi; lia]; repeat split; vm_compute; reflexivity. }
  assert (H5 : forall pi, pi <= length lx_calls ->
     nth_error lu_rest pi = Some (proj_op lx_calls pi lu_a) /\
     nth_error (snd (run_ops lx_w0 lu_rest)) pi = Some (OutKeys (nth pi [[0]; [0; 1]; [0]] [])) /\
     nth_error lu_rest (8 + pi) = Some (proj_op lx_calls pi lu_c) /\
     nth_error (snd (run_ops lx_w0 lu_rest)) (8 + pi) = Some (OutKeys (nth pi [[0]; [0; 3]; [0]] []))).
  { intros [|[|[|pi]]] Hpi; [| | |cbn in Hpi; lia]; repeat split; vm_compute; reflexivity. }
  split; [exact H1|]. split; [exact H2|]. split; [exact H3|].
  split; [reflexivity|]. split; [discriminate|]. split; [exact H4|]. split.
  - apply (projections_plus_residue_lossless_units lx_calls lu_rest lu_a lu_b (fun pi => pi) (fun pi => 5 + pi)
             (fun pi => nth pi [[0]; [0; 1]; [0]] []) (fun pi => nth pi [[0]; [0; 1]; [0]] []) H1 H2 H3 H4 Hv).
    reflexivity.
  - split; [exact H5|]. split.
    + split; [|split; [|split]]; intros; reflexivity.
    + intros Hs.
      pose proof (proj2 (projections_plus_residue_lossless_units lx_calls lu_rest lu_a lu_c (fun pi => pi)
               (fun pi => 8 + pi) (fun pi => nth pi [[0]; [0; 1]; [0]] []) (fun pi => nth pi [[0]; [0; 3]; [0]] [])
               H1 H2 H3 H5 Hv') Hs) as Hk.
      specialize (Hk 1 (le_S _ _ (le_n 1))). discriminate Hk.
Qed.

(** the hypothesis on measurements is needed: two results WITHOUT measurements
    that differ in the individually projected key goos, projected through
    "goos" parsed by ParseWithUnit (no Key at all) and through the residue (goos
    left out): the Key lists agree everywhere and the unit lists are equal, yet
    clause (i) fails *)
Definition nv_a : result := mkR (bs "F") [mkCfg (bs "goos") (bs "linux") true] [].
Definition nv_b : result := mkR (bs "F") [mkCfg (bs "goos") (bs "darwin") true] [].
Example C08_lossless_units_needs_values :
  let calls := [(true, [ex_goos])] in
  let w0 := fst (run_ops new_world (parse_ops calls ++ [OpResidue])) in
  [proj_op calls 0 nv_a; proj_op calls 1 nv_a; proj_op calls 0 nv_b; proj_op calls 1 nv_b]
    = [OpProjectValues 0 nv_a; OpProject 1 nv_a; OpProjectValues 0 nv_b; OpProject 1 nv_b] /\
  snd (run_ops w0 [OpProjectValues 0 nv_a; OpProject 1 nv_a; OpProjectValues 0 nv_b; OpProject 1 nv_b])
    = [OutKeys []; OutKeys [0]; OutKeys []; OutKeys [0]] /\
  Forall call_ok calls /\ r_units nv_a = r_units nv_b /\
  ~ same_info_units calls nv_a nv_b.
Proof.
  cbv zeta. split; [reflexivity|]. split; [vm_compute; reflexivity|]. split; [repeat constructor|].
  split; [reflexivity|]. intros [[H _] _].
  assert (Hin : In (bs "goos") (pp_cfg (parser_after [(true, [ex_goos])]))) by (vm_compute; auto).
  specialize (H _ Hin). vm_compute in H. discriminate H.
Qed.

(** ** the repaired Parse (hooks/fix_c08_failed_parse_rollback.diff)

    [run_ops_tx]: as [run_ops], except that a Parse / ParseWithUnit call that
    returns an error leaves the parser as it was. Whether a call fails depends
    on the expression alone ([call_okb]; C08_parse_proj_indep). *)
Theorem C08_call_okb_spec : forall c, call_okb c = true <-> call_ok c.
Proof. exact call_okb_spec. Qed.
Print Assumptions C08_call_okb_spec.

(** a stream without failing Parse calls behaves as before, outputs included *)
Theorem C08_repaired_same_without_failures : forall ops w,
  forallb keeps ops = true -> run_ops_tx w ops = run_ops w ops.
Proof. exact run_ops_tx_same. Qed.
Print Assumptions C08_repaired_same_without_failures.

(** any stream reaches the world that the stream without its failing Parse
    calls reaches: a rejected expression leaves no trace *)
Theorem C08_repaired_world : forall ops w,
  fst (run_ops_tx w ops) = fst (run_ops w (filter keeps ops)).
Proof. exact run_ops_tx_world. Qed.
Print Assumptions C08_repaired_world.

Theorem C08_failed_parse_no_trace : forall calls,
  w_pp (fst (run_ops_tx new_world (parse_ops calls))) = parser_after (filter call_okb calls).
Proof. exact parser_after_tx. Qed.
Print Assumptions C08_failed_parse_no_trace.

(** exclusion is independent of the order and repetition of the Parse calls,
    failing ones included *)
Theorem C08_exclusion_order_independent_repaired : forall calls1 calls2,
  (forall c, In c calls1 <-> In c calls2) ->
  pp_equiv (w_pp (fst (run_ops_tx new_world (parse_ops calls1))))
           (w_pp (fst (run_ops_tx new_world (parse_ops calls2)))).
Proof. exact exclusion_order_independent_tx. Qed.
Print Assumptions C08_exclusion_order_independent_repaired.

(** the first sentence of the property, for every stream of calls (Parse calls
    interleaved with projections, failing ones included) *)
Theorem C08_intern_inv_repaired : forall ops w xs,
  run_ops_tx new_world ops = (w, xs) ->
  forall p, In p (w_projs w) ->
    NoDup (p_keys p) /\
    forall r, In r (p_keys p) -> trimmed r /\ (r <> [] -> last r [] <> []) /\ length r <= nfields p.
Proof. exact intern_inv_tx. Qed.
Print Assumptions C08_intern_inv_repaired.

Theorem C08_key_eq_iff_values_repaired : forall ops w xs pi p k1 k2,
  run_ops_tx new_world ops = (w, xs) -> nth_error (w_projs w) pi = Some p ->
  k1 < length (p_keys p) -> k2 < length (p_keys p) ->
  (k1 = k2 <-> forall idx, idx < nfields p -> key_get p k1 idx = key_get p k2 idx).
Proof. exact key_eq_iff_values_tx. Qed.
Print Assumptions C08_key_eq_iff_values_repaired.

Theorem C08_key_get_extracted_repaired : forall ops w xs pi p r,
  Forall op_wf ops -> run_ops_tx new_world ops = (w, xs) -> nth_error (w_projs w) pi = Some p ->
  NoDup (map c_key (r_cfg r)) ->
  let '(pp', p', k) := project (w_pp w) p r in
  forall idx f, nth_error (p_fields p') idx = Some f ->
    match fi_src f with
    | SKey key => fi_name f = key /\ key_get p' k idx = extract key (r_name r) (r_cfg r)
    | SFull => key_get p' k idx = extractor_fullname (ext_of (w_pp w)) (r_name r)
    | SCfg => key_get p' k idx = cfg_file_val (r_cfg r) (fi_name f)
    | SUnit => key_get p' k idx = []
    end.
Proof. exact key_get_extracted_tx. Qed.
Print Assumptions C08_key_get_extracted_repaired.

(** projections plus residue lose nothing, for ANY Parse calls [calls] - in any
    order, repeated, failing ones included - followed by Residue and any stream
    [rest] of Project / ProjectValues / Residue calls. [good] = the calls that
    returned a projection; the projections are numbered 0 .. length good - 1,
    the residue is number [length good]; C and E are the keys named in [good].
    No [call_ok] hypothesis. ([Forall no_parse rest]: all Parse calls precede
    the first Project - the contract, see C08_parse_after_project_witness.) *)
Theorem C08_projections_plus_residue_lossless_any_calls :
  forall calls rest a b (ia ib ka kb : nat -> nat),
  Forall no_parse rest -> Forall op_wf rest ->
  let good := filter call_okb calls in
  let pa := parser_after good in
  let w0 := fst (run_ops_tx new_world (parse_ops calls ++ [OpResidue])) in
  let xs := snd (run_ops_tx w0 rest) in
  (forall pi, pi <= length good ->
     nth_error rest (ia pi) = Some (OpProject pi a) /\ nth_error xs (ia pi) = Some (OutKeys [ka pi]) /\
     nth_error rest (ib pi) = Some (OpProject pi b) /\ nth_error xs (ib pi) = Some (OutKeys [kb pi])) ->
  ((forall pi, pi <= length good -> ka pi = kb pi) <-> same_info (pp_cfg pa) (pp_full pa) a b).
Proof. exact projections_plus_residue_lossless_tx. Qed.
Print Assumptions C08_projections_plus_residue_lossless_any_calls.

Theorem C08_projections_plus_residue_lossless_units_any_calls :
  forall calls rest a b (ia ib : nat -> nat) (ka kb : nat -> list nat),
  Forall no_parse rest -> Forall op_wf rest ->
  let good := filter call_okb calls in
  let w0 := fst (run_ops_tx new_world (parse_ops calls ++ [OpResidue])) in
  let xs := snd (run_ops_tx w0 rest) in
  (forall pi, pi <= length good ->
     nth_error rest (ia pi) = Some (proj_op good pi a) /\ nth_error xs (ia pi) = Some (OutKeys (ka pi)) /\
     nth_error rest (ib pi) = Some (proj_op good pi b) /\ nth_error xs (ib pi) = Some (OutKeys (kb pi))) ->
  (existsb fst good = true -> r_units a <> [] \/ r_units b <> []) ->
  ((forall pi, pi <= length good -> ka pi = kb pi) <-> same_info_units good a b).
Proof. exact projections_plus_residue_lossless_units_tx. Qed.
Print Assumptions C08_projections_plus_residue_lossless_units_any_calls.

(** group contents: every specific key named in any RETURNED projection is left
    out of every .config group, every other file key of the result has its
    sub-field, every field holds what its extractor yields *)
Theorem C08_group_contents_any_calls : forall calls rest i pi r k,
  Forall no_parse rest -> Forall op_wf rest ->
  let pa := parser_after (filter call_okb calls) in
  let w0 := fst (run_ops_tx new_world (parse_ops calls ++ [OpResidue])) in
  nth_error rest i = Some (OpProject pi r) ->
  nth_error (snd (run_ops_tx w0 rest)) i = Some (OutKeys [k]) ->
  exists pF, nth_error (w_projs (fst (run_ops_tx w0 rest))) pi = Some pF /\ k < length (p_keys pF) /\
    (forall idx f, nth_error (p_fields pF) idx = Some f -> key_get pF k idx = want (pp_full pa) r f) /\
    (forall g o c, In (PConfig g o) (p_items pF) ->
       In c (r_cfg r) -> c_file c = true -> ~ In (c_key c) (pp_cfg pa) ->
       exists j, In j (group_subs pF g) /\ field_name pF j = c_key c /\ key_get pF k j = c_val c) /\
    (forall g j, In j (group_subs pF g) -> ~ In (field_name pF j) (pp_cfg pa)).
Proof. exact group_contents_tx. Qed.
Print Assumptions C08_group_contents_any_calls.

(** the audit witness, evaluated: "goos,.unit" (rejected), ".fullname", Residue,
    two results differing in the file key goos only. The judge applied to free
    histories (Corr/RunC08.v [free_ok], computed from the inputs) REJECTS what
    the code as it is produces (all four Keys equal: goos is lost) and accepts
    what the repaired code produces (the residue tells the results apart). *)
Definition fx_ops : list op :=
  [OpParse false [ex_goos; mkPS key_unit (bs "first") []]; OpParse false [mkPS key_fullname (bs "first") []];
   OpResidue; OpProject 0 fw_a; OpProject 1 fw_a; OpProject 0 fw_b; OpProject 1 fw_b].

Example C08_failed_parse_judged :
  (let '(outs, obs) := Perf.Corr.RunC08.model_obs run_ops fx_ops in
   Perf.Corr.RunC08.free_ok fx_ops outs obs) = false /\
  (let '(outs, obs) := Perf.Corr.RunC08.model_obs run_ops_tx fx_ops in
   Perf.Corr.RunC08.free_ok fx_ops outs obs) = true /\
  skipn 3 (snd (run_ops new_world fx_ops)) = [OutKeys [0]; OutKeys [0]; OutKeys [0]; OutKeys [0]] /\
  skipn 3 (snd (run_ops_tx new_world fx_ops)) = [OutKeys [0]; OutKeys [0]; OutKeys [0]; OutKeys [1]].
Proof. repeat split; vm_compute; reflexivity. Qed.

(** the hypotheses of the _any_calls theorems are satisfiable with a failing
    call among [calls]: "goos,.unit" rejected, "/a" accepted; lx_a and lx_c differ
    in goos-free parts only where stated *)
Example C08_any_calls_example :
  let calls := [(false, [ex_goos; mkPS key_unit (bs "first") []]); (false, [ex_a])] in
  let rest := [OpProject 0 fw_a; OpProject 1 fw_a; OpProject 0 fw_b; OpProject 1 fw_b] in
  let w0 := fst (run_ops_tx new_world (parse_ops calls ++ [OpResidue])) in
  filter call_okb calls = [(false, [ex_a])] /\
  Forall no_parse rest /\ Forall op_wf rest /\
  snd (run_ops_tx w0 rest) = [OutKeys [0]; OutKeys [0]; OutKeys [0]; OutKeys [1]] /\
  ~ same_info (pp_cfg (parser_after [(false, [ex_a])])) (pp_full (parser_after [(false, [ex_a])])) fw_a fw_b.
Proof.
  cbv zeta. split; [vm_compute; reflexivity|]. split; [repeat constructor|]. split; [solve_wf|].
  split; [vm_compute; reflexivity|]. intros [_ [H _]].
  assert (Hn : ~ In (bs "goos") (pp_cfg (parser_after [(false, [ex_a])]))) by (vm_compute; tauto).
  specialize (H _ Hn). vm_compute in H. discriminate H.
Qed.
