(** C03 — Numbers are read as correctly rounded float64 values and exact integers.
    Statements only; proofs are in Proofs/RnB64.v, Proofs/AtofFast.v, Proofs/Atoi.v.

    Specification (Base/DecSpec.v): [lex_float] (grammar), [rn_b64] (correct
    rounding of the exact rational), [parse_float_spec]; [int_value], [atoi_spec].
    Model of the code (Model/Atof.v, Model/Atoi.v): [reader_atof], [parse_float],
    [atoi], [parse_int], [parse_uint].

    Proved here: the specification's rounding IS round-to-nearest-even of the
    exact real (Flocq); the reader's integer fast path meets the specification;
    the exact path (atof64exact: one or two float operations) returns the
    correctly rounded value; Atoi meets the integer specification on every text.
    The scanners (underscoreOK, special, readFloat, decimal.set) accept exactly the
    grammar [lex_float] and readFloat hands on the number the grammar denotes
    (syntax_iff_grammar, scanner_value); composed: on the exact path ParseFloat
    equals the specification, and the reader (Model/Reader.v with these parsers)
    turns every rejected number into a positioned line error and reports exact
    iteration counts and the parser's values (reader_numbers_correct).
    Not proved (tied to the code by the differential run only, three-way with
    strconv and the Coq-evaluated specification): the decimal slow path
    (decimal.go, modelled by [rn_b64] of the stored digits; decimal.set's digit
    bookkeeping is covered by the acceptance theorem only).
    [atofHex] IS proved (block p03h at the end of this file: C03_hex_correct,
    C03_parse_float_correct; proofs in Proofs/AtofHex.v). *)
From Coq Require Import Reals.
From Flocq Require Import Core.Core IEEE754.BinarySingleNaN.
From Perf Require Import Base.Bytes Base.B64 Base.DecSpec Model.Atoi Model.Atof
                         Proofs.Atoi Proofs.RnB64 Proofs.AtofFast Proofs.AtofExact
                         Proofs.AtofSyntax Proofs.AtofValue Proofs.AtofEndToEnd Proofs.AtofSlow Proofs.ReaderNumbers.
From Perf Require Import Base.Utf8 Model.Units Model.Reader.
Local Open Scope Z_scope.

(** [rn_b64] is correct rounding: for the exact real x = (-1)^neg * m * B^e,
    the result is a valid binary64 that equals
    round radix2 (FLT_exp (-1074) 53) ZnearestE x, finite and of the right sign,
    whenever that rounded real is below 2^1024 in magnitude; otherwise it is the
    infinity of that sign (which [parse_float_spec] reports as a range error). *)
Theorem C03_rn_b64_correct : forall neg m base2 e, 0 <= m ->
  let x := exact_value neg m base2 e in
  let z := rn_b64 neg m base2 e in
  valid_binary 53 1024 z = true /\
  if Rlt_bool (Rabs (round radix2 (FLT_exp (-1074) 53) ZnearestE x)) (bpow radix2 1024) then
    SF2R radix2 z = round radix2 (FLT_exp (-1074) 53) ZnearestE x /\
    is_finite_SF z = true /\ sign_SF z = neg
  else z = S754_infinity neg.
Proof. exact rn_b64_rounds. Qed.
Print Assumptions C03_rn_b64_correct.

(** the reader's integer fast path returns the specification's answer:
    the correctly rounded value of the integer written, and no error *)
Theorem C03_fastint_correct : forall x v, x <> [] -> fast_loop x 0 = Some v ->
  parse_float_spec x = (b64_of_Z v, ErrNone).
Proof. exact fastint_correct. Qed.
Print Assumptions C03_fastint_correct.

(** ... it is taken only by digit strings, computes their exact value, and the
    guard keeps that value an int64 (so float64(int64) is the model's b64_of_Z) *)
Theorem C03_fastint_value : forall x v, fast_loop x 0 = Some v ->
  forallb is_dec_digit x = true /\ v = digits_val 10 x /\ 0 <= v <= 9223372036854775799.
Proof. exact fastint_value. Qed.
Print Assumptions C03_fastint_value.

Theorem C03_reader_atof_fast : forall x v, x <> [] -> fast_loop x 0 = Some v ->
  reader_atof x = parse_float_spec x.
Proof. exact reader_atof_fast. Qed.
Print Assumptions C03_reader_atof_fast.

(** the exact path of ParseFloat: whenever atof64exact answers (mantissa < 2^52,
    exponent within the power-of-ten table, the intermediate product at most
    1e15), its one or two float operations give the correctly rounded value of
    mantissa * 10^exp, i.e. the specification's value *)
Theorem C03_exact_path_correct : forall m exp neg f, 0 <= m ->
  atof64exact m exp neg = Some f -> f = rn_b64 neg m false exp.
Proof. exact exact_path_correct. Qed.
Print Assumptions C03_exact_path_correct.

(** syntax_iff_grammar: ParseFloat reports a syntax error exactly on the texts outside
    the grammar, hence exactly where the specification does *)
Theorem C03_syntax_iff_grammar : forall s, snd (parse_float s) = ErrSyntax <-> lex_float s = None.
Proof. exact (syntax_iff_grammar true). Qed.
Print Assumptions C03_syntax_iff_grammar.

Theorem C03_syntax_error_agrees : forall s,
  snd (parse_float s) = ErrSyntax <-> snd (parse_float_spec s) = ErrSyntax.
Proof. exact (syntax_error_agrees true). Qed.
Print Assumptions C03_syntax_error_agrees.

(** readFloat computes the sign, base, and the number the grammar denotes, cut after
    19 (hex: 16) significant digits with the sticky flag [trunc]:
    M = mant * B^j + tail, 0 <= tail < B^j, exp = E + j (hex: E + 4j), trunc <-> tail <> 0.
    [no_clamp]: the exponent as written is below 100000 in magnitude (the code stops
    accumulating exponent digits at 10000) *)
Theorem C03_scanner_value : forall s neg base2 M E,
  lex_float s = Some (LNum neg base2 M E) -> no_clamp s ->
  exists r, read_float s = Some r /\ r_neg r = neg /\ r_hex r = base2 /\
            cut_of base2 M E (r_mant r) (r_exp r) (r_trunc r).
Proof. exact read_float_value. Qed.
Print Assumptions C03_scanner_value.

(** end to end: whenever ParseFloat decides a text by its exact path, its answer is
    the specification's (the correctly rounded value of the text, no error) *)
Theorem C03_exact_path_end_to_end : forall s r f,
  no_clamp s -> underscoreOK s = true -> special s = None ->
  read_float s = Some r -> r_hex r = false -> r_trunc r = false ->
  atof64exact (r_mant r) (r_exp r) (r_neg r) = Some f ->
  parse_float s = (f, ErrNone) /\ parse_float_spec s = (f, ErrNone).
Proof. exact exact_path_end_to_end. Qed.
Print Assumptions C03_exact_path_end_to_end.

(** decimal.set (repaired) stores the first 800 significant digits of the number the
    grammar denotes and the right decimal point:
    M = V * 10^j + tail, 0 <= tail < 10^j, dp - nd = E + j, trunc <-> tail <> 0 *)
Theorem C03_decimal_set_value : forall s neg M E,
  lex_float s = Some (LNum neg false M E) -> no_clamp s ->
  exists d, dec_set s = Some d /\ d_neg d = neg /\ stored_of M E d.
Proof. exact dec_set_value. Qed.
Print Assumptions C03_decimal_set_value.

(** ParseFloat = specification, bit for bit and error for error, on EVERY text that is
    not a hexadecimal number and whose significant digits fit decimal.set's 800-digit
    buffer: syntax errors, inf/nan spellings, the exact path, and the slow path
    (whose final conversion, decimal.go's floatBits, is modelled by its specification —
    that transcription is the one part of this statement that is about the model only) *)
Theorem C03_parse_float_correct_nonhex : forall s,
  no_clamp s ->
  (forall d, dec_set s = Some d -> d_trunc d = false) ->
  (forall neg M E, lex_float s <> Some (LNum neg true M E)) ->
  parse_float s = parse_float_spec s.
Proof. exact parse_float_correct_nonhex. Qed.
Print Assumptions C03_parse_float_correct_nonhex.

(** ** the reader (Model/Reader.v, C02) with these parsers plugged in *)

(** range_is_error: an out-of-range measurement is no value for the reader *)
Theorem C03_range_is_error : forall f,
  snd (parse_float f) = ErrRange -> fast_loop f 0 = None -> Reader.atof pf_opt f = None.
Proof. exact range_is_error. Qed.
Print Assumptions C03_range_is_error.

(** reader_number_errors_are_line_errors: a benchmark line whose iteration count or
    some measurement is rejected is an error, positioned at that line, and nothing else *)
Theorem C03_reader_number_errors_are_line_errors : forall is_space is_lower is_upper fname n st line rest k,
  classify is_space is_lower is_upper atoi_opt pf_opt line = LBench (parse_bench is_space atoi_opt pf_opt rest) ->
  parse_bench is_space atoi_opt pf_opt rest = BErr k ->
  step is_space is_lower is_upper atoi_opt pf_opt fname n st line = ([RErr fname n k], st).
Proof. exact bench_error_is_positioned. Qed.
Print Assumptions C03_reader_number_errors_are_line_errors.

Theorem C03_bench_line_number_errors : forall is_space rest,
  let l := runes rest in
  let '(name, after) := split_field is_space l in
  (Name.is_nil after && (length name =? length rest)%nat = false) ->
  match fields is_space after with
  | [] => True
  | f :: fs =>
      (forall v k, Atoi.atoi f = IErr v k -> parse_bench is_space atoi_opt pf_opt rest = BErr EBadIters) /\
      (forall it pairs g tl, Atoi.atoi f = IOk it -> fs = pairs ++ g :: tl ->
         (exists vs, meas_fields is_space pairs vs) -> snd (reader_atof g) <> ErrNone ->
         parse_bench is_space atoi_opt pf_opt rest = BErr EBadMeas)
  end.
Proof. exact bench_line_number_errors. Qed.
Print Assumptions C03_bench_line_number_errors.

(** reader_numbers_correct: in a reported result the iteration count is the exact
    integer written (an int64); every measurement is the parser's error-free value
    for its field, unchanged when the unit needs no rescaling; and on the verified
    paths (integer fast path, exact path) that value is the specification's rn_b64 *)
Theorem C03_reader_numbers_correct : forall is_space rest name iters vals,
  parse_bench is_space atoi_opt pf_opt rest = BOk name iters vals ->
  exists f fs, fields is_space (snd (split_field is_space (runes rest))) = f :: fs /\
    int_value f = Some iters /\ min_int64 <= iters <= max_int64 /\
    meas_fields is_space fs vals /\
    (forall g u v, reader_atof g = (v, ErrNone) -> snd (tidy is_space v u) = u ->
       v_val (read_value is_space v u) = v) /\
    (forall g v, g <> [] -> reader_atof g = (v, ErrNone) ->
       (fast_loop g 0 <> None \/
        (no_clamp g /\ underscoreOK g = true /\ special g = None /\
         exists r, read_float g = Some r /\ r_hex r = false /\ r_trunc r = false /\
                   atof64exact (r_mant r) (r_exp r) (r_neg r) <> None)) ->
       parse_float_spec g = (v, ErrNone)).
Proof. exact reader_numbers_correct. Qed.
Print Assumptions C03_reader_numbers_correct.

(** Atoi on an integer text (optional sign, digits): the exact integer when it
    fits int64, else the range error carrying the bound *)
Theorem C03_atoi_int : forall s n, int_value s = Some n ->
  atoi s = if n <? min_int64 then IErr min_int64 ErrRange
           else if max_int64 <? n then IErr max_int64 ErrRange else IOk n.
Proof. exact atoi_int. Qed.
Print Assumptions C03_atoi_int.

(** any other text is rejected: never a silently wrong number *)
Theorem C03_atoi_rejects_non_integers : forall s, int_value s = None -> ires_err (atoi s) <> ErrNone.
Proof. exact atoi_nonint. Qed.
Print Assumptions C03_atoi_rejects_non_integers.

(** an accepted text is an integer text, the result is its value, and it is an int64 *)
Theorem C03_atoi_sound : forall s n, atoi s = IOk n ->
  int_value s = Some n /\ min_int64 <= n <= max_int64.
Proof. exact atoi_sound. Qed.
Print Assumptions C03_atoi_sound.

Theorem C03_atoi_out_of_range : forall s n, int_value s = Some n ->
  (n < min_int64 -> atoi s = IErr min_int64 ErrRange) /\
  (max_int64 < n -> atoi s = IErr max_int64 ErrRange).
Proof. exact atoi_out_of_range. Qed.
Print Assumptions C03_atoi_out_of_range.

(** every int64, printed in decimal, is read back exactly *)
Theorem C03_atoi_exact : forall n, min_int64 <= n <= max_int64 -> atoi (dec_of_Z n) = IOk n.
Proof. exact atoi_exact. Qed.
Print Assumptions C03_atoi_exact.

Theorem C03_print_is_integer_text : forall n, int_value (dec_of_Z n) = Some n.
Proof. exact int_value_dec_of_Z. Qed.
Print Assumptions C03_print_is_integer_text.

(** both views of Atoi in the form used by the correspondence run ([prop_ok]) *)
Theorem C03_atoi_meets_spec : forall s,
  match int_value s with
  | Some _ => ires_pair (atoi s) = atoi_spec s
  | None => ires_err (atoi s) <> ErrNone
  end.
Proof. exact atoi_meets_spec. Qed.
Print Assumptions C03_atoi_meets_spec.

(** ** the defect found on the pinned tree (repaired by
    hooks/fix_c03_decimal_set_dropped_digits.diff, commit 2c343e0 in /repo):
    the slow path's scanner dropped integer digits beyond its 800-byte buffer
    without moving the decimal point. Witness: 1 followed by 800 zeros, e-800,
    i.e. the number 1, was read as 0.1. *)
Definition c03_witness : bytes := bs "1" ++ repeat x30 800 ++ bs "e-800".

Theorem C03_unfixed_scanner_refuted :
  exists s, parse_float_spec s = (b64_one, ErrNone) /\
            parse_float_unfixed s = (b64_of_bits 0x3FB999999999999A, ErrNone) /\
            parse_float s = (b64_one, ErrNone).
Proof. exists c03_witness. vm_compute. repeat split. Qed.
Print Assumptions C03_unfixed_scanner_refuted.

(** ** the hypotheses are satisfiable, and the specification is an executable oracle *)
Example C03_fastint_instance :
  fast_loop (bs "9007199254740993") 0 = Some 9007199254740993 /\
  parse_float_spec (bs "9007199254740993") = (b64_of_bits 0x4340000000000000, ErrNone) /\
  fast_loop (bs "9223372036854775799") 0 = Some 9223372036854775799 /\
  fast_loop (bs "9223372036854775800") 0 = None.
Proof. vm_compute. repeat split. Qed.

Example C03_exact_path_instances :
  atof64exact 15 (-1) false = Some (b64_of_bits 0x3FF8000000000000) /\
  atof64exact 123456789012345 37 true = None /\
  atof64exact 1 37 false = Some (rn_b64 false 1 false 37) /\
  atof64exact 4503599627370496 0 false = None.
Proof. vm_compute. repeat split. Qed.

Example C03_nonhex_instance :
  (* the hypotheses of C03_parse_float_correct_nonhex hold, e.g., for a 60-digit halfway text *)
  let s := bs "1.00000000000000011102230246251565404236316680908203125e-3" in
  no_clamp s /\ (forall d, dec_set s = Some d -> d_trunc d = false) /\
  lex_float s = Some (LNum false false 100000000000000011102230246251565404236316680908203125 (-56)).
Proof. cbv zeta. split; [vm_compute; reflexivity|]. split; [|vm_compute; reflexivity].
  intros d H. vm_compute in H. injection H as <-. reflexivity. Qed.

Example C03_atoi_instances :
  int_value (bs "-9223372036854775808") = Some (-9223372036854775808) /\
  atoi (bs "-9223372036854775808") = IOk (-9223372036854775808) /\
  atoi (bs "9223372036854775808") = IErr max_int64 ErrRange /\
  int_value (bs "1_000") = None /\ ires_err (atoi (bs "1_000")) = ErrSyntax /\
  atoi (dec_of_Z 1234567890123456789) = IOk 1234567890123456789.
Proof. vm_compute. repeat split. Qed.

Example C03_oracle_instances :
  (* the halfway point between 1 and its successor ties to even; one unit in the
     last of 800+ places above it does not *)
  parse_float_spec (bs "1.00000000000000011102230246251565404236316680908203125") = (b64_of_bits 0x3FF0000000000000, ErrNone) /\
  parse_float_spec (bs "1.00000000000000011102230246251565404236316680908203125" ++ repeat x30 800 ++ bs "1")
    = (b64_of_bits 0x3FF0000000000001, ErrNone) /\
  parse_float (bs "1.00000000000000011102230246251565404236316680908203125" ++ repeat x30 800 ++ bs "1")
    = (b64_of_bits 0x3FF0000000000001, ErrNone) /\
  parse_float_spec (bs "0x1.00000000000008p0") = (b64_of_bits 0x3FF0000000000000, ErrNone) /\
  parse_float_spec (bs "0x1.000000000000080000000000000001p0") = (b64_of_bits 0x3FF0000000000001, ErrNone) /\
  parse_float (bs "0x1.000000000000080000000000000001p0") = (b64_of_bits 0x3FF0000000000001, ErrNone).
Proof. vm_compute. repeat split. Qed.

(** ===================================================================== *)
(** ** BEGIN block p03h — atofHex (hex_correct) and ParseFloat on all texts.
    Proofs in Proofs/AtofHex.v.  The code's three shift loops keep Flocq's
    [inbetween_float] of the exact value (the step  mantissa>>1 | mantissa&1  is
    [shr_1] on the record mantissa/round bit/sticky bit), stop at the format's
    exponent, and the round / carry / assemble step (with Float64frombits of the
    assembled word) is SpecFloat's [binary_round_aux]; Flocq's
    [binary_round_aux_correct'] then gives round-to-nearest-even, subnormal
    results, zero, and overflow to the infinity with the range error. *)
From Perf Require Import Proofs.AtofHex.

(** what the scanner guarantees beyond [cut_of] and atofHex relies on: when
    hexadecimal digits were dropped ([trunc]) the 64-bit mantissa is full —
    16 digits, the first one not zero — so ORing the sticky bit into bit 0 is sound *)
Theorem C03_scanner_full_mantissa : forall s r,
  read_float s = Some r -> r_hex r = true -> r_trunc r = true -> 2 ^ 60 <= r_mant r.
Proof. exact read_float_trunc_full. Qed.
Print Assumptions C03_scanner_full_mantissa.

(** atofHex on any mantissa / exponent / trunc that is the number M * 2^E cut after
    16 hexadecimal digits ([cut_of], the conclusion of C03_scanner_value): the value
    is [rn_b64] of M * 2^E — correctly rounded, subnormals and zero included — and
    the error is the range error exactly when that is an infinity *)
Theorem C03_atof_hex_value : forall m e neg tr M E,
  cut_of true M E m e tr -> (tr = true -> 2 ^ 60 <= m) ->
  atof_hex m e neg tr =
    (rn_b64 neg M true E, if b64_is_inf (rn_b64 neg M true E) then ErrRange else ErrNone).
Proof. exact atof_hex_correct. Qed.
Print Assumptions C03_atof_hex_value.

(** hex_correct: for every hexadecimal text of the grammar, readFloat's result given
    to atofHex yields the correctly rounded binary64 of the number written *)
Theorem C03_hex_correct : forall s neg M E,
  lex_float s = Some (LNum neg true M E) -> no_clamp s ->
  exists r, read_float s = Some r /\ r_hex r = true /\ r_neg r = neg /\
    atof_hex (r_mant r) (r_exp r) (r_neg r) (r_trunc r) =
      (rn_b64 neg M true E, if b64_is_inf (rn_b64 neg M true E) then ErrRange else ErrNone).
Proof. exact hex_correct. Qed.
Print Assumptions C03_hex_correct.

(** ... said with the real numbers (no [rn_b64]): the float returned is a valid
    binary64, equal to round-to-nearest-even of the exact real (-1)^neg * M * 2^E,
    finite and of the right sign, whenever that rounded real is below 2^1024 in
    magnitude; otherwise it is the infinity of that sign *)
Theorem C03_hex_rounds : forall s neg M E,
  lex_float s = Some (LNum neg true M E) -> no_clamp s ->
  0 <= M /\
  exists r, read_float s = Some r /\
    let x := exact_value neg M true E in
    let z := fst (atof_hex (r_mant r) (r_exp r) (r_neg r) (r_trunc r)) in
    valid_binary 53 1024 z = true /\
    if Rlt_bool (Rabs (round radix2 (FLT_exp (-1074) 53) ZnearestE x)) (bpow radix2 1024) then
      SF2R radix2 z = round radix2 (FLT_exp (-1074) 53) ZnearestE x /\
      is_finite_SF z = true /\ sign_SF z = neg
    else z = S754_infinity neg.
Proof. exact hex_rounds. Qed.
Print Assumptions C03_hex_rounds.

(** ParseFloat = specification, bit for bit and error for error, on every hexadecimal
    text of the grammar *)
Theorem C03_hex_end_to_end : forall s neg M E,
  lex_float s = Some (LNum neg true M E) -> no_clamp s ->
  parse_float s = parse_float_spec s.
Proof. exact hex_end_to_end. Qed.
Print Assumptions C03_hex_end_to_end.

(** ParseFloat = specification on EVERY text (syntax errors, inf/nan spellings, decimal
    exact and slow paths, hexadecimal) whose exponent is not clamped and whose
    significant digits fit decimal.set's 800-digit buffer (a hexadecimal text never
    reaches that buffer: for it the second hypothesis holds vacuously).  As in
    C03_parse_float_correct_nonhex, decimal.go's floatBits is modelled by its
    specification; atofHex is transcribed and verified *)
Theorem C03_parse_float_correct : forall s,
  no_clamp s ->
  (forall d, dec_set s = Some d -> d_trunc d = false) ->
  parse_float s = parse_float_spec s.
Proof. exact parse_float_correct. Qed.
Print Assumptions C03_parse_float_correct.

(** the hypotheses are satisfiable: a 31-digit hexadecimal mantissa one unit in the
    last place above a halfway point (15 digits dropped, sticky), a subnormal
    halfway text, an overflow and an exact zero *)
Example C03_hex_instances :
  let s := bs "0x1.000000000000080000000000000001p0" in
  no_clamp s /\ (forall d, dec_set s = Some d -> d_trunc d = false) /\
  lex_float s = Some (LNum false true 0x1000000000000080000000000000001 (-120)) /\
  (exists r, read_float s = Some r /\ r_trunc r = true /\ r_mant r = 0x1000000000000080 /\ r_exp r = -60) /\
  cut_of true 0x1000000000000080000000000000001 (-120) 0x1000000000000080 (-60) true /\
  parse_float s = (b64_of_bits 0x3FF0000000000001, ErrNone) /\
  parse_float (bs "0x1.8p-1075") = (b64_of_bits 1, ErrNone) /\
  parse_float (bs "0x1p-1075") = (b64_of_bits 0, ErrNone) /\
  parse_float (bs "-0x1.fffffffffffff8p1023") = (S754_infinity true, ErrRange) /\
  parse_float (bs "-0x0p0") = (S754_zero true, ErrNone).
Proof.
  cbv zeta. split; [vm_compute; reflexivity|]. split.
  { intros d H. vm_compute in H. discriminate. }
  split; [vm_compute; reflexivity|]. split.
  { eexists. split; [vm_compute; reflexivity|]. vm_compute. auto. }
  split.
  { split; [vm_compute; split; [discriminate|reflexivity]|].
    exists 15, 1. repeat split; try (vm_compute; congruence); try discriminate; try reflexivity. }
  vm_compute. repeat split.
Qed.
(** ** END block p03h *)
