(** C03 — Numbers are read as correctly rounded float64 values and exact integers.
    Statements only; proofs are in Proofs/RnB64.v, Proofs/AtofFast.v, Proofs/Atoi.v.

    Specification (Base/DecSpec.v): [lex_float] (grammar), [rn_b64] (correct
    rounding of the exact rational), [parse_float_spec]; [int_value], [atoi_spec].
    Model of the code (Model/Atof.v, Model/Atoi.v): [reader_atof], [parse_float],
    [atoi], [parse_int], [parse_uint].

    Proved here: the specification's rounding IS round-to-nearest-even of the
    exact real (Flocq); the reader's integer fast path meets the specification;
    the exact path (atof64exact: one or two float operations) returns the
    correctly rounded value; Atoi meets the integer specification on every text.
    The scanners (underscoreOK, special, readFloat, decimal.set) accept exactly the
    grammar [lex_float] and readFloat hands on the number the grammar denotes
    (syntax_iff_grammar, scanner_value); composed: on the exact path ParseFloat
    equals the specification, and the reader (Model/Reader.v with these parsers)
    turns every rejected number into a positioned line error and reports exact
    iteration counts and the parser's values (reader_numbers_correct).
    Not proved (tied to the code by the differential run only, three-way with
    strconv and the Coq-evaluated specification): nothing of ParseFloat remains
    differential-only. [atofHex] IS proved (block p03h at the end of this file:
    C03_hex_correct, C03_parse_float_correct; proofs in Proofs/AtofHex.v), and the
    decimal slow path (decimal.go, in [parse_float] modelled by [rn_b64] of the
    stored digits) is transcribed in Model/Decimal.v and proved equal to that
    model (block p03d at the end of this file). *)
From Coq Require Import Reals.
From Flocq Require Import Core.Core IEEE754.BinarySingleNaN.
From Perf Require Import Base.Bytes Base.B64 Base.DecSpec Model.Atoi Model.Atof
                         Proofs.Atoi Proofs.RnB64 Proofs.AtofFast Proofs.AtofExact
                         Proofs.AtofSyntax Proofs.AtofValue Proofs.AtofEndToEnd Proofs.AtofSlow Proofs.ReaderNumbers.
From Perf Require Import Base.Utf8 Model.Units Model.Reader.
Local Open Scope Z_scope.

(** [rn_b64] is correct rounding: for the exact real x = (-1)^neg * m * B^e,
    the result is a valid binary64 that equals
    round radix2 (FLT_exp (-1074) 53) ZnearestE x, finite and of the right sign,
    whenever that rounded real is below 2^1024 in magnitude; otherwise it is the
    infinity of that sign (which [parse_float_spec] reports as a range error). *)
Theorem C03_rn_b64_correct : forall neg m base2 e, 0 <= m ->
  let x := exact_value neg m base2 e in
  let z := rn_b64 neg m base2 e in
  valid_binary 53 1024 z = true /\
  if Rlt_bool (Rabs (round radix2 (FLT_exp (-1074) 53) ZnearestE x)) (bpow radix2 1024) then
    SF2R radix2 z = round radix2 (FLT_exp (-1074) 53) ZnearestE x /\
    is_finite_SF z = true /\ sign_SF z = neg
  else z = S754_infinity neg.
Proof. exact rn_b64_rounds. Qed.
Print Assumptions C03_rn_b64_correct.

(** the reader's integer fast path returns the specification's answer:
    the correctly rounded value of the integer written, and no error *)
Theorem C03_fastint_correct : forall x v, x <> [] -> fast_loop x 0 = Some v ->
  parse_float_spec x = (b64_of_Z v, ErrNone).
Proof. exact fastint_correct. Qed.
Print Assumptions C03_fastint_correct.

(** ... it is taken only by digit strings, computes their exact value, and the
    guard keeps that value an int64 (so float64(int64) is the model's b64_of_Z) *)
Theorem C03_fastint_value : forall x v, fast_loop x 0 = Some v ->
  forallb is_dec_digit x = true /\ v = digits_val 10 x /\ 0 <= v <= 9223372036854775799.
Proof. exact fastint_value. Qed.
Print Assumptions C03_fastint_value.

Theorem C03_reader_atof_fast : forall x v, x <> [] -> fast_loop x 0 = Some v ->
  reader_atof x = parse_float_spec x.
Proof. exact reader_atof_fast. Qed.
Print Assumptions C03_reader_atof_fast.

(** the exact path of ParseFloat: whenever atof64exact answers (mantissa < 2^52,
    exponent within the power-of-ten table, the intermediate product at most
    1e15), its one or two float operations give the correctly rounded value of
    mantissa * 10^exp, i.e. the specification's value *)
Theorem C03_exact_path_correct : forall m exp neg f, 0 <= m ->
  atof64exact m exp neg = Some f -> f = rn_b64 neg m false exp.
Proof. exact exact_path_correct. Qed.
Print Assumptions C03_exact_path_correct.

(** syntax_iff_grammar: ParseFloat reports a syntax error exactly on the texts outside
    the grammar, hence exactly where the specification does *)
Theorem C03_syntax_iff_grammar : forall s, snd (parse_float s) = ErrSyntax <-> lex_float s = None.
Proof. exact (syntax_iff_grammar true). Qed.
Print Assumptions C03_syntax_iff_grammar.

Theorem C03_syntax_error_agrees : forall s,
  snd (parse_float s) = ErrSyntax <-> snd (parse_float_spec s) = ErrSyntax.
Proof. exact (syntax_error_agrees true). Qed.
Print Assumptions C03_syntax_error_agrees.

(** readFloat computes the sign, base, and the number the grammar denotes, cut after
    19 (hex: 16) significant digits with the sticky flag [trunc]:
    M = mant * B^j + tail, 0 <= tail < B^j, exp = E + j (hex: E + 4j), trunc <-> tail <> 0.
    [no_clamp]: the exponent as written is below 100000 in magnitude (the code stops
    accumulating exponent digits at 10000) *)
Theorem C03_scanner_value : forall s neg base2 M E,
  lex_float s = Some (LNum neg base2 M E) -> no_clamp s ->
  exists r, read_float s = Some r /\ r_neg r = neg /\ r_hex r = base2 /\
            cut_of base2 M E (r_mant r) (r_exp r) (r_trunc r).
Proof. exact read_float_value. Qed.
Print Assumptions C03_scanner_value.

(** end to end: whenever ParseFloat decides a text by its exact path, its answer is
    the specification's (the correctly rounded value of the text, no error) *)
Theorem C03_exact_path_end_to_end : forall s r f,
  no_clamp s -> underscoreOK s = true -> special s = None ->
  read_float s = Some r -> r_hex r = false -> r_trunc r = false ->
  atof64exact (r_mant r) (r_exp r) (r_neg r) = Some f ->
  parse_float s = (f, ErrNone) /\ parse_float_spec s = (f, ErrNone).
Proof. exact exact_path_end_to_end. Qed.
Print Assumptions C03_exact_path_end_to_end.

(** decimal.set (repaired) stores the first 800 significant digits of the number the
    grammar denotes and the right decimal point:
    M = V * 10^j + tail, 0 <= tail < 10^j, dp - nd = E + j, trunc <-> tail <> 0 *)
Theorem C03_decimal_set_value : forall s neg M E,
  lex_float s = Some (LNum neg false M E) -> no_clamp s ->
  exists d, dec_set s = Some d /\ d_neg d = neg /\ stored_of M E d.
Proof. exact dec_set_value. Qed.
Print Assumptions C03_decimal_set_value.

(** ParseFloat = specification, bit for bit and error for error, on EVERY text that is
    not a hexadecimal number and whose significant digits fit decimal.set's 800-digit
    buffer: syntax errors, inf/nan spellings, the exact path, and the slow path
    (whose final conversion, decimal.go's floatBits, is modelled by its specification —
    that transcription is the one part of this statement that is about the model only) *)
Theorem C03_parse_float_correct_nonhex : forall s,
  no_clamp s ->
  (forall d, dec_set s = Some d -> d_trunc d = false) ->
  (forall neg M E, lex_float s <> Some (LNum neg true M E)) ->
  parse_float s = parse_float_spec s.
Proof. exact parse_float_correct_nonhex. Qed.
Print Assumptions C03_parse_float_correct_nonhex.

(** ** the reader (Model/Reader.v, C02) with these parsers plugged in *)

(** range_is_error: an out-of-range measurement is no value for the reader *)
Theorem C03_range_is_error : forall f,
  snd (parse_float f) = ErrRange -> fast_loop f 0 = None -> Reader.atof pf_opt f = None.
Proof. exact range_is_error. Qed.
Print Assumptions C03_range_is_error.

(** reader_number_errors_are_line_errors: a benchmark line whose iteration count or
    some measurement is rejected is an error, positioned at that line, and nothing else *)
Theorem C03_reader_number_errors_are_line_errors : forall is_space is_lower is_upper fname n st line rest k,
  classify is_space is_lower is_upper atoi_opt pf_opt line = LBench (parse_bench is_space atoi_opt pf_opt rest) ->
  parse_bench is_space atoi_opt pf_opt rest = BErr k ->
  step is_space is_lower is_upper atoi_opt pf_opt fname n st line = ([RErr fname n k], st).
Proof. exact bench_error_is_positioned. Qed.
Print Assumptions C03_reader_number_errors_are_line_errors.

Theorem C03_bench_line_number_errors : forall is_space rest,
  let l := runes rest in
  let '(name, after) := split_field is_space l in
  (Name.is_nil after && (length name =? length rest)%nat = false) ->
  match fields is_space after with
  | [] => True
  | f :: fs =>
      (forall v k, Atoi.atoi f = IErr v k -> parse_bench is_space atoi_opt pf_opt rest = BErr EBadIters) /\
      (forall it pairs g tl, Atoi.atoi f = IOk it -> fs = pairs ++ g :: tl ->
         (exists vs, meas_fields is_space pairs vs) -> snd (reader_atof g) <> ErrNone ->
         parse_bench is_space atoi_opt pf_opt rest = BErr EBadMeas)
  end.
Proof. exact bench_line_number_errors. Qed.
Print Assumptions C03_bench_line_number_errors.

(** reader_numbers_correct: in a reported result the iteration count is the exact
    integer written (an int64); every measurement is the parser's error-free value
    for its field, unchanged when the unit needs no rescaling; and on the verified
    paths (integer fast path, exact path) that value is the specification's rn_b64 *)
Theorem C03_reader_numbers_correct : forall is_space rest name iters vals,
  parse_bench is_space atoi_opt pf_opt rest = BOk name iters vals ->
  exists f fs, fields is_space (snd (split_field is_space (runes rest))) = f :: fs /\
    int_value f = Some iters /\ min_int64 <= iters <= max_int64 /\
    meas_fields is_space fs vals /\
    (forall g u v, reader_atof g = (v, ErrNone) -> snd (tidy is_space v u) = u ->
       v_val (read_value is_space v u) = v) /\
    (forall g v, g <> [] -> reader_atof g = (v, ErrNone) ->
       (fast_loop g 0 <> None \/
        (no_clamp g /\ underscoreOK g = true /\ special g = None /\
         exists r, read_float g = Some r /\ r_hex r = false /\ r_trunc r = false /\
                   atof64exact (r_mant r) (r_exp r) (r_neg r) <> None)) ->
       parse_float_spec g = (v, ErrNone)).
Proof. exact reader_numbers_correct. Qed.
Print Assumptions C03_reader_numbers_correct.

(** Atoi on an integer text (optional sign, digits): the exact integer when it
    fits int64, else the range error carrying the bound *)
Theorem C03_atoi_int : forall s n, int_value s = Some n ->
  atoi s = if n <? min_int64 then IErr min_int64 ErrRange
           else if max_int64 <? n then IErr max_int64 ErrRange else IOk n.
Proof. exact atoi_int. Qed.
Print Assumptions C03_atoi_int.

(** any other text is rejected: never a silently wrong number *)
Theorem C03_atoi_rejects_non_integers : forall s, int_value s = None -> ires_err (atoi s) <> ErrNone.
Proof. exact atoi_nonint. Qed.
Print Assumptions C03_atoi_rejects_non_integers.

(** an accepted text is an integer text, the result is its value, and it is an int64 *)
Theorem C03_atoi_sound : forall s n, atoi s = IOk n ->
  int_value s = Some n /\ min_int64 <= n <= max_int64.
Proof. exact atoi_sound. Qed.
Print Assumptions C03_atoi_sound.

Theorem C03_atoi_out_of_range : forall s n, int_value s = Some n ->
  (n < min_int64 -> atoi s = IErr min_int64 ErrRange) /\
  (max_int64 < n -> atoi s = IErr max_int64 ErrRange).
Proof. exact atoi_out_of_range. Qed.
Print Assumptions C03_atoi_out_of_range.

(** every int64, printed in decimal, is read back exactly *)
Theorem C03_atoi_exact : forall n, min_int64 <= n <= max_int64 -> atoi (dec_of_Z n) = IOk n.
Proof. exact atoi_exact. Qed.
Print Assumptions C03_atoi_exact.

Theorem C03_print_is_integer_text : forall n, int_value (dec_of_Z n) = Some n.
Proof. exact int_value_dec_of_Z. Qed.
Print Assumptions C03_print_is_integer_text.

(** both views of Atoi in the form used by the correspondence run ([prop_ok]) *)
Theorem C03_atoi_meets_spec : forall s,
  match int_value s with
  | Some _ => ires_pair (atoi s) = atoi_spec s
  | None => ires_err (atoi s) <> ErrNone
  end.
Proof. exact atoi_meets_spec. Qed.
Print Assumptions C03_atoi_meets_spec.

(** ** the defect found on the pinned tree (repaired by
    hooks/fix_c03_decimal_set_dropped_digits.diff, commit 2c343e0 in /repo):
    the slow path's scanner dropped integer digits beyond its 800-byte buffer
    without moving the decimal point. Witness: 1 followed by 800 zeros, e-800,
    i.e. the number 1, was read as 0.1. *)
Definition c03_witness : bytes := bs "1" ++ repeat x30 800 ++ bs "e-800".

Theorem C03_unfixed_scanner_refuted :
  exists s, parse_float_spec s = (b64_one, ErrNone) /\
            parse_float_unfixed s = (b64_of_bits 0x3FB999999999999A, ErrNone) /\
            parse_float s = (b64_one, ErrNone).
Proof. exists c03_witness. vm_compute. repeat split. Qed.
Print Assumptions C03_unfixed_scanner_refuted.

(** ** the hypotheses are satisfiable, and the specification is an executable oracle *)
Example C03_fastint_instance :
  fast_loop (bs "9007199254740993") 0 = Some 9007199254740993 /\
  parse_float_spec (bs "9007199254740993") = (b64_of_bits 0x4340000000000000, ErrNone) /\
  fast_loop (bs "9223372036854775799") 0 = Some 9223372036854775799 /\
  fast_loop (bs "9223372036854775800") 0 = None.
Proof. vm_compute. repeat split. Qed.

Example C03_exact_path_instances :
  atof64exact 15 (-1) false = Some (b64_of_bits 0x3FF8000000000000) /\
  atof64exact 123456789012345 37 true = None /\
  atof64exact 1 37 false = Some (rn_b64 false 1 false 37) /\
  atof64exact 4503599627370496 0 false = None.
Proof. vm_compute. repeat split. Qed.

Example C03_nonhex_instance :
  (* the hypotheses of C03_parse_float_correct_nonhex hold, e.g., for a 60-digit halfway text *)
  let s := bs "1.00000000000000011102230246251565404236316680908203125e-3" in
  no_clamp s /\ (forall d, dec_set s = Some d -> d_trunc d = false) /\
  lex_float s = Some (LNum false false 100000000000000011102230246251565404236316680908203125 (-56)).
Proof. cbv zeta. split; [vm_compute; reflexivity|]. split; [|vm_compute; reflexivity].
  intros d H. vm_compute in H. injection H as <-. reflexivity. Qed.

Example C03_atoi_instances :
  int_value (bs "-9223372036854775808") = Some (-9223372036854775808) /\
  atoi (bs "-9223372036854775808") = IOk (-9223372036854775808) /\
  atoi (bs "9223372036854775808") = IErr max_int64 ErrRange /\
  int_value (bs "1_000") = None /\ ires_err (atoi (bs "1_000")) = ErrSyntax /\
  atoi (dec_of_Z 1234567890123456789) = IOk 1234567890123456789.
Proof. vm_compute. repeat split. Qed.

Example C03_oracle_instances :
  (* the halfway point between 1 and its successor ties to even; one unit in the
     last of 800+ places above it does not *)
  parse_float_spec (bs "1.00000000000000011102230246251565404236316680908203125") = (b64_of_bits 0x3FF0000000000000, ErrNone) /\
  parse_float_spec (bs "1.00000000000000011102230246251565404236316680908203125" ++ repeat x30 800 ++ bs "1")
    = (b64_of_bits 0x3FF0000000000001, ErrNone) /\
  parse_float (bs "1.00000000000000011102230246251565404236316680908203125" ++ repeat x30 800 ++ bs "1")
    = (b64_of_bits 0x3FF0000000000001, ErrNone) /\
  parse_float_spec (bs "0x1.00000000000008p0") = (b64_of_bits 0x3FF0000000000000, ErrNone) /\
  parse_float_spec (bs "0x1.000000000000080000000000000001p0") = (b64_of_bits 0x3FF0000000000001, ErrNone) /\
  parse_float (bs "0x1.000000000000080000000000000001p0") = (b64_of_bits 0x3FF0000000000001, ErrNone).
Proof. vm_compute. repeat split. Qed.

(** ===================================================================== *)
(** ** BEGIN block p03h — atofHex (hex_correct) and ParseFloat on all texts.
    Proofs in Proofs/AtofHex.v.  The code's three shift loops keep Flocq's
    [inbetween_float] of the exact value (the step  mantissa>>1 | mantissa&1  is
    [shr_1] on the record mantissa/round bit/sticky bit), stop at the format's
    exponent, and the round / carry / assemble step (with Float64frombits of the
    assembled word) is SpecFloat's [binary_round_aux]; Flocq's
    [binary_round_aux_correct'] then gives round-to-nearest-even, subnormal
    results, zero, and overflow to the infinity with the range error. *)
From Perf Require Import Proofs.AtofHex.

(** what the scanner guarantees beyond [cut_of] and atofHex relies on: when
    hexadecimal digits were dropped ([trunc]) the 64-bit mantissa is full —
    16 digits, the first one not zero — so ORing the sticky bit into bit 0 is sound *)
Theorem C03_scanner_full_mantissa : forall s r,
  read_float s = Some r -> r_hex r = true -> r_trunc r = true -> 2 ^ 60 <= r_mant r.
Proof. exact read_float_trunc_full. Qed.
Print Assumptions C03_scanner_full_mantissa.

(** atofHex on any mantissa / exponent / trunc that is the number M * 2^E cut after
    16 hexadecimal digits ([cut_of], the conclusion of C03_scanner_value): the value
    is [rn_b64] of M * 2^E — correctly rounded, subnormals and zero included — and
    the error is the range error exactly when that is an infinity *)
Theorem C03_atof_hex_value : forall m e neg tr M E,
  cut_of true M E m e tr -> (tr = true -> 2 ^ 60 <= m) ->
  atof_hex m e neg tr =
    (rn_b64 neg M true E, if b64_is_inf (rn_b64 neg M true E) then ErrRange else ErrNone).
Proof. exact atof_hex_correct. Qed.
Print Assumptions C03_atof_hex_value.

(** hex_correct: for every hexadecimal text of the grammar, readFloat's result given
    to atofHex yields the correctly rounded binary64 of the number written *)
Theorem C03_hex_correct : forall s neg M E,
  lex_float s = Some (LNum neg true M E) -> no_clamp s ->
  exists r, read_float s = Some r /\ r_hex r = true /\ r_neg r = neg /\
    atof_hex (r_mant r) (r_exp r) (r_neg r) (r_trunc r) =
      (rn_b64 neg M true E, if b64_is_inf (rn_b64 neg M true E) then ErrRange else ErrNone).
Proof. exact hex_correct. Qed.
Print Assumptions C03_hex_correct.

(** ... said with the real numbers (no [rn_b64]): the float returned is a valid
    binary64, equal to round-to-nearest-even of the exact real (-1)^neg * M * 2^E,
    finite and of the right sign, whenever that rounded real is below 2^1024 in
    magnitude; otherwise it is the infinity of that sign *)
Theorem C03_hex_rounds : forall s neg M E,
  lex_float s = Some (LNum neg true M E) -> no_clamp s ->
  0 <= M /\
  exists r, read_float s = Some r /\
    let x := exact_value neg M true E in
    let z := fst (atof_hex (r_mant r) (r_exp r) (r_neg r) (r_trunc r)) in
    valid_binary 53 1024 z = true /\
    if Rlt_bool (Rabs (round radix2 (FLT_exp (-1074) 53) ZnearestE x)) (bpow radix2 1024) then
      SF2R radix2 z = round radix2 (FLT_exp (-1074) 53) ZnearestE x /\
      is_finite_SF z = true /\ sign_SF z = neg
    else z = S754_infinity neg.
Proof. exact hex_rounds. Qed.
Print Assumptions C03_hex_rounds.

(** ParseFloat = specification, bit for bit and error for error, on every hexadecimal
    text of the grammar *)
Theorem C03_hex_end_to_end : forall s neg M E,
  lex_float s = Some (LNum neg true M E) -> no_clamp s ->
  parse_float s = parse_float_spec s.
Proof. exact hex_end_to_end. Qed.
Print Assumptions C03_hex_end_to_end.

(** ParseFloat = specification on EVERY text (syntax errors, inf/nan spellings, decimal
    exact and slow paths, hexadecimal) whose exponent is not clamped and whose
    significant digits fit decimal.set's 800-digit buffer (a hexadecimal text never
    reaches that buffer: for it the second hypothesis holds vacuously).  As in
    C03_parse_float_correct_nonhex, decimal.go's floatBits is modelled by its
    specification; atofHex is transcribed and verified *)
Theorem C03_parse_float_correct : forall s,
  no_clamp s ->
  (forall d, dec_set s = Some d -> d_trunc d = false) ->
  parse_float s = parse_float_spec s.
Proof. exact parse_float_correct. Qed.
Print Assumptions C03_parse_float_correct.

(** the hypotheses are satisfiable: a 31-digit hexadecimal mantissa one unit in the
    last place above a halfway point (15 digits dropped, sticky), a subnormal
    halfway text, an overflow and an exact zero *)
Example C03_hex_instances :
  let s := bs "0x1.000000000000080000000000000001p0" in
  no_clamp s /\ (forall d, dec_set s = Some d -> d_trunc d = false) /\
  lex_float s = Some (LNum false true 0x1000000000000080000000000000001 (-120)) /\
  (exists r, read_float s = Some r /\ r_trunc r = true /\ r_mant r = 0x1000000000000080 /\ r_exp r = -60) /\
  cut_of true 0x1000000000000080000000000000001 (-120) 0x1000000000000080 (-60) true /\
  parse_float s = (b64_of_bits 0x3FF0000000000001, ErrNone) /\
  parse_float (bs "0x1.8p-1075") = (b64_of_bits 1, ErrNone) /\
  parse_float (bs "0x1p-1075") = (b64_of_bits 0, ErrNone) /\
  parse_float (bs "-0x1.fffffffffffff8p1023") = (S754_infinity true, ErrRange) /\
  parse_float (bs "-0x0p0") = (S754_zero true, ErrNone).
Proof.
  cbv zeta. split; [vm_compute; reflexivity|]. split.
  { intros d H. vm_compute in H. discriminate. }
  split; [vm_compute; reflexivity|]. split.
  { eexists. split; [vm_compute; reflexivity|]. vm_compute. auto. }
  split.
  { split; [vm_compute; split; [discriminate|reflexivity]|].
    exists 15, 1. repeat split; try (vm_compute; congruence); try discriminate; try reflexivity. }
  vm_compute. repeat split.
Qed.
(** ** END block p03h *)

(** ======================================================================
    BEGIN block p03d — decimal.go / floatBits transcribed and verified
    (Model/Decimal.v; proofs in Proofs/DecimalBase.v, DecimalShift.v,
    DecimalValue.v, DecimalRound.v, DecimalInv.v, DecimalPhases.v,
    DecimalBits.v, DecimalFloatBits.v, DecimalEndToEnd.v)

    The slow decimal path is no longer "modelled by its specification": the
    statement-by-statement transcription [floatBits] of decimal.go / atof.go is
    proved to return the correctly rounded binary64 of the stored number
    (C03_decimal_floatBits_correct), so that the model of ParseFloat built on the
    transcription equals the one built on the specification on EVERY text
    (C03_parse_float_code_eq); every theorem above about [parse_float] therefore
    holds for [parse_float_code], the model that is code all the way down.
    ====================================================================== *)
From Perf Require Import Model.Decimal Proofs.DecimalBase Proofs.DecimalShift Proofs.DecimalValue Proofs.DecimalRound
                         Proofs.DecimalInv Proofs.DecimalPhases Proofs.DecimalFloatBits Proofs.DecimalEndToEnd.

(** A decimal is well formed ([wf]) when its digits are 0..9, at most 800 of them,
    and the first one is not zero; [Vr a] = 0.d1 d2 ... d_nd * 10^dp is the real
    number it denotes; [shifted a a' s lost] says: a' is well formed and trimmed,
    has the sign of a, and  Vr a' + lost = Vr a * s  with
    0 <= lost < 10^(dp' - 800)  (less than one unit of the 800th digit of a'),
    [trunc] unchanged when lost = 0 and set when lost <> 0. *)

(** the cheat sheet of leftShift holds what its comment says: entry k (1..60) is
    the number of decimal digits of 2^k and the decimal digits of 5^k *)
Theorem C03_leftcheats_table : forall k, 0 <= k <= 60 ->
  exists d c, nth (Z.to_nat k) leftcheats (0, []) = (d, c) /\ digits_ok c /\
    ((k = 0 /\ d = 0 /\ c = []) \/
     (1 <= k /\ dv c = 5 ^ k /\ zlen c = k - d + 1 /\ 10 ^ (d - 1) <= 2 ^ k < 10 ^ d /\ 1 <= d /\ last c 0 <> 0)).
Proof. exact leftcheat_facts. Qed.
Print Assumptions C03_leftcheats_table.

(** rightShift divides by 2^k exactly. Nothing is lost unless the quotient needs
    more than 800 digits; then exactly the digits beyond the 800th are dropped and
    [trunc] records whether one of them was non-zero. No machine word overflows
    and the loops terminate (the transcription returns [Some]). *)
Theorem C03_decimal_rightShift_exact : forall a k, wf a -> 0 <= k <= 60 ->
  exists a' lost, rightShift a k = Some a' /\ shifted a a' (bpow radix2 (- k)) lost.
Proof. exact rightShift_real. Qed.
Print Assumptions C03_decimal_rightShift_exact.

(** leftShift multiplies by 2^k exactly, with the same rule at the 800-digit
    limit; the cheat sheet predicts the number of new digits exactly, so the write
    index ends at 0 (no stale leading byte, no index out of range) *)
Theorem C03_decimal_leftShift_exact : forall a k, wf a -> 0 <= k <= 60 ->
  exists a' lost, leftShift a k = Some a' /\ shifted a a' (bpow radix2 k) lost.
Proof. exact leftShift_real. Qed.
Print Assumptions C03_decimal_leftShift_exact.

(** the same on integers: the digits written [out] followed by the dropped digits
    [dr] are the decimal expansion of the quotient / product *)
Theorem C03_decimal_rightShift_digits : forall a k, wf a -> 0 <= k <= 60 ->
  exists out dp' tr' dr s,
    rightShift a k = Some (trim (mkDecimal out dp' (dc_neg a) tr')) /\
    digits_ok out /\ 0 < zlen out <= 800 /\ (exists c r, out = c :: r /\ c <> 0) /\
    digits_ok dr /\ 0 <= s /\
    (dv out * 10 ^ zlen dr + dv dr) * (10 * 2 ^ k) = dv (dc_d a) * 10 ^ s /\
    dp' - zlen out = (dc_dp a - zlen (dc_d a)) - s + 1 + zlen dr /\
    tr' = dc_trunc a || (0 <? dv dr) /\ (dr <> [] -> zlen out = 800).
Proof. exact rightShift_int. Qed.
Print Assumptions C03_decimal_rightShift_digits.

Theorem C03_decimal_leftShift_digits : forall a k, wf a -> 0 <= k <= 60 ->
  exists out delta tr' dr,
    leftShift a k = Some (trim (mkDecimal out (dc_dp a + delta) (dc_neg a) tr')) /\
    digits_ok out /\ 0 < zlen out <= 800 /\ (exists c r, out = c :: r /\ c <> 0) /\
    digits_ok dr /\
    dv out * 10 ^ zlen dr + dv dr = dv (dc_d a) * 2 ^ k /\
    zlen out + zlen dr = zlen (dc_d a) + delta /\ 0 <= delta /\
    tr' = dc_trunc a || (0 <? dv dr) /\ (dr <> [] -> zlen out = 800).
Proof. exact leftShift_int. Qed.
Print Assumptions C03_decimal_leftShift_digits.

(** RoundedInteger is round-half-even of the represented number; with [trunc] set
    (the true number is a little above the recorded one) an exact tie goes up *)
Theorem C03_decimal_roundedInteger_correct : forall a, wf a -> trimmed a -> dc_dp a <= 19 ->
  roundedInteger a = sticky_rne (Vr a) (dc_trunc a).
Proof. exact roundedInteger_correct. Qed.
Print Assumptions C03_decimal_roundedInteger_correct.

(** ... which is the nearest-even integer of every x that the decimal approximates
    from below without an integer or half-integer in between *)
Theorem C03_sticky_rounding_is_nearest_even : forall v sticky x,
  (v <= x)%R -> (sticky = false -> x = v) -> (sticky = true -> (v < x)%R) ->
  (forall h : Z, (v < IZR h / 2)%R -> (x < IZR h / 2)%R) ->
  sticky_rne v sticky = ZnearestE x.
Proof. exact sticky_rne_nearest. Qed.
Print Assumptions C03_sticky_rounding_is_nearest_even.

Example C03_decimal_instances :
  (* hypotheses are satisfiable; a shift that overflows the buffer sets trunc *)
  wf (mkDecimal [6;2;5] 0 false false) /\ trimmed (mkDecimal [6;2;5] 0 false false) /\
  leftShift (mkDecimal [6;2;5] 0 false false) 4 = Some (mkDecimal [1] 2 false false) /\
  rightShift (mkDecimal [1] 1 false false) 4 = Some (mkDecimal [6;2;5] (-1) false false) /\
  option_map dc_trunc (rightShift (mkDecimal (repeat 1 800) 0 false false) 2) = Some true /\
  option_map dc_nd (rightShift (mkDecimal (repeat 1 800) 0 false false) 2) = Some 800 /\
  roundedInteger (mkDecimal [2;5] 1 false false) = 2 /\ roundedInteger (mkDecimal [2;5] 1 false true) = 3.
Proof.
  split.
  { split; [repeat constructor; lia|]. split; [unfold zlen; cbn; lia|]. exists 6, [2;5]. split; [reflexivity|lia]. }
  split; [unfold trimmed; cbn; lia|]. vm_compute. repeat split.
Qed.
(** ** floatBits *)

(** The invariant that carries correct rounding through the shifts ([Inv a x B N],
    Proofs/DecimalInv.v): the decimal a approximates the exact scaled number x from
    below, exactly unless [trunc] is set, and no point of the grid 2^-(B+1) Z — the
    preimages of the integers and half-integers of the final scaling when B bounds
    the net left shift still to come — lies in (Vr a, x].  One shift keeps it as long
    as those grid points are representable in the 800-digit window of the result.
    This is the precise sense in which 800 digits are enough. *)
Theorem C03_decimal_shift_keeps_rounding_invariant : forall a a' x B N kappa lost,
  Inv a x B N -> shifted a a' (bpow radix2 kappa) lost ->
  dc_dp a' <= 800 -> B - kappa + 1 + dc_dp a' <= 800 -> 0 <= N <= 1000000 ->
  Inv a' (x * bpow radix2 kappa) (B - kappa) (N + 1).
Proof. exact inv_step. Qed.
Print Assumptions C03_decimal_shift_keeps_rounding_invariant.

(** decimal_floatBits_correct: for every well-formed decimal of at most 800 digits with
    dp in -330..310 (outside, floatBits answers 0 / overflow at once, as the
    specification does), whose [trunc] flag, if set, was set by the scanner on a full
    buffer, floatBits terminates within its fuel without reading a stale byte or
    overflowing a machine word, and the bits it assembles are the correctly rounded
    binary64 (round to nearest even, infinity beyond the range, [overflow] flag
    exactly then) of the number the decimal stands for: its digits, plus a little
    when [trunc] is set.  Digits dropped inside the shifts (when a quotient or
    product needs more than 800 digits) do not change the result. *)
Theorem C03_decimal_floatBits_correct : forall a, wf a -> -330 <= dc_dp a <= 310 ->
  (dc_trunc a = true -> zlen (dc_d a) = 800) ->
  exists bits ovf, floatBits a = Some (bits, ovf) /\
    rounds_to (dc_neg a) (signed (dc_neg a) (true_value a)) (b64_of_bits bits) /\
    ovf = b64_is_inf (b64_of_bits bits).
Proof. exact floatBits_rounds. Qed.
Print Assumptions C03_decimal_floatBits_correct.

(** what decimal.set hands to floatBits: nd is the number of stored digits, they are
    digits, the first one is not '0', at most 800, and [trunc] only on a full buffer *)
Theorem C03_decimal_set_shape : forall fixed s d, dec_set_gen fixed s = Some d -> dec_shape d.
Proof. exact dec_set_gen_shape. Qed.
Print Assumptions C03_decimal_set_shape.

(** the modelling assumption of Model/Atof.v is a theorem: on every decimal the scanner
    can store, the transcribed floatBits returns what the specification-based
    [dec_float_bits] (rn_b64 of the stored digits, sticky digit when [trunc]) returns,
    value and error *)
Theorem C03_decimal_slow_path_is_specification : forall d, dec_shape d ->
  dec_float_bits_code d = dec_float_bits d.
Proof. exact dec_float_bits_code_eq. Qed.
Print Assumptions C03_decimal_slow_path_is_specification.

(** ... and so the two models of ParseFloat(s, 64) agree on every text *)
Theorem C03_parse_float_code_eq : forall s, parse_float_code s = parse_float s.
Proof. exact parse_float_code_eq. Qed.
Print Assumptions C03_parse_float_code_eq.

(** ParseFloat, code all the way down (scanners, exact path, transcribed decimal.go),
    equals the specification — bit for bit, error for error — on every text that is not
    a hexadecimal number and whose significant digits fit the 800-digit buffer *)
Theorem C03_parse_float_code_correct_nonhex : forall s,
  no_clamp s ->
  (forall d, dec_set s = Some d -> d_trunc d = false) ->
  (forall neg M E, lex_float s <> Some (LNum neg true M E)) ->
  parse_float_code s = parse_float_spec s.
Proof. exact parse_float_code_correct_nonhex. Qed.
Print Assumptions C03_parse_float_code_correct_nonhex.

Example C03_floatBits_instances :
  (* the hypotheses of C03_decimal_floatBits_correct hold for the decimal of 0.1 and for a
     full buffer with [trunc]; the transcription answers as computed *)
  let a := mkDecimal [1] 0 false false in
  let b := mkDecimal (repeat 9 800) 1 true true in
  wf a /\ wf b /\ zlen (dc_d b) = 800 /\
  floatBits a = Some (0x3FB999999999999A, false) /\
  floatBits b = Some (0xC024000000000000, false) /\
  dec_shape (mkDec (bs "521") 3 0 false false) /\
  parse_float_code (bs "1.00000000000000011102230246251565404236316680908203125" ++ repeat x30 800 ++ bs "1")
    = (b64_of_bits 0x3FF0000000000001, ErrNone).
Proof.
  cbv zeta. split.
  { split; [repeat constructor; lia|]. split; [unfold zlen; cbn; lia|]. exists 1, []. split; [reflexivity|lia]. }
  split.
  { split; [apply Forall_forall; intros x Hx; apply repeat_spec in Hx; lia|].
    split; [vm_compute; discriminate|]. exists 9, (repeat 9 799). split; [reflexivity|lia]. }
  split; [vm_compute; reflexivity|].
  split; [vm_compute; reflexivity|]. split; [vm_compute; reflexivity|].
  split; [repeat split; try reflexivity; try (cbn; lia); intros; discriminate|].
  vm_compute. reflexivity.
Qed.
(** END block p03d *)
