(** C03 — Numbers are read as correctly rounded float64 values and exact integers.
    Statements only; proofs are in Proofs/RnB64.v, Proofs/AtofFast.v, Proofs/Atoi.v.

    Specification (Base/DecSpec.v): [lex_float] (grammar), [rn_b64] (correct
    rounding of the exact rational), [parse_float_spec]; [int_value], [atoi_spec].
    Model of the code (Model/Atof.v, Model/Atoi.v): [reader_atof], [parse_float],
    [atoi], [parse_int], [parse_uint].

    Proved here: the specification's rounding IS round-to-nearest-even of the
    exact real (Flocq); the reader's integer fast path meets the specification;
    the exact path (atof64exact: one or two float operations) returns the
    correctly rounded value; Atoi meets the integer specification on every text.
    Not proved (tied to the code by the differential run only, three-way with
    strconv and the Coq-evaluated specification): the decimal slow path
    (decimal.go, modelled by [rn_b64] of the stored digits), [atofHex]
    (hex_correct absent), and that [read_float]/[dec_set] accept exactly
    [lex_float] and hand the right mantissa/exponent on (syntax_iff_grammar absent). *)
From Coq Require Import Reals.
From Flocq Require Import Core.Core IEEE754.BinarySingleNaN.
From Perf Require Import Base.Bytes Base.B64 Base.DecSpec Model.Atoi Model.Atof
                         Proofs.Atoi Proofs.RnB64 Proofs.AtofFast Proofs.AtofExact.
Local Open Scope Z_scope.

(** [rn_b64] is correct rounding: for the exact real x = (-1)^neg * m * B^e,
    the result is a valid binary64 that equals
    round radix2 (FLT_exp (-1074) 53) ZnearestE x, finite and of the right sign,
    whenever that rounded real is below 2^1024 in magnitude; otherwise it is the
    infinity of that sign (which [parse_float_spec] reports as a range error). *)
Theorem C03_rn_b64_correct : forall neg m base2 e, 0 <= m ->
  let x := exact_value neg m base2 e in
  let z := rn_b64 neg m base2 e in
  valid_binary 53 1024 z = true /\
  if Rlt_bool (Rabs (round radix2 (FLT_exp (-1074) 53) ZnearestE x)) (bpow radix2 1024) then
    SF2R radix2 z = round radix2 (FLT_exp (-1074) 53) ZnearestE x /\
    is_finite_SF z = true /\ sign_SF z = neg
  else z = S754_infinity neg.
Proof. exact rn_b64_rounds. Qed.
Print Assumptions C03_rn_b64_correct.

(** the reader's integer fast path returns the specification's answer:
    the correctly rounded value of the integer written, and no error *)
Theorem C03_fastint_correct : forall x v, x <> [] -> fast_loop x 0 = Some v ->
  parse_float_spec x = (b64_of_Z v, ErrNone).
Proof. exact fastint_correct. Qed.
Print Assumptions C03_fastint_correct.

(** ... it is taken only by digit strings, computes their exact value, and the
    guard keeps that value an int64 (so float64(int64) is the model's b64_of_Z) *)
Theorem C03_fastint_value : forall x v, fast_loop x 0 = Some v ->
  forallb is_dec_digit x = true /\ v = digits_val 10 x /\ 0 <= v <= 9223372036854775799.
Proof. exact fastint_value. Qed.
Print Assumptions C03_fastint_value.

Theorem C03_reader_atof_fast : forall x v, x <> [] -> fast_loop x 0 = Some v ->
  reader_atof x = parse_float_spec x.
Proof. exact reader_atof_fast. Qed.
Print Assumptions C03_reader_atof_fast.

(** the exact path of ParseFloat: whenever atof64exact answers (mantissa < 2^52,
    exponent within the power-of-ten table, the intermediate product at most
    1e15), its one or two float operations give the correctly rounded value of
    mantissa * 10^exp, i.e. the specification's value *)
Theorem C03_exact_path_correct : forall m exp neg f, 0 <= m ->
  atof64exact m exp neg = Some f -> f = rn_b64 neg m false exp.
Proof. exact exact_path_correct. Qed.
Print Assumptions C03_exact_path_correct.

(** Atoi on an integer text (optional sign, digits): the exact integer when it
    fits int64, else the range error carrying the bound *)
Theorem C03_atoi_int : forall s n, int_value s = Some n ->
  atoi s = if n <? min_int64 then IErr min_int64 ErrRange
           else if max_int64 <? n then IErr max_int64 ErrRange else IOk n.
Proof. exact atoi_int. Qed.
Print Assumptions C03_atoi_int.

(** any other text is rejected: never a silently wrong number *)
Theorem C03_atoi_rejects_non_integers : forall s, int_value s = None -> ires_err (atoi s) <> ErrNone.
Proof. exact atoi_nonint. Qed.
Print Assumptions C03_atoi_rejects_non_integers.

(** an accepted text is an integer text, the result is its value, and it is an int64 *)
Theorem C03_atoi_sound : forall s n, atoi s = IOk n ->
  int_value s = Some n /\ min_int64 <= n <= max_int64.
Proof. exact atoi_sound. Qed.
Print Assumptions C03_atoi_sound.

Theorem C03_atoi_out_of_range : forall s n, int_value s = Some n ->
  (n < min_int64 -> atoi s = IErr min_int64 ErrRange) /\
  (max_int64 < n -> atoi s = IErr max_int64 ErrRange).
Proof. exact atoi_out_of_range. Qed.
Print Assumptions C03_atoi_out_of_range.

(** every int64, printed in decimal, is read back exactly *)
Theorem C03_atoi_exact : forall n, min_int64 <= n <= max_int64 -> atoi (dec_of_Z n) = IOk n.
Proof. exact atoi_exact. Qed.
Print Assumptions C03_atoi_exact.

Theorem C03_print_is_integer_text : forall n, int_value (dec_of_Z n) = Some n.
Proof. exact int_value_dec_of_Z. Qed.
Print Assumptions C03_print_is_integer_text.

(** both views of Atoi in the form used by the correspondence run ([prop_ok]) *)
Theorem C03_atoi_meets_spec : forall s,
  match int_value s with
  | Some _ => ires_pair (atoi s) = atoi_spec s
  | None => ires_err (atoi s) <> ErrNone
  end.
Proof. exact atoi_meets_spec. Qed.
Print Assumptions C03_atoi_meets_spec.

(** ** the defect found on the pinned tree (repaired by
    hooks/fix_c03_decimal_set_dropped_digits.diff, commit 2c343e0 in /repo):
    the slow path's scanner dropped integer digits beyond its 800-byte buffer
    without moving the decimal point. Witness: 1 followed by 800 zeros, e-800,
    i.e. the number 1, was read as 0.1. *)
Definition c03_witness : bytes := bs "1" ++ repeat x30 800 ++ bs "e-800".

Theorem C03_unfixed_scanner_refuted :
  exists s, parse_float_spec s = (b64_one, ErrNone) /\
            parse_float_unfixed s = (b64_of_bits 0x3FB999999999999A, ErrNone) /\
            parse_float s = (b64_one, ErrNone).
Proof. exists c03_witness. vm_compute. repeat split. Qed.
Print Assumptions C03_unfixed_scanner_refuted.

(** ** the hypotheses are satisfiable, and the specification is an executable oracle *)
Example C03_fastint_instance :
  fast_loop (bs "9007199254740993") 0 = Some 9007199254740993 /\
  parse_float_spec (bs "9007199254740993") = (b64_of_bits 0x4340000000000000, ErrNone) /\
  fast_loop (bs "9223372036854775799") 0 = Some 9223372036854775799 /\
  fast_loop (bs "9223372036854775800") 0 = None.
Proof. vm_compute. repeat split. Qed.

Example C03_exact_path_instances :
  atof64exact 15 (-1) false = Some (b64_of_bits 0x3FF8000000000000) /\
  atof64exact 123456789012345 37 true = None /\
  atof64exact 1 37 false = Some (rn_b64 false 1 false 37) /\
  atof64exact 4503599627370496 0 false = None.
Proof. vm_compute. repeat split. Qed.

Example C03_atoi_instances :
  int_value (bs "-9223372036854775808") = Some (-9223372036854775808) /\
  atoi (bs "-9223372036854775808") = IOk (-9223372036854775808) /\
  atoi (bs "9223372036854775808") = IErr max_int64 ErrRange /\
  int_value (bs "1_000") = None /\ ires_err (atoi (bs "1_000")) = ErrSyntax /\
  atoi (dec_of_Z 1234567890123456789) = IOk 1234567890123456789.
Proof. vm_compute. repeat split. Qed.

Example C03_oracle_instances :
  (* the halfway point between 1 and its successor ties to even; one unit in the
     last of 800+ places above it does not *)
  parse_float_spec (bs "1.00000000000000011102230246251565404236316680908203125") = (b64_of_bits 0x3FF0000000000000, ErrNone) /\
  parse_float_spec (bs "1.00000000000000011102230246251565404236316680908203125" ++ repeat x30 800 ++ bs "1")
    = (b64_of_bits 0x3FF0000000000001, ErrNone) /\
  parse_float (bs "1.00000000000000011102230246251565404236316680908203125" ++ repeat x30 800 ++ bs "1")
    = (b64_of_bits 0x3FF0000000000001, ErrNone) /\
  parse_float_spec (bs "0x1.00000000000008p0") = (b64_of_bits 0x3FF0000000000000, ErrNone) /\
  parse_float_spec (bs "0x1.000000000000080000000000000001p0") = (b64_of_bits 0x3FF0000000000001, ErrNone) /\
  parse_float (bs "0x1.000000000000080000000000000001p0") = (b64_of_bits 0x3FF0000000000001, ErrNone).
Proof. vm_compute. repeat split. Qed.
