(** C02 — The reader follows the format's line and scoping rules on every input.
    Statements only; proofs are in Proofs/ReaderSlots.v and Proofs/Reader.v.

    Library behaviour is universally quantified: [is_space is_lower is_upper]
    stand for unicode.IsSpace/IsLower/IsUpper, [atoi] and [parse_float] for
    bytesconv.Atoi / ParseFloat (property C03); nothing is assumed about them.
    Aliasing of the reused Result (the "cloned result never changes" clause) is
    outside a pure model: it is checked on every generated history only. *)
From Perf Require Import Base.Bytes Base.B64 Base.Utf8 Base.Unicode Base.UnicodeTables
  Model.Name Model.Extract Model.Units Model.Reader Model.Files Model.ReaderSpec
  Proofs.ReaderSlots Proofs.Reader Proofs.ReaderInert Proofs.FilesLabels
  Proofs.ReaderSpecKV Proofs.ReaderSpecFields Proofs.ReaderSpec Proofs.ReaderSpec2 Proofs.ReaderSpecFile
  Proofs.FilesLabelsDistinct.

(** any history of ensureConfig/deleteConfig on the slots (started over
    whatever stale slots [stale] an earlier input left behind the slice):
    live keys are distinct, configPos is the inverse of indexing, and lookups
    are those of the map "latest value per key, deleted keys absent" *)
Theorem C02_slots_refine_map : forall (ops : list cop) (stale : list cfg),
  let st := fold_left apply_slot ops (mkCstate stale 0 []) in
  let m := fold_left apply_map ops [] in
  NoDup (map c_key (live st)) /\
  (cs_len st <= length (cs_slots st))%nat /\
  (forall k i, pos_find (cs_pos st) k = Some i <->
               exists c, nth_error (live st) i = Some c /\ c_key c = k) /\
  (forall k, cfg_lookup (live st) k = cfg_lookup m k).
Proof. exact slots_refine_map. Qed.
Print Assumptions C02_slots_refine_map.

(** reading an input through a reader in ANY earlier state [st] (Reset after
    arbitrary earlier inputs) yields, record for record, what [linespec]
    prescribes: same errors and unit records at the same positions, results
    with the same name, iterations, values, position and the same
    configuration as a map; same I/O outcome; same unit table *)
Theorem C02_reader_refines_linespec :
  forall is_space is_lower is_upper atoi parse_float st fname labels content rs e st',
  read_file is_space is_lower is_upper atoi parse_float st fname labels content = (rs, e, st') ->
  exists rs2,
    linespec is_space is_lower is_upper atoi parse_float (rs_units st) fname labels content
      = (rs2, e, rs_units st') /\
    Forall2 rec_equiv rs rs2.
Proof. exact reader_refines_linespec. Qed.
Print Assumptions C02_reader_refines_linespec.

(** the caller stops after [k] calls of Scan (possibly between the records one
    line queued) and Resets: from ANY earlier state, including one with
    undelivered queued records, the next input's first [k] records are the
    first [k] records prescribed for that input alone, at its own positions,
    and the unit table is the one of the lines actually consumed *)
Theorem C02_reader_take_refines_linespec :
  forall is_space is_lower is_upper atoi parse_float k st fname labels content rs e st',
  read_file_take is_space is_lower is_upper atoi parse_float k st fname labels content = (rs, e, st') ->
  exists rs2,
    linespec_take is_space is_lower is_upper atoi parse_float k (rs_units st) fname labels content
      = (rs2, e, rs_units st') /\
    Forall2 rec_equiv rs rs2.
Proof. exact reader_take_refines_linespec. Qed.
Print Assumptions C02_reader_take_refines_linespec.

(** Reset wipes the queue: undelivered records of the previous input cannot reappear *)
Theorem C02_reset_discards_queue : forall st q labels, reset (set_q st q) labels = reset st labels.
Proof. exact reset_discards_queue. Qed.
Print Assumptions C02_reset_discards_queue.

(** a sequence of files through one reader = each file read on its own from
    its bare label (no configuration leaks), with only the unit table
    threaded through; stops at the first file that cannot be opened or read *)
Theorem C02_files_no_leak :
  forall is_space is_lower is_upper atoi parse_float fs ins st rs e st',
  files_loop is_space is_lower is_upper atoi parse_float fs ins st = (rs, e, st') ->
  exists rs2,
    files_spec_loop is_space is_lower is_upper atoi parse_float fs ins (rs_units st)
      = (rs2, e, rs_units st') /\
    Forall2 rec_equiv rs rs2.
Proof. exact files_no_leak. Qed.
Print Assumptions C02_files_no_leak.

(** every record carries the input's name and the 1-based number of a line of the input *)
Theorem C02_records_positioned :
  forall is_space is_lower is_upper atoi parse_float fname ls n st rs e st',
  read_lines is_space is_lower is_upper atoi parse_float fname n st ls = (rs, e, st') ->
  Forall (fun r => rec_file r = fname /\ (n < rec_line r <= n + Z.of_nat (length ls))%Z) rs /\
  match e with Some k => (n <= k < n + Z.of_nat (length ls))%Z | None => True end.
Proof. exact records_positioned. Qed.
Print Assumptions C02_records_positioned.

(** unit metadata is never dropped: the table after reading extends the table before *)
Theorem C02_units_persist :
  forall is_space is_lower is_upper atoi parse_float fname ls n st rs e st',
  read_lines is_space is_lower is_upper atoi parse_float fname n st ls = (rs, e, st') ->
  exists ext, rs_units st' = rs_units st ++ ext.
Proof. exact units_persist. Qed.
Print Assumptions C02_units_persist.

(** lines that are neither benchmark, unit nor key/value lines change nothing *)
Theorem C02_other_line_inert :
  forall is_space is_lower is_upper atoi parse_float fname n st line,
  classify is_space is_lower is_upper atoi parse_float line = LOther ->
  step is_space is_lower is_upper atoi parse_float fname n st line = ([], st).
Proof. exact other_line_inert. Qed.
Print Assumptions C02_other_line_inert.

(** a malformed benchmark line yields exactly one error at its own line, no result, no state change *)
Theorem C02_malformed_bench_is_positioned_error :
  forall is_space is_lower is_upper atoi parse_float fname n st line k,
  classify is_space is_lower is_upper atoi parse_float line = LBench (BErr k) ->
  step is_space is_lower is_upper atoi parse_float fname n st line = ([RErr fname n k], st).
Proof. exact malformed_bench_is_positioned_error. Qed.
Print Assumptions C02_malformed_bench_is_positioned_error.

(** insertion or removal of a line that is neither benchmark, unit nor key/value
    line (or is a bare benchmark name) anywhere in an input: the records of the
    lines before it are unchanged, the records of the lines after it are the
    same records one line further down, the I/O outcome moves with them, and
    the final states differ at most in line numbers remembered for unit metadata *)
Theorem C02_other_lines_inert :
  forall is_space is_lower is_upper atoi parse_float fname n st pre post b ra sta rb e stb,
  inert is_space is_lower is_upper atoi parse_float b ->
  read_lines is_space is_lower is_upper atoi parse_float fname n st pre = (ra, None, sta) ->
  read_lines is_space is_lower is_upper atoi parse_float fname (n + Z.of_nat (length pre)) sta post = (rb, e, stb) ->
  read_lines is_space is_lower is_upper atoi parse_float fname n st (pre ++ post) = (ra ++ rb, e, stb) /\
  exists stb',
    read_lines is_space is_lower is_upper atoi parse_float fname n st (pre ++ Line b :: post)
      = (ra ++ map (shift_rec 1) rb, option_map (fun x => x + 1)%Z e, stb') /\
    Rel stb stb'.
Proof. exact other_lines_inert. Qed.
Print Assumptions C02_other_lines_inert.

(** a unit line without a unit, or with an item that is not key=value, yields an
    error positioned at that line; a unit line never yields a result and never
    touches the configuration *)
Theorem C02_malformed_unit_is_positioned_error :
  forall is_space is_lower is_upper atoi parse_float fname n st line fs,
  classify is_space is_lower is_upper atoi parse_float line = LUnit fs ->
  (fs = [] \/ exists f, In f (tl fs) /\ parse_unit_field f = UFBad) ->
  let '(rs, st') := step is_space is_lower is_upper atoi parse_float fname n st line in
  (exists k, In (RErr fname n k) rs) /\
  Forall (fun r => match r with RRes _ => False | _ => True end) rs /\
  Forall (fun r => rec_file r = fname /\ rec_line r = n) rs /\
  rs_cfg st' = rs_cfg st.
Proof. exact malformed_unit_is_positioned_error. Qed.
Print Assumptions C02_malformed_unit_is_positioned_error.

(** the labels Files gives its inputs (pathCount / pathI maps) are the
    declarative rule: label=path keeps its label verbatim, a path named once
    (among the unlabelled arguments) is its own label, a path named several
    times gets path#0, path#1, ... in order *)
Theorem C02_labels_rule : forall allow_labels paths,
  files_inputs allow_labels paths = spec_inputs allow_labels paths.
Proof. exact labels_rule. Qed.
Print Assumptions C02_labels_rule.

(** ... the k-th unlabelled occurrence of a repeated path is numbered k-1 *)
Theorem C02_labels_distinct_for_equal_paths : forall ins before i rest,
  ins = before ++ i :: rest -> fi_labeled i = false -> occurrences ins (fi_path i) <> 1%N ->
  nth_error (spec_labels_from ins [] ins) (length before) =
  Some (mkFinput (fi_path i) (fi_path i ++ [x23] ++ dec (occurrences before (fi_path i))) false).
Proof. exact label_counter. Qed.
Print Assumptions C02_labels_distinct_for_equal_paths.

(** reading is total *)
Theorem C02_reader_total :
  forall is_space is_lower is_upper atoi parse_float st fname labels content,
  exists rs e st', read_file is_space is_lower is_upper atoi parse_float st fname labels content = (rs, e, st').
Proof. exact reader_total. Qed.
Print Assumptions C02_reader_total.

(** non-vacuity: a concrete input with set / delete / re-set, CRLF and a missing final newline *)
Example C02_example :
  let atoi (f : bytes) := if beq f (bs "1") then Some 1%Z else None in
  let pf (f : bytes) := @None b64 in
  let '(rs, e, _) := read_file go_is_space go_is_lower go_is_upper atoi pf rs_empty (bs "f")
                       [(bs ".file", bs "f")]
                       (hx "613a20310d0a623a20320a613a0a42656e63686d61726b5820312031206e732f6f700a42656e63686d61726b5920782031206e732f6f70") in
  e = None /\
  match rs with
  | [RRes r; RErr _ 5 EBadIters] =>
      r_line r = 4%Z /\ r_name r = bs "X" /\
      map (fun c => (c_key c, c_val c, c_file c)) (r_cfg r) = [(bs ".file", bs "f", false); (bs "b", bs "2", true)] /\
      map v_unit (r_vals r) = [bs "sec/op"]
  | _ => False
  end.
Proof. vm_compute. repeat split. Qed.

(** ** the standard input (AllowStdin): with no paths it is the only input and
    is labelled "-"; otherwise the label rule above applies to the paths, "-"
    among them *)
Theorem C02_labels_rule_stdin : forall allow_labels paths,
  files_inputs allow_labels (stdin_paths paths) = spec_inputs_stdin allow_labels paths.
Proof. exact labels_rule_stdin. Qed.
Print Assumptions C02_labels_rule_stdin.

Theorem C02_files_run_stdin_inputs : forall is_space is_lower is_upper atoi parse_float fs allow_labels paths stdin,
  files_run_stdin is_space is_lower is_upper atoi parse_float fs allow_labels paths stdin =
  files_loop is_space is_lower is_upper atoi parse_float (with_stdin stdin fs)
             (spec_inputs_stdin allow_labels paths) rs_empty.
Proof. exact files_run_stdin_inputs. Qed.
Print Assumptions C02_files_run_stdin_inputs.

(** the code before fix "count the implicit stdin input" (defect found in
    round 4): the only input was labelled "-#0" *)
Theorem C02_stdin_label_old_refuted :
  files_inputs_nopaths_old = [mkFinput dash (bs "-#0") false] /\
  spec_inputs_stdin true [] = [mkFinput dash (bs "-") false].
Proof. exact stdin_label_old_refuted. Qed.
Print Assumptions C02_stdin_label_old_refuted.

(** * The declarative specification (Model/ReaderSpec.v) and the repaired reader

    The theorems above relate the reader of Model/Reader.v (64 KiB line limit,
    model shared with C01/C14) to [linespec], which is built from the same
    line classifier.  Below: the grammar of lines and line kinds stated without
    the reader's scanners, the scanners proved sound and complete for it, the
    specification with the tool's labels kept apart from the file
    configuration ([linespec2 false], the judge's prop_ok), and the reader
    without the line limit (hooks/fix_c02_long_line.diff). *)

(** a text falls into lines in exactly one way (cut at LF, last piece without
    LF counts unless empty, one trailing CR dropped), and that is what the
    repaired reader's scanner delivers - whatever the length of a line *)
Theorem C02_lines : forall s ls, Lines s ls <-> split_nl s = ls.
Proof. exact Lines_iff. Qed.
Print Assumptions C02_lines.

(** on texts whose lines are under 64 KiB the scanner of Model/Reader.v delivers the same lines *)
Theorem C02_lines_short : forall s, lines_short s -> split_lines s = lines_nl s.
Proof. exact split_lines_short. Qed.
Print Assumptions C02_lines_short.

(** the key/value recogniser accepts exactly the lines  key ':' [blank+ value]
    (key: lower-case first rune, no white space, no upper case, ends at the
    first colon behind its first rune; value without leading blanks), with
    exactly that key and value.  [Hcolon]: ':' is neither white space nor an
    upper-case letter (true of unicode.IsSpace/IsUpper: [C02_hcolon_go]) *)
Theorem C02_kv_grammar : forall is_space is_lower is_upper,
  is_space 58%N = false /\ is_upper 58%N = false ->
  forall line k v, parse_kv is_space is_lower is_upper line = Some (k, v) <-> KVLine is_space is_lower is_upper line k v.
Proof. exact parse_kv_iff. Qed.
Print Assumptions C02_kv_grammar.

Example C02_hcolon_go : go_is_space 58%N = false /\ go_is_upper 58%N = false.
Proof. exact hcolon_go. Qed.

(** the line classifier decides the grammar of line kinds: a line is a
    benchmark line (with the outcome the grammar of benchmark lines gives), a
    unit line, a key/value line or an other line exactly as [LineKind] says,
    and [LineKind] gives every line exactly one kind *)
Theorem C02_line_kinds : forall is_space is_lower is_upper atoi parse_float,
  is_space 58%N = false /\ is_upper 58%N = false ->
  forall line c,
  classify is_space is_lower is_upper atoi parse_float line = c
  <-> LineKind is_space is_lower is_upper atoi parse_float line c.
Proof. exact classify_grammar. Qed.
Print Assumptions C02_line_kinds.

Theorem C02_line_kind_unique : forall is_space is_lower is_upper atoi parse_float,
  is_space 58%N = false /\ is_upper 58%N = false ->
  forall line c c',
  LineKind is_space is_lower is_upper atoi parse_float line c ->
  LineKind is_space is_lower is_upper atoi parse_float line c' -> c = c'.
Proof. exact line_kind_unique. Qed.
Print Assumptions C02_line_kind_unique.

(** what stands behind "Benchmark": the parser's outcome (skipped bare name,
    one of the five errors, or name / iterations / measurements) is the one the
    grammar [BenchLine] gives, and only that *)
Theorem C02_bench_grammar : forall is_space atoi parse_float rest o,
  parse_bench is_space atoi parse_float rest = o <-> BenchLine is_space atoi parse_float rest o.
Proof. exact parse_bench_iff. Qed.
Print Assumptions C02_bench_grammar.

(** fields: the successive splitField calls deliver the fields of [Tokens]
    (maximal runs of non-white runes), which every stretch of a line has in
    exactly one way *)
Theorem C02_fields_grammar : forall is_space l,
  exists fs, Tokens is_space l fs /\ fields is_space l = map flat fs /\
             forall fs', Tokens is_space l fs' -> fs' = fs.
Proof. exact fields_grammar. Qed.
Print Assumptions C02_fields_grammar.

(** measurements: pairs of a number and a unit; the error is the first thing wrong *)
Theorem C02_meas_grammar : forall is_space parse_float ms r,
  parse_vals is_space parse_float ms [] = r <-> Meas is_space parse_float ms r.
Proof. exact parse_vals_iff. Qed.
Print Assumptions C02_meas_grammar.

(** items of a unit line: key=value with a non-empty key ending at the first '=' *)
Theorem C02_unit_item_grammar : forall f k v, parse_unit_field f = UFKV k v <-> UnitItem f k v.
Proof. exact parse_unit_field_iff. Qed.
Print Assumptions C02_unit_item_grammar.

(** the specification with the labels apart is [linespec] on every input none
    of whose key/value lines names a label of the tool, and IS [linespec]
    when the recorded deviation is allowed (known_ok) *)
Theorem C02_spec_labels_apart : forall is_space is_lower is_upper atoi parse_float ls um fname labels,
  no_label_collision is_space is_lower is_upper atoi parse_float labels ls ->
  linespec2_on is_space is_lower is_upper atoi parse_float false ls um fname labels
  = spec_lines is_space is_lower is_upper atoi parse_float (file_name fname) 0 (cm_labels labels) um ls.
Proof. exact linespec2_strict. Qed.
Print Assumptions C02_spec_labels_apart.

Theorem C02_spec_relaxed : forall is_space is_lower is_upper atoi parse_float ls um fname labels,
  linespec2_on is_space is_lower is_upper atoi parse_float true ls um fname labels
  = spec_lines is_space is_lower is_upper atoi parse_float (file_name fname) 0 (cm_labels labels) um ls.
Proof. exact linespec2_relax. Qed.
Print Assumptions C02_spec_relaxed.

(** the repaired reader (no line limit), from ANY earlier state, delivers
    record for record what the property prescribes - every label of the tool
    on every result - on every input none of whose key/value lines names a
    tool label; and never fails on a line *)
Theorem C02_reader_nl_refines_spec :
  forall is_space is_lower is_upper atoi parse_float st fname labels content rs e st',
  no_label_collision is_space is_lower is_upper atoi parse_float labels (lines_nl content) ->
  read_file_nl is_space is_lower is_upper atoi parse_float st fname labels content = (rs, e, st') ->
  exists rs2,
    linespec2 is_space is_lower is_upper atoi parse_float false (rs_units st) fname labels content
      = (rs2, e, rs_units st') /\
    Forall2 rec_equiv rs rs2.
Proof. exact reader_nl_refines_spec. Qed.
Print Assumptions C02_reader_nl_refines_spec.

(** ... and on EVERY input what the property prescribes with the recorded deviation allowed *)
Theorem C02_reader_nl_refines_relaxed :
  forall is_space is_lower is_upper atoi parse_float st fname labels content rs e st',
  read_file_nl is_space is_lower is_upper atoi parse_float st fname labels content = (rs, e, st') ->
  exists rs2,
    linespec2 is_space is_lower is_upper atoi parse_float true (rs_units st) fname labels content
      = (rs2, e, rs_units st') /\
    Forall2 rec_equiv rs rs2.
Proof. exact reader_nl_refines_relaxed. Qed.
Print Assumptions C02_reader_nl_refines_relaxed.

Theorem C02_reader_nl_no_io_error :
  forall is_space is_lower is_upper atoi parse_float st fname labels content rs e st',
  read_file_nl is_space is_lower is_upper atoi parse_float st fname labels content = (rs, e, st') -> e = None.
Proof. exact reader_nl_no_io_error. Qed.
Print Assumptions C02_reader_nl_no_io_error.

Theorem C02_reader_take_nl_refines_spec :
  forall is_space is_lower is_upper atoi parse_float k st fname labels content rs e st',
  no_label_collision is_space is_lower is_upper atoi parse_float labels (lines_nl content) ->
  read_file_take_nl is_space is_lower is_upper atoi parse_float k st fname labels content = (rs, e, st') ->
  exists rs2,
    linespec_take2 is_space is_lower is_upper atoi parse_float false k (rs_units st) fname labels content
      = (rs2, e, rs_units st') /\
    Forall2 rec_equiv rs rs2.
Proof. exact reader_take_nl_refines_spec. Qed.
Print Assumptions C02_reader_take_nl_refines_spec.

(** the repaired reader is the reader of Model/Reader.v on texts with short lines *)
Theorem C02_reader_nl_short :
  forall is_space is_lower is_upper atoi parse_float st fname labels content,
  split_lines content = lines_nl content ->
  read_file_nl is_space is_lower is_upper atoi parse_float st fname labels content
  = read_file is_space is_lower is_upper atoi parse_float st fname labels content.
Proof. exact read_file_nl_short. Qed.
Print Assumptions C02_reader_nl_short.

(** a sequence of files (label ".file", which no key/value line can spell
    since '.' is not a lower-case letter): each file read on its own from its
    bare label, only the unit table threaded through - on EVERY input *)
Theorem C02_files_nl_no_leak :
  forall is_space is_lower is_upper atoi parse_float, is_lower 46%N = false ->
  forall fs ins st rs e st',
  files_loop_nl is_space is_lower is_upper atoi parse_float fs ins st = (rs, e, st') ->
  exists rs2,
    files_spec_loop2 is_space is_lower is_upper atoi parse_float false fs ins (rs_units st)
      = (rs2, e, rs_units st') /\
    Forall2 rec_equiv rs rs2.
Proof. exact files_nl_no_leak'. Qed.
Print Assumptions C02_files_nl_no_leak.

Example C02_hdot_go : go_is_lower 46%N = false.
Proof. exact hdot_go. Qed.

(** "duplicates disambiguated": under the label rule, inputs naming the same
    path without a label of their own carry pairwise different labels *)
Theorem C02_labels_dups_distinct : forall allow_labels paths,
  dups_distinct (spec_inputs allow_labels paths) = true.
Proof. exact labels_dups_distinct. Qed.
Print Assumptions C02_labels_dups_distinct.

(** known finding C02_file_line_overrides_tool_label, on the model of the code:
    with the label goos=L supplied by the tool, the line "goos:" deletes it
    and "goos: x" replaces it by file configuration; the property keeps it *)
Theorem C02_label_deleted_by_file_line_refuted :
  let atoi (f : bytes) := if beq f (bs "1") then Some 1%Z else None in
  let pf (f : bytes) := @None b64 in
  let cfgs (x : list record * option Z * rstate) :=
    match x with ([RRes r], None, _) => Some (map (fun c => (c_key c, c_val c, c_file c)) (r_cfg r)) | _ => None end in
  let specs (x : list record * option Z * list umetap) :=
    match x with ([RRes r], None, _) => Some (map (fun c => (c_key c, c_val c, c_file c)) (r_cfg r)) | _ => None end in
  let lab := [(bs "goos", bs "L")] in
  cfgs (read_file_nl go_is_space go_is_lower go_is_upper atoi pf rs_empty (bs "f") lab (label_witness (bs "goos:"))) = Some [] /\
  cfgs (read_file_nl go_is_space go_is_lower go_is_upper atoi pf rs_empty (bs "f") lab (label_witness (bs "goos: x")))
    = Some [(bs "goos", bs "x", true)] /\
  specs (linespec2 go_is_space go_is_lower go_is_upper atoi pf false [] (bs "f") lab (label_witness (bs "goos:")))
    = Some [(bs "goos", bs "L", false)] /\
  specs (linespec2 go_is_space go_is_lower go_is_upper atoi pf false [] (bs "f") lab (label_witness (bs "goos: x")))
    = Some [(bs "goos", bs "L", false); (bs "goos", bs "x", true)].
Proof. exact label_deleted_by_file_line_refuted. Qed.
Print Assumptions C02_label_deleted_by_file_line_refuted.
