(** C01 — Benchmark records survive a write/read round trip.
    Statements only; proofs are in Proofs/WriterMap.v, Proofs/WriterLines.v, Proofs/Writer.v
    (on top of the reader theorems of C02).

    Quantified library behaviour: [is_space is_lower is_upper] (unicode classes;
    the only fact used is [colon_ok]: ':' is neither white space nor upper
    case), [atoi] / [parse_float] (bytesconv, property C03) and [fmt_g] (fmt's
    %v of a float64).  What is assumed of them is part of [WFres]
    ([bench_ok]): the printed iteration count and every printed measurement
    are single fields that the number parsers read back exactly.  [is_space 10 = true]
    (LF is white space) is used to derive that keys contain no LF. *)
From Perf Require Import Base.Bytes Base.B64 Base.Utf8 Base.Unicode
  Model.Name Model.Extract Model.Units Model.Reader Model.Files Model.Writer
  Proofs.ReaderSlots Proofs.Reader Proofs.WriterMap Proofs.WriterLines Proofs.WriterClean Proofs.Writer.
Local Open Scope N_scope.

Definition colon_ok (is_space is_upper : N -> bool) : Prop := is_space 58 = false /\ is_upper 58 = false.

(** the writer's running belief (fileConfig/order): whatever it believed
    before (distinct keys) and whatever the reader of its output held
    accordingly ([Inv]: exactly the file part of the belief), after the
    configuration lines of one writeResult the belief IS the result's
    configuration and the reader again holds exactly its file part.  Covers the
    change test, the walk with deletions, the new-key loop and its length guard. *)
Theorem C01_writer_belief_invariant : forall w R m,
  NoDup (keys (w_have w)) -> NoDup (keys R) -> file_vals_ok R -> Inv m (w_have w) ->
  NoDup (keys (snd (cfg_part w R))) /\
  (forall k, vlook (snd (cfg_part w R)) k = vlook R k) /\
  Inv (apply_ops m (fst (cfg_part w R))) (snd (cfg_part w R)).
Proof. exact cfg_part_ok. Qed.
Print Assumptions C01_writer_belief_invariant.

(** [WFhist seen recs]: a stream of results and unit-metadata records the format
    can carry.  Per result ([WFres]): distinct keys; every key recognised by
    parseKeyValueLine; file values non-empty, not starting with a blank, no LF,
    not ending in CR; name without white space; >= 1 measurement; the printed
    iteration count and measurements are single fields that atoi / atof read
    back exactly; each line it can cause stays under the scanner's 64 KiB limit
    (size clauses on the key, key+value and benchmark line).  Per metadata
    record ([WFunit]): unit = Tidy of the written unit, written unit and
    key=value are fields, key non-empty without '='; its (unit, key) is new
    with respect to [seen] and to the earlier records of the stream.
    All conditions are on the records, none on the output. *)

(** every such stream (hence every history of configuration additions, changes,
    deletions, re-additions and file<->internal flips between consecutive
    results), written by the writer and read back by the reader from ANY earlier
    reader state whose unit table has the keys [seen]: the same results and
    unit metadata in order - name, iteration count, measurements as written,
    exactly the file configuration as a map; metadata records equal. *)
Theorem C01_roundtrip_history :
  forall is_space is_lower is_upper atoi parse_float fmt_g,
  colon_ok is_space is_upper -> is_space 10 = true ->
  forall (recs : list record) (st : rstate) (fname : bytes),
  WFhist is_space is_lower is_upper atoi parse_float fmt_g (ukeys (rs_units st)) recs ->
  exists out st',
    read_file is_space is_lower is_upper atoi parse_float st fname [] (emit fmt_g recs) = (out, None, st') /\
    Forall2 rt_equiv out recs.
Proof. exact roundtrip_history. Qed.
Print Assumptions C01_roundtrip_history.

(** internal configuration is never read back as file configuration *)
Theorem C01_internal_never_reappears :
  forall is_space is_lower is_upper atoi parse_float fmt_g,
  colon_ok is_space is_upper -> is_space 10 = true ->
  forall (recs : list record) (st : rstate) (fname : bytes),
  WFhist is_space is_lower is_upper atoi parse_float fmt_g (ukeys (rs_units st)) recs ->
  exists out st',
    read_file is_space is_lower is_upper atoi parse_float st fname [] (emit fmt_g recs) = (out, None, st') /\
    Forall2 (fun o w => match o, w with
                        | RRes r', RRes r => forall c, In c (r_cfg r) -> c_file c = false ->
                                                       cfg_lookup (r_cfg r') (c_key c) = None
                        | RUnit _, RUnit _ => True
                        | _, _ => False end) out recs.
Proof. exact internal_never_reappears. Qed.
Print Assumptions C01_internal_never_reappears.

(** the lines written for a well-formed stream contain no LF, do not end in CR
    and are short: derived from the records *)
Theorem C01_written_lines_clean :
  forall is_space is_lower is_upper atoi parse_float fmt_g,
  colon_ok is_space is_upper -> is_space 10 = true ->
  forall recs seen w,
  WFhist is_space is_lower is_upper atoi parse_float fmt_g seen recs ->
  keys_ok is_space is_lower is_upper (w_have w) ->
  Forall line_clean (map (render fmt_g) (fst (write_all w recs))).
Proof. exact written_lines_clean. Qed.
Print Assumptions C01_written_lines_clean.

(** the writer's bytes split back into exactly the lines it wrote *)
Theorem C01_split_join_lines : forall ls, Forall line_clean ls -> split_lines (join_lines ls) = map Line ls.
Proof. exact split_join_lines. Qed.
Print Assumptions C01_split_join_lines.

(** ** concrete oracles for the examples *)
Definition ex_atoi (f : bytes) : option Z := if beq f (bs "1") then Some 1%Z else None.
Definition ex_pf (f : bytes) : option b64 := None.
Definition ex_fmt (x : b64) : bytes := bs "1".
Definition ex_val : value := mkValue (b64_of_bits 0x3E112E0BE826D695) (bs "sec/op") b64_one (bs "ns/op").
Definition ex_res (cfgs : list cfg) : result := mkResult cfgs (bs "X") 1 [ex_val] [] 0.

Example C01_colon_ok : colon_ok go_is_space go_is_upper.
Proof. split; reflexivity. Qed.

Definition ex_unit : umetap := mkUmetap (mkUmeta (bs "sec/op") (bs "better") (bs "ns/op") (bs "lower")) [] 0.

(** non-vacuity: a file key, an internal key, a rescaled measurement, a unit-metadata record *)
Example C01_WFhist_example :
  WFhist go_is_space go_is_lower go_is_upper ex_atoi ex_pf ex_fmt []
    [RRes (ex_res [mkCfg (bs "goos") (bs "linux") true; mkCfg (bs "note") (bs "x") false]); RUnit ex_unit].
Proof.
  assert (Hs : forall l : bytes, (N.of_nat (length l) <? max_token) = true -> short l)
    by (intros l H; now apply N.ltb_lt).
  apply WFh_res; [|apply WFh_unit; [| |apply WFh_nil]].
  - split; [|split].
    + split; [|split].
      * repeat constructor; cbn; intuition discriminate.
      * constructor; [|constructor; [|constructor]];
          (split; [cbn; repeat split; try discriminate; vm_compute; reflexivity|apply Hs; reflexivity]).
      * constructor; [|constructor; [|constructor]]; cbn [c_file c_key c_val]; [intros _|discriminate].
        split; [cbn; split; discriminate|].
        split; [|apply Hs; reflexivity].
        split; [intros H; cbn in H; intuition discriminate|].
        apply (no_cr_end_app [] (bs "linux")); [discriminate|cbn; intuition discriminate].
    + split; [|split; [|split; [|split]]].
      * vm_compute. repeat constructor.
      * vm_compute. repeat constructor; try discriminate.
      * reflexivity.
      * repeat constructor.
      * discriminate.
    + apply Hs. reflexivity.
  - split.
    + split; [reflexivity|]. split; [split; [discriminate|vm_compute; repeat constructor]|].
      split; [discriminate|]. split; [cbn; intuition discriminate|].
      split; [discriminate|vm_compute; repeat constructor].
    + apply Hs. reflexivity.
  - cbn. tauto.
Qed.

(** the writer before commit 4949ccf: a written file key that turned internal
    printed nothing and so reappeared as file configuration on reading *)
Theorem C01_flip_refuted :
  exists r1 r2 c,
    In c (r_cfg r2) /\ c_file c = false /\
    let '(out, _, _) := read_file go_is_space go_is_lower go_is_upper ex_atoi ex_pf rs_empty (bs "f") []
                          (emit_old ex_fmt [r1; r2]) in
    match out with
    | [_; RRes r'] => cfg_lookup (r_cfg r') (c_key c) <> None
    | _ => False
    end.
Proof.
  exists (ex_res [mkCfg (bs "k") (bs "v") true]), (ex_res [mkCfg (bs "k") (bs "v") false]), (mkCfg (bs "k") (bs "v") false).
  split; [now left|]. split; [reflexivity|]. vm_compute. discriminate.
Qed.
Print Assumptions C01_flip_refuted.

(** the expressiveness limit of the format (known finding C01_value_ends_with_CR):
    a file value ending in CR comes back without it *)
Theorem C01_cr_refuted :
  exists r,
    let '(out, _, _) := read_file go_is_space go_is_lower go_is_upper ex_atoi ex_pf rs_empty (bs "f") []
                          (emit ex_fmt [RRes r]) in
    match out with
    | [RRes r'] => cfg_lookup (r_cfg r') (bs "k") <> cfg_lookup (r_cfg r) (bs "k")
    | _ => False
    end.
Proof. exists (ex_res [mkCfg (bs "k") (hx "760d") true]). vm_compute. discriminate. Qed.
Print Assumptions C01_cr_refuted.

(** a two-step history: file key flips to internal, another key is deleted *)
Example C01_example :
  emit ex_fmt [RRes (ex_res [mkCfg (bs "a") (bs "1") true; mkCfg (bs "b") (bs "2") true]);
               RRes (ex_res [mkCfg (bs "a") (bs "1") false])]
  = bs "a: 1" ++ [x0a] ++ bs "b: 2" ++ [x0a] ++ [x0a] ++ bs "BenchmarkX 1 1 ns/op" ++ [x0a] ++ [x0a]
    ++ bs "a:" ++ [x0a] ++ bs "b:" ++ [x0a] ++ [x0a] ++ bs "BenchmarkX 1 1 ns/op" ++ [x0a].
Proof. vm_compute. reflexivity. Qed.
